"""Driver `helpers`: att2idx / att2name / datadesc / parse_msm / parse_4076_201 against Model/Helpers.v, with the
direct searches for C18 (arrays agree with the flat attributes; None for other messages) and C19 (every generated name)."""
import random

import drvlib
import gen
import pinned
import vlib


def ser_idx(r):
    if isinstance(r, tuple):
        return b"\x01" + vlib.ser_n(2, len(r)) + b"".join(vlib.ser_Z(x) for x in r)
    return b"\x00" + vlib.ser_Z(r)


def obs_att(p, name):
    try:
        d = p.datadesc(name)
        dd = b"\x00" + vlib.ser_str(d)
    except Exception as e:  # noqa
        dd = bytes([vlib.exc_tag(e)])
        d = repr(e)
    i = p.att2idx(name)
    n = p.att2name(name)
    return ser_idx(i) + vlib.ser_str(n) + dd, {"att2idx": i, "att2name": n, "datadesc": d}


def ser_rows(rows, fl):
    return b"".join(vlib.ser_attrs(list(r.items()), fl) for r in rows)


def obs_arrays(p, payload, label):
    fl = []
    try:
        m = p.RTCMMessage(payload=payload, labelmsm=label)
    except Exception as e:  # noqa
        return bytes([vlib.exc_tag(e)]), fl, None, None, None
    out = b"\x00"
    try:
        r = p.parse_msm(m)
        if r is None:
            out += b"\x00\x00"
        else:
            meta, sats, cells = r
            out += b"\x00\x01" + vlib.ser_attrs(list(meta.items()), fl) + vlib.ser_n(2, len(sats)) + ser_rows(sats, fl) + vlib.ser_n(2, len(cells)) + ser_rows(cells, fl)
    except Exception as e:  # noqa
        r = e
        out += bytes([vlib.exc_tag(e)])
    try:
        h = p.parse_4076_201(m)
        if h is None:
            out += b"\x00\x00"
        else:
            out += b"\x00\x01" + vlib.ser_n(2, len(h))
            for lyr in h.values():
                items = list(lyr.items())
                out += vlib.ser_value(items[0][1], fl) + vlib.ser_n(2, len(items) - 1)
                for k, vs in items[1:]:
                    out += vlib.ser_str(k) + vlib.ser_n(2, len(vs)) + b"".join(vlib.ser_value(v, fl) for v in vs)
    except Exception as e:  # noqa
        h = e
        out += bytes([vlib.exc_tag(e)])
    return out, fl, m, r, h


def main():
    a = drvlib.args()
    p = vlib.import_impl()
    tabs = gen.Tabs()
    rng = random.Random(a.seed * 104729 + sum(map(ord, a.prop)))
    thorough = a.tier == "thorough"
    em = drvlib.Emitter(a.out, "helpers", tables=True)

    if a.prop == "C19":
        names = {}
        # every name the parser generates on a corpus covering all identities
        for ident in tabs.ALL:
            for r in range(3 if thorough else 1):
                b = gen.build(tabs, ident, rng, maxcount=3)
                if b is None:
                    # the reference encoder walks the implementation's tables: a layout it cannot lay out (a field that is not a defined
                    # data field, ...) would silently thin out the corpus -- report it instead
                    em.violation("C19: no payload can be laid out for identity %s from the library's own tables (a name of its layout is not a defined data field?): the names it generates cannot be described" % ident,
                                 {"name": ident}, {})
                    continue
                if len(b.payload) > 1023:
                    continue
                try:
                    m = p.RTCMMessage(payload=b.payload)
                except Exception:  # noqa
                    continue
                fieldkey = {f[0]: f[1] for f in b.fields}
                for k, _ in gen.public_attrs(m):
                    if k in ("NSat", "NSig", "NCell"):
                        continue
                    key = fieldkey.get(k)
                    if key is None:
                        key = k.split("_")[0] if k.split("_")[0] in ("PRN", "CELLPRN", "CELLSIG") else k
                    names.setdefault(k, key)
        # synthetic: three-digit and nested indices for every key used inside a group
        keys_in_groups = sorted({v for k, v in names.items() if k != v})
        for key in keys_in_groups:
            for idx in ([100], [123], [7, 12], [1, 100], [12, 3, 45]):
                names.setdefault(gen.name_of(key, idx), key)
        # CPython's int() digit limit (4300): att2idx answers 0 beyond it (model and code must agree on both sides of the limit)
        names["DF404_" + "1" * 4300] = "DF404"
        names["DF404_" + "1" * 4301] = "DF404"
        names["DF404_02_" + "7" * 4400] = "DF404"
        # the derived labels, pinned here (not read from the table under test): plain and indexed
        DERIVED = {"PRN": "Derived satellite PRN", "CELLPRN": "Derived satellite PRN", "CELLSIG": "Derived satellite Signal ID"}
        for key, want in DERIVED.items():
            for nm in (key, key + "_01", key + "_64", key + "_100"):
                em.direct_evaluations += 1
                try:
                    got = p.datadesc(nm)
                except Exception as e:  # noqa
                    got = repr(e)
                if got != want:
                    em.violation("C19: datadesc(%r) = %r, expected %r (derived label)" % (nm, got, want), {"name": nm}, {})
                if nm != key and (p.att2idx(nm), p.att2name(nm)) != (int(nm.split("_")[1]), key):
                    em.violation("C19: att2idx / att2name wrong for %r" % nm, {"name": nm}, {})
        for nm, key in sorted(names.items()):
            exp, readable = obs_att(p, nm)
            em.add("obs_att T (unpack %s)" % vlib.blob(nm.encode()), exp, [], "attribute name %s (data field %s)" % (nm[:60], key),
                   {"name": nm}, readable if len(nm) < 100 else {"note": "long name"},
                   explain=('(att2idx "%s"%%string, att2name "%s"%%string, datadesc T "%s"%%string)' % (nm, nm, nm)) if len(nm) < 100 else None,
                   spec=["att", nm])
            em.direct_evaluations += 1
            em.count("kind." + ("plain" if nm == key else "indexed%d" % (nm.count("_") - key.count("_"))))
            want_desc = tabs.DF[key][3] if key in tabs.DF else DERIVED.get(key, "<no such data field: %s>" % key)
            try:
                got = p.datadesc(nm)
            except Exception as e:  # noqa
                em.violation("C19: datadesc(%r) raised %r" % (nm, e), {"name": nm}, {"expected": want_desc})
                continue
            if got != want_desc:
                em.violation("C19: datadesc(%r) is not the description of %s" % (nm, key), {"name": nm}, {"got": got, "expected": want_desc})
            if nm != key:
                suffix = nm[len(key):]
                if any(len(x) > 4300 for x in suffix.split("_")[1:]):
                    continue        # beyond CPython's int() digit limit: not an index the parser can generate
                idxs = [int(x) for x in suffix.split("_")[1:]]
                want = idxs[0] if len(idxs) == 1 else tuple(idxs)
                if "_" not in key:
                    if p.att2idx(nm) != want:
                        em.violation("C19: att2idx(%r) = %r, expected %r" % (nm, p.att2idx(nm), want), {"name": nm}, {})
                    if p.att2name(nm) != key:
                        em.violation("C19: att2name(%r) = %r, expected %r" % (nm, p.att2name(nm), key), {"name": nm}, {})
        # the helpers are functions of the name alone: the same answers in any order of asking (direct only).  Orders: by field digits
        # (so that DF011_01 and IDF011_01 are neighbours), reversed, shuffled, and every name asked right after each name whose field
        # key followed by "_" occurs inside it (DF011_ in IDF011_01, PRN_ in CELLPRN_03, ...)
        import re as _re
        short = {nm: key for nm, key in names.items() if len(nm) < 64}
        def safe3(nm):
            try:
                return (p.datadesc(nm), p.att2idx(nm), p.att2name(nm))
            except Exception as e:  # noqa
                return (repr(e), None, None)
        base = {nm: safe3(nm) for nm in sorted(short)}
        wrong = {nm for nm in short if base[nm][0] != tabs.DF[short[nm]][3]}
        for nm in sorted(wrong)[:3]:
            em.violation("C19: datadesc(%r) = %r, expected the description of %s (asked in sorted order after the other names)" % (nm, base[nm][0], short[nm]),
                         {"name": nm, "order": "sorted", "asked_before": None}, {})

        def ask(order, what):
            for prev, nm in zip([None] + order[:-1], order):
                em.direct_evaluations += 1
                try:
                    got = (p.datadesc(nm), p.att2idx(nm), p.att2name(nm))
                except Exception as e:  # noqa
                    got = repr(e)
                if got != base[nm] and nm not in wrong:
                    em.violation("C19: the helpers answer differently for %r when asked %s (right after %r)" % (nm, what, prev),
                                 {"name": nm, "asked_before": prev, "order": what}, {"got": repr(got)[:200], "first_answer": repr(base[nm])[:200]})
                    return False
            return True
        digits = lambda nm: (_re.sub(r"\D", "", short[nm]), nm.split("_", 1)[1:] or [""], nm)   # noqa: E731
        order1 = sorted(short, key=digits)
        ok_ = ask(order1, "in order of field number") and ask(order1[::-1], "in reverse order of field number")
        for r in range(3 if thorough else 1):
            o_ = list(short)
            rng.shuffle(o_)
            ok_ = ok_ and ask(o_, "in a shuffled order")
        pairs = []
        keyset = sorted(set(short.values()))
        for nm in short:
            for k2 in keyset:
                if k2 != short[nm] and (k2 + "_") in nm:
                    src = [x for x in short if short[x] == k2 and x != k2][:2] or [k2]
                    for a_ in src:
                        pairs += [a_, nm]
        if ok_ and pairs:
            ask(pairs, "after a name of a field whose key is contained in it")
        em.count("order_passes", 5)
        em.count("confusable_pairs", len(pairs) // 2)
        em.samples = [{"name": n} for n in list(names)[:5]]
    else:  # C18
        msm = list(tabs.M)
        pays = []
        for ident in msm:
            for r in range(3 if thorough else 1):
                b = gen.build(tabs, ident, rng, maskmode=rng.choice([None, "full", "last", "empty", "reserved"] + gen.MSM_SHAPES), label=1)
                if b is None or len(b.payload) > 1023:
                    b = gen.build(tabs, ident, rng, mode="zeros", maskmode="last")
                if b is not None and len(b.payload) <= 1023:
                    pays.append((b.ident, b.payload))
        # the widest indices: exactly 64 satellites, exactly 64 cells, more than 64 cells, 63 (one below)
        for ident in rng.sample(msm, 8 if thorough else 4):
            for sh in (("shape", 64, 1, 64, 1), ("shape", 8, 8, 64, 1), ("shape", 63, 1, 63, 0), ("shape", 11, 6, 66, 1)):
                b = gen.build(tabs, ident, rng, maskmode=sh, label=1)
                if b is not None and len(b.payload) <= 1023:
                    pays.append((b.ident, b.payload))
                    em.count("msm.shape.%dx%dx%d" % sh[1:4])
        # messages larger than any frame can carry (constructor only): a thousand and more cells, four-digit indices
        for ident, sh in (("1071", ("shape", 64, 16, 1000, 1)), ("1077", ("shape", 64, 17, 1024, 1)), ("1121", ("shape", 64, 32, 2047, 1)))[: (3 if thorough else 2)]:
            b = gen.build(tabs, ident, rng, maskmode=sh, label=1, max_bits=400000)
            if b is not None:
                pays.append((b.ident, b.payload))
                em.count("msm.huge.%d-cells" % b.counts.get("NCell", 0))
        # helper state across calls: for every MSM type an EMPTY message (no satellites) first, then a populated one, then empty again
        seqs = []
        for ident in msm:
            e = gen.build(tabs, ident, rng, maskmode="empty")
            f = gen.build(tabs, ident, rng, maskmode="full", mode="zeros") if False else gen.build(tabs, ident, rng, maskmode=None)
            if e is not None and f is not None and len(f.payload) <= 1023:
                seqs += [(ident, e.payload), (ident, f.payload), (ident, e.payload), (ident, f.payload)]
        pays = seqs + pays
        for r in range(12 if thorough else 5):
            b = gen.build(tabs, "4076_201", rng, maxcount=rng.choice([1, 2, 3]))
            if b is not None and len(b.payload) <= 1023:
                pays.append((b.ident, b.payload))
        # a 4076_201 with > 99 coefficients per layer (three-digit indices), and the degree / order fields at and near their 4-bit
        # maximum (up to 153 cosine and 136 sine coefficients in one layer)
        for deg, ordr in ((13, 13), (15, 15), (15, 10), (15, 9), (14, 14), (15, 0)):
            b = gen.build(tabs, "4076_201", rng, force_counts={"IDF035": 0, "IDF037": deg, "IDF038": ordr})
            if b is not None and len(b.payload) <= 1023:
                pays.append((b.ident, b.payload))
                em.count("4076_201.degree%d" % deg)
        # every 12-bit message number that has no MSM layout (identities of 1 to 4 digits: "7", "11", "111", "1130", "4095" ...): both helpers
        # answer None for its stub / message (direct only)
        for mid in range(4096):
            if str(mid) in tabs.M or mid == 4076:
                continue
            pl = bytes([mid >> 4, (mid & 15) << 4]) + bytes(8)
            try:
                m_ = p.RTCMMessage(payload=pl)
            except Exception:  # noqa
                continue
            em.direct_evaluations += 1
            for fn_ in (p.parse_msm, p.parse_4076_201):
                try:
                    r_ = fn_(m_)
                except Exception as e:  # noqa
                    r_ = repr(e)
                if r_ is not None:
                    em.violation("C18: %s on message number %d (identity %r, not an implemented MSM type) returned / raised %s instead of None" % (fn_.__name__, mid, m_.identity, str(r_)[:80]),
                                 {"payload": pl.hex()}, {})
                    break
        em.count("sweep.non_msm_numbers", 4096)
        others = rng.sample([k for k in tabs.ALL if k not in tabs.M and k != "4076_201"], 30 if thorough else 12)
        for ident in others:
            b = gen.build(tabs, ident, rng, maxcount=2)
            if b is not None and len(b.payload) <= 1023:
                pays.append((ident, b.payload))
        # numbers merely reserved for MSM, and unknown numbers
        for mid in [1070, 1078, 1079, 1080, 1088, 1090, 1100, 1110, 1120, 1130, 1138, 1140, 1200, 1229, 1069, 1231, 4000]:
            pays.append((str(mid), bytes([mid >> 4, (mid & 15) << 4]) + bytes(rng.getrandbits(8) for _ in range(rng.randrange(0, 30)))))
        for ident, payload in pays:
            for label in ((1, 2) if ident in tabs.M else (1,)):
                exp, fl, m, r, h = obs_arrays(p, payload, label)
                bl = vlib.blob(payload)
                if len(payload) <= 1400 or (thorough and label == 1 and len(payload) < 2600):      # the model walks association lists: huge messages are mostly direct-only
                  em.add("obs_arrays T %s (unpack %s)" % (vlib.zlit(label), bl), exp, fl, "array helpers on a %s message" % ident,
                       {"payload": payload.hex(), "labelmsm": label}, {"parse_msm": repr(r)[:600], "parse_4076_201": repr(h)[:600]},
                       explain="match construct T (Some (unpack %s)) %s with Ok o => (parse_msm T o, parse_4076_201 T o) | _ => (Unmodelled \"construct\", Unmodelled \"construct\") end" % (bl, vlib.zlit(label)),
                       size=len(payload), spec=["arrays", payload.hex(), label])
                em.count("kind." + ("msm" if ident in tabs.M else "4076_201" if ident == "4076_201" else "other"))
                em.direct_evaluations += 1
                if m is None:
                    continue
                if isinstance(r, Exception) or isinstance(h, Exception):
                    em.violation("C18: array helper raised on a %s message: %r" % (ident, r if isinstance(r, Exception) else h), {"payload": payload.hex()}, {})
                    continue
                if ident in tabs.M:
                    if r is None:
                        em.violation("C18: parse_msm returned nothing for MSM message %s" % ident, {"payload": payload.hex()}, {})
                        continue
                    meta, sats, cells = r
                    ok = (len(sats) == m.NSat and len(cells) == m.NCell and meta["identity"] == ident and meta["station"] == m.DF003
                          and meta["epoch"] == getattr(m, pinned.EPOCH[ident[:3]]) and meta["sats"] == m.NSat and meta["cells"] == m.NCell
                          and meta["gnss"] == pinned.GNSS[ident[:3]])
                    # every satellite-group / cell-group attribute of the message appears in the arrays, and nothing else
                    pub = dict(gen.public_attrs(m))
                    for i, row in enumerate(sats):
                        want = {k.rsplit("_", 1)[0]: v for k, v in pub.items() if k.endswith("_%02d" % (i + 1)) and k.rsplit("_", 1)[0] in ("PRN", "DF397", "DF398", "DF399", "DF419", "ExtSatInfo")}
                        ok = ok and row == want
                    cellkeys = {k.rsplit("_", 1)[0] for k in pub if "_" in k} - {"PRN", "DF397", "DF398", "DF399", "DF419", "ExtSatInfo", "DF001"}
                    for i, row in enumerate(cells):
                        want = {k: pub["%s_%02d" % (k, i + 1)] for k in cellkeys if "%s_%02d" % (k, i + 1) in pub}
                        ok = ok and row == want
                    if not ok:
                        em.violation("C18: parse_msm disagrees with the flat attributes of %s" % ident, {"payload": payload.hex(), "labelmsm": label}, {})
                elif r is not None:
                    em.violation("C18: parse_msm returned data for non-MSM message %s" % ident, {"payload": payload.hex()}, {})
                if ident == "4076_201":
                    if h is None:
                        em.violation("C18: parse_4076_201 returned nothing", {"payload": payload.hex()}, {})
                        continue
                    pub = dict(gen.public_attrs(m))
                    ok = len(h) == m.IDF035 + 1
                    for lyr in range(m.IDF035 + 1):
                        N = pub["IDF037_%02d" % (lyr + 1)] + 1
                        M = pub["IDF038_%02d" % (lyr + 1)] + 1
                        nc = (N + 1) * (N + 2) // 2 - (N - M) * (N - M + 1) // 2
                        ns = max(nc - (N + 1), 0)
                        cs = [pub["IDF039_%02d_%02d" % (lyr + 1, i + 1)] for i in range(nc)]
                        sn = [pub["IDF040_%02d_%02d" % (lyr + 1, i + 1)] for i in range(ns)]
                        ok = ok and h[lyr]["Layer Height"] == pub["IDF036_%02d" % (lyr + 1)] and h[lyr]["Cosine Coefficients"] == cs and h[lyr]["Sine Coefficients"] == sn
                    if not ok:
                        em.violation("C18: parse_4076_201 disagrees with the flat attributes", {"payload": payload.hex()}, {})
                elif h is not None:
                    em.violation("C18: parse_4076_201 returned data for %s" % ident, {"payload": payload.hex()}, {})
        em.samples = [{"identity": i, "payload": q.hex()[:80]} for i, q in pays[:3]]
    em.finish()


if __name__ == "__main__":
    main()
