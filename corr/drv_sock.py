"""Driver `sock`: SocketWrapper.read / readline / dechunk over a fake socket against Model/Socket.v,
with the direct searches for C11 (segmentation independence of plain reads) and C12 (chunked transfer decoding)."""
import itertools
import random
import zlib
from zlib import MAX_WBITS

import drvlib
import vlib


class FakeSock:
    """what a connected stream socket does, as far as the wrapper can tell: recv(bufsize) hands out AT MOST bufsize bytes of what has
    arrived (the rest stays queued), recv(0) returns b"" at once, a negative size is a ValueError; None in the event list = the call
    fails (TimeoutError / OSError alternately).  `log` records what each call returned: that is the event list the model is given."""

    def __init__(self, events):
        self.events = list(events)
        self.n = 0
        self.log = []

    def recv(self, bufsize, flags=0):
        if not isinstance(bufsize, int) or isinstance(bufsize, bool):
            raise TypeError("an integer is required")
        if bufsize < 0:
            raise ValueError("negative buffersize in recv")
        if bufsize == 0:
            self.log.append(b"")
            return b""
        if not self.events:
            return b""
        e = self.events.pop(0)
        self.n += 1
        if e is None:
            self.log.append(None)
            if self.n % 2:
                raise TimeoutError("timed out")
            raise OSError("reset")
        if len(e) > bufsize:
            self.events.insert(0, e[bufsize:])
            e = e[:bufsize]
        self.log.append(e)
        return e


LAST_LOG = [[]]       # what the recv() calls of the last run_ops returned, in order


def blist(bs):
    return "[" + ";".join("Some %s" % vlib.blob(b) if b is not None else "None" for b in bs) + "]"


def run_ops(p, events, ops, encoding=0, bufsize=4096):
    sk = FakeSock(events)
    LAST_LOG[0] = sk.log
    w = p.SocketWrapper(sk, encoding=encoding, bufsize=bufsize)
    outs = []
    for n in ops:
        outs.append(w.readline() if n < 0 else w.read(n))
    return outs, bytes(w.buffer)


def dz_oracle(enc, chunk):
    """per-chunk decompression as documented for the wrapper (zlib itself is outside the model)"""
    try:
        if enc & 2:
            chunk = zlib.decompress(chunk, wbits=MAX_WBITS | 16)
        if enc & 4:
            chunk = zlib.decompress(chunk, wbits=MAX_WBITS)
        if enc & 8:
            chunk = zlib.decompress(chunk, wbits=-MAX_WBITS)
    except zlib.error:
        pass
    return chunk


def comp(enc, data):
    if enc & 8:
        co = zlib.compressobj(wbits=-MAX_WBITS)
        data = co.compress(data) + co.flush()
    if enc & 4:
        co = zlib.compressobj(wbits=MAX_WBITS)
        data = co.compress(data) + co.flush()
    if enc & 2:
        co = zlib.compressobj(wbits=MAX_WBITS | 16)
        data = co.compress(data) + co.flush()
    return data


def add_case(em, p, chunked, enc, table, events, ops, desc, bufsize=4096):
    if getattr(em, "watchdog_hits", 0) >= 3:
        return None, None
    try:
        with vlib.watchdog(8):
            outs, buf = run_ops(p, events, ops, encoding=enc, bufsize=bufsize)
        exp = b"".join(vlib.ser_bytes(o) for o in outs) + vlib.ser_bytes(buf) + b"\x00"
        impl = {"outputs": [o.hex()[:200] for o in outs], "buffer": buf.hex()[:200]}
    except vlib.WatchdogTimeout as e:
        em.watchdog_hits = getattr(em, "watchdog_hits", 0) + 1
        em.violation("socket wrapper call did not finish (8 s watchdog)", {"recv_events": [x.hex() if x is not None else None for x in events], "ops": ops, "encoding": enc, "bufsize": bufsize}, repr(e))
        outs, buf = None, None
        exp = b"\x05"
        impl = {"exception": "watchdog"}
    except Exception as e:  # noqa
        outs, buf = None, None
        exp = b"\x05"
        impl = {"exception": repr(e)}
    tb = "[" + ";".join("(%s, %s)" % (vlib.blob(k), vlib.blob(v)) for k, v in table) + "]"
    em.add("obs_sock %s %s %s %s" % ("true" if chunked else "false", tb, blist(list(LAST_LOG[0])), "[" + ";".join(vlib.zlit(n) for n in ops) + "]"),
           exp, [], desc, {"recv_events": [e.hex() if e is not None else None for e in events], "ops": ops, "encoding": enc, "bufsize": bufsize}, impl,
           size=sum(len(e) for e in events if e) + sum(len(k) + len(v) for k, v in table),
           spec=["sock", [e.hex() if e is not None else None for e in events], list(ops), enc, bufsize])
    return outs, buf


def partitions(data, cuts):
    cuts = list(cuts)
    return [data[a:b] for a, b in zip([0] + cuts, cuts + [len(data)])]


def chunk_body(rng, chunks, enc, last=True, upper=False, leading_zero=False):
    s = b""
    table = []
    for c in chunks:
        d = comp(enc, c) if enc & 14 else c
        table.append((d, dz_oracle(enc, d)))
        h = ("%X" if upper else "%x") % len(d)
        if leading_zero:
            h = "0" + h
        s += h.encode() + b"\r\n" + d + b"\r\n"
    if last:
        s += b"0\r\n\r\n"
    return s, table


def main():
    a = drvlib.args()
    p = vlib.import_impl()
    rng = random.Random(a.seed * 32452843 + sum(map(ord, a.prop)))
    thorough = a.tier == "thorough"
    em = drvlib.Emitter(a.out, "sock", tables=False, shard_cases=60, shard_bytes=60000)

    if a.prop == "C11":
        for it in range(40 if thorough else 12):
            n = rng.choice([1, 2, 5, 17, 40, 120])
            data = bytes(rng.choice(b"ab\r\n\xd3$xyz\x00") if rng.random() < 0.5 else rng.getrandbits(8) for _ in range(n))
            if it % 4 == 1:      # a plain stream joined in the middle of a sentence: begins like a chunk-size line (hex digits, CRLF)
                data = (rng.choice([b"0E\r\n", b"a\r\n", b"1f4\r\n", b"0\r\n\r\n", b"7B\r\n$GP"]) + data)[:max(n, 6)]
                n = len(data)
                em.count("plain.starts-like-chunk-size-line")
            ops_sets = [[1] * (n + 3), [rng.choice([0, 1, 2, 3, 5, 8, 13, -1]) for _ in range(rng.randrange(1, 25))], [n], [n + 1, n, 1], [-1] * 6]
            parts = [[data], [data[i:i + 1] for i in range(n)]]
            if n <= 17:
                parts += [partitions(data, c) for c in itertools.combinations(range(1, n), 1)]
                if n <= 6 or thorough:
                    parts += [partitions(data, c) for c in itertools.combinations(range(1, n), 2)]
            for _ in range(6):
                k = rng.randrange(0, min(n, 8))
                parts.append(partitions(data, sorted(rng.sample(range(1, n), k))) if n > 1 else [data])
            for ops in ops_sets:
                base = None
                for segs in parts:
                    bs = rng.choice([1, 2, 3, 7, 512, 4096])
                    outs, buf = add_case(em, p, False, 0, [], segs, ops, "plain socket: %d bytes in %d segments, %d ops" % (n, len(segs), len(ops)), bufsize=bs)
                    em.direct_evaluations += 1
                    if outs is None:
                        em.violation("C11: socket wrapper raised", {"segments": [s.hex() for s in segs], "ops": ops}, {})
                        continue
                    # nothing lost / duplicated / reordered; never more than requested; fewer only as empty
                    if b"".join(outs) + buf != data[: len(b"".join(outs) + buf)] or any(len(o) > m for o, m in zip(outs, ops) if m >= 0) \
                            or any(len(o) not in (0, m) for o, m in zip(outs, ops) if m >= 0):
                        em.violation("C11: reads do not return the stream in order / sized as requested", {"segments": [s.hex() for s in segs], "ops": ops}, {"outs": [o.hex() for o in outs]})
                    if base is None:
                        base = outs
                    elif outs != base:
                        em.violation("C11: result depends on segmentation", {"segments": [s.hex() for s in segs], "ops": ops, "data": data.hex()}, {})
                # timeouts lose nothing
                evs = []
                for s in parts[-1]:
                    evs += [s] + ([None] if rng.random() < 0.5 else [])
                evs += [None, b""]
                drain = ops + [1] * (n + len(evs) + 2)      # keep reading: every timeout costs one empty read, nothing else
                outs, buf = add_case(em, p, False, 0, [], evs, drain, "plain socket with timeouts / OSError / close between segments, read until drained")
                em.direct_evaluations += 1
                if outs is not None and (b"".join(outs) + buf) != data:
                    em.violation("C11: data lost, duplicated or reordered around a timeout (reading on after the timeouts does not deliver the whole stream)",
                                 {"recv_events": [e.hex() if e is not None else None for e in evs], "ops": drain}, {"delivered": (b"".join(outs) + buf).hex(), "sent": data.hex()})
        # long streams: many buffers' worth of data, reads that straddle receive boundaries for a long time without ever
        # draining the buffer exactly (offset bookkeeping, lazy compaction, anything that depends on how much has gone by)
        for it in range(10 if thorough else 4):
            n = rng.choice([9000, 14800, 20011, 33000])
            data = bytes(rng.getrandbits(8) for _ in range(n))
            base = None
            for seg, bs, rd in [(4096, 4096, 25), (1000, 4096, 25), (4096, 4096, 4095), (777, 512, 100), (4097, 4096, 4096), (n, 4096, 13), (1500, 1000, 1023)]:
                segs = [data[i:i + seg] for i in range(0, n, seg)]
                ops = [rd] * (n // rd + 2)
                if it % 2:
                    ops = [rng.choice([1, 1, 1, rd, 3]) for _ in range(2 * n // rd + 20)]
                em.count("long.seg%d.bufsize%d.read%d" % (seg if seg != n else 0, bs, rd))
                if base is None:
                    outs, buf = add_case(em, p, False, 0, [], segs, ops, "plain socket: %d bytes in segments of %d, bufsize %d, reads of %d" % (n, seg, bs, rd), bufsize=bs)
                else:
                    try:
                        with vlib.watchdog(20):
                            outs, buf = run_ops(p, segs, ops, bufsize=bs)
                    except BaseException as e:  # noqa
                        em.violation("C11: socket wrapper raised or hung on a long stream: %r" % e, {"length": n, "segment": seg, "bufsize": bs, "read": rd, "data_seed": "see ops"}, {})
                        continue
                em.direct_evaluations += 1
                if outs is None:
                    continue
                got = b"".join(outs) + buf
                sizes_ok = all(len(o) in (0, m) for o, m in zip(outs, ops))
                if got != data[:len(got)] or not sizes_ok or (len(got) < n and sum(ops) >= n and outs[-1] != b""):
                    k = next((i for i in range(min(len(got), n)) if got[i] != data[i]), min(len(got), n))
                    em.violation("C11: a long stream is not delivered in order (first difference at offset %d of %d; segments of %d, bufsize %d, reads of %d)" % (k, n, seg, bs, rd),
                                 {"segments": [x.hex() for x in segs], "ops": ops, "bufsize": bs}, {"delivered_bytes": len(got)})
                # every read before the first empty one is full: the sequence of outputs is therefore independent of segmentation
                if ops == [rd] * (n // rd + 2):
                    if base is None:
                        base = (rd, outs)
                    elif base[0] == rd and outs != base[1]:
                        em.violation("C11: result depends on segmentation (long stream)", {"segments": [x.hex() for x in segs], "ops": ops, "bufsize": bs}, {})
        em.samples = [{"data_len": n, "segmentations": len(parts), "op_sets": len(ops_sets)}]
    else:  # C12
        bodies = []
        texts = [[b"hello", b"abc"], [b"\r\n\r\n", b"0\r\n", b"a" * 17], [b"x"], [], [b"5\r\nab", b"\n", b"\r"], [bytes(range(256))[:40], b"\xd3\x00\x13" + b"z" * 9]]
        for i, t in enumerate(texts):
            bodies.append((t, 1, True, i % 2 == 1, False))
        bodies.append(([b"hello", b"abc"], 1, False, False, False))
        bodies.append(([bytes(rng.getrandbits(8) for _ in range(150)), b"xy", bytes(rng.getrandbits(8) for _ in range(70))], 1, True, False, False))
        bodies.append(([b"hello world", b"zz"], 1, True, False, True))
        for enc in (3, 5, 9):
            bodies.append(([b"hello world hello world", b"zz"], enc, True, False, False))
        if thorough:
            for _ in range(6):
                t = [bytes(rng.choice(b"ab\r\n01f") for _ in range(rng.randrange(1, 30))) for _ in range(rng.randrange(1, 5))]
                bodies.append((t, rng.choice([1, 1, 3, 5, 9]), rng.random() < 0.7, rng.random() < 0.5, False))
        # chunk sizes around every change in the number of hex digits of the size line (1..5 digits), one body per boundary
        big = []
        for sz in ((15, 16, 255, 256, 4095, 4096, 65535, 65536, 70001) if thorough else (16, 256, 4096, 65536)):
            big.append(([b"ab", bytes(rng.getrandbits(8) for _ in range(sz)), b"tail"], 1, True, sz % 2 == 0, False))
        big.append(([bytes(rng.choice(b"abc") for _ in range(66000)), b"z"], 3, True, False, False))      # compressed size small, plain size large
        for chunks, enc, last, upper, lz in big:
            s, table = chunk_body(rng, chunks, enc, last, upper, lz)
            want = b"".join(chunks)
            n = len(s)
            h = len(("%x" % len(table[1][0])).encode()) + 2 + 7     # end of the big chunk's size line, relative to the start of the stream
            for cuts in [(), (8,), (h - 1,), (h,), (h + 1, n - 9), (3, h - 2, n // 2), tuple(range(4096, n, 4096))]:
                cuts = tuple(c for c in sorted(set(cuts)) if 0 < c < n)
                segs = partitions(s, cuts)
                for bs in (4096, 100000):
                    em.count("bigchunk.%d" % len(chunks[1] if len(chunks) > 2 else chunks[0]))
                    em.direct_evaluations += 1
                    if cuts in ((), (h,)) and bs == 4096:
                        outs, buf = add_case(em, p, True, enc, table, segs, [len(want), 1], "chunked body with a %d-byte chunk cut at %s" % (len(table[1][0] if len(table) > 2 else table[0][0]), list(cuts)[:4]), bufsize=bs)
                    else:
                        try:
                            with vlib.watchdog(20):
                                outs, buf = run_ops(p, segs, [len(want), 1], encoding=enc, bufsize=bs)
                        except BaseException as e:  # noqa
                            outs, buf = None, b""
                    got = None if outs is None else b"".join(outs) + buf
                    if got != want:
                        em.violation("C12: a body with a large chunk is not delivered as the concatenation of its chunks (%s of %d bytes delivered)" % ("nothing" if got is None else len(got), len(want)),
                                     {"segments": [x.hex() for x in segs], "encoding": enc, "bufsize": bs, "ops": [len(want), 1]}, {})
        for chunks, enc, last, upper, lz in bodies:
            s, table = chunk_body(rng, chunks, enc, last, upper, lz)
            want = b"".join(chunks)
            n = len(s)
            cutsets = [()] + [(c,) for c in range(1, n)]
            two = list(itertools.combinations(range(1, n), 2))
            three = list(itertools.combinations(range(1, n), 3)) if n < 40 else []
            cutsets += two if (thorough and n <= 70) else rng.sample(two, min(len(two), 150))
            cutsets += rng.sample(three, min(len(three), 400 if thorough else 60))
            cutsets.append(tuple(range(1, n)))
            em.count("bodies")
            for cuts in cutsets:
                segs = partitions(s, cuts)
                ops = [1] * (len(want) + 2) if len(cuts) % 3 == 0 else [len(want), 1]
                outs, buf = add_case(em, p, True, enc, table, segs, ops, "chunked body (%d chunks, encoding %d) cut at %s" % (len(chunks), enc, list(cuts)[:6]))
                em.direct_evaluations += 1
                em.count("cuts.%d" % min(len(cuts), 4))
                if outs is None:
                    em.violation("C12: chunked read raised", {"segments": [x.hex() for x in segs], "encoding": enc}, {})
                    continue
                got = b"".join(outs) + buf
                if got != want:
                    em.violation("C12: delivered bytes differ from the decoded chunk bodies", {"segments": [x.hex() for x in segs], "encoding": enc},
                                 {"delivered": got.hex(), "expected": want.hex()})
            # small receive buffers: every segment at most bufsize bytes, chunks may be (much) larger than the buffer
            for bs in (1, 2, 5, 16, 64):
                for rep in range(3 if thorough else 1):
                    segs = []
                    i = 0
                    while i < n:
                        j = min(n, i + (bs if rep == 0 else rng.randrange(1, bs + 1)))
                        segs.append(s[i:j])
                        i = j
                    if len(segs) > 700:
                        continue
                    ops = [len(want), 1] if rep == 0 else [1] * (len(want) + 2)
                    outs, buf = add_case(em, p, True, enc, table, segs, ops, "chunked body in segments of at most %d bytes, bufsize %d" % (bs, bs), bufsize=bs)
                    em.direct_evaluations += 1
                    em.count("bufsize.%d" % bs)
                    if outs is None or b"".join(outs) + buf != want:
                        em.violation("C12: delivered bytes differ from the decoded chunk bodies (bufsize %d)" % bs,
                                     {"segments": [x.hex() for x in segs], "encoding": enc, "bufsize": bs, "ops": ops}, {"expected": want.hex()})
            # the peer closes in the middle of the body (every prefix, then close): reads must finish and deliver a prefix of the plaintext
            for cut in range(0, n + 1, 1 if n < 60 else 5):
                segs = partitions(s[:cut], sorted(rng.sample(range(1, cut), min(cut - 1, 2))) if cut > 2 else [])
                segs = [x for x in segs if x] + [b""]
                outs, buf = add_case(em, p, True, enc, table, segs, [3, 1, 1, len(want) + 1], "chunked body cut at %d, then the peer closes" % cut)
                em.direct_evaluations += 1
                if outs is not None and not want.startswith(b"".join(outs) + buf):
                    em.violation("C12: bytes delivered from a truncated chunked stream are not a prefix of the decoded body", {"segments": [x.hex() for x in segs], "encoding": enc}, {})
            # dechunk() itself on every prefix
            w = p.SocketWrapper(FakeSock([]), encoding=enc)
            for cut in range(0, n + 1, 1 if n < 80 else 3):
                seg = s[:cut]
                try:
                    c, part = w.dechunk(seg)
                    exp = b"\x00" + vlib.ser_bytes(c) + vlib.ser_bytes(part)
                except Exception as e:  # noqa
                    exp = b"\x05"
                tb = "[" + ";".join("(%s, %s)" % (vlib.blob(k), vlib.blob(v)) for k, v in table) + "]"
                em.add("obs_dechunk %s (unpack %s)" % (tb, vlib.blob(seg)), exp, [], "dechunk of a %d-byte prefix" % cut, {"segment": seg.hex(), "encoding": enc}, {}, size=len(seg))
        em.samples = [{"body": chunk_body(rng, [b"hello", b"abc"], 1)[0].decode("latin-1"), "cuts": "every single cut, sampled/all double cuts, sampled triple cuts, byte-wise"}]
    em.finish()


if __name__ == "__main__":
    main()
