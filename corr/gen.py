"""Structure-aware input generators for the correspondence drivers and the independent
reference encoder (the property's own words: lay fields out in definition order).

The encoder reads pyrtcm's *tables* (layouts, data-field definitions) but shares no decoding logic with
the implementation: no offsets, no shifts on a payload integer, MSM labels from tools/pinned.py.
All random choices come from the random.Random instance passed in.
"""
import pinned

PRIVATE_FIXED = {"_immutable", "_payload", "_payloadi", "_payblen", "_labelmsm", "_unknown", "_satmap", "_cellmap"}


class Tabs:
    def __init__(self):
        from pyrtcm.rtcmtypes_core import RTCM_DATA_FIELDS, RTCM_MSGIDS
        from pyrtcm.rtcmtypes_get import RTCM_PAYLOADS_GET
        from pyrtcm.rtcmtypes_get_igs import RTCM_PAYLOADS_GET_IGS
        from pyrtcm.rtcmtypes_get_msm import RTCM_PAYLOADS_GET_MSM
        self.DF = RTCM_DATA_FIELDS
        self.G, self.M, self.I = RTCM_PAYLOADS_GET, RTCM_PAYLOADS_GET_MSM, RTCM_PAYLOADS_GET_IGS
        self.ALL = {**self.G, **self.M, **self.I}
        self.MSGIDS = RTCM_MSGIDS
        self.counters = {"IDF037", "IDF038"}
        self.conditions = set()
        for d in self.ALL.values():
            self._collect(d)

    def _collect(self, d):
        if not isinstance(d, dict):
            return
        for k, v in d.items():
            if isinstance(v, tuple) and len(v) == 2:
                c, body = v
                if isinstance(c, str):
                    self.counters.add(c.split("+")[0])
                if isinstance(c, tuple) and c and isinstance(c[0], str):
                    self.conditions.add(c[0])
                self._collect(body)


def popcount(x):
    return bin(x).count("1")


def name_of(k, idx):
    return k + "".join("_%02d" % i for i in idx)


def ident_header(ident):
    """(message number, subtype or None)"""
    if "_" in ident:
        a, b = ident.split("_")
        return int(a), int(b)
    return int(ident), None


class Built:
    def __init__(self):
        self.fields = []  # (name, key, type, width, bitoffset, raw)
        self.exp = []  # expected public attributes, ordered (name, value)
        self.nbits = 0
        self.payload = b""
        self.ident = None
        self.counts = {}


def rnd_value(rng, w, mode):
    if w == 0:
        return 0
    if mode == "zeros":
        return 0
    if mode == "ones":
        return (1 << w) - 1
    if mode == "signbit":
        return 1 << (w - 1)
    c = rng.random()
    if c < 0.10:
        return 0
    if c < 0.20:
        return (1 << w) - 1
    if c < 0.28:
        return 1 << (w - 1)
    if c < 0.33:
        return (1 << (w - 1)) - 1
    return rng.getrandbits(w)


# explicit MSM shapes: ("shape", NSat, NSig, NCell, last-slot-present): products beyond 64 cells (a cell mask wider than 64 bits),
# exactly 64 satellites / cells (the widest index), 63 (one below), single cells, the last satellite / cell slot in use
MSM_SHAPES = [("shape", 13, 5, 7, 0), ("shape", 11, 6, 66, 1), ("shape", 33, 2, 5, 1), ("shape", 40, 3, 9, 0), ("shape", 64, 1, 64, 1),
              ("shape", 8, 8, 64, 1), ("shape", 16, 4, 64, 1), ("shape", 32, 2, 64, 1), ("shape", 64, 32, 3, 1), ("shape", 63, 1, 63, 0),
              ("shape", 64, 1, 2, 1), ("shape", 1, 1, 1, 1), ("shape", 3, 32, 40, 1), ("shape", 9, 7, 63, 1), ("shape", 64, 2, 1, 0),
              ("shape", 2, 2, 0, 0), ("shape", 7, 9, 1, 1), ("shape", 65 // 5, 5, 65, 1)]
M61 = (1 << 61) - 1      # CPython hashes ints modulo this prime: masks that differ by it have equal hash()


def hash_colliding_mask_pairs(rng):
    """pairs of ('exact', DF394, DF395, DF396) mask triples that differ in ONE mask only, by exactly 2**61-1 (equal hash, equal popcount)"""
    sat8 = 0xA500000000810003 & ~((1 << 61) | 1)
    sat8 |= 1 << 40
    sig8 = 0x40010000 | 0x00300C03 | (1 << 27)
    out = []
    for _ in range(2):
        x = rng.getrandbits(64) & ~((1 << 61) | 1) & 0xFFFFFFFFFFFFFFFF
        x &= rng.getrandbits(64) | (1 << 63)
        nsat = bin(sat8).count("1")
        nsig = bin(sig8).count("1")
        if nsat * nsig >= 62:
            w = nsat * nsig
            xc = x & ((1 << w) - 1) & ~((1 << 61) | 1)
            xc &= (1 << 20) - 1 | (7 << (w - 3))          # a handful of cells only
            out.append((("exact", sat8, sig8, xc | (1 << 61)), ("exact", sat8, sig8, xc | 1)))
        xs = x & 0x00FF00000000FF00
        out.append((("exact", xs | (1 << 61), 0x40010000, (1 << 200) - 1), ("exact", xs | 1, 0x40010000, (1 << 200) - 1)))
    return out


MASK64 = [0, 1, 1 << 63, (1 << 63) | 1, 3 << 62, (1 << 64) - 1]
MASK32 = [0, 1, 1 << 31, (1 << 31) | (1 << 30), 6 << 28, 1 << 30, (1 << 32) - 1]


LAST_ERROR = [None]


def build(tabs, ident, rng, **kw):
    """robust wrapper: a layout the encoder cannot walk (malformed table) yields None, with the reason in LAST_ERROR"""
    try:
        return _build(tabs, ident, rng, **kw)
    except Exception as e:  # noqa
        LAST_ERROR[0] = "%s: %r" % (ident, e)
        return None


def _build(tabs, ident, rng, maxcount=3, mode="rand", maskmode=None, force_counts=None, pad="zero", max_bits=8184, label=1):
    """Encode one message of identity `ident`.  Returns Built or None if it would not fit max_bits.
    force_counts: dict counter-name -> value (applied when the counter field is generated)."""
    DF = tabs.DF
    layout = tabs.ALL[ident]
    b = Built()
    b.ident = ident
    env = {}
    bits = []  # (value, width)
    exp = []
    mid, sub = ident_header(ident)
    st = {"satids": [], "sigids": [], "sat": [], "cell": [], "label": label}
    pc = {}
    pcl = {}
    b.pathcounts = pc

    def setexp(n, v):
        for i, (nn, _) in enumerate(exp):
            if nn == n:
                exp[i] = (n, v)
                return
        exp.append((n, v))

    def put(nm, k, t, w, val):
        b.fields.append((nm, k, t, w, b.nbits, val))
        bits.append((val, w))
        b.nbits += w

    def walk(d, idx, path=()):
        for k, v in d.items():
            if b.nbits > max_bits:
                return
            if isinstance(v, tuple):
                c, body = v
                if isinstance(c, tuple):
                    if env[c[0]] == c[1]:
                        spath = path + ("?%s=%d" % (c[0], c[1]),)
                        pcl[(spath, k)] = pcl.get((spath, k), 0) + 1
                        walk(body, idx, spath)
                    continue
                if isinstance(c, int):
                    n = c
                    spath = path
                else:
                    spath = path + (c,)
                    if "+" in c:
                        kk, nl = c.split("+")
                        kk = name_of(kk, idx[:int(nl)])
                    else:
                        kk = c
                    n = env[kk]
                    if kk == "IDF035":
                        n += 1
                for i in range(n):
                    if spath != path:
                        pcl[(spath, k)] = pcl.get((spath, k), 0) + 1
                    walk(body, idx + [i + 1], spath)
                continue
            t, w, res, _ = DF[k]
            nm = name_of(k, idx)
            if t == "PRN":
                setexp(nm, st["sat"][idx[0] - 1])
                continue
            if t == "CPR":
                setexp(nm, st["cell"][idx[0] - 1][0])
                continue
            if t == "CSG":
                setexp(nm, st["cell"][idx[0] - 1][1])
                continue
            if k == "DF002" and not idx:
                val = mid
            elif k == "IDF002" and not idx and sub is not None:
                val = sub
            elif k == "DF396":
                w = env["NSat"] * env["NSig"]
                pc[path + ("#NSat", "#NSig")] = w
                if isinstance(maskmode, tuple) and maskmode[0] == "exact":
                    val = maskmode[3] & ((1 << w) - 1)
                elif isinstance(maskmode, tuple):
                    val = 0
                    for q in rng.sample(range(w), min(maskmode[3], w)):
                        val |= 1 << q
                    if maskmode[3] and w and len(maskmode) > 4 and maskmode[4]:
                        val |= 1            # the last cell (LSB) present
                elif maskmode == "full":
                    val = (1 << w) - 1
                elif maskmode == "empty":
                    val = 0
                elif maskmode == "last" and w:
                    val = 1
                else:
                    val = rnd_value(rng, w, mode if mode != "signbit" else "rand")
            elif k == "DF394":
                if isinstance(maskmode, tuple) and maskmode[0] == "exact":
                    val = maskmode[1]
                elif isinstance(maskmode, tuple):
                    val = 0
                    for q in rng.sample(range(64), min(maskmode[1], 64)):
                        val |= 1 << q
                    if len(maskmode) > 4 and maskmode[4] and maskmode[1]:
                        if popcount(val | 1) > maskmode[1]:
                            val &= val - 1     # drop one bit to keep the count
                        val |= 1               # satellite ID 64 (LSB) present
                elif maskmode in ("full",):
                    val = rng.choice([(1 << 64) - 1, rng.getrandbits(64) | rng.getrandbits(64)])
                elif maskmode == "empty":
                    val = 0
                elif maskmode == "last":
                    val = 1
                else:
                    val = rng.choice(MASK64[:5] + [rng.getrandbits(64) & rng.getrandbits(64) & rng.getrandbits(64),
                                                   rng.getrandbits(64) & rng.getrandbits(64) & rng.getrandbits(64) & rng.getrandbits(64)])
            elif k == "DF395":
                if isinstance(maskmode, tuple) and maskmode[0] == "exact":
                    val = maskmode[2]
                elif isinstance(maskmode, tuple):
                    val = 0
                    for q in rng.sample(range(32), min(maskmode[2], 32)):
                        val |= 1 << q
                elif maskmode == "full":
                    val = rng.choice([(1 << 32) - 1, rng.getrandbits(32) | rng.getrandbits(32)])
                elif maskmode == "empty":
                    val = 0
                elif maskmode == "last":
                    val = 1
                elif maskmode == "reserved":
                    val = rng.choice([1 << 31, 1 << 26, (1 << 31) | (1 << 30), 1 << 19])
                else:
                    val = rng.choice(MASK32[:6] + [rng.getrandbits(32) & rng.getrandbits(32) & rng.getrandbits(32)])
            else:
                val = rnd_value(rng, w, mode)
                if k in tabs.counters:
                    hi = min(maxcount, (1 << w) - 1)
                    val = rng.randrange(0, hi + 1)
                    if force_counts and k in force_counts:
                        val = min(force_counts[k], (1 << w) - 1)
                elif k in tabs.conditions and rng.random() < 0.5:
                    val = rng.randrange(0, min(4, 1 << w))
                if t == "STR" and val == 0:
                    val = 65
            put(nm, k, t, w, val)
            env[nm] = val
            if t in ("UINT", "BIT", "BITX"):
                ev = val
            elif t == "INT":
                ev = val - (1 << w) if val >> (w - 1) else val
            elif t == "SNT":
                ev = -(val & ((1 << (w - 1)) - 1)) if val >> (w - 1) else val
            elif t == "CHA":
                ev = chr(val)
            elif t == "STR":
                ev = None
            else:
                ev = val
            if t == "STR":
                setexp(k, dict(exp).get(k, "") + chr(val))
            else:
                if t != "CHA" and res not in (0, 1):
                    ev = ev * res
                setexp(nm, ev)
            if k == "DF394":
                env["NSat"] = popcount(val)
                setexp("NSat", popcount(val))
                st["satids"] = [i + 1 for i in range(64) if val >> (63 - i) & 1]
            if k == "DF395":
                env["NSig"] = popcount(val)
                setexp("NSig", popcount(val))
                st["sigids"] = [i + 1 for i in range(32) if val >> (31 - i) & 1]
            if k == "DF396":
                env["NCell"] = popcount(val)
                setexp("NCell", popcount(val))
                pm, sm = pinned.PRN[ident[:3]], pinned.SIG[ident[:3]]
                lab = st.get("label", 1)
                st["sat"] = [pm.get(s, pinned.NA) for s in st["satids"]]
                cells = [(s, g) for s in st["satids"] for g in st["sigids"]]
                st["cell"] = [(pm.get(s, pinned.NA), (sm[g][1] if lab != 2 else sm[g][0]) if g in sm else pinned.NA)
                              for j, (s, g) in enumerate(cells) if val >> (w - 1 - j) & 1]
            if k == "IDF038":
                N = env[name_of("IDF037", idx)] + 1
                Mm = val + 1
                nc = (N + 1) * (N + 2) // 2 - (N - Mm) * (N - Mm + 1) // 2
                env["_NHarmCoeffC"] = nc
                env["_NHarmCoeffS"] = nc - (N + 1)

    walk(layout, [])
    for (sp, _lbl), cnt in pcl.items():
        pc[sp] = max(pc.get(sp, 0), cnt)
    if b.nbits > max_bits:
        return None
    v = 0
    n = 0
    for val, w in bits:
        v = (v << w) | val
        n += w
    padn = (-n) % 8
    if pad == "zero" or padn == 0:
        v <<= padn
    else:
        v = (v << padn) | rng.getrandbits(padn)
    b.payload = v.to_bytes((n + padn) // 8, "big")
    vz = 0
    for val, w in bits:
        vz = (vz << w) | val
    b.payload_zero = (vz << padn).to_bytes((n + padn) // 8, "big")
    b.exp = exp
    b.counts = {k: env[k] for k in env if k.split("_")[0] in tabs.counters or k in ("NSat", "NSig", "NCell")}
    return b


def public_attrs(m):
    return [(k, v) for k, v in m.__dict__.items() if not k.startswith("_")]


# ------------------------------------------------------------------ framing helpers (independent CRC)
def crc24q_ref(data):
    """reference CRC-24Q: GF(2) long division of data*x^24 by 0x1864CFB, written on big integers"""
    n = int.from_bytes(data, "big") << 24
    g = 0x1864CFB
    for i in range(n.bit_length() - 1, 23, -1):
        if n >> i & 1:
            n ^= g << (i - 24)
    return n


def frame(payload):
    hdr = b"\xd3" + len(payload).to_bytes(2, "big")
    return hdr + payload + crc24q_ref(hdr + payload).to_bytes(3, "big")


POLY25 = 0x1864CFB


def crc_collide(fr, k):
    """another frame of the same length and with the SAME checksum bytes: fr xor (generator polynomial << k), k >= 24 so that the
    trailer is untouched; the change stays clear of the 3 header bytes and of the first two payload bytes (message number) when it fits"""
    n = int.from_bytes(fr, "big") ^ (POLY25 << k)
    return n.to_bytes(len(fr), "big")


def collide_variants(fr):
    """all same-checksum siblings of a frame that keep header and message number (empty for frames shorter than 12 bytes)"""
    nb = len(fr) * 8
    return [crc_collide(fr, k) for k in range(24, nb - 40 - 25 + 1)]


def nested_payloads(rng, inner_payload):
    """payloads that are themselves frames, or start like one: (what, payload)"""
    f1 = frame(inner_payload)
    out = [("payload is a complete frame", f1)]
    if len(f1) + 6 <= 1023:
        out.append(("payload is a frame of a frame", frame(f1)))
    out.append(("payload is a frame with a wrong checksum", f1[:-1] + bytes([f1[-1] ^ 1])))
    out.append(("payload is a frame followed by two more bytes", f1 + b"\r\n"))
    out.append(("payload starts with a UBX header", b"\xb5\x62" + bytes(rng.getrandbits(8) for _ in range(8))))
    out.append(("payload starts with an NMEA header", b"$GPGGA,1,2*00\r\n"))
    return [(w, pl) for w, pl in out if 2 <= len(pl) <= 1023]


def trailer_lookalike_payloads(base):
    """variants of `base` (last two payload bytes replaced) whose frame has a checksum that ends in CR LF, begins with the preamble D3,
    is all zero in its last byte, or ends in '$' / the UBX sync: a parser that tidies up / resynchronises on the trailer would lose them.
    Found by search over the 65536 replacements (deterministic)."""
    want = {"checksum ends in CR LF": lambda c: c[1:] == b"\r\n", "checksum begins with D3": lambda c: c[0] == 0xD3,
            "checksum ends in LF": lambda c: c[2] == 0x0A and c[1] != 0x0D, "checksum is B5 62 ..": lambda c: c[:2] == b"\xb5\x62"}
    out = {}
    n = len(base)
    hdr = b"\xd3" + n.to_bytes(2, "big")
    # CRC is linear: crc(x ^ d) = crc(x) ^ crc(d) for equal-length strings; the last two payload bytes contribute crc(0..0 b1 b2)
    c0 = crc24q_ref(hdr + base[:-2] + b"\x00\x00")
    table = {}
    for v in range(65536):
        cv = crc24q_ref(v.to_bytes(2, "big"))          # leading zero bytes do not change the register
        c = (c0 ^ cv).to_bytes(3, "big")
        for what, f in want.items():
            if what not in out and f(c):
                pl = base[:-2] + v.to_bytes(2, "big")
                if crc24q_ref(hdr + pl).to_bytes(3, "big") == c:
                    out[what] = pl
        if len(out) == len(want):
            break
    return sorted(out.items())


def prefix_frame_pairs(rng):
    """(long frame, bit positions to flip, short frame): flipping the given bits of the long frame's LENGTH field yields a byte string whose
    prefix is exactly the valid short frame.  A parser that trusts a damaged length field and re-checks the prefix accepts the damage."""
    out = []
    for n_short, n_long in ((14, 78), (14, 14 + 256), (5, 5 + 512), (30, 30 + 64 + 2), (2, 2 + 4), (3, 3 + 16)):
        ps = bytes([0x12, 0x30]) + bytes(rng.getrandbits(8) for _ in range(n_short - 2))
        short = frame(ps)
        filler = bytes(rng.getrandbits(8) for _ in range(n_long - n_short - 3))
        long_payload = ps + short[-3:] + filler
        assert len(long_payload) == n_long
        lf = frame(long_payload)
        diff = n_short ^ n_long
        bits = [8 + 15 - b for b in range(10) if diff >> b & 1]      # bit positions (MSB-first from frame start) inside bytes 1..2
        dam = bytearray(lf)
        for q in bits:
            dam[q // 8] ^= 0x80 >> (q % 8)
        assert bytes(dam[:len(short)]) == short
        out.append((lf, bits, short))
    return out


def bigcount_builds(tabs, rng, idents=None):
    """messages whose repeat counters are large: 99 / 100 / 101 (three-digit indices) and the largest value that still fits 1023 bytes"""
    out = []
    for ident in (idents or list(tabs.ALL)):
        keys = []

        def top(d):
            for k, v in d.items():
                if isinstance(v, tuple) and isinstance(v[0], str):
                    keys.append(v[0].split("+")[0])
        top(tabs.ALL[ident])
        for ck in dict.fromkeys(keys):
            if ck not in tabs.DF or ck in ("NSat", "NSig", "NCell"):
                continue
            w = tabs.DF[ck][1]
            cap = (1 << w) - 1
            if cap < 99:
                continue
            for want in (99, 100, 101, cap, cap // 2):
                if want > cap:
                    continue
                b = build(tabs, ident, rng, maxcount=0, force_counts={ck: want})
                if b is not None and len(b.payload) <= 1023:
                    out.append(b)
        if ident == "4076_201" and "IDF037" in tabs.DF and "IDF038" in tabs.DF:
            # harmonic layers of every shape: degree above / equal to / below the order, the 4-bit maxima (153 cosine coefficients:
            # three-digit indices), several layers with the same and with different shapes is left to the random builds
            for nl, deg, order in ((0, 2, 0), (1, 3, 1), (0, 9, 5), (0, 15, 0), (0, 15, 15), (0, 13, 13), (0, 14, 3), (0, 0, 2), (1, 1, 3), (0, 0, 15), (2, 4, 4)):
                b = build(tabs, ident, rng, maxcount=0, force_counts={"IDF035": nl, "IDF037": deg, "IDF038": order})
                if b is not None and len(b.payload) <= 1023:
                    out.append(b)
    return out


def nmea_sentence(rng, talker=b"GP"):
    body = talker + rng.choice([b"GGA", b"RMC", b"GSV"]) + b"," + bytes(rng.choice(b"0123456789,.ABCNSEW") for _ in range(rng.randrange(5, 40)))
    ck = 0
    for c in body:
        ck ^= c
    return b"$" + body + b"*%02X\r\n" % ck


def ubx_frame(rng, n=None, syncdense=False):
    n = rng.randrange(0, 40) if n is None else n
    if syncdense:
        pl = bytes(rng.choice(b"\xd3\xb5\x24\x62\x00\x0a\x0d") for _ in range(n))
    else:
        pl = bytes(rng.getrandbits(8) for _ in range(n))
    msg = bytes([rng.getrandbits(8), rng.getrandbits(8)]) + n.to_bytes(2, "little") + pl
    a = b_ = 0
    for c in msg:
        a = (a + c) & 255
        b_ = (b_ + a) & 255
    return b"\xb5\x62" + msg + bytes([a, b_])


def noise(rng, n, inert=True):
    if inert:
        return bytes(rng.choice([x for x in range(256) if x not in (0xD3, 0xB5, 0x24)]) for _ in range(n))
    return bytes(rng.choice(b"\xd3\xb5\x24\x62\x00\x0a\x0d\x47") for _ in range(n))
