"""Order-independence harness: re-evaluates, in a FRESH interpreter and in REVERSE order, the implementation calls behind
the cases a driver emitted, and reports the cases whose canonical observable differs from the one obtained first.
A pure function of the input cannot differ; a cache, memo or flag carried between calls can.
usage: evalspec.py specs.json   (prints JSON list of indices that differ)"""
import json
import sys


def evaluate(p, spec):
    k = spec[0]
    if k == "msg":
        import drv_msg
        impl = evaluate.impl = getattr(evaluate, "impl", None) or drv_msg.Impl()
        exp, fl, _, _ = impl.observe(bytes.fromhex(spec[1]), spec[2], spec[3])
        return exp.hex(), [f.hex() for f in fl]
    if k == "att":
        import drv_helpers
        exp, _ = drv_helpers.obs_att(p, spec[1])
        return exp.hex(), []
    if k == "arrays":
        import drv_helpers
        exp, fl, _, _, _ = drv_helpers.obs_arrays(p, bytes.fromhex(spec[1]), spec[2])
        return exp.hex(), [f.hex() for f in fl]
    if k == "crc":
        m = bytes.fromhex(spec[1])
        return "%x|%s|%s" % (p.calc_crc24q(m), p.crc2bytes(m).hex(), p.len2bytes(m).hex()), []
    if k == "reader_file":
        import drv_reader
        st = drv_reader.FStream(bytes.fromhex(spec[1]), [None if x < 0 else x for x in spec[2]])
        res, _ = drv_reader.run_reader(p, st, tuple(spec[3]), spec[4])
        return drv_reader.ser_results(res).hex() + "|%d" % st.pos, []
    if k == "sock":
        import drv_sock
        evs = [bytes.fromhex(e) if e is not None else None for e in spec[1]]
        try:
            outs, buf = drv_sock.run_ops(p, evs, spec[2], encoding=spec[3], bufsize=spec[4])
            return "|".join(o.hex() for o in outs) + "#" + buf.hex(), []
        except Exception as e:  # noqa
            return "EXC " + type(e).__name__, []
    raise ValueError(k)


def main():
    import vlib
    p = vlib.import_impl()
    specs = json.load(open(sys.argv[1]))
    if len(sys.argv) > 3 and sys.argv[2] == "--twice":
        # one recorded call, made three times as the first calls of this interpreter
        sp = specs[int(sys.argv[3])]
        rs = []
        for _ in range(3):
            try:
                rs.append(evaluate(p, sp))
            except Exception as e:  # noqa
                rs.append(("EVAL-ERROR " + repr(e)[:100], []))
        print(json.dumps(rs))
        return
    out = {}
    for i in reversed(range(len(specs))):
        if specs[i] is None:
            continue
        try:
            out[i] = evaluate(p, specs[i])
        except Exception as e:  # noqa
            out[i] = ("EVAL-ERROR " + repr(e)[:100], [])
    print(json.dumps({str(k): v for k, v in out.items()}))


if __name__ == "__main__":
    main()
