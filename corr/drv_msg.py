"""Driver `msg`: RTCMMessage(payload, labelmsm) against the Gallina mirror (Model/Message.v), one corpus + projection +
direct search per property (C03 C04 C06 C07 C09 C13 C14 C15 C16)."""
import random
import sys
import threading

import drvlib
import gen
import vlib

FULL, CLASS, IDENT, MSM = 0, 1, 2, 3


def is_msm_attr(k):
    return k in ("NSat", "NSig", "NCell") or k.startswith("PRN_") or k.startswith("CELLPRN_") or k.startswith("CELLSIG_")


class Impl:
    def __init__(self):
        vlib.import_impl()
        import pyrtcm
        self.p = pyrtcm
        self.RTCMMessage = pyrtcm.RTCMMessage
        self.RTCMReader = pyrtcm.RTCMReader

    def construct(self, payload, label=1):
        try:
            return 0, self.RTCMMessage(payload=payload, labelmsm=label)
        except Exception as e:  # noqa
            return vlib.exc_tag(e), e

    def parse_static(self, frame, validate=1, label=1):
        try:
            return 0, self.RTCMReader.parse(frame, validate=validate, labelmsm=label)
        except Exception as e:  # noqa
            return vlib.exc_tag(e), e

    def observe(self, payload, label, proj):
        """-> (expected bytes, floats, tag, readable summary)"""
        tag, m = self.construct(payload, label)
        return self.observe_result(tag, m, proj)

    def observe_result(self, tag, m, proj):
        if tag != 0:
            return bytes([tag]), [], tag, {"outcome": vlib.TAGNAME[tag], "exception": repr(m)[:200]}
        fl = []
        pub = gen.public_attrs(m)
        if proj == CLASS:
            body = b""
        elif proj == FULL:
            try:
                ser = b"\x00" + vlib.ser_bytes(m.serialize())
            except Exception as e:  # noqa
                ser = bytes([vlib.exc_tag(e)])
            body = vlib.ser_str(m.identity) + bytes([1 if m.ismsm else 0]) + vlib.ser_attrs(pub, fl) + ser + bytes([1 if m._unknown else 0])
        elif proj == IDENT:
            sel = [(k, v) for k, v in pub if k in ("DF002", "IDF002")]
            body = vlib.ser_str(m.identity) + bytes([1 if m.ismsm else 0]) + vlib.ser_attrs(sel, fl) + bytes([1 if m._unknown else 0])
        else:
            body = vlib.ser_attrs([(k, v) for k, v in pub if is_msm_attr(k)], fl)
        return b"\x00" + body, fl, 0, {"outcome": "Ok", "identity": m.identity, "attrs": [(k, v.hex() if isinstance(v, float) else v) for k, v in pub][:400]}


def add_case(em, impl, payload, label, proj, desc):
    exp, fl, tag, readable = impl.observe(payload, label, proj)
    lz = int(label) if not isinstance(label, bool) else 1
    bl = vlib.blob(payload)
    em.add("obs_msg T %d%%N %s (unpack %s)" % (proj, vlib.zlit(lz), bl), exp, fl, desc,
           {"payload": payload.hex(), "labelmsm": lz, "projection": proj}, readable,
           explain="match construct T (Some (unpack %s)) %s with Ok o => Ok (o_attrs o) | Lib e => Lib e | Foreign k => Foreign k | Unmodelled w => Unmodelled w end" % (bl, vlib.zlit(lz)),
           size=len(payload), spec=["msg", payload.hex(), label if not isinstance(label, bool) else 1, proj])
    em.count("outcome." + vlib.TAGNAME[tag])
    # the same bytes handed over as other bytes-like objects: same observable (a parse result depends on the bytes only)
    TYPE_TICK[0] += 1
    if TYPE_TICK[0] % 5 == 0:
        for nm, wrap in (("bytearray", bytearray), ("memoryview", lambda b: memoryview(bytearray(b)))):
            em.direct_evaluations += 1
            exp2, fl2, tag2, rd2 = impl.observe(wrap(payload), label, proj)
            if exp2 != exp or [x.hex() for x in fl2] != [x.hex() for x in fl]:
                em.violation("the result of constructing a message from a %s differs from the result for the same bytes" % nm,
                             {"payload": payload.hex(), "labelmsm": lz, "payload_type": nm}, {"bytes": readable.get("outcome"), nm: rd2.get("outcome"), "detail": str(rd2.get("exception", ""))[:200]})
                break
        em.count("payload_types_checked")
    return tag, readable


TYPE_TICK = [0]
COPY_TICK = [0]


def id_len(payload):
    if len(payload) >= 2 and (payload[0] << 4 | payload[1] >> 4) == 4076:
        return 3
    return 2


def corpus(tabs, rng, per_ident, modes=("rand",), maxcount=3, idents=None, label=1, maskmodes=(None,)):
    out = []
    for ident in (idents or list(tabs.ALL)):
        for r in range(per_ident):
            mode = modes[r % len(modes)]
            mm = maskmodes[r % len(maskmodes)]
            b = gen.build(tabs, ident, rng, maxcount=maxcount, mode=mode, maskmode=mm, pad=("zero" if r % 2 == 0 else "rand"), label=label)
            if b is None or len(b.payload) > 1023:
                b = gen.build(tabs, ident, rng, maxcount=1, mode=mode, maskmode="last", label=label)
            if b is not None and len(b.payload) <= 1023:
                out.append(b)
        if ident in BIGCOUNT_IDENTS and per_ident:
            bb = gen.bigcount_builds(tabs, rng, [ident])
            for b in (bb if per_ident > 1 else rng.sample(bb, min(len(bb), 4))):
                out.append(b)
        if ident in tabs.M:     # explicit MSM shapes, rotating so that every run covers all of them across the 49 MSM identities
            for _ in range(2):
                SHAPE_NEXT[0] += 1
                sh = gen.MSM_SHAPES[SHAPE_NEXT[0] % len(gen.MSM_SHAPES)]
                b = gen.build(tabs, ident, rng, maxcount=maxcount, mode=modes[SHAPE_NEXT[0] % len(modes)], maskmode=sh, label=label)
                if b is None or len(b.payload) > 1023:   # too many cells for this MSM level: same satellites / signals, fewer cells
                    b = gen.build(tabs, ident, rng, maxcount=maxcount, mode="rand", maskmode=sh[:3] + (min(sh[3], 6), sh[4]), label=label)
                if b is not None and len(b.payload) <= 1023:
                    out.append(b)
    return out


SHAPE_NEXT = [0]
BIGCOUNT_IDENTS = ("1007", "1008", "1029", "1033", "4076_201")


def check_expected(em, impl, b, label, what="C03"):
    """direct search: implementation's public attributes == the independent encoder's expectation"""
    em.direct_evaluations += 1
    tag, m = impl.construct(b.payload, label)
    if tag != 0:
        em.violation("%s: a well-formed %s payload is rejected (%s)" % (what, b.ident, vlib.TAGNAME[tag]),
                     {"payload": b.payload.hex(), "identity": b.ident, "labelmsm": label}, repr(m)[:300])
        return None
    got = gen.public_attrs(m)
    if got != b.exp:
        diff = [(g, e) for g, e in zip(got, b.exp) if g != e][:3]
        em.violation("%s: decoded attributes differ from the values the bits encode (%s)" % (what, b.ident),
                     {"payload": b.payload.hex(), "identity": b.ident, "labelmsm": label},
                     {"first_differences(impl,expected)": repr(diff), "n_impl": len(got), "n_expected": len(b.exp)})
    return m


def collide_check(em, impl, pays, rng, what, n=12):
    """valid frames that share message number, length AND checksum bytes with the frame parsed just before (built by xor-ing shifted
    copies of the generator polynomial): each must still be decoded from its own bytes (static parser, validation on, both labels)"""
    cand = [p for p in pays if 11 <= len(p) <= 600]
    for p in rng.sample(cand, min(n, len(cand))):
        fa = gen.frame(p)
        sibs = rng.sample(gen.collide_variants(fa), min(3, len(gen.collide_variants(fa))))
        seq = [fa]
        for sb in sibs:
            seq += [sb, fa]
        for lab in (1, 2):
            for fr in seq:
                em.direct_evaluations += 1
                own = impl.observe(fr[3:-3], lab, FULL)
                got = impl.observe_result(*impl.parse_static(fr, 1, lab), FULL)
                if got[0] != own[0] or [x.hex() for x in got[1]] != [x.hex() for x in own[1]]:
                    em.violation("%s: a valid frame parsed after another valid frame with the same number, length and checksum bytes is not decoded from its own bytes" % what,
                                 {"frame": fr.hex(), "parsed_just_before": seq[0].hex(), "labelmsm": lab, "sequence": [x.hex() for x in seq]}, {"got": got[3], "own": own[3]})
                    return
    em.count("crc_colliding_sequences")


# ---------------------------------------------------------------------------------------------- per-property corpora
def run_C03(em, impl, tabs, rng, thorough):
    per = 12 if thorough else 3
    blds = corpus(tabs, rng, per, modes=("rand", "ones", "zeros", "signbit", "rand", "rand"), maxcount=3)
    # maximal counts for a few identities
    for ident in rng.sample(list(tabs.ALL), 30 if thorough else 8):
        b = gen.build(tabs, ident, rng, maxcount=31, maskmode="full")
        if b is not None and len(b.payload) <= 1023:
            blds.append(b)
    # the largest payload a frame can carry: a message padded with trailing bytes to exactly 1023 / 1022 bytes, and counts chosen so that the
    # fields themselves fill (almost) all of it
    for b in list(blds[:: max(1, len(blds) // 6)]):
        for n_ in (1023, 1022):
            if len(b.payload) < n_:
                em.direct_evaluations += 1
                t2, m2 = impl.construct(b.payload + bytes(n_ - len(b.payload)), 1)
                t1, m1 = impl.construct(b.payload, 1)
                if t1 == 0 and (t2 != 0 or gen.public_attrs(m2) != gen.public_attrs(m1)):
                    em.violation("C03: a %s message padded with trailing bytes to %d bytes does not decode like the unpadded one" % (b.ident, n_),
                                 {"payload": (b.payload + bytes(n_ - len(b.payload))).hex()}, {"outcome": vlib.TAGNAME[t2]})
    for ident, fc in (("1033", {"DF029": 255, "DF032": 255, "DF227": 255, "DF229": 249, "DF231": 0}), ("1029", {"DF139": 255})):
        if ident in tabs.ALL:
            bb = gen.build(tabs, ident, rng, force_counts=fc)
            if bb is not None and len(bb.payload) <= 1023:
                blds.append(bb)
                em.count("maxfill.%s.%d" % (ident, len(bb.payload)))
    for b in blds:
        em.count("ident." + b.ident[:4])
        add_case(em, impl, b.payload, 1, FULL, "builder-made %s payload (%d bytes)" % (b.ident, len(b.payload)))
        m = check_expected(em, impl, b, 1)
        if m is None:
            continue
        base = gen.public_attrs(m)
        # the Coq spec encoder on the same raw field values: same payload bits, same attributes as the implementation decodes
        fl = []
        expb = b"\x00" + vlib.ser_bytes(b.payload_zero) + vlib.ser_n(2, 0) + vlib.ser_attrs(base, fl)
        vals = "[" + ";".join("%d%%N" % f[5] for f in b.fields) + "]"
        em.add("obs_encoder T 1%%Z (unpack %s) %s" % (vlib.blob(b.ident.encode()), vals), expb, fl,
               "spec encoder on the raw field values of a %s message" % b.ident,
               {"identity": b.ident, "raw_values": [f[5] for f in b.fields][:200], "payload": b.payload_zero.hex()}, {"attrs": "as decoded by the implementation"},
               size=len(b.payload))
        em.count("encoder_cases")
        # trailing bytes change nothing
        em.direct_evaluations += 1
        extra = bytes(rng.getrandbits(8) for _ in range(rng.randrange(1, 6)))
        if len(b.payload) + len(extra) <= 1200:
            t2, m2 = impl.construct(b.payload + extra, 1)
            if t2 != 0 or gen.public_attrs(m2) != base:
                em.violation("C03: trailing bytes change the decoded attributes (%s)" % b.ident,
                             {"payload": b.payload.hex(), "extra": extra.hex()}, {})
        # change one plain field -> only that attribute changes
        plain = [f for f in b.fields if f[1] not in tabs.counters and f[1] not in tabs.conditions and f[1] not in ("DF394", "DF395", "DF396", "DF002", "IDF002")
                 and f[2] != "STR" and f[3] > 0 and not (f[1] == "IDF001" and False)]
        for f in rng.sample(plain, min(len(plain), 2)):
            nm, k, t, w, off, raw = f
            bit = off + rng.randrange(w)
            pb = bytearray(b.payload)
            pb[bit // 8] ^= 0x80 >> (bit % 8)
            em.direct_evaluations += 1
            t3, m3 = impl.construct(bytes(pb), 1)
            if t3 != 0:
                em.violation("C03: flipping a plain field bit makes %s unparseable" % b.ident, {"payload": bytes(pb).hex(), "field": nm}, repr(m3)[:200])
                continue
            got = gen.public_attrs(m3)
            changed = [a[0] for a, c in zip(base, got) if a != c]
            # sign-magnitude "negative zero": flipping the sign bit of a zero magnitude legitimately changes nothing
            negzero = t == "SNT" and raw & ((1 << (w - 1)) - 1) == 0 and bit == off
            if [a[0] for a in base] != [a[0] for a in got] or (changed != [nm] and not (negzero and changed == [])):
                em.violation("C03: changing the bits of plain field %s changes %s" % (nm, changed[:4]),
                             {"payload": b.payload.hex(), "flipped_bit": bit, "identity": b.ident}, {})
    collide_check(em, impl, [b.payload for b in blds], rng, "C03", 20 if thorough else 10)
    em.samples = [{"identity": b.ident, "payload": b.payload.hex()[:120], "n_attrs": len(b.exp)} for b in blds[:3]]


def run_C04(em, impl, tabs, rng, thorough):
    seen = 0
    # exhaustive header sweep: all 4096 message numbers x lengths 0..4 ; 256 subtypes of 4076
    for mid in range(4096):
        hdr = bytes([mid >> 4, (mid & 15) << 4])
        for ln in (2, 3, 4) if (mid % 8 or not thorough) else (2, 3, 4, 8):
            p = (hdr + bytes(rng.getrandbits(8) for _ in range(ln)))[:ln] if ln > 2 else hdr
            seen += 1
            tag, _ = add_case(em, impl, p, 1, CLASS, "header sweep: message number %d, %d bytes" % (mid, len(p)))
            if tag == 5:
                em.violation("C04: foreign exception from the constructor", {"payload": p.hex()}, _)
    for p in (b"", b"\x00", b"\x3e", b"\xfe", b"\xff", b"\xfe\xc0", b"\xfe\xc1", b"\xfe\xcf"):
        tag, r = add_case(em, impl, p, 1, CLASS, "short payload %r" % p)
        if tag == 5:
            em.violation("C04: foreign exception from the constructor", {"payload": p.hex()}, r)
    for st in range(256):
        p = bytes([0xFE, 0xC0 | (st >> 7), (st & 127) << 1]) + bytes(rng.getrandbits(8) for _ in range(rng.choice([0, 1, 6, 20])))
        tag, r = add_case(em, impl, p, 1, CLASS, "4076 subtype %d" % st)
        if tag == 5:
            em.violation("C04: foreign exception from the constructor", {"payload": p.hex()}, r)
    # structured: random mutations and truncations of builder payloads; random bytes behind every known header
    blds = corpus(tabs, rng, 2 if thorough else 1, maxcount=3)
    for b in blds:
        p = b.payload
        muts = []
        for _ in range(6 if thorough else 2):
            q = bytearray(p)
            for _ in range(rng.randrange(1, 4)):
                i = rng.randrange(id_len(p), len(q)) if len(q) > id_len(p) else 0
                q[i] = rng.getrandbits(8)
            muts.append(bytes(q))
        muts.append(p[: rng.randrange(id_len(p), len(p) + 1)])
        muts.append(p[:id_len(p)] + bytes(rng.getrandbits(8) for _ in range(rng.randrange(0, 60))))
        muts.append(p[:id_len(p)] + b"\xff" * rng.randrange(0, 80))
        for q in muts:
            tag, r = add_case(em, impl, q, rng.choice([1, 2]), CLASS, "mutation of a %s payload" % b.ident)
            if tag == 5:
                em.violation("C04: foreign exception from the constructor", {"payload": q.hex()}, r)
    # static parser on arbitrary buffers (direct): only library exceptions
    from pyrtcm import RTCMReader
    for _ in range(4000 if thorough else 800):
        n = rng.choice([0, 1, 2, 3, 4, 5, 6, 7, 8, rng.randrange(0, 40)])
        buf = bytes(rng.getrandbits(8) for _ in range(n))
        if rng.random() < 0.5 and n >= 1:
            buf = b"\xd3" + buf[1:]
        for val in (0, 1):
            em.direct_evaluations += 1
            try:
                RTCMReader.parse(buf, validate=val)
            except Exception as e:  # noqa
                if vlib.exc_tag(e) == 5:
                    em.violation("C04: foreign exception %r from RTCMReader.parse" % e, {"buffer": buf.hex(), "validate": val}, repr(e))
    em.samples = [{"payload": "3ed0", "note": "header sweep entry"}, {"payload": blds[0].payload.hex()[:80]}]


def run_C06(em, impl, tabs, rng, thorough):
    blds = corpus(tabs, rng, 3 if thorough else 1, maxcount=2)
    n = 0
    for b in blds:
        p = b.payload
        used_bytes = (b.nbits + 7) // 8
        cuts = list(range(id_len(p), len(p)))
        if not thorough and len(cuts) > 24:
            cuts = sorted(set(cuts[:6] + cuts[-10:] + rng.sample(cuts, 8)))
        for cut in cuts:
            q = p[:cut]
            tag, r = add_case(em, impl, q, 1, CLASS, "%s payload of %d bytes (fields need %d bits) truncated to %d bytes" % (b.ident, len(p), b.nbits, cut))
            n += 1
            em.direct_evaluations += 1
            if cut * 8 < b.nbits and tag == 0:
                em.violation("C06: %s payload truncated to %d bytes (fields need %d bits) was accepted" % (b.ident, cut, b.nbits),
                             {"payload": q.hex(), "complete": p.hex()}, r)
            if tag == 5:
                em.violation("C06: truncated payload raised a foreign exception", {"payload": q.hex()}, r)
    em.samples = [{"identity": b.ident, "complete_payload": b.payload.hex()[:100], "needs_bits": b.nbits} for b in blds[:3]]


def run_C07(em, impl, tabs, rng, thorough):
    from pyrtcm import RTCMMessage, RTCMReader  # noqa: F401  (RTCMMessage is needed by eval(repr()))
    blds = corpus(tabs, rng, 4 if thorough else 2, maxcount=3)
    pays = [b.payload for b in blds]
    # unknown types and boundary sizes
    for n in (2, 3, 255, 256, 1022, 1023):
        pays.append(bytes([0x12, 0x30]) + bytes(rng.getrandbits(8) for _ in range(n - 2)))
    # payloads that are themselves frames or begin like foreign-protocol data (message number 3376 = 0xD30 etc.)
    for inner in (bytes([0x3e, 0xd0]) + bytes(rng.getrandbits(8) for _ in range(17)), pays[0][:400], bytes([0x12, 0x30])):
        for what, pl in gen.nested_payloads(rng, inner):
            pays.append(pl)
            em.count("nested." + what.replace(" ", "_"))
    # payloads beginning with zero bytes (message numbers 0..15) and consisting of zeros only: leading zeros are payload
    for pl in (b"\x00\x00", b"\x00\x10\xaa\xbb", b"\x00\x00\x00\x07", b"\x00\xf0" + bytes(9), bytes(40), b"\x00\x01" + bytes(rng.getrandbits(8) for _ in range(1021))):
        pays.append(pl)
    # frames whose checksum looks like something else (ends in CR LF, begins with the preamble, ...)
    for base in (pays[0], bytes([0x3e, 0xd0]) + bytes(rng.getrandbits(8) for _ in range(17)), bytes([0xfa, 0x10]) + bytes(rng.getrandbits(8) for _ in range(38))):
        if len(base) >= 4:
            for what, pl in gen.trailer_lookalike_payloads(base):
                if impl.construct(pl, 1)[0] == 0:
                    pays.append(pl)
                    em.count("trailer." + what.replace(" ", "_"))
    # payloads whose frame has the checksum 000000 (the last three payload bytes are the CRC of what precedes them): a helper that takes a
    # zero remainder for "already framed" / "nothing to add" would serialise them wrongly
    for base in [bytes([0xFE, 0x80]) + bytes(rng.getrandbits(8) for _ in range(n_)) for n_ in (2, 5, 17, 300)] + [q for q in pays if 8 <= len(q) <= 1023][:6]:
        hdrz = b"\xd3" + len(base).to_bytes(2, "big")
        plz = base[:-3] + gen.crc24q_ref(hdrz + base[:-3]).to_bytes(3, "big")
        if gen.crc24q_ref(hdrz + plz) == 0 and impl.construct(plz, 1)[0] == 0:
            pays.append(plz)
            em.count("checksum_000000")
    for p in pays:
        add_case(em, impl, p, 1, FULL, "serialize/parse of a %d-byte payload" % len(p))
        tag, m = impl.construct(p, 1)
        em.direct_evaluations += 1
        if tag != 0:
            continue
        f = m.serialize()
        want = b"\xd3" + len(p).to_bytes(2, "big") + p
        want += gen.crc24q_ref(want).to_bytes(3, "big")
        # asking again must give the same answers (serialize / repr / str / payload are observations, not operations)
        again = [m.serialize(), m.serialize()]
        if again != [f, f] or m.payload != p or repr(m) != repr(impl.construct(p, 1)[1]):
            em.violation("C07: serialize() called a second / third time on the same message gives a different frame (or payload / repr changed)",
                         {"payload": p.hex(), "note": "serialize() x3 on one object"}, {"first": f.hex()[:80], "second": again[0].hex()[:80], "third": again[1].hex()[:80]})
            continue
        if f != want or f[1] >> 2 != 0:
            em.violation("C07: serialize() is not 0xD3 + 16-bit length + payload + CRC-24Q", {"payload": p.hex()}, {"got": f.hex(), "want": want.hex()})
            continue
        for v in (1, 0):
            for lab in (1, 2):
                try:
                    m2 = RTCMReader.parse(f, validate=v, labelmsm=lab)
                    ok = m2.payload == p and m2.identity == m.identity and m2.serialize() == f and (lab != 1 or gen.public_attrs(m2) == gen.public_attrs(m))
                except Exception as e:  # noqa
                    ok = False
                if not ok:
                    em.violation("C07: parse(serialize(m), validate=%d, labelmsm=%d) does not give back payload / identity / attributes / frame" % (v, lab), {"payload": p.hex(), "frame": f.hex()}, {})
        # a message obtained from a NON-canonical frame (validation off: wrong checksum bytes, reserved length bits set, a wrong
        # length field, another first byte) still serialises to the canonical frame of its payload
        em.direct_evaluations += 1
        variants = [("wrong checksum", f[:-3] + bytes([f[-3] ^ 0x5A, f[-2], f[-1] ^ 1])),
                    ("reserved bits set", bytes([f[0], f[1] | rng.choice([0x04, 0x80, 0xA4, 0xFC])]) + f[2:]),
                    ("wrong length field", bytes([f[0], f[1], f[2] ^ 0x11]) + f[3:]),
                    ("first byte not the preamble", bytes([0x00]) + f[1:])]
        for what, g in variants:
            for lab in (1, 2):
                try:
                    mg = RTCMReader.parse(g, validate=0, labelmsm=lab)
                    okv = mg.payload == p and mg.serialize() == want and (lab != 1 or gen.public_attrs(mg) == gen.public_attrs(m))
                    detail = {"serialize": mg.serialize().hex()[:80] + ".." + mg.serialize().hex()[-12:], "canonical": want.hex()[:80] + ".." + want.hex()[-12:]}
                except Exception as e:  # noqa
                    okv, detail = False, {"exception": repr(e)}
                if not okv:
                    em.violation("C07: a message parsed (validate=0) from a frame with %s does not serialise to the canonical frame of its payload" % what,
                                 {"frame": g.hex(), "payload": p.hex(), "labelmsm": lab}, detail)
                    break
        try:
            import io as _io
            g = variants[0][1]
            gotg = list(RTCMReader(_io.BytesIO(g + f), validate=0))
            if [r for r, _ in gotg] != [g, f] or any(mm.payload != p or mm.serialize() != want for _, mm in gotg):
                em.violation("C07: a message read (validate=0) from a wrong-checksum frame does not serialise to the canonical frame", {"stream": (g + f).hex(), "payload": p.hex()}, {})
        except Exception as e:  # noqa
            em.violation("C07: reader with validate=0 raised %r" % e, {"stream": (variants[0][1] + f).hex()}, {})
        try:
            import io as _io
            got = list(RTCMReader(_io.BytesIO(f + f), validate=0))
            ok = [r for r, _ in got] == [f, f] and all(mm.payload == p and mm.serialize() == f for _, mm in got)
        except Exception as e:  # noqa
            ok = False
        if not ok:
            em.violation("C07: stream reader round trip of serialize(m) differs", {"payload": p.hex()}, {})
        try:
            m3 = eval(repr(m))  # noqa: S307
            ok = m3.payload == p
        except Exception as e:  # noqa
            ok = False
        if not ok:
            em.violation("C07: eval(repr(m)) does not rebuild the payload", {"payload": p.hex(), "repr": repr(m)[:200]}, {})
    # the round trip while another thread is parsing too (two messages under construction at the same time)
    okp = [p for p in pays if impl.construct(p, 1)[0] == 0][:40]
    refs = {p: gen.public_attrs(impl.construct(p, 1)[1]) for p in okp}
    errs = []

    def worker(seed):
        r = random.Random(seed)
        mine = list(okp)
        r.shuffle(mine)
        for p in mine:
            try:
                m = RTCMMessage(payload=p)
                m2 = RTCMReader.parse(m.serialize())
                if m2.payload != p or gen.public_attrs(m2) != refs[p] or gen.public_attrs(m) != refs[p]:
                    errs.append(p)
            except Exception:  # noqa
                errs.append(p)
    oldsw = sys.getswitchinterval()
    sys.setswitchinterval(1e-6)
    try:
        ths = [threading.Thread(target=worker, args=(i,)) for i in range(4)]
        for t in ths:
            t.start()
        for t in ths:
            t.join()
    finally:
        sys.setswitchinterval(oldsw)
    em.direct_evaluations += 4 * len(okp)
    for p in errs[:2]:
        em.violation("C07: parse(serialize(m)) does not give back the attributes when another thread is parsing at the same time", {"payload": p.hex(), "note": "4 threads, switch interval 1e-6"}, {})
    em.samples = [{"payload": p.hex()[:100]} for p in pays[:3]]


def check_labels_from_masks(em, impl, b, label):
    """C09 oracle that does not walk the layout: counts and label attributes computed from the three mask values alone"""
    import pinned
    tag, m = impl.construct(b.payload, label)
    if tag != 0:
        return
    em.direct_evaluations += 1
    pub = dict(gen.public_attrs(m))
    a, s_, c = pub.get("DF394"), pub.get("DF395"), pub.get("DF396")
    if a is None or s_ is None or c is None:
        em.violation("C09: MSM message %s without its mask attributes" % b.ident, {"payload": b.payload.hex()}, {})
        return
    sat = [i + 1 for i in range(64) if a >> (63 - i) & 1]
    sig = [i + 1 for i in range(32) if s_ >> (31 - i) & 1]
    w = len(sat) * len(sig)
    cells = [(x, y) for x in sat for y in sig]
    cells = [cells[j] for j in range(w) if c >> (w - 1 - j) & 1]
    pm, sm = pinned.PRN[b.ident[:3]], pinned.SIG[b.ident[:3]]
    want = {"NSat": len(sat), "NSig": len(sig), "NCell": len(cells)}
    for i, x in enumerate(sat):
        want["PRN_%02d" % (i + 1)] = pm.get(x, pinned.NA)
    for k, (x, y) in enumerate(cells):
        want["CELLPRN_%02d" % (k + 1)] = pm.get(x, pinned.NA)
        want["CELLSIG_%02d" % (k + 1)] = (sm[y][0 if label == 2 else 1] if y in sm else pinned.NA)
    got = {k: v for k, v in pub.items() if is_msm_attr(k)}
    if got != want:
        miss = sorted(set(want) - set(got))[:4]
        extra = sorted(set(got) - set(want))[:4]
        diff = [(k, got[k], want[k]) for k in want if k in got and got[k] != want[k]][:4]
        em.violation("C09: counts / satellite / cell labels of %s differ from what the three masks say" % b.ident,
                     {"payload": b.payload.hex(), "labelmsm": label}, {"missing": miss, "unexpected": extra, "different(name,got,want)": repr(diff)})


def run_C09(em, impl, tabs, rng, thorough):
    msm = list(tabs.M)
    modes = [None, "full", "empty", "last", "reserved", None]
    nsh = 0
    for label in (1, 2):
        for ident in msm:
            for r in range((len(modes) + 2) * (2 if thorough else 1)):
                mm = modes[r % (len(modes) + 2)] if r % (len(modes) + 2) < len(modes) else None
                if mm is None and r % (len(modes) + 2) >= len(modes):
                    nsh += 1
                    mm = gen.MSM_SHAPES[nsh % len(gen.MSM_SHAPES)]
                b = gen.build(tabs, ident, rng, mode="rand", maskmode=mm, label=label)
                if b is None or len(b.payload) > 1023:
                    # too many cells for 1023 bytes: keep the masks, thin the cell mask
                    b = gen.build(tabs, ident, rng, mode="zeros", maskmode=mm, label=label)
                if b is None or len(b.payload) > 1023:
                    continue
                em.count("mask." + (str(mm) if not isinstance(mm, tuple) else "shape"))
                if b.counts.get("NSat", 0) * b.counts.get("NSig", 0) > 64:
                    em.count("cellmask.wider-than-64")
                if b.counts.get("NSat") == 64 or b.counts.get("NCell", 0) >= 64:
                    em.count("index.64-or-more")
                add_case(em, impl, b.payload, label, MSM, "%s masks=%s label option %d: NSat=%s NSig=%s NCell=%s" % (
                    ident, mm, label, b.counts.get("NSat"), b.counts.get("NSig"), b.counts.get("NCell")))
                check_expected(em, impl, b, label, "C09")
                check_labels_from_masks(em, impl, b, label)
    # more than 64 cells (the cell mask is wider than one machine word)
    for ident in rng.sample(msm, 6 if thorough else 3):
        b = gen.build(tabs, ident, rng, mode="zeros", maskmode="full", label=1)
        if b is not None and len(b.payload) <= 1023:
            add_case(em, impl, b.payload, 1, MSM, "%s full masks (NCell=%s)" % (ident, b.counts.get("NCell")))
            check_expected(em, impl, b, 1, "C09")
    em.samples = [{"note": "MSM payloads with mask shapes empty/single/full/last slot/reserved ids, both label options"}]


def run_C13(em, impl, tabs, rng, thorough):
    """history / thread independence: every result compared with the pure model; tables hashed before and after"""
    import gen_tables
    mods = gen_tables.load()
    h0 = gen_tables.table_hash(mods)
    blds = corpus(tabs, rng, 2 if thorough else 1, maxcount=3)
    pays = [b.payload for b in blds]
    bad = [p[: rng.randrange(2, max(3, len(p)))] for p in rng.sample(pays, min(40, len(pays)))] + [b"", b"\x00", b"\xfe\xc0"]
    # the same satellite / signal masks under different constellations (history-sensitive caches would key on them)
    for mask64, mask32 in ((0xA000000000000000, 0x40010000), (0x0000000000003000, 0x60000000), (0x8000000000000001, 0x00000400)):
        for ident in rng.sample(list(tabs.M), 14 if thorough else 8):
            b = gen.build(tabs, ident, rng, maskmode="last")
            if b is None:
                continue
            v = int.from_bytes(b.payload, "big")
            nb = len(b.payload) * 8
            for key, width, mk in (("DF394", 64, mask64), ("DF395", 32, mask32)):
                off = [f for f in b.fields if f[1] == key][0][4]
                v = (v & ~(((1 << width) - 1) << (nb - off - width))) | (mk << (nb - off - width))
            pays.append(v.to_bytes(len(b.payload), "big") + bytes(60))
    for ident in rng.sample(list(tabs.M), 4 if thorough else 2):
        for ma, mb in gen.hash_colliding_mask_pairs(rng):
            for mk in (ma, mb):
                b = gen.build(tabs, ident, rng, maskmode=mk, mode="zeros")
                if b is not None and len(b.payload) <= 1023:
                    pays.append(b.payload)
    # message numbers without a definition (the decoder's 'unknown' path), twice each with different tails, and number 0
    for num in (0, 1, 999, 1100, 4072, 4095, rng.randrange(1, 1001), rng.randrange(1240, 4050)):
        if str(num) in tabs.ALL:
            continue
        for _ in range(2):
            pays.append(bytes([num >> 4, (num & 0xF) << 4 | rng.randrange(16)]) + bytes(rng.randrange(256) for _ in range(rng.randrange(0, 9))))
    order = pays + bad
    rng.shuffle(order)
    # fresh interpreters with different histories: each payload's result must be the same in all of them and here
    import json as _json
    import subprocess as _sp
    import os as _os
    helper = ("import sys,json;sys.path[:0]=%r;import vlib,gen,drv_msg;impl=drv_msg.Impl();"
              "ps=[bytes.fromhex(x) for x in json.load(sys.stdin)];"
              "print(json.dumps([[impl.observe(p,1,0)[0].hex(),[f.hex() for f in impl.observe(p,1,0)[1]]] for p in ps]))") % ([_os.path.dirname(__file__), _os.path.join(_os.path.dirname(_os.path.dirname(__file__)), "tools")],)
    uniq = sorted(set(order))
    views = []
    # the third order runs with warnings turned into errors (python -W error): a parse may not depend on whether a warning was already issued
    for perm, flags in ((uniq, []), (uniq[::-1], []), (sorted(uniq, key=lambda x: (len(x), x[::-1])), ["-W", "error"]), (uniq, ["-W", "error"])):
        pr = _sp.run([sys.executable] + flags + ["-c", helper], input=_json.dumps([x.hex() for x in perm]), capture_output=True, text=True, env=dict(_os.environ), timeout=600)
        if pr.returncode != 0:
            em.violation("C13: fresh interpreter failed", {}, pr.stderr[-400:])
            continue
        views.append(dict(zip(perm, [tuple(map(str, r)) for r in _json.loads(pr.stdout)])))
    em.direct_evaluations += len(uniq) * len(views)
    for pl in uniq:
        vs = {v[pl] for v in views if pl in v}
        if len(vs) > 1:
            em.violation("C13: the same bytes parse differently depending on what was parsed before (fresh interpreters, different orders)",
                         {"payload": pl.hex()}, {"n_distinct_results": len(vs)})
    # COLD START under concurrency: in a fresh interpreter the very first parses of the process run on 12 threads released by a
    # barrier (lazily built lookup structures, first-use initialisation); every thread's results must equal the sequential ones
    if views:
        seqv = views[0]
        cold = [x for x in uniq if len(x) >= 8][:: max(1, len(uniq) // 14)][:14]
        cold_helper = ("import sys,json,threading;sys.path[:0]=%r;sys.setswitchinterval(1e-6);import vlib,gen,drv_msg;impl=drv_msg.Impl();"
                       "ps=[bytes.fromhex(x) for x in json.load(sys.stdin)];N=12;bar=threading.Barrier(N);out=[None]*N\n"
                       "def w(i):\n"
                       "    mine=ps[i%%len(ps):]+ps[:i%%len(ps)]\n"
                       "    bar.wait()\n"
                       "    out[i]=[[p.hex(),impl.observe(p,1,0)[0].hex(),[f.hex() for f in impl.observe(p,1,0)[1]]] for p in mine]\n"
                       "ts=[threading.Thread(target=w,args=(i,)) for i in range(N)]\n"
                       "[t.start() for t in ts];[t.join() for t in ts]\n"
                       "print(json.dumps(out))") % ([_os.path.dirname(__file__), _os.path.join(_os.path.dirname(_os.path.dirname(__file__)), "tools")],)
        rounds = 64 if thorough else 32
        bad_cold = None
        for base in range(0, rounds, 8):
            procs = [_sp.Popen([sys.executable, "-c", cold_helper], stdin=_sp.PIPE, stdout=_sp.PIPE, stderr=_sp.PIPE, text=True, env=dict(_os.environ))
                     for _ in range(min(8, rounds - base))]
            for pr in procs:
                try:
                    so, se = pr.communicate(_json.dumps([x.hex() for x in cold]), timeout=300)
                except _sp.TimeoutExpired:
                    pr.kill()
                    so, se = "", "timeout"
                em.direct_evaluations += 12 * len(cold)
                if pr.returncode != 0 or not so.strip():
                    bad_cold = bad_cold or ("interpreter failed: " + se[-300:], None)
                    continue
                for th in _json.loads(so):
                    for ph, a_, f_ in (th or []):
                        if seqv.get(bytes.fromhex(ph)) != (str(a_), str(f_)):
                            bad_cold = bad_cold or ("differs", ph)
            if bad_cold:
                break
        if bad_cold:
            em.violation("C13: when the first parses of a process run concurrently (12 threads released together in a fresh interpreter) a result differs from the sequential parse of the same bytes (%s)" % bad_cold[0],
                         {"payload": bad_cold[1] or "", "note": "cold start: fresh interpreter, 12 threads, switch interval 1e-6"}, {})
        em.count("coldstart.rounds", rounds)
    # a caller's mutable receive buffer (recv_into / readinto style): parse(bytearray), keep the result, overwrite the buffer in place with
    # another frame of the same length, parse that: the first result must still say what it said (a result depends on the bytes it was
    # parsed from, not on what the caller's buffer holds later)
    from pyrtcm import RTCMReader as _RR

    def _obs(m):
        # (repr() is left out: for a bytearray carrier it legitimately prints bytearray(b'...'))
        return (str(m), bytes(m.payload), m.identity, bytes(m.serialize()), [(k, repr(v)) for k, v in m.__dict__.items() if not k.startswith("_")])
    for pl in rng.sample(pays, min(len(pays), 60 if thorough else 25)):
        if not 2 <= len(pl) <= 1023:
            continue
        f1 = gen.frame(pl)
        f2 = gen.frame(bytes([0xFE, 0x80 | rng.randrange(16)]) + bytes(rng.getrandbits(8) for _ in range(len(pl) - 2)))
        buf = bytearray(f1)
        em.direct_evaluations += 1
        try:
            m1 = _RR.parse(buf)
            before = _obs(m1)
            fresh = _obs(_RR.parse(bytes(f1)))
        except Exception:  # noqa
            continue
        buf[:] = f2
        try:
            m2 = _RR.parse(buf)
            o2 = _obs(m2)
        except Exception as e:  # noqa
            o2 = repr(e)
        try:
            after = _obs(m1)
        except Exception as e:  # noqa
            after = repr(e)
        if before != fresh or after != before or o2 != _obs(_RR.parse(bytes(f2))):
            em.violation("C13: a message parsed from a caller's bytearray changes (or differs from the parse of the same bytes) once the caller reuses the buffer for the next frame",
                         {"frame": f1.hex(), "next_frame_in_same_buffer": f2.hex()}, {"before": str(before[0])[:200], "after": str(after if isinstance(after, str) else after[0])[:200]})
            break
    em.count("mutable_buffer_reuse", 1)
    ref = {}
    for p in set(order):
        ref[p] = impl.observe(p, 1, FULL)[:3]
    # same bytes, different histories
    for rep in range(3 if thorough else 2):
        rng.shuffle(order)
        for p in order:
            em.direct_evaluations += 1
            if impl.observe(p, 1, FULL)[:3] != ref[p]:
                em.violation("C13: parsing the same bytes gave a different result after a different history", {"payload": p.hex()}, {})
    # the model is pure: compare the result obtained *after* the histories with the model
    for p in order:
        add_case(em, impl, p, 1, FULL, "payload parsed after %d other parses" % len(order))
    collide_check(em, impl, pays, rng, "C13", 30 if thorough else 12)
    # threads
    errs = []

    def worker(seed):
        r = random.Random(seed)
        mine = list(order)
        r.shuffle(mine)
        for p in mine:
            if impl.observe(p, 1, FULL)[:3] != ref[p]:
                errs.append(p)
    old = sys.getswitchinterval()
    sys.setswitchinterval(1e-6)
    try:
        ths = [threading.Thread(target=worker, args=(i,)) for i in range(8)]
        for t in ths:
            t.start()
        for t in ths:
            t.join()
    finally:
        sys.setswitchinterval(old)
    em.direct_evaluations += 8 * len(order)
    for p in errs[:3]:
        em.violation("C13: concurrent parsing gave a different result", {"payload": p.hex()}, {})
    h1 = gen_tables.table_hash(mods)
    em.direct_evaluations += 1
    if h0 != h1:
        em.violation("C13: parsing modified the library's tables", {"before": h0, "after": h1}, {})
    em.count("threads", 8)
    em.samples = [{"history_length": len(order), "threads": 8, "table_hash": h0[:16]}]


def run_C14(em, impl, tabs, rng, thorough):
    from pyrtcm.exceptions import RTCMMessageError
    RTCMMessage_ = impl.RTCMMessage
    blds = corpus(tabs, rng, 2 if thorough else 1, maxcount=2)
    pays = [b.payload for b in blds] + [bytes([0x12, 0x30, 1, 2, 3]), bytes([0xFE, 0xC0, 0x00, 9])]
    # payloads whose integer value / bytes hash to 0 or -1 on CPython (multiples of 2**61-1, all zeros): "0 / None / empty as not-yet-set"
    M61 = (1 << 61) - 1
    hz = [bytes(n) for n in (2, 3, 8, 19)]
    for b in blds[:: max(1, len(blds) // 10)]:
        if len(b.payload) >= 12:
            a_ = int.from_bytes(b.payload[:-8], "big")
            x = (-(a_ << 64)) % M61
            for xx in (x, x + M61):
                if xx < (1 << 64):
                    cand = b.payload[:-8] + xx.to_bytes(8, "big")
                    if int.from_bytes(cand, "big") % M61 == 0 and impl.construct(cand, 1)[0] == 0:
                        hz.append(cand)
                        break
    em.count("hash_zero_payloads", len(hz))
    pays = hz + pays
    for p in pays:
        tag, m = impl.construct(p, 1)
        add_case(em, impl, p, 1, FULL, "message later subjected to attribute assignment")
        if tag != 0:
            continue
        def snapshot():
            try:
                return (dict(m.__dict__), str(m), m.serialize(), m.identity, m.payload, repr(m))
            except Exception as e:  # noqa
                return ("snapshot raised", repr(e))
        snap = snapshot()
        # ... after OTHER constructions have failed in between (no payload, too short, a truncated defined type), and while a third
        # message exists: the flag is the message's own
        if pays.index(p) % 3 == 0:
            for badp in (None, b"", b"\x3e", p[: max(2, len(p) // 2)]):
                try:
                    RTCMMessage_(payload=badp)
                except Exception:  # noqa
                    pass
        # ... and after the message itself was handed to the constructor / to its own initialiser again (conversion idioms such as
        # RTCMMessage(msg), type(msg)(msg), msg.__init__(payload) -- whatever they do or raise, msg stays frozen and unchanged)
        if pays.index(p) % 2 == 0:
            for call in (lambda: RTCMMessage_(m), lambda: RTCMMessage_(payload=m), lambda: RTCMMessage_(m, labelmsm=1), lambda: RTCMMessage_(m, 2),
                         lambda: type(m).__new__(type(m)), lambda: type(m).__new__(type(m), m)):
                try:
                    call()
                except Exception:  # noqa
                    pass
            if snap != snapshot():
                em.violation("C14: message changed after it was passed to the RTCMMessage constructor", {"payload": p.hex()}, {})
        names = list(m.__dict__) + ["new_attribute", "_private_new", "identity", "payload", "DF002", "_payload", "_immutable"]
        for nme in names:
            for val in (1, "x", None, False):
                em.direct_evaluations += 1
                try:
                    setattr(m, nme, val)
                    em.violation("C14: assignment to %s did not raise" % nme, {"payload": p.hex(), "name": nme}, {})
                except RTCMMessageError:
                    pass
                except Exception as e:  # noqa
                    em.violation("C14: assignment to %s raised %r instead of the message error" % (nme, e), {"payload": p.hex(), "name": nme}, {})
        if snap != snapshot():
            em.violation("C14: message changed after rejected assignments", {"payload": p.hex()}, {})
        # a copy of a message (copy / deepcopy / pickle round trip) is a message: equally immutable
        COPY_TICK[0] += 1
        if COPY_TICK[0] % 6 == 0 or len(pays) - pays.index(p) <= 2:
            import copy as _copy
            import pickle as _pickle
            for how, mk in (("copy.copy", _copy.copy), ("copy.deepcopy", _copy.deepcopy), ("pickle round trip", lambda x: _pickle.loads(_pickle.dumps(x)))):
                em.direct_evaluations += 1
                try:
                    m2 = mk(m)
                except Exception:  # noqa  (copying is not promised; an object that cannot be copied cannot be mutated through a copy)
                    continue
                try:
                    before = (dict(m2.__dict__), str(m2), m2.serialize(), m2.identity, m2.payload)
                except Exception as e:  # noqa
                    em.violation("C14: a message obtained by %s cannot be observed (%r) after rejected assignments to the original" % (how, e), {"payload": p.hex(), "copy": how}, {})
                    continue
                for nme in (list(m2.__dict__)[:3] + ["DF002", "new_attribute", "_payload"]):
                    try:
                        setattr(m2, nme, 1)
                        em.violation("C14: assignment to %s of a message obtained by %s did not raise" % (nme, how), {"payload": p.hex(), "name": nme, "copy": how}, {})
                        break
                    except RTCMMessageError:
                        pass
                    except Exception as e:  # noqa
                        em.violation("C14: assignment to %s of a copied message raised %r" % (nme, e), {"payload": p.hex(), "name": nme, "copy": how}, {})
                        break
                try:
                    after = (dict(m2.__dict__), str(m2), m2.serialize(), m2.identity, m2.payload)
                except Exception as e:  # noqa
                    after = repr(e)
                if after != before:
                    em.violation("C14: a message obtained by %s changed after rejected assignments" % how, {"payload": p.hex(), "copy": how}, {})
            em.count("copies_checked")
    em.samples = [{"payload": pays[0].hex()[:80], "assigned_names": "all of __dict__ + new/private/property names"}]


def run_C15(em, impl, tabs, rng, thorough):
    allkeys = set(tabs.ALL)
    msmkeys = set(tabs.M)
    for mid in range(4096):
        for variant in range(3 if thorough else 2):
            low = [0, 15, rng.randrange(16)][variant]
            body = [b"", b"\xff" * 6, bytes(rng.getrandbits(8) for _ in range(rng.randrange(0, 12)))][variant]
            p = bytes([mid >> 4, ((mid & 15) << 4) | low]) + body
            if mid == 4076 and len(p) < 3:
                p += b"\x00"
            tag, r = add_case(em, impl, p, 1, IDENT, "message number %d" % mid)
            em.direct_evaluations += 1
            if mid != 4076:
                ident = str(mid)
                if ident in allkeys:
                    continue  # decoded by its layout; covered by the identity/DF002 comparison below on builder payloads
                t2, m = impl.construct(p, 1)
                if t2 != 0:
                    em.violation("C15: message number %d without a payload definition raised" % mid, {"payload": p.hex()}, repr(m)[:200])
                    continue
                fr = gen.frame(p)
                if m.identity != ident or m.payload != p or m.serialize() != fr:
                    em.violation("C15: unknown message number %d not preserved" % mid, {"payload": p.hex()}, {"identity": m.identity})
                if m.ismsm and not (1070 <= mid <= 1229):
                    em.violation("C15: message %d reported as MSM" % mid, {"payload": p.hex()}, {})
    for st in range(256):
        for low in (0, 1):
            p = bytes([0xFE, 0xC0 | (st >> 7) | (low << 1), ((st & 127) << 1) | low]) + bytes(rng.getrandbits(8) for _ in range(4))
            add_case(em, impl, p, 1, IDENT, "4076 sub-type %d" % st)
            em.direct_evaluations += 1
            t2, m = impl.construct(p, 1)
            want = "4076_%03d" % st
            if want not in allkeys:
                if t2 != 0 or m.identity != want or m.payload != p:
                    em.violation("C15: 4076 sub-type %d not preserved" % st, {"payload": p.hex()}, {})
            elif t2 == 0 and m.identity != want:
                em.violation("C15: identity of 4076 sub-type %d is %s" % (st, m.identity), {"payload": p.hex()}, {})
    # implemented types: decoded message-number field equals the identity; MSM flag on every implemented MSM number
    for b in corpus(tabs, rng, 1, maxcount=1):
        add_case(em, impl, b.payload, 1, IDENT, "implemented type %s" % b.ident)
        em.direct_evaluations += 1
        tag, m = impl.construct(b.payload, 1)
        if tag != 0:
            em.violation("C15: implemented type %s rejected" % b.ident, {"payload": b.payload.hex()}, repr(m)[:200])
            continue
        mid, sub = gen.ident_header(b.ident)
        if m.identity != b.ident or getattr(m, "DF002", None) != mid or (sub is not None and getattr(m, "IDF002", None) != sub):
            em.violation("C15: decoded message number differs from identity for %s" % b.ident, {"payload": b.payload.hex()}, {})
        if (b.ident in msmkeys) != bool(m.ismsm) and b.ident in msmkeys:
            em.violation("C15: implemented MSM type %s not reported as MSM" % b.ident, {"payload": b.payload.hex()}, {})
    # unknown numbers whose payload is itself a frame / foreign-protocol look-alike: the stub keeps the FULL payload
    for inner in (bytes([0x3e, 0xd0]) + bytes(rng.getrandbits(8) for _ in range(17)), bytes([0x12, 0x30])):
        for what, pl in gen.nested_payloads(rng, inner):
            mid = pl[0] << 4 | pl[1] >> 4
            if str(mid) in allkeys or mid == 4076:
                continue
            add_case(em, impl, pl, 1, IDENT, "message number %d: %s" % (mid, what))
            em.direct_evaluations += 1
            t2, m = impl.construct(pl, 1)
            if t2 != 0 or m.identity != str(mid) or m.payload != pl or m.serialize() != gen.frame(pl):
                em.violation("C15: unknown message number %d whose %s is not preserved" % (mid, what), {"payload": pl.hex()},
                             {"outcome": vlib.TAGNAME[t2], "payload_kept": (m.payload.hex() if t2 == 0 else None)})
    # messages handed out by a reader over real file-like objects (BytesIO, BufferedReader: both offer readinto) and KEPT: after the
    # reader has moved on (list(reader)), every kept message must still be the message of ITS frame
    import io as _io
    kept_pl = [b.payload for b in corpus(tabs, rng, 1, maxcount=1)][:: (3 if thorough else 7)]
    kept_pl += [bytes([0x3e, 0x70, 1, 2, 3]), bytes([0xFE, 0xC0 | 1, 0xF4, 9, 9]), bytes([0x7f, 0xf0]) + bytes(9)]
    kept_pl = [pl for pl in kept_pl if impl.construct(pl, 1)[0] == 0 and len(pl) <= 1023]
    data = b"".join(gen.frame(pl) for pl in kept_pl)
    for mk, what in ((lambda d: _io.BytesIO(d), "BytesIO"), (lambda d: _io.BufferedReader(_io.BytesIO(d)), "BufferedReader")):
        try:
            got = list(impl.RTCMReader(mk(data)))
        except Exception as e:  # noqa
            em.violation("C15: reader over a %s raised %r" % (what, e), {"stream": data.hex()}, {})
            continue
        em.direct_evaluations += len(got)
        if [r for r, _ in got] != [gen.frame(pl) for pl in kept_pl]:
            em.violation("C15: reader over a %s does not return the frames of the stream" % what, {"stream": data.hex()}, {})
            continue
        for (raw, m), pl in zip(got, kept_pl):
            fresh = impl.construct(pl, 1)[1]
            try:
                obs = (m.identity, bytes(m.payload), m.serialize(), bool(m.ismsm), gen.public_attrs(m))
                ref = (fresh.identity, pl, gen.frame(pl), bool(fresh.ismsm), gen.public_attrs(fresh))
            except Exception as e:  # noqa
                obs, ref = repr(e), None
            if obs != ref:
                em.violation("C15: a message kept from a reader over a %s is, after the reader has read on, no longer the message of its frame (identity %r, frame number %d)" % (
                    what, obs[0] if isinstance(obs, tuple) else obs, pl[0] << 4 | pl[1] >> 4), {"stream": data.hex(), "frame": raw.hex(), "note": "list(RTCMReader(%s)) then inspect" % what}, {})
                break
    em.count("kept.messages", len(kept_pl))
    em.samples = [{"sweep": "all 4096 message numbers x 2-3 variants, all 256 sub-types of 4076, one payload per implemented type; messages kept from file-backed readers"}]


def run_C16(em, impl, tabs, rng, thorough):
    seen_label = {}  # (option, constellation, signal id) -> (label, payload) over the whole run
    blds = corpus(tabs, rng, 3 if thorough else 1, idents=list(tabs.M), maskmodes=(None, "reserved", "full"))
    # the same signal masks under different constellations (a label must depend on constellation and id only)
    for mask in (0x40010000, 0x60000000, 0x00000400, 0x41414141):
        for ident in rng.sample(list(tabs.M), 14 if thorough else 7):
            b = gen.build(tabs, ident, rng, maskmode="last")
            if b is None:
                continue
            # rebuild with the chosen signal mask: DF395 is a 32-bit field; patch its bits in the payload
            f395 = [f for f in b.fields if f[1] == "DF395"]
            if not f395:
                continue
            off = f395[0][4]
            v = int.from_bytes(b.payload, "big")
            nb = len(b.payload) * 8
            v = (v & ~(((1 << 32) - 1) << (nb - off - 32))) | (mask << (nb - off - 32))
            pay = v.to_bytes(len(b.payload), "big") + bytes(40)
            b2 = gen.Built()
            b2.ident, b2.payload = ident, pay
            blds.append(b2)
    # mask triples that differ in one mask by 2**61-1 (equal hash(), equal popcount), one right after the other
    for ident in rng.sample(list(tabs.M), 6 if thorough else 3):
        for ma, mb in gen.hash_colliding_mask_pairs(rng):
            for mk in (ma, mb, ma):
                b = gen.build(tabs, ident, rng, maskmode=mk, mode="zeros")
                if b is not None and len(b.payload) <= 1023:
                    blds.append(b)
                    em.count("hash_colliding_masks")
    others = corpus(tabs, rng, 1, idents=rng.sample([k for k in tabs.ALL if k not in tabs.M], 40 if thorough else 15))
    for b in blds + others:
        for label in (0, 1, 2, 3):
            add_case(em, impl, b.payload, label, FULL, "%s with label option %d" % (b.ident, label))
        em.direct_evaluations += 1
        t1, m1 = impl.construct(b.payload, 1)
        t2, m2 = impl.construct(b.payload, 2)
        if t1 != t2:
            em.violation("C16: label option changes the outcome", {"payload": b.payload.hex()}, {})
            continue
        if t1 != 0:
            continue
        a1, a2 = gen.public_attrs(m1), gen.public_attrs(m2)
        diff = [k for (k, v), (k2, v2) in zip(a1, a2) if v != v2]
        if [k for k, _ in a1] != [k for k, _ in a2] or any(not k.startswith("CELLSIG_") for k in diff):
            em.violation("C16: label option changes attributes other than the cell signal labels", {"payload": b.payload.hex()}, {"changed": diff[:5]})
        if b.ident not in tabs.M and a1 != a2:
            em.violation("C16: label option affects a non-MSM message", {"payload": b.payload.hex()}, {})
        # under each option a signal id is labelled identically wherever it occurs
        if b.ident in tabs.M:
            for mm in (m1, m2):
                sigids = [i + 1 for i in range(32) if mm.DF395 >> (31 - i) & 1]
                satn = mm.NSat
                cells = [(s, g) for s in range(satn) for g in sigids]
                w = satn * len(sigids)
                lab = {}
                k = 0
                for j, (s, g) in enumerate(cells):
                    if mm.DF396 >> (w - 1 - j) & 1:
                        k += 1
                        l_ = getattr(mm, "CELLSIG_%02d" % k, None)
                        if l_ is None:
                            em.violation("C16: option %d: cell %d of the cell mask has no signal label (NCell=%r)" % (1 if mm is m1 else 2, k, getattr(mm, "NCell", None)),
                                         {"payload": b.payload.hex(), "labelmsm": 1 if mm is m1 else 2}, {})
                            break
                        if lab.setdefault(g, l_) != l_:
                            em.violation("C16: signal id %d labelled inconsistently" % g, {"payload": b.payload.hex()}, {})
                        key = (1 if mm is m1 else 2, b.ident[:3], g)
                        prev = seen_label.setdefault(key, (l_, b.payload))
                        if prev[0] != l_:
                            em.violation("C16: option %d: constellation %sx signal id %d labelled %r in one message and %r in another" % (key[0], key[1], g, prev[0], l_),
                                         {"payload": b.payload.hex(), "labelmsm": key[0], "other_payload": prev[1].hex()}, {})
    em.samples = [{"identity": b.ident, "payload": b.payload.hex()[:80]} for b in blds[:2]]


RUN = {"C03": run_C03, "C04": run_C04, "C06": run_C06, "C07": run_C07, "C09": run_C09, "C13": run_C13, "C14": run_C14,
       "C15": run_C15, "C16": run_C16}


def main():
    a = drvlib.args()
    impl = Impl()
    tabs = gen.Tabs()
    rng = random.Random(a.seed * 7919 + sum(map(ord, a.prop)))
    em = drvlib.Emitter(a.out, "msg", tables=True)
    RUN[a.prop](em, impl, tabs, rng, a.tier == "thorough")
    em.finish()


if __name__ == "__main__":
    main()
