"""Driver `reader`: RTCMReader over a recording file-like stream with a fault schedule, or over a fake socket,
against Model/Reader.v (+ Model/Socket.v), with the direct searches for C01 C02 C04 C05 C11 C17."""
import io
import logging
import random
import socket

import drvlib
import gen
import vlib


class FStream:
    """file-like double == Model/Reader.fstream: one directive per call; None = full read, k = at most k bytes"""

    def __init__(self, data, sched=()):
        self.data = bytes(data)
        self.pos = 0
        self.sched = list(sched)
        self.calls = 0

    def _dir(self):
        self.calls += 1
        return self.sched.pop(0) if self.sched else None

    def read(self, n):
        d = self._dir()
        k = n if d is None else min(d, n)
        out = self.data[self.pos:self.pos + k]
        self.pos += len(out)
        return out

    def readline(self):
        d = self._dir()
        i = self.data.find(b"\n", self.pos)
        line = self.data[self.pos:] if i < 0 else self.data[self.pos:i + 1]
        out = line if d is None else line[:min(d, len(line))]
        self.pos += len(out)
        return out


class BAStream(FStream):
    """the same file double, but read()/readline() hand out bytearray objects (io.RawIOBase-like wrappers and some serial shims do)"""

    def read(self, n):
        return bytearray(super().read(n))

    def readline(self):
        return bytearray(super().readline())


class FBytesIO(io.BytesIO):
    """a real io.BytesIO (so: read, readline, readinto, tell, seek ...) whose reads can come back short: one directive of the schedule is
    consumed per read / readinto / readline call (None = as asked, k = at most k bytes)"""

    def __init__(self, data, sched=()):
        super().__init__(data)
        self._sched = list(sched)

    def _cap(self, n):
        d = self._sched.pop(0) if self._sched else None
        return n if d is None else min(n, d)

    def read(self, n=-1):
        return super().read(self._cap(n) if n is not None and n >= 0 else n)

    def readinto(self, b):
        k = self._cap(len(b))
        mv = memoryview(b)[:k]
        return super().readinto(mv)

    def readline(self, n=-1):
        ln = super().readline(n)
        k = self._cap(len(ln))
        if k < len(ln):
            self.seek(self.tell() - (len(ln) - k))
            ln = ln[:k]
        return ln


def pipe_reader(data):
    """a BufferedReader over the read end of a pipe holding `data` (not seekable; tell() raises)"""
    import os as _os
    r, w = _os.pipe()
    _os.write(w, data)          # callers keep data below the pipe capacity (64 KiB)
    _os.close(w)
    return _os.fdopen(r, "rb")


class FakeSocket(socket.socket):
    """socket.socket subclass whose recv() replays an event list: bytes = data, None = timeout / OSError"""

    def __init__(self, events):
        super().__init__(socket.AF_INET, socket.SOCK_STREAM)
        self._events = list(events)
        self._n = 0
        self.log = []          # what each recv() returned (None = failed): the event list the model is given

    def recv(self, bufsize, flags=0):
        # at most bufsize bytes of what has arrived; recv(0) -> b""; negative -> ValueError (as a real stream socket)
        if not isinstance(bufsize, int) or isinstance(bufsize, bool):
            raise TypeError("an integer is required")
        if bufsize < 0:
            raise ValueError("negative buffersize in recv")
        if bufsize == 0:
            self.log.append(b"")
            return b""
        if not self._events:
            return b""
        e = self._events.pop(0)
        self._n += 1
        if e is None:
            self.log.append(None)
            if self._n % 2:
                raise TimeoutError("timed out")
            raise OSError("connection reset")
        if len(e) > bufsize:
            self._events.insert(0, e[bufsize:])
            e = e[:bufsize]
        self.log.append(e)
        return e


WATCHDOG_HITS = [0]


def run_reader(p, stream, cfg, k):
    """k successive read() calls; returns list of (handler_tags, result) with result = ('Y', raw, parsed) | ('E',) | ('R', tag) | ('F', repr)"""
    v, q, l, pa = cfg
    if WATCHDOG_HITS[0] >= 3:          # non-termination already established three times: do not burn the budget on more
        return [([], ("F", "skipped: read() did not finish within 8 s in three earlier cases"))], None
    calls = []
    rd = p.RTCMReader(stream, validate=v, quitonerror=q, labelmsm=l, parsed=pa, errorhandler=lambda e: calls.append(vlib.exc_tag(e)))
    out = []
    for _ in range(k):
        del calls[:]
        try:
            with vlib.watchdog(8):
                raw, parsed = rd.read()
            res = ("E",) if raw is None and parsed is None else ("Y", raw, parsed)
        except vlib.WatchdogTimeout as e:
            res = ("F", "read() did not finish within 8 s")
            WATCHDOG_HITS[0] += 1
            out.append((list(calls), res))
            break
        except Exception as e:  # noqa
            t = vlib.exc_tag(e)
            res = ("R", t) if t != 5 else ("F", repr(e))
        out.append((list(calls), res))
    return out, rd


def live_readers(p, jobs, interleave=True, maxreads=200):
    """jobs: list of (data, cfg, segs_or_None).  ALL readers are constructed first (each over its own stream double: a file
    double, or a fake socket when segs is given), then read round-robin (one read() each in turn) until every one has ended;
    with interleave=False each reader is constructed and drained alone, one after the other.  Returns, per job, the list of
    views ('Y', raw, everything observable on the parsed object | None) | ('E',) | ('R', tag) | ('F', repr)."""
    def mk(job):
        data, (v, q, l, pa), segs = job
        st = FStream(data) if segs is None else FakeSocket(list(segs))
        return p.RTCMReader(st, validate=v, quitonerror=q, labelmsm=l, parsed=pa)

    def one(rd):
        try:
            with vlib.watchdog(8):
                raw, parsed = rd.read()
            if raw is None and parsed is None:
                return ("E",)
            return ("Y", raw, None if parsed is None else full_obs(parsed))
        except Exception as e:  # noqa
            t = vlib.exc_tag(e)
            return ("R", t) if t != 5 else ("F", repr(e))
    views = [[] for _ in jobs]
    if interleave:
        rds = [mk(j) for j in jobs]
        live = list(range(len(jobs)))
        n = 0
        while live and n < maxreads:
            n += 1
            for i in list(live):
                r = one(rds[i])
                views[i].append(r)
                if r[0] in "EF":
                    live.remove(i)
    else:
        for i, j in enumerate(jobs):
            rd = mk(j)
            for _ in range(maxreads):
                r = one(rd)
                views[i].append(r)
                if r[0] in "EF":
                    break
    return views


def check_live(em, p, prop, jobs, what):
    """several live readers with different options / streams, read in turn, must each behave exactly as when used alone"""
    together = live_readers(p, jobs, True)
    alone = live_readers(p, jobs, False)
    em.direct_evaluations += len(jobs)
    for i, (a_, b_) in enumerate(zip(together, alone)):
        if a_ != b_:
            data, cfg, segs = jobs[i]
            k = next((x for x in range(min(len(a_), len(b_))) if a_[x] != b_[x]), min(len(a_), len(b_)))
            em.violation("%s: reader #%d (validate=%r mode=%r labelmsm=%r parsed=%r) behaves differently when %d other readers with other options are alive and read in turn than when it is used alone (%s; first difference at read %d)"
                         % (prop, i, cfg[0], cfg[1], cfg[2], cfg[3], len(jobs) - 1, what, k),
                         {"live_readers": [{"stream": d.hex(), "cfg": [int(c[0]), int(c[1]), int(c[2]), bool(c[3])], "recv_events": None if sg is None else [x.hex() for x in sg]} for d, c, sg in jobs]},
                         {"reader": i, "read": k})
            return False
    return True


def ser_results(results):
    b = b""
    for h, r in results:
        b += vlib.ser_n(2, len(h)) + bytes(h)
        if r[0] == "Y":
            b += b"\x00" + vlib.ser_bytes(r[1])
            if r[2] is None:
                b += b"\x00"
            else:
                try:
                    sr = b"\x00" + vlib.ser_bytes(r[2].serialize())
                except Exception as e:  # noqa
                    sr = bytes([vlib.exc_tag(e)])
                b += b"\x01" + vlib.ser_str(r[2].identity) + vlib.ser_bytes(r[2].payload) + sr
        elif r[0] == "E":
            b += b"\x10"
        elif r[0] == "R":
            b += bytes([0x20, r[1]])
        else:
            b += b"\x05"
    return b


def readable(results):
    out = []
    for h, r in results:
        if r[0] == "Y":
            out.append({"handler": h, "yield": r[1].hex()[:120], "len": len(r[1]), "parsed": None if r[2] is None else r[2].identity})
        else:
            out.append({"handler": h, "result": {"E": "end", "R": "raised", "F": "FOREIGN"}[r[0]], "detail": r[1:] and str(r[1])[:100]})
    return out[:40]


def blist(bs):
    return "[" + ";".join("Some %s" % vlib.blob(b) if b is not None else "None" for b in bs) + "]"


def cfg_expr(cfg):
    v, q, l, pa = cfg
    return "%s %s %s %s" % (vlib.zlit(v), vlib.zlit(q), vlib.zlit(l), "true" if pa else "false")


def add_file_case(em, p, data, sched, cfg, k, desc):
    st = FStream(data, sched)
    res, _ = run_reader(p, st, cfg, k)
    exp = ser_results(res) + vlib.ser_n(3, st.pos)
    sch = "[" + ";".join(vlib.zlit(-1 if d is None else d) for d in sched) + "]"
    em.add("obs_reader_file T %s %s (unpack %s) %s" % (cfg_expr(cfg), vlib.natlit(k), vlib.blob(data), sch), exp, [], desc,
           {"stream": data.hex(), "schedule": [(-1 if d is None else d) for d in sched], "cfg(validate,quitonerror,labelmsm,parsed)": list(cfg), "reads": k},
           {"events": readable(res), "consumed": st.pos},
           explain="(run_reads file_ops (ctor T) (t_nmea_hdr T) (t_ubx_hdr T) (t_valcksum T) (t_err_raise T) (t_err_log T) (mk_cfg %s) %s %s {| rest := unpack %s; sched := dirs_of %s |})"
                   % (cfg_expr(cfg), vlib.natlit(len(data) + 1), vlib.natlit(k), vlib.blob(data), sch),
           size=len(data), spec=["reader_file", data.hex(), [(-1 if d is None else d) for d in sched], list(cfg), k])
    for h, r in res:
        em.count("result." + r[0])
    FILE_TICK[0] += 1
    if FILE_TICK[0] % 4 == 0:
        em.direct_evaluations += 1
        st2 = BAStream(data, sched)
        res2, _ = run_reader(p, st2, cfg, k)
        if ser_results(res2) != ser_results(res) or st2.pos != st.pos:
            em.violation("the reader's results differ when the stream hands out bytearray objects instead of bytes (same content)",
                         {"stream": data.hex(), "schedule": [(-1 if d is None else d) for d in sched], "cfg": list(cfg), "reads": k},
                         {"bytes": readable(res)[:6], "bytearray": readable(res2)[:6]})
        em.count("stream_types_checked")
    return res, st


FILE_TICK = [0]


def add_sock_case(em, p, events, cfg, k, desc, chunked=False, bufsize=4096):
    if getattr(em, "watchdog_hits", 0) >= 3:      # non-termination already established: do not burn the time budget on more
        return []
    sk = FakeSocket(events)
    try:
        v, q, l, pa = cfg
        calls = []
        rd = p.RTCMReader(sk, validate=v, quitonerror=q, labelmsm=l, parsed=pa, errorhandler=lambda e: calls.append(vlib.exc_tag(e)),
                          encoding=1 if chunked else 0, bufsize=bufsize)
        res = []
        for _ in range(k):
            del calls[:]
            try:
                with vlib.watchdog(8):
                    raw, parsed = rd.read()
                r = ("E",) if raw is None and parsed is None else ("Y", raw, parsed)
            except vlib.WatchdogTimeout:
                res.append((list(calls), ("F", "read() did not finish within 8 s")))
                em.watchdog_hits = getattr(em, "watchdog_hits", 0) + 1
                break
            except Exception as e:  # noqa
                t = vlib.exc_tag(e)
                r = ("R", t) if t != 5 else ("F", repr(e))
            res.append((list(calls), r))
        exp = ser_results(res) + vlib.ser_bytes(bytes(rd.datastream.buffer)) + b"\x00"
    finally:
        sk.close()
    em.add("obs_reader_sock T %s %s %s %s" % ("true" if chunked else "false", cfg_expr(cfg), vlib.natlit(k), blist(list(sk.log))), exp, [], desc,
           {"recv_events": [e.hex() if e is not None else None for e in events], "cfg": list(cfg), "reads": k, "chunked": chunked, "bufsize": bufsize},
           {"events": readable(res)}, size=sum(len(e) for e in events if e))
    return res


def zero_frame_boundaries(em, p, tabs, rng, prop):
    """socket streams A B Z C (Z = the zero-length frame D3 00 00 + CRC, for which the reader issues read(0)) with a receive boundary at every
    position in and around Z and small buffer sizes, so that read(0) meets a buffer that is exactly drained, just refilled, or has just wrapped:
    the frames returned must be those a file reader returns for the same bytes"""
    pls = valid_payloads(tabs, rng, 3)
    A, B, C = (gen.frame(x) for x in pls)
    Z = gen.frame(b"")
    for pre in (A + B, A, b""):
        data = pre + Z + C
        want = [r[1] for h, r in run_reader(p, FStream(data), (1, 0, 1, True), 8)[0] if r[0] == "Y"]
        for cut in range(len(pre), len(pre) + len(Z) + 1):
            if not 0 < cut < len(data):
                continue
            for bs in sorted({4, 16, max(4, len(pre)), max(4, len(pre) + 3), 4096}):
                res = add_sock_case(em, p, [data[:cut], data[cut:]], (1, 0, 1, True), 8, "frames, zero-length frame, frame over a socket: receive boundary %d bytes into the zero-length frame, bufsize %d" % (cut - len(pre), bs), bufsize=bs)
                em.direct_evaluations += 1
                got = [r[1] for h, r in res if r[0] == "Y"]
                if got != want:
                    em.violation("%s: a socket reader returns different frames than a file reader around a zero-length frame (receive boundary %d bytes into it, bufsize %d)" % (prop, cut - len(pre), bs),
                                 {"recv_events": [data[:cut].hex(), data[cut:].hex()], "bufsize": bs, "stream": data.hex(), "cfg": [1, 0, 1, True]}, {"returned": len(got), "expected": len(want)})
                    return
    em.count("zero_frame_boundaries")


# ------------------------------------------------------------------------------------------------- stream generators
BIGS = []          # frames whose repeat counters are 99 / 100 / 101 / the field maximum, harmonic layers of every shape (gen.bigcount_builds)
built_ok = set()   # payloads laid out by the reference encoder for a defined type: they must parse
derived = set()    # payloads derived from others by bit surgery (same-checksum siblings, nested frames): whether a defined type still decodes is asked of the constructor


def valid_payloads(tabs, rng, n):
    out = []
    idents = list(tabs.ALL)
    while len(out) < n:
        c = rng.random()
        if c < 0.6:
            b = gen.build(tabs, rng.choice(idents), rng, maxcount=2)
            if b is not None and 2 <= len(b.payload) <= 1023:
                out.append(b.payload)
                built_ok.add(b.payload)
        elif c < 0.8:  # unknown numbers, assorted lengths
            mid = rng.choice([0, 1, 12, 108, 999, 1069, 1070, 1078, 1090, 1130, 1138, 1229, 1231, 2000, 4095, 4072])
            ln = rng.choice([2, 3, 4, 10, 255, 256, 511, 512])
            out.append(bytes([mid >> 4, (mid & 15) << 4]) + bytes(rng.getrandbits(8) for _ in range(ln - 2)))
        else:
            ln = rng.choice([2, 3, 1022, 1023])
            out.append(bytes([0x12, 0x30]) + bytes(rng.getrandbits(8) for _ in range(ln - 2)))
    return out


def damage(rng, fr, kind=None):
    nb = len(fr) * 8
    b = bytearray(fr)
    kind = kind or rng.choice(["1bit", "2bit", "odd", "burst"])
    lo = 24  # payload or checksum bytes only (bits >= 24)
    if nb - lo < 2:
        kind = "1bit"
    if kind == "1bit":
        ps = [rng.randrange(lo, nb)]
    elif kind == "2bit":
        ps = rng.sample(range(lo, nb), 2)
    elif kind == "odd":
        ps = rng.sample(range(lo, nb), min(rng.choice([3, 5, 7]), (nb - lo) | 1 if (nb - lo) % 2 else nb - lo - 1))
        if len(ps) % 2 == 0:
            ps = ps[:-1]
    else:
        ln = rng.randrange(2, 25)
        ln = min(ln, nb - lo)
        st = rng.randrange(lo, nb - ln + 1)
        ps = sorted({st, st + ln - 1} | {st + i for i in range(1, ln - 1) if rng.random() < 0.5})
    for q in ps:
        b[q // 8] ^= 0x80 >> (q % 8)
    return bytes(b)


def mixed_stream(tabs, rng, nitems, kinds, p_nmea_hdr):
    """returns (bytes, items) with items = list of (kind, bytes, payload-or-None)"""
    items = []
    pays = valid_payloads(tabs, rng, nitems)
    for i in range(nitems):
        k = rng.choice(kinds)
        if k == "frame":
            pl = pays[i]
            items.append(("frame", gen.frame(pl), pl))
        elif k == "msm":
            b_ = gen.build(tabs, rng.choice(list(tabs.M)), rng, maskmode=rng.choice([None, None, "last", ("shape", 3, 2, 4, 1)]))
            if b_ is not None and len(b_.payload) <= 700:
                built_ok.add(b_.payload)
                items.append(("frame", gen.frame(b_.payload), b_.payload))
            else:
                items.append(("frame", gen.frame(pays[i]), pays[i]))
        elif k == "big":
            if not BIGS:
                BIGS.extend(b_ for b_ in gen.bigcount_builds(tabs, rng, ["1007", "1008", "1029", "1033", "4076_201"]) if len(b_.payload) <= 1023)
            b_ = rng.choice(BIGS)
            built_ok.add(b_.payload)
            items.append(("frame", gen.frame(b_.payload), b_.payload))
        elif k == "zero":
            items.append(("zero", gen.frame(b""), None))
        elif k == "damaged":
            pl = pays[i]
            items.append(("damaged", damage(rng, gen.frame(pl)), None))
        elif k == "nmea":
            items.append(("nmea", gen.nmea_sentence(rng, rng.choice([b"GP", b"GN", b"PU", b"GL"])), None))
        elif k == "nmea_lf":
            items.append(("nmealf", gen.nmea_sentence(rng)[:-2] + b"\n", None))
        elif k == "ubx":
            items.append(("ubx", gen.ubx_frame(rng, syncdense=rng.random() < 0.5), None))
        elif k == "ubx_big":
            items.append(("ubx", gen.ubx_frame(rng, n=rng.choice([256, 300, 700])), None))
        elif k == "noise":
            items.append(("noise", gen.noise(rng, rng.randrange(1, 12), inert=True), None))
        elif k == "zeros":
            items.append(("noise", bytes(rng.randrange(1, 6)), None))
        elif k == "repeat":
            prev = [x for x in items if x[0] == "frame"]
            if prev:
                items.append(prev[-1])           # the previous frame again, verbatim
            else:
                items.append(("frame", gen.frame(pays[i]), pays[i]))
        elif k == "samelen":
            prev = [x for x in items if x[0] == "frame"]
            if prev:                              # a different frame of the same length as the previous one (unknown type)
                n_ = len(prev[-1][2])
                pl = bytes([0x12, 0x30]) + bytes(rng.getrandbits(8) for _ in range(max(0, n_ - 2)))
                items.append(("frame", gen.frame(pl), pl))
            else:
                items.append(("frame", gen.frame(pays[i]), pays[i]))
        elif k == "collide":
            prev = [x for x in items if x[0] == "frame" and len(x[1]) >= 14]
            if prev:                              # a different frame with the same number, length AND checksum bytes as the previous one
                vs = gen.collide_variants(prev[-1][1])
                v = rng.choice(vs)
                derived.add(v[3:-3])
                items.append(("frame", v, v[3:-3]))
            else:
                items.append(("frame", gen.frame(pays[i]), pays[i]))
        elif k == "nested":
            w_, pl = rng.choice(gen.nested_payloads(rng, pays[i][:300]))
            derived.add(pl)
            items.append(("frame", gen.frame(pl), pl))
        elif k == "syncnoise":
            items.append(("syncnoise", gen.noise(rng, rng.randrange(1, 10), inert=False), None))
        elif k == "falsesync":
            items.append(("syncnoise", bytes([rng.choice([0xD3, 0xB5, 0x24])]), None))
        elif k == "reserved":
            pl = pays[i][:200]
            hdr = bytes([0xD3, (len(pl) >> 8) | rng.choice([4, 0x80, 0xFC]), len(pl) & 255])
            items.append(("reservedbits", hdr + pl + gen.crc24q_ref(hdr + pl).to_bytes(3, "big"), None))
        elif k == "nmea_unlisted":
            items.append(("syncnoise", b"$x" + bytes(rng.choice(b"ABC,123") for _ in range(8)) + b"\r\n", None))
        elif k == "truncated":
            f = gen.frame(pays[i])
            items.append(("truncated", f[: rng.randrange(1, len(f))], None))
    return b"".join(x[1] for x in items), items


def deep_run(tabs, rng, kind, n):
    """n consecutive items of one kind between good frames: returns (bytes, items).  A reader that handles an item by re-entering
    itself, or that accumulates per-item state, behaves differently after a thousand of them than after ten."""
    good = [pl for pl in valid_payloads(tabs, rng, 6) if (pl[0] << 4 | pl[1] >> 4) == 0x123 and len(pl) < 300][:2] or [bytes([0x12, 0x30, 7])]
    g0 = ("frame", gen.frame(good[0]), good[0])
    g1 = ("frame", gen.frame(good[-1] + b"\x01"), good[-1] + b"\x01")
    small = bytes([0x12, 0x30])          # unknown message number 291: parses as a stub
    its = []
    for i in range(n):
        if kind == "damaged":
            f = bytearray(gen.frame(small + bytes([i & 255])))
            q = 24 + (i * 7) % ((len(f) - 3) * 8)
            f[q // 8] ^= 0x80 >> (q % 8)
            its.append(("damaged", bytes(f), None))
        elif kind == "zero":
            its.append(("zero", gen.frame(b""), None))
        elif kind == "short":
            its.append(("short", gen.frame(b"\x3e"), None))        # one payload byte: the library's message error
        elif kind == "falsesync":
            its.append(("syncnoise", bytes([0xD3, 0xFC | (i & 3)]), None))     # reserved bits set: unknown protocol header
        elif kind == "nmea":
            its.append(("nmea", b"$GP" + bytes([65 + i % 26]) + b"\r\n", None))
        elif kind == "ubx":
            its.append(("ubx", gen.ubx_frame(rng, n=i % 3), None))
        elif kind == "unknown":
            pl = small + bytes([i & 255])
            its.append(("frame", gen.frame(pl), pl))
        else:
            raise ValueError(kind)
    items = [g0] + its + [g1]
    return b"".join(x[1] for x in items), items


DEEP = 1100       # above CPython's default recursion limit


WELLFORMED = ["frame", "frame", "frame", "zero", "nmea", "nmea_lf", "ubx", "ubx_big", "noise"]
WELLFORMED = WELLFORMED + ["zeros", "repeat", "samelen", "collide", "nested"]
HOSTILE = WELLFORMED + ["damaged", "syncnoise", "falsesync", "reserved", "nmea_unlisted", "zeros"]


def find_frames(data):
    """independent oracle: is `raw` at offset o a well-formed frame"""
    def wf(raw):
        return (len(raw) >= 6 and raw[0] == 0xD3 and raw[1] & 0xFC == 0 and ((raw[1] & 3) << 8 | raw[2]) == len(raw) - 6
                and gen.crc24q_ref(raw[:-3]) == int.from_bytes(raw[-3:], "big"))
    return wf


def check_C01(em, data, res, cfg, what):
    wf = find_frames(data)
    pos = 0
    for h, r in res:
        if r[0] != "Y":
            continue
        raw, parsed = r[1], r[2]
        em.direct_evaluations += 1
        at = data.find(raw, pos)
        bad = None
        if at < 0:
            bad = "returned frame is not a slice of the input after the previous frame"
        elif not wf(raw):
            bad = "returned frame is not a well-formed RTCM3 frame"
        elif parsed is None:
            bad = "no parsed message"
        elif parsed.payload != raw[3:-3]:
            bad = "parsed payload is not the frame's payload"
        elif parsed.identity.split("_")[0] != str(raw[3] << 4 | raw[4] >> 4):
            bad = "parsed message number is not the frame's"
        if bad:
            em.violation("C01: %s (%s)" % (bad, what), {"stream": data.hex(), "cfg": list(cfg), "frame": raw.hex()}, {})
            return
        pos = at + len(raw)


def full_obs(m):
    """everything a user can observe on a message object"""
    return (m.identity, m.payload, gen.public_attrs(m), str(m), repr(m), m.serialize(), m.ismsm)


def main():
    a = drvlib.args()
    p = vlib.import_impl()
    tabs = gen.Tabs()
    rng = random.Random(a.seed * 15485863 + sum(map(ord, a.prop)))
    thorough = a.tier == "thorough"
    em = drvlib.Emitter(a.out, "reader", tables=True, shard_cases=8, shard_bytes=20000)
    logging.getLogger("pyrtcm").setLevel(logging.CRITICAL)
    logging.getLogger("pyrtcm.rtcmreader").setLevel(logging.CRITICAL + 1)
    prop = a.prop

    def constructs(pl, label=1):
        try:
            p.RTCMMessage(payload=pl, labelmsm=label)
            return True
        except Exception:  # noqa
            return False

    if prop == "C01":
        for it in range(60 if thorough else 14):
            data, items = mixed_stream(tabs, rng, rng.randrange(3, 9), HOSTILE + ["truncated"] * (it % 3 == 0), None)
            if len(data) > 6000:
                continue
            for q in (0, 1, 2):
                cfg = (1, q, rng.choice([1, 2]), True)
                k = len(items) + 4
                res, st = add_file_case(em, p, data, [], cfg, k, "hostile mixed stream, no faults, mode %d" % q)
                check_C01(em, data, res, cfg, "no faults")
            # single faults at every call index (bounded) x three fault kinds
            st0 = FStream(data)
            run_reader(p, st0, (1, 0, 1, True), len(items) + 2)
            ncalls = st0.calls
            idxs = list(range(ncalls)) if (ncalls <= 60 and (thorough or it < 4)) else sorted(rng.sample(range(ncalls), min(ncalls, 10)))
            for ci in idxs:
                for fk in (1, 0, "short1"):
                    # short-by-one needs the requested size: replay to learn it
                    if fk == "short1":
                        sizes = []
                        class Rec(FStream):
                            def read(self, n):
                                sizes.append(n)
                                return super().read(n)
                            def readline(self):
                                sizes.append(None)
                                return super().readline()
                        run_reader(p, Rec(data), (1, 0, 1, True), len(items) + 2)
                        req = sizes[ci] if ci < len(sizes) else None
                        if not req or req < 2:
                            continue
                        d = req - 1
                    else:
                        d = fk
                    sched = [None] * ci + [d]
                    cfg = (1, rng.choice([0, 1, 2]), 1, True)
                    res, st = add_file_case(em, p, data, sched, cfg, len(items) + 5, "single fault (%s) at stream call %d" % (fk, ci))
                    check_C01(em, data, res, cfg, "fault %s at call %d" % (fk, ci))
                    # ... and on a real, seekable BytesIO with the same short read (direct only), the caller reading on after (None, None)
                    if d:
                        res_b, _ = run_reader(p, FBytesIO(data, sched), cfg, len(items) + 8)
                        check_C01(em, data, res_b, cfg, "short read (%s bytes) at call %d of a seekable stream, reading on afterwards" % (d, ci))
                    em.count("fault." + str(fk))
            for _ in range(4 if thorough else 1):
                sched = [rng.choice([None, None, None, 0, 1, 2, 5]) for _ in range(rng.randrange(5, 60))]
                cfg = (1, rng.choice([0, 1, 2]), 1, True)
                res, st = add_file_case(em, p, data, sched, cfg, len(items) + 12, "random multi-fault schedule")
                check_C01(em, data, res, cfg, "random faults")
        # several socket-backed readers one after the other in this process, each over its OWN data: every reader must
        # return slices of its own stream only (state shared between wrapper instances would leak earlier data)
        for it in range(12 if thorough else 5):
            data, items = mixed_stream(tabs, rng, rng.randrange(2, 6), ["frame", "frame", "nmea", "noise", "damaged", "repeat"], None)
            if len(data) > 3000:
                continue
            n_ = len(data)
            cuts = sorted(rng.sample(range(1, n_), min(n_ - 1, rng.choice([0, 2, 6]))))
            segs = [data[a_:b_] for a_, b_ in zip([0] + cuts, cuts + [n_])]
            cfg = (1, rng.choice([0, 1, 2]), 1, True)
            res = add_sock_case(em, p, segs, cfg, len(items) + 3, "socket reader #%d of this process over its own stream" % it, bufsize=rng.choice([8, 64, 4096]))
            check_C01(em, data, res, cfg, "socket reader #%d" % it)
        # direct only: frames whose reserved header bits are set but which are CRC-consistent under a 16-bit reading of the
        # length field (what a relaxed header test would accept) must never be returned
        good = gen.frame(valid_payloads(tabs, rng, 1)[0])
        for bit in range(2, 8):
            for low in (0, 1):
                b2 = (1 << bit) | low
                ln = (b2 << 8) | rng.randrange(0, 256)
                body = bytes([0x3e, 0xd0]) + bytes(rng.getrandbits(8) for _ in range(ln - 2))
                hdr = bytes([0xD3, b2, ln & 255])
                crafted = hdr + body + gen.crc24q_ref(hdr + body).to_bytes(3, "big")
                data = gen.noise(rng, 5) + good + crafted + good
                for q in (0, 1):
                    cfg = (1, q, 1, True)
                    res, _ = run_reader(p, FStream(data), cfg, 8)
                    check_C01(em, data, res, cfg, "CRC-consistent frame with reserved header bit %d set" % bit)
                    em.count("crafted.reservedbit")
        # direct only: streams with readinto (a real BytesIO with short reads): the same frame repeated verbatim, then a truncated copy /
        # a copy read short inside its payload or checksum -- a reader that assembles frames in a reused buffer must not complete the
        # cut frame from what the previous one left there
        fr = gen.frame(valid_payloads(tabs, rng, 1)[0])
        other = gen.frame(valid_payloads(tabs, rng, 1)[0])
        for k_ in sorted({3, 4, len(fr) // 2, len(fr) - 3, len(fr) - 2, len(fr) - 1}):
            for data, sched, what in ((fr + fr + fr[:k_], [], "frame, same frame, same frame cut to %d bytes at end of data" % k_),
                                      (fr + fr + other, [None] * 10 + [max(1, k_ - 3)], "third frame read short (%d bytes of its payload+)" % k_),
                                      (fr + fr[:-2] + other + fr, [], "second copy lacks its last two bytes")):
                for mk in (lambda: FBytesIO(data, sched), lambda: io.BufferedReader(FBytesIO(data, sched))):
                    cfg = (1, 0, 1, True)
                    res, _ = run_reader(p, mk(), cfg, 8)
                    check_C01(em, data, res, cfg, what + " (stream with readinto)")
                    em.count("crafted.readinto")
        # direct only: behind a header announcing L payload bytes, data whose CRC is consistent at ANOTHER length (L-256, L-3, L-1, L+1, L+3,
        # L+256): a reader that miscomputes how many bytes belong to the frame would deliver a "frame" whose length field does not equal
        # the enclosed payload size
        good = gen.frame(valid_payloads(tabs, rng, 1)[0])
        for L in (3, 19, 253, 254, 255, 256, 257, 509, 510, 511, 512, 767, 768, 1021, 1022, 1023) + tuple(rng.sample(range(4, 1023), 6 if thorough else 2)):
            for delta in (-256, -3, -1, 1, 3, 256):
                n_ = L + delta
                if not 2 <= n_ <= 1300:
                    continue
                hdr = bytes([0xD3, L >> 8, L & 255])
                body = bytes([0x3e, 0xd0]) + bytes(rng.choice([x for x in range(256) if x != 0xD3]) for _ in range(n_ - 2))
                crafted = hdr + body + gen.crc24q_ref(hdr + body).to_bytes(3, "big")
                data = good + crafted + bytes(300) + good
                cfg = (1, 0, 1, True)
                res, _ = run_reader(p, FStream(data), cfg, 12)
                check_C01(em, data, res, cfg, "header announces %d payload bytes, the data is CRC-consistent at %d" % (L, n_))
                em.count("crafted.otherlength")
        # the same with the candidate's extent filled up exactly by line terminators / blanks behind the shorter CRC-consistent data
        # (a parser that trims such bytes before checking would accept the candidate, and the reader would deliver the untrimmed bytes)
        for L in (21, 64, 300) + tuple(rng.sample(range(8, 1000), 3 if thorough else 1)):
            for tail in (b"\n", b"\r", b"\r\n", b"\n\n", b"\n\r", b"\r\n\r\n", b"\r\r\n", b" ", b"  ", b"\t\n"):      # (not NUL bytes: zeros behind a CRC-consistent buffer keep it CRC-consistent)
                n_ = L - len(tail)
                hdr = bytes([0xD3, L >> 8, L & 255])
                body = bytes([0x3e, 0xd0]) + bytes(rng.choice([x for x in range(256) if x != 0xD3]) for _ in range(n_ - 2))
                crafted = hdr + body + gen.crc24q_ref(hdr + body).to_bytes(3, "big") + tail
                data = good + crafted + good
                for cfg in ((1, 0, 1, True), (1, 1, 2, True)):
                    res, _ = run_reader(p, FStream(data), cfg, 8)
                    check_C01(em, data, res, cfg, "header announces %d payload bytes, the data is CRC-consistent at %d and followed by %r" % (L, n_, tail))
                # the static parser on the candidate itself: not a valid frame, must be rejected with validation on
                em.direct_evaluations += 1
                try:
                    p.RTCMReader.parse(crafted, validate=1)
                    em.violation("C01: the static parser accepts a candidate whose CRC-24Q over its full extent is wrong (CRC-consistent only %d bytes earlier, then %r)" % (len(tail), tail),
                                 {"frame": crafted.hex(), "cfg": [1, 2, 1, True]}, {})
                except Exception:  # noqa
                    pass
                em.count("crafted.otherlength_tail")
        # direct only: a valid frame F = A + B whose two halves are separated by other material -- NESTED false frames (an outer
        # damaged frame whose extent holds an inner damaged frame ending in A, then left-over bytes R), a damaged frame, foreign
        # traffic.  F is not a slice of the stream: a reader that pushes rejected bytes back, resynchronises inside frames or
        # skips foreign traffic inside a frame would deliver it.
        def nosync(n):
            return bytes(rng.choice([x for x in range(256) if x not in (0xD3, 0xB5, 0x24, 0x0A)]) for _ in range(n))
        pls = [pl for pl in valid_payloads(tabs, rng, 12 if thorough else 6) if 8 <= len(pl) <= 120]
        for i_, pl in enumerate(pls):
            F = gen.frame(pl)
            g1, g2 = gen.frame(pls[(i_ + 1) % len(pls)]), gen.frame(pls[(i_ + 2) % len(pls)])
            for cut in sorted({3, 4, 6, len(F) // 2, len(F) - 3, len(F) - 1}):
                if not 3 <= cut < len(F):
                    continue
                A, B = F[:cut], F[cut:]
                X, R = nosync(rng.randrange(0, 6)), nosync(rng.randrange(1, 9))
                inner = bytes([0xD3, 0, len(X) + len(A) - 3 if len(X) + len(A) >= 3 else 0]) + X + A      # extent = exactly itself
                outer = bytes([0xD3, 0, len(inner) + len(R) - 3]) + inner + R                                # extent = header + inner + R
                dmg = bytearray(g2)
                dmg[5] ^= 0x10
                variants = {"nested false frames": g1 + outer + B + g2,
                            "damaged frame inside": g1 + A + bytes(dmg) + B + g2,
                            "NMEA inside": g1 + A + b"$GNGGA,1,2*00\r\n" + B + g2,
                            "UBX inside": g1 + A + b"\xb5\x62\x01\x02\x02\x00\xaa\xbb\x01\x02" + B + g2,
                            "noise inside": g1 + A + R + B + g2}
                for nm, data in variants.items():
                    if F in data:
                        continue
                    for q in (0, 1):
                        cfg = (1, q, 1, True)
                        res, _ = run_reader(p, FStream(data), cfg, 10)
                        check_C01(em, data, res, cfg, "valid frame split in two by other material (%s, cut at %d)" % (nm, cut))
                        em.count("crafted.split." + nm.split()[0])
        em.samples = [{"stream_items": "hostile mix: frames, damaged, reserved-bit headers, NMEA, UBX, sync-dense noise, truncated tail", "faults": "none / single at every call / random"}]

    elif prop == "C02":
        # every message number that is named in the id table but has no payload definition (reserved, proprietary, not yet
        # implemented), each in a small valid frame, interleaved with foreign traffic: all must come back
        named_undefined = sorted(int(k) for k in tabs.MSGIDS if k.isdigit() and k not in tabs.ALL and int(k) < 4096)
        special = []
        for chunk in [named_undefined[i:i + 40] for i in range(0, len(named_undefined), 40)]:
            its = []
            for mid in chunk:
                pl = bytes([mid >> 4, (mid & 15) << 4]) + bytes(rng.getrandbits(8) for _ in range(rng.choice([0, 1, 5, 30])))
                if mid == 4076 and len(pl) < 3:
                    pl += b"\x02"
                its.append(("frame", gen.frame(pl), pl))
                if rng.random() < 0.3:
                    its.append(("nmea", gen.nmea_sentence(rng), None))
            special.append((b"".join(x[1] for x in its), its))
        # UBX frames whose 16-bit little-endian length has the top bit set (a legal, unsigned length), between valid frames
        for ulen in ((32767, 32768, 40000, 65535) if thorough else (32768, 65535)):
            pls = [pl for pl in valid_payloads(tabs, rng, 4)]
            its = [("frame", gen.frame(pls[0]), pls[0]), ("ubx", gen.ubx_frame(rng, n=ulen), None), ("frame", gen.frame(pls[1]), pls[1]),
                   ("nmea", gen.nmea_sentence(rng), None), ("frame", gen.frame(pls[2]), pls[2])]
            special.append((b"".join(x[1] for x in its), its))
            em.count("ubx.length.%d" % ulen)
        # frames of defined types whose repeat counters are large (99, 100, 101, the field maximum): three-digit group indices
        bb = gen.bigcount_builds(tabs, rng)
        for chunk in [bb[i:i + 12] for i in range(0, len(bb), 12)][: (8 if thorough else 3)]:
            its = []
            for b_ in chunk:
                built_ok.add(b_.payload)
                its.append(("frame", gen.frame(b_.payload), b_.payload))
                if rng.random() < 0.4:
                    its.append(("nmea", gen.nmea_sentence(rng), None))
            special.append((b"".join(x[1] for x in its), its))
            em.count("bigcount.streams")
        # MSM frames at the edges of the mask sizes: satellites x signals of exactly 64 (the widest cell mask the standard allows), 63,
        # 64 satellites, single cells, products beyond 64
        its = []
        for shp in gen.MSM_SHAPES:
            for ident in rng.sample(list(tabs.M), 3 if thorough else 1):
                b_ = gen.build(tabs, ident, rng, maskmode=shp)
                if b_ is not None and len(b_.payload) <= 1023:
                    built_ok.add(b_.payload)
                    its.append(("frame", gen.frame(b_.payload), b_.payload))
                    em.count("msmshape.%dx%d" % (shp[1], shp[2]))
        for i_ in range(0, len(its), 6):
            special.append((b"".join(x[1] for x in its[i_:i_ + 6]), its[i_:i_ + 6]))
        # every CRC-valid frame with a ONE-byte payload (too short to carry a message number: not returned, but valid) directly followed by
        # a good frame, which must be returned: the checksums of these 256 frames contain every kind of sync look-alike in their tails
        goodp = valid_payloads(tabs, rng, 8)
        for base_ in range(0, 256, 32):
            its = []
            for v_ in range(base_, base_ + 32):
                its.append(("short1", gen.frame(bytes([v_])), None))
                pl = goodp[v_ % len(goodp)]
                its.append(("frame", gen.frame(pl), pl))
            special.append((b"".join(x[1] for x in its), its))
            em.count("one_byte_payload_frames", 32)
        # more than a thousand consecutive foreign or filler items between two valid frames
        for kind in (("nmea", "ubx", "zero", "unknown") if thorough else ("nmea", "zero", "unknown")):
            special.append(deep_run(tabs, rng, kind, DEEP))
            em.count("deeprun." + kind)
        for it in range((80 if thorough else 24) + len(special)):
            n = rng.randrange(2, 41 if thorough else 16)
            if it < len(special):
                data, items = special[it]
            else:
                data, items = mixed_stream(tabs, rng, n, WELLFORMED, None)
            if len(data) > 9000 and it >= len(special):
                data, items = mixed_stream(tabs, rng, 6, WELLFORMED, None)
            for q in ((0, 1) if len(items) < 200 else (0,)):
                cfg = (1, q, 1, True)
                res, st = add_file_case(em, p, data, [], cfg, len(items) + 3, "well-formed mixed stream of %d items, mode %d" % (len(items), q))
            # direct: iterate exactly as a user would
            em.direct_evaluations += 1
            kinds = ("bytesio", "buffered") + (("pipe", "makefile") if len(data) < 60000 and it % 2 == 0 else ())
            for mk in kinds:
                closer = None
                if mk == "bytesio":
                    stream = io.BytesIO(data)
                elif mk == "buffered":
                    stream = io.BufferedReader(io.BytesIO(data))
                elif mk == "pipe":
                    stream = pipe_reader(data)            # not seekable: tell() raises
                    closer = stream
                else:
                    a_, b_ = socket.socketpair()          # socket.makefile('rb'): a file object over a socket (tell() unsupported)
                    a_.sendall(data)
                    a_.close()
                    stream = b_.makefile("rb")
                    closer = b_
                    if any(x[0] == "nmealf" for x in items):
                        pass
                try:
                    got = [raw for raw, _ in p.RTCMReader(stream, quitonerror=0)]
                except Exception as e:  # noqa
                    got = repr(e)
                def must_parse(pl):
                    mid = pl[0] << 4 | pl[1] >> 4
                    ident = "%d_%03d" % (mid, (pl[1] & 1) << 7 | pl[2] >> 1) if mid == 4076 and len(pl) > 2 else str(mid)
                    return ident not in tabs.ALL or pl in built_ok or (pl in derived and constructs(pl))
                want = [x[1] for x in items if x[0] == "frame" and must_parse(x[2])]
                if closer is not None:
                    try:
                        stream.close()
                        closer.close()
                    except Exception:  # noqa
                        pass
                if got != want:
                    em.violation("C02: frames returned differ from the valid frames of the stream (%s)" % mk,
                                 {"stream": data.hex(), "items": [x[0] for x in items]},
                                 {"returned": len(got) if isinstance(got, list) else got, "expected": len(want)})
                    break
            # same through a socket
            segs = []
            i = 0
            while i < len(data):
                j = min(len(data), i + rng.choice([1, 2, 3, 7, 50, 512, 4096]))
                segs.append(data[i:j])
                i = j
            # sockets: only streams whose sentences are CRLF-terminated (the wrapper's line read ends at CRLF by design; an
            # LF-only line is not a complete NMEA sentence and is outside the property for socket streams)
            if it % 3 == 0 and len(segs) < 400 and not any(x[0] == "nmealf" for x in items):
                for bs in (rng.choice([1, 3, 16]), rng.choice([100, 1000]), 4096):
                    res = add_sock_case(em, p, segs, (1, 0, 1, True), len(items) + 3, "same stream over a socket in %d segments, bufsize %d" % (len(segs), bs), bufsize=bs)
                    em.direct_evaluations += 1
                    got_s = [r[1] for h, r in res if r[0] == "Y"]
                    want_s = [x[1] for x in items if x[0] == "frame" and must_parse(x[2])]
                    if got_s != want_s:
                        em.violation("C02: frames returned over a socket (bufsize %d) differ from the valid frames of the stream" % bs,
                                     {"recv_events": [x.hex() for x in segs], "bufsize": bs, "stream": data.hex()}, {"returned": len(got_s), "expected": len(want_s)})
        em.samples = [{"items": [x[0] for x in items][:12], "bytes": len(data)}]

    elif prop == "C05":
        # more than a thousand consecutive damaged frames between good ones: still exactly the good frames, one handler call each
        data, items = deep_run(tabs, rng, "damaged", DEEP)
        good = [x[1] for x in items if x[0] == "frame"]
        for q in (0, 1, 2):
            cfg = (1, q, 1, True)
            res, st = add_file_case(em, p, data, [], cfg, (DEEP + 4) if q == 2 else 4, "%d consecutive damaged frames between two good ones, mode %d" % (DEEP, q))
            em.direct_evaluations += 1
            ys = [r[1] for h, r in res if r[0] == "Y"]
            hc = sum(len(h) for h, r in res)
            nr = sum(1 for h, r in res if r[0] == "R" and r[1] == 2)
            if ys != good or any(r[0] == "F" for h, r in res) or (q == 0 and hc) or (q == 1 and hc != DEEP) or (q == 2 and nr != DEEP):
                em.violation("C05: a run of %d consecutive damaged frames is not handled frame by frame in mode %d (frames returned %d of %d, handler calls %d, parse errors raised %d, foreign: %s)"
                             % (DEEP, q, len(ys), len(good), hc, nr, [r[1] for h, r in res if r[0] == "F"][:1]),
                             {"stream": data.hex(), "mode": q}, {})
        em.count("deeprun.damaged")
        for it in range(70 if thorough else 20):
            n = rng.randrange(2, 12)
            pays = valid_payloads(tabs, rng, n)
            pays = [pl for pl in pays if constructs(pl)]
            if not pays:
                continue
            dmg = [rng.random() < 0.4 for _ in pays]
            if not any(dmg):
                dmg[rng.randrange(len(dmg))] = True
            frames = [damage(rng, gen.frame(pl)) if d else gen.frame(pl) for pl, d in zip(pays, dmg)]
            if it % 3 == 0:
                # verbatim repeats (as casters send station messages) whose copies are damaged in the payload only, checksum bytes intact
                pl = pays[0]
                f = gen.frame(pl)

                def pdamage(fr):
                    b = bytearray(fr)
                    for _ in range(rng.choice([1, 1, 2, 3])):
                        q = rng.randrange(24, (len(fr) - 3) * 8)
                        b[q // 8] ^= 0x80 >> (q % 8)
                    return bytes(b) if bytes(b) != fr else pdamage(fr)
                frames = [f, pdamage(f), f, f, pdamage(f), pdamage(f)] + frames[1:4]
                dmg = [False, True, False, False, True, True] + dmg[1:4]
            data = b"".join(frames)
            if len(data) > 9000:
                continue
            good = [f for f, d in zip(frames, dmg) if not d]
            nd = sum(dmg)
            for q in (0, 1, 2):
                cfg = (1, q, 1, True)
                res, st = add_file_case(em, p, data, [], cfg, len(frames) + 2, "%d frames, %d damaged, mode %d" % (len(frames), nd, q))
                em.direct_evaluations += 1
                ys = [r[1] for h, r in res if r[0] == "Y"]
                hc = sum(len(h) for h, r in res)
                if ys != good:
                    em.violation("C05: mode %d returned %d frames, expected the %d undamaged ones in order" % (q, len(ys), len(good)),
                                 {"stream": data.hex(), "damaged": dmg, "mode": q}, {})
                elif q == 0 and hc != 0:
                    em.violation("C05: error handler called in ignore mode", {"stream": data.hex()}, {})
                elif q == 1 and hc != nd:
                    em.violation("C05: error handler called %d times for %d damaged frames" % (hc, nd), {"stream": data.hex(), "damaged": dmg}, {})
                elif q == 2:
                    seq = [("R" if r[0] == "R" else "Y") for h, r in res if r[0] in "RY"]
                    want = ["R" if d else "Y" for d in dmg]
                    if seq != want or any(r[0] == "R" and r[1] != 2 for h, r in res):
                        em.violation("C05: raise mode did not raise a parse error at each damaged frame between the good ones",
                                     {"stream": data.hex(), "damaged": dmg}, {"sequence": seq, "expected": want})
            # several readers alive at once with DIFFERENT error modes, read in turn: each keeps its own mode
            if it % 4 == 0:
                check_live(em, p, "C05", [(data, (1, 0, 1, True), None), (data, (1, 2, 1, True), None), (data, (1, 1, 1, True), None), (data, (1, 0, 2, True), None)],
                           "one damaged stream under ignore / raise / log")
            # log mode with other kinds of handler objects (the docs allow "error handling object or function"): a bound method,
            # and a callable collector whose truth value is False while it is empty
            class Collector(list):
                def __call__(self, err):
                    self.append(err)
            coll = Collector()
            plain = []
            # ... under both states of the library's logger (muted by the application / enabled): the handler is the user's, not the logger's
            lgs = [logging.getLogger("pyrtcm"), logging.getLogger("pyrtcm.rtcmreader")]
            saved = [(l_.level, l_.propagate, l_.disabled) for l_ in lgs]
            nh = logging.NullHandler()
            for logstate in ("muted", "enabled", "disabled-globally"):
                del coll[:]
                del plain[:]
                try:
                    if logstate == "enabled":
                        for l_ in lgs:
                            l_.setLevel(logging.DEBUG)
                            l_.propagate = False
                            l_.addHandler(nh)
                    elif logstate == "disabled-globally":
                        logging.disable(logging.CRITICAL)
                    class Monitor:                       # a bound method of a user object
                        def __init__(self):
                            self.seen = []

                        def on_error(self, err):
                            self.seen.append(err)
                    mon = Monitor()
                    import functools as _ft
                    part = []
                    deflt = []
                    for hobj, count in ((coll, lambda: len(coll)), (plain.append, lambda: len(plain)), (mon.on_error, lambda: len(mon.seen)),
                                        (_ft.partial(lambda sink, err: sink.append(err), part), lambda: len(part)),
                                        ((lambda err, sink=deflt: sink.append(err)), lambda: len(deflt))):
                        try:
                            got = [raw for raw, _ in p.RTCMReader(io.BytesIO(data), quitonerror=1, errorhandler=hobj)]
                        except Exception as e:  # noqa
                            got = repr(e)
                        em.direct_evaluations += 1
                        if got != good or count() != nd:
                            em.violation("C05: log mode with a %s as handler (library logger %s): %s frames, handler called %d times for %d damaged frames" % (
                                type(hobj).__name__, logstate, len(got) if isinstance(got, list) else got, count(), nd), {"stream": data.hex(), "damaged": dmg, "logger": logstate}, {})
                finally:
                    logging.disable(logging.NOTSET)
                    for l_, (lv, pr, ds) in zip(lgs, saved):
                        l_.removeHandler(nh)
                        l_.setLevel(lv)
                        l_.propagate = pr
                        l_.disabled = ds
            # log mode through the logger (no handler object): one log record per damaged frame
            rec = []

            class H(logging.Handler):
                def emit(self, record):
                    rec.append(record)
            lg = logging.getLogger("pyrtcm.rtcmreader")
            hh = H()
            lg.addHandler(hh)
            old = lg.level
            lg.setLevel(logging.DEBUG)
            try:
                got = [raw for raw, _ in p.RTCMReader(io.BytesIO(data), quitonerror=1)]
            except Exception as e:  # noqa  (an exception out of the iterator in log mode is itself the violation)
                got = repr(e)
            finally:
                lg.removeHandler(hh)
                lg.setLevel(old)
            em.direct_evaluations += 1
            if got != good or len(rec) != nd:
                em.violation("C05: log mode via logger: %s frames / %d records for %d good / %d damaged" % (
                    len(got) if isinstance(got, list) else got, len(rec), len(good), nd), {"stream": data.hex(), "damaged": dmg}, {})
        em.samples = [{"frames": len(frames), "damaged": dmg}]

    elif prop == "C17":
        for it in range(50 if thorough else 14):
            n = rng.randrange(2, 10)
            data, items = mixed_stream(tabs, rng, n, ["frame", "frame", "msm", "nmea", "ubx", "noise", "zero"] + (["big", "big"] if it % 3 == 0 else []), None)
            if len(data) > 8000:
                continue
            lab_ = 1 + it % 2          # the label option must keep its effect whatever the other options are
            # wrong checksum bytes on some frames
            bad = bytearray(data)
            off = 0
            flipped = []
            for kd, bts, pl in items:
                if kd == "frame" and rng.random() < 0.5:
                    bad[off + len(bts) - 1 - rng.randrange(3)] ^= rng.randrange(1, 256)
                    flipped.append(True)
                elif kd == "frame":
                    flipped.append(False)
                off += len(bts)
            bad = bytes(bad)
            # every legal spelling of the options (0/1 as documented, booleans as commonly passed)
            for v_, pa_ in ((True, 0), (False, 1), (1, 0), (0, False), (3, 0), (2, 1)):
                cfg = (v_, 0, 1, pa_)
                res, st = add_file_case(em, p, bad, [], cfg, len(items) + 2, "option spellings validate=%r parsed=%r" % (v_, pa_))
                em.direct_evaluations += 1
                for h, r in res:
                    if r[0] == "Y" and ((r[2] is not None) != bool(pa_)):
                        em.violation("C17: parsed=%r: parsed object %s" % (pa_, "returned although parsing is off" if not pa_ else "missing"),
                                     {"stream": bad.hex(), "cfg": [int(v_), 0, 1, repr(pa_)]}, {})
            out = {}
            for v in (0, 1):
                for pa in (True, False):
                    for q in (0, 1):
                        for src, nm in ((data, "good"), (bad, "badcrc")):
                            cfg = (v, q, lab_, pa)
                            res, st = add_file_case(em, p, src, [], cfg, len(items) + 2, "options validate=%d parsed=%s mode=%d on %s stream" % (v, pa, q, nm))
                            out[(v, pa, q, nm)] = (res, st.pos)
            em.direct_evaluations += 1
            frames = [x[1] for x in items if x[0] == "frame"]
            okp = [x[2] in built_ok or constructs(x[2]) for x in items if x[0] == "frame"]     # payloads laid out by the reference encoder must parse
            # parsing off: same raw frames, no parsed object
            r_on = [r[1] for h, r in out[(1, True, 0, "good")][0] if r[0] == "Y"]
            r_off = [(r[1], r[2]) for h, r in out[(1, False, 0, "good")][0] if r[0] == "Y"]
            want_off = [x[1] for x in items if x[0] in ("frame", "zero")]
            if [x for x, _ in r_off] != want_off or any(pp is not None for _, pp in r_off):
                em.violation("C17: parsed=False does not return every raw frame with no parsed object", {"stream": data.hex()}, {})
            if r_on != [f for f, ok in zip(frames, okp) if ok]:
                em.violation("C17: parsed=True baseline differs from the valid frames", {"stream": data.hex()}, {})
            # validation off: wrong-checksum frames accepted and decoded as with the right checksum
            a_ = [(r[1], r[2]) for h, r in out[(0, True, 0, "badcrc")][0] if r[0] == "Y"]
            b_ = [(r[1], r[2]) for h, r in out[(1, True, 0, "good")][0] if r[0] == "Y"]
            if len(a_) != len(b_) or any(x[0][:-3] != y[0][:-3] or full_obs(x[1]) != full_obs(y[1]) for x, y in zip(a_, b_)):
                em.violation("C17: validate=0 does not decode wrong-checksum frames like the right-checksum ones (identity, payload, attributes, str, repr, serialize)", {"stream": bad.hex()}, {})
            # bytes taken are the same under every option (well-formed streams)
            poss = {k: v[1] for k, v in out.items()}
            if len(set(poss.values())) != 1:
                em.violation("C17: options change how many bytes are consumed", {"stream": data.hex()}, {"consumed": {str(k): v for k, v in poss.items()}})
            # validation off, a frame carrying the checksum bytes of the frame before it (same length): each parsed object must
            # still be the decoding of its own slice
            fr2 = [x for x in items if x[0] == "frame" and constructs(x[2])]
            if fr2:
                a_pl = fr2[0][2]
                b_pl = bytes([a_pl[0], a_pl[1]]) + bytes((c + 1) & 255 for c in a_pl[2:])
                if b_pl != a_pl and constructs(b_pl):
                    fa = gen.frame(a_pl)
                    fb_bad = gen.frame(b_pl)[:-3] + fa[-3:]
                    seq = fa + gen.nmea_sentence(rng) + fb_bad + fa + fb_bad + gen.frame(b_pl)
                    for lab in (1, 2):
                        cfg = (0, 0, lab, True)
                        res, st = add_file_case(em, p, seq, [], cfg, 8, "validate=0: frames carrying the previous frame's checksum bytes")
                        em.direct_evaluations += 1
                        for h, r in res:
                            if r[0] == "Y" and (r[2] is None or r[2].payload != r[1][3:-3]):
                                em.violation("C17: with validation off a frame is not decoded from its own bytes", {"stream": seq.hex(), "cfg": list(cfg)}, {"frame": r[1].hex()})
                    em.direct_evaluations += 1
                    try:
                        m_a = p.RTCMReader.parse(fa, validate=0)
                        m_b = p.RTCMReader.parse(fb_bad, validate=0)
                    except Exception as e:  # noqa
                        em.violation("C17: static parse with validate=0 raised %r on a frame that parses with validation on" % e, {"frame": fa.hex(), "other": fb_bad.hex()}, {})
                        m_a = m_b = None
                    if m_a is not None and (m_b.payload != b_pl or m_a.payload != a_pl):
                        em.violation("C17: static parse with validate=0 returns another frame's message", {"frame": fb_bad.hex(), "previous": fa.hex()}, {})
            # validation off must also hold with an error handler registered and in raise mode: wrong-checksum frames are not errors
            if it % 2 == 1:
                for q_ in (0, 1, 2):
                    seen = []
                    try:
                        got_ = [(r_, None if m_ is None else m_.payload) for r_, m_ in p.RTCMReader(io.BytesIO(bad), validate=0, quitonerror=q_, errorhandler=seen.append, labelmsm=lab_)]
                    except Exception as e:  # noqa
                        got_ = repr(e)
                    try:          # the same mode without a handler (raise mode legitimately raises at frames that do not parse)
                        ref_ = [(r_, None if m_ is None else m_.payload) for r_, m_ in p.RTCMReader(io.BytesIO(bad), validate=0, quitonerror=q_, labelmsm=lab_)]
                    except Exception as e:  # noqa
                        ref_ = repr(e)
                    em.direct_evaluations += 1
                    if got_ != ref_:
                        em.violation("C17: with validation off, a registered error handler and mode %d the reader does not return the frames it returns without a handler (%s)" % (
                            q_, got_ if isinstance(got_, str) else "%s vs %s frames" % (len(got_), len(ref_) if isinstance(ref_, list) else ref_)), {"stream": bad.hex(), "cfg": [0, q_, lab_, True], "note": "errorhandler registered"}, {})
                        break
            # several readers alive at once, configured differently, read in turn: each keeps ITS options
            if it % 2 == 0:
                check_live(em, p, "C17", [(bad, (0, 0, lab_, True), None), (bad, (1, 0, lab_, True), None), (bad, (1, 0, 3 - lab_, False), None),
                                          (data, (0, 1, 3 - lab_, True), None), (bad, (1, 2, lab_, True), None)], "wrong-checksum copies of one stream")
            # static parser
            for f, ok, fl in zip(frames, okp, flipped):
                if not ok:
                    continue
                g = f[:-3] + bytes([f[-3] ^ 0x55, f[-2], f[-1] ^ 1])
                try:
                    m1 = p.RTCMReader.parse(g, validate=0, labelmsm=lab_)
                    m2 = p.RTCMReader.parse(f, validate=1, labelmsm=lab_)
                except Exception as e:  # noqa
                    em.violation("C17: static parse raised %r (validate=0 on the wrong-checksum copy / validate=1 on the right frame of a payload that constructs)" % e,
                                 {"frame": g.hex(), "right_frame": f.hex()}, {})
                    continue
                if full_obs(m1) != full_obs(m2):
                    em.violation("C17: static parse with validate=0 of a wrong-checksum frame differs from the parse of the right frame (identity, payload, attributes, str, repr, serialize)", {"frame": g.hex(), "right_frame": f.hex()}, {})
        em.samples = [{"options": "validate x parsed x mode product on good and wrong-checksum copies of each stream"}]

    elif prop == "C04":
        # more than a thousand consecutive recoverable items of one kind: nothing foreign (e.g. RecursionError), iteration finishes
        for kind in ("damaged", "short", "falsesync", "zero", "nmea") + (("ubx", "unknown") if thorough else ()):
            data, items = deep_run(tabs, rng, kind, DEEP)
            for q in (0, 1):
                res, st = add_file_case(em, p, data, [], (1, q, 1, True), 4 if kind != "unknown" else 12, "%d consecutive %s items, mode %d" % (DEEP, kind, q))
                em.direct_evaluations += 1
                for h, r in res:
                    if r[0] in "FR":
                        em.violation("C04: %s escaped read() in mode %d after a long run of %s items" % ("foreign exception " + str(r[1]) if r[0] == "F" else "an exception", q, kind),
                                     {"stream": data.hex(), "cfg": [1, q, 1, True]}, {})
                        break
            em.count("deeprun." + kind)
        # tens of thousands of consecutive errors (direct only): no hidden limit after which the iterator gives up or raises
        for kind, n_ in (("falsesync", 12000), ("short", 12000)) + ((("falsesync", 70000), ("damaged", 20000)) if thorough else ()):
            data, items = deep_run(tabs, rng, kind, n_)
            want = [x[1] for x in items if x[0] == "frame"]
            for q in (0, 1):
                em.direct_evaluations += 1
                try:
                    with vlib.watchdog(120):
                        got = [raw for raw, _ in p.RTCMReader(io.BytesIO(data), quitonerror=q, errorhandler=(lambda e: None))]
                except BaseException as e:  # noqa
                    got = repr(e)
                if got != want:
                    em.violation("C04: iteration over a stream with %d consecutive %s items in mode %d: %s" % (n_, kind, q, got if isinstance(got, str) else "%d frames returned, %d expected" % (len(got), len(want))),
                                 {"stream_description": "good frame, %d x %s, good frame" % (n_, kind), "stream": data.hex() if len(data) < 60000 else data[:200].hex() + "...", "cfg": [1, q, 1, True]}, {})
            em.count("verylongrun.%s.%d" % (kind, n_))
        for it in range(120 if thorough else 40):
            c = rng.random()
            if c < 0.4:
                data, items = mixed_stream(tabs, rng, rng.randrange(1, 8), HOSTILE + ["truncated"], None)
            elif c < 0.7:
                data = gen.noise(rng, rng.randrange(0, 300), inert=False)
            else:
                data = bytes(rng.getrandbits(8) for _ in range(rng.randrange(0, 400)))
            # frames with short payloads embedded
            if it % 5 == 0:
                data = gen.frame(b"") + gen.frame(b"\x3e") + gen.frame(b"\xfe\xc0") + data + gen.frame(bytes([0x3e, 0xd0]))
            data = data[:5000]
            for q in (0, 1, 2):
                for v, pa in ((1, True), (0, True), (1, False)):
                    if (v, pa) != (1, True) and it % 3:
                        continue
                    cfg = (v, q, 1, pa)
                    sched = [] if it % 2 else [rng.choice([None, None, 0, 1, 3]) for _ in range(rng.randrange(0, 30))]
                    res, st = add_file_case(em, p, data, sched, cfg, 25, "arbitrary stream of %d bytes, mode %d" % (len(data), q))
                    em.direct_evaluations += 1
                    for h, r in res:
                        if r[0] == "F":
                            em.violation("C04: foreign exception escaped read(): %s" % r[1], {"stream": data.hex(), "cfg": list(cfg), "schedule": [(-1 if d is None else d) for d in sched]}, {})
                        if r[0] == "R" and q != 2:
                            em.violation("C04: read() raised in mode %d" % q, {"stream": data.hex(), "cfg": list(cfg)}, {})
            # iteration terminates (bounded number of next() calls)
            em.direct_evaluations += 1
            itr = iter(p.RTCMReader(io.BytesIO(data), quitonerror=0))
            n = 0
            try:
                with vlib.watchdog(20):
                    for _ in itr:
                        n += 1
                        if n > len(data) + 5:
                            em.violation("C04: iteration over a finite stream does not finish", {"stream": data.hex()}, {})
                            break
            except vlib.WatchdogTimeout:
                em.violation("C04: iteration over a finite stream does not finish (one next() call ran for 20 s)", {"stream": data.hex()}, {})
            except Exception as e:  # noqa
                em.violation("C04: iterator raised %r in ignore mode" % e, {"stream": data.hex()}, {})
        # finite SOCKET streams, plain and chunked, cut anywhere (also in the middle of a chunk) and then closed by the peer:
        # iteration must finish and nothing foreign may escape
        for it in range(30 if thorough else 10):
            data, items = mixed_stream(tabs, rng, rng.randrange(1, 5), ["frame", "frame", "nmea", "ubx", "noise", "damaged"], None)
            data = data[:1500]
            body = b""
            i = 0
            while i < len(data):
                j = min(len(data), i + rng.choice([3, 19, 64, 300]))
                body += b"%x\r\n" % (j - i) + data[i:j] + b"\r\n"
                i = j
            for chunked, wire in ((False, data), (True, body), (True, body + b"0\r\n\r\n")):
                for cutat in sorted(set([len(wire)] + [rng.randrange(0, len(wire) + 1) for _ in range(3)])):
                    w = wire[:cutat]
                    n_ = len(w)
                    cuts = sorted(rng.sample(range(1, n_), min(n_ - 1, rng.choice([0, 1, 4])))) if n_ > 1 else []
                    segs = [w[a_:b_] for a_, b_ in zip([0] + cuts, cuts + [n_])] if n_ else []
                    for q in (0, 2):
                        res = add_sock_case(em, p, segs + [b""], (1, q, 1, True), len(items) + 4,
                                            "%s socket stream of %d bytes cut at %d then closed, mode %d" % ("chunked" if chunked else "plain", len(wire), cutat, q), chunked=chunked)
                        em.direct_evaluations += 1
                        for h, r in res:
                            if r[0] == "F":
                                em.violation("C04: reader over a socket: %s" % r[1], {"recv_events": [x.hex() for x in segs] + [""], "chunked": chunked, "cfg": [1, q, 1, True]}, {})
                            if r[0] == "R" and q != 2:
                                em.violation("C04: read() over a socket raised in mode %d" % q, {"recv_events": [x.hex() for x in segs] + [""], "chunked": chunked}, {})
        # hostile CHUNKED wire (direct only; the constructor already receives): arbitrary bytes where a chunked body is expected, and
        # crafted chunk-size lines -- enormous (2**63, 2**64, 80 bits), signed, prefixed, blank, underscored, with extensions, non-hex
        def sock_all(segs, q):
            sk = FakeSocket(list(segs) + [b""])
            try:
                with vlib.watchdog(8):
                    n = 0
                    for _ in p.RTCMReader(sk, quitonerror=q, encoding=1):
                        n += 1
                        if n > 20000:
                            return "iteration does not finish"
                return None
            except vlib.WatchdogTimeout:
                return "did not finish within 8 s"
            except Exception as e:  # noqa
                return None if (vlib.exc_tag(e) != 5 and q == 2) else repr(e)
            finally:
                sk.close()
        good = gen.frame(valid_payloads(tabs, rng, 1)[0])
        okchunk = b"%x\r\n" % len(good) + good + b"\r\n"
        sizes = [b"8000000000000000", b"7fffffffffffffff", b"10000000000000000", b"ffffffffffffffffffff", b"-5", b"+5", b"0x5", b" 5 ", b"1_0", b"",
                 b"zz", b"5;ext=1", b"00000000000000000005", b"\xff\xfe", b"5\x00"]
        wires = [okchunk + sz + b"\r\n" + good[:5] + b"\r\n" + okchunk + b"0\r\n\r\n" for sz in sizes]
        wires += [sz + b"\r\n" + good for sz in sizes[:4]]
        wires += [bytes(rng.getrandbits(8) for _ in range(rng.randrange(1, 200))) for _ in range(20 if thorough else 8)]
        wires += [b"".join(rng.choice([b"\r\n", b"5", b"a", b"F", b"0", b"\n", b"\r", good[:7], b"-", b" "]) for _ in range(rng.randrange(1, 40))) for _ in range(40 if thorough else 15)]
        for w in wires:
            n_ = len(w)
            for rep in range(2):
                cuts = sorted(rng.sample(range(1, n_), min(n_ - 1, rep * 3))) if n_ > 1 else []
                segs = [w[a_:b_] for a_, b_ in zip([0] + cuts, cuts + [n_])]
                for q in (0, 1, 2):
                    em.direct_evaluations += 1
                    bad_ = sock_all(segs, q)
                    if bad_:
                        em.violation("C04: reader over a chunked socket fed hostile bytes: %s (mode %d)" % (bad_[:160], q),
                                     {"recv_events": [x.hex() for x in segs] + [""], "chunked": True, "cfg": [1, q, 1, True]}, {})
                        break
        em.count("hostile.chunked", len(wires))
        em.samples = [{"streams": "hostile item mixes, sync-dense noise, random bytes, embedded short-payload frames; three modes; with and without faults; plain and chunked sockets cut anywhere; hostile chunked wire incl. enormous / signed / malformed size lines"}]

    elif prop == "C11":
        zero_frame_boundaries(em, p, tabs, rng, "C11")
        for it in range(60 if thorough else 18):
            data, items = mixed_stream(tabs, rng, rng.randrange(2, 10), ["frame", "frame", "zero", "nmea", "ubx", "noise", "damaged"], None)
            if len(data) > 6000:
                continue
            want = [(r[1], None if r[2] is None else r[2].payload) for h, r in run_reader(p, FStream(data), (1, 0, 1, True), len(items) + 2)[0] if r[0] == "Y"]
            parts = []
            n = len(data)
            parts.append([data])
            parts.append([data[i:i + 1] for i in range(n)] if n <= 1500 else [data[i:i + 3] for i in range(0, n, 3)])
            for _ in range(4 if thorough else 2):
                cuts = sorted(rng.sample(range(1, n), min(n - 1, rng.randrange(1, 12)))) if n > 1 else []
                parts.append([data[a_:b_] for a_, b_ in zip([0] + cuts, cuts + [n])])
            for segs in parts:
                bs = rng.choice([1, 2, 7, 64, 1000, 4096])
                res = add_sock_case(em, p, segs, (1, 0, 1, True), len(items) + 3, "mixed stream over a socket in %d segments, bufsize %d" % (len(segs), bs), bufsize=bs)
                em.direct_evaluations += 1
                got = [(r[1], None if r[2] is None else r[2].payload) for h, r in res if r[0] == "Y"]
                if got != want:
                    em.violation("C11: reader over a socket returns different messages than over a file", {"stream": data.hex(), "segments": [len(s) for s in segs]}, {})
            # timeouts between segments lose nothing: keep reading after empty results
            cuts = sorted(rng.sample(range(1, n), min(n - 1, 5)))
            segs = [data[a_:b_] for a_, b_ in zip([0] + cuts, cuts + [n])]
            evs = []
            for s in segs:
                evs.append(s)
                if rng.random() < 0.6:
                    evs.append(None)
            res = add_sock_case(em, p, evs, (1, 0, 1, True), len(items) + len(evs) + 3, "segments interleaved with timeouts / OSError")
        # the same with chunked transfer encoding switched on and chunks spread over several receives (a receive that completes no chunk is
        # not the end of the stream): reader over the socket == reader over a file holding the decoded bytes
        for it in range(10 if thorough else 4):
            data, items = mixed_stream(tabs, rng, rng.randrange(2, 6), ["frame", "frame", "nmea", "ubx", "noise"], None)
            data = data[:2500]
            want = [(r[1], None if r[2] is None else r[2].payload) for h, r in run_reader(p, FStream(data), (1, 0, 1, True), len(items) + 2)[0] if r[0] == "Y"]
            body = b""
            i = 0
            while i < len(data):
                j = min(len(data), i + rng.choice([40, 120, 400]))
                body += b"%x\r\n" % (j - i) + data[i:j] + b"\r\n"
                i = j
            body += b"0\r\n\r\n"
            for seglen in (7, 20, 33):
                segs = [body[k_:k_ + seglen] for k_ in range(0, len(body), seglen)]
                res = add_sock_case(em, p, segs, (1, 0, 1, True), len(items) + 3, "chunked body in %d-byte receives (chunks span several receives)" % seglen, chunked=True, bufsize=rng.choice([16, 64, 4096]))
                em.direct_evaluations += 1
                got = [(r[1], None if r[2] is None else r[2].payload) for h, r in res if r[0] == "Y"]
                if got != want:
                    em.violation("C11: reader over a chunked socket whose chunks span several receives returns different messages than over a file",
                                 {"recv_events": [x.hex() for x in segs], "chunked": True, "decoded": data.hex()}, {"returned": len(got), "expected": len(want)})
        em.samples = [{"segmentations": "all-at-once, byte-wise, random cuts, with timeouts; chunked bodies in small receives"}]

    elif prop == "C13":
        # the same bytes through many reader objects (file- and socket-backed, interleaved with readers over OTHER data):
        # every reader must behave like the first one and like the pure model
        streams = []
        for it in range(8 if thorough else 4):
            data, items = mixed_stream(tabs, rng, rng.randrange(2, 6), ["frame", "frame", "nmea", "noise", "damaged", "repeat"], None)
            if len(data) <= 3000:
                streams.append((data, items))
        ref = {}
        for rep in range(3):
            order = list(range(len(streams)))
            rng.shuffle(order)
            for si in order:
                data, items = streams[si]
                n_ = len(data)
                cuts = sorted(rng.sample(range(1, n_), min(n_ - 1, 3)))
                segs = [data[a_:b_] for a_, b_ in zip([0] + cuts, cuts + [n_])]
                for kind in ("file", "sock"):
                    if kind == "file":
                        res, st = add_file_case(em, p, data, [], (1, 0, 1, True), len(items) + 3, "stream %d through a fresh file reader (pass %d)" % (si, rep))
                    else:
                        res = add_sock_case(em, p, segs, (1, 0, 1, True), len(items) + 3, "stream %d through a fresh socket reader (pass %d)" % (si, rep), bufsize=rng.choice([16, 4096]))
                    em.direct_evaluations += 1
                    view = [(r[0], r[1] if r[0] == "Y" else None, None if r[0] != "Y" or r[2] is None else gen.public_attrs(r[2])) for h, r in res]
                    if ref.setdefault((si, kind), view) != view:
                        em.violation("C13: the same bytes through a new %s reader give a different result than the first time" % kind,
                                     {"stream": data.hex(), "recv_events": [x.hex() for x in segs]}, {})
                    if kind == "sock" and [v for v in view if v[0] == "Y"] != [v for v in ref[(si, "file")] if v[0] == "Y"]:
                        em.violation("C13: socket reader and file reader disagree on the same bytes", {"stream": data.hex(), "recv_events": [x.hex() for x in segs]}, {})
        zero_frame_boundaries(em, p, tabs, rng, "C13")
        # a new reader object for every message over ONE shared stream, the previous reader dropped and collected before the next is made
        import gc as _gc
        for si, (data, items) in enumerate(streams[:4]):
            want = [(r[0], r[1] if r[0] == "Y" else None) for h, r in run_reader(p, io.BytesIO(data), (1, 0, 1, True), len(items) + 3)[0]]
            shared = io.BytesIO(data)
            got = []
            try:
                for _ in range(len(items) + 3):
                    rd_ = p.RTCMReader(shared, quitonerror=0)
                    raw, parsed = rd_.read()
                    got.append(("E", None) if raw is None and parsed is None else ("Y", raw))
                    del rd_
                    _gc.collect()
            except Exception as e:  # noqa
                got.append(("X", repr(e)))
            em.direct_evaluations += 1
            if got != want:
                em.violation("C13: reading a stream through a new reader object per message (earlier readers dropped) differs from reading it through one reader: %s" % repr([g for g in got if g[0] == "X"][:1]),
                             {"stream": data.hex(), "note": "new RTCMReader(shared_stream) per read(), del + gc.collect() in between"}, {})
        # all the readers alive at the same time, with different options, read in turn
        jobs = []
        for si, (data, items) in enumerate(streams[:6]):
            n_ = len(data)
            cuts = sorted(rng.sample(range(1, n_), min(n_ - 1, 3)))
            segs = [data[a_:b_] for a_, b_ in zip([0] + cuts, cuts + [n_])]
            jobs.append((data, (si % 2, si % 3, 1 + si % 2, si % 4 != 3), segs if si % 2 else None))
        if jobs:
            check_live(em, p, "C13", jobs, "different streams")
        em.samples = [{"note": "the same streams through fresh file and socket readers, three shuffled passes; several live readers read in turn"}]

    elif prop == "C16":
        # the reader passes the label option through to every parse: several readers with different label options alive at once and
        # read in turn each keep their own option; what a reader returns equals the constructor called with that option
        for it in range(16 if thorough else 6):
            data, items = mixed_stream(tabs, rng, rng.randrange(3, 7), ["msm", "msm", "msm", "frame", "nmea"], None)
            if len(data) > 12000:
                continue
            if it % 3 == 2:
                # a false frame header whose length field reaches over a complete MSM frame (and fails its checksum), then the stream:
                # whatever a reader still returns from such a stream must be labelled by the reader's own option
                inner = [x[1] for x in items if x[0] == "frame"][:1]
                if inner:
                    k_ = rng.randrange(1, 9)
                    n2 = len(inner[0]) + k_
                    data = bytes([0xD3, n2 >> 8, n2 & 255]) + inner[0] + bytes(rng.getrandbits(8) for _ in range(k_ + 3)) + data
            n_ = len(data)
            cuts = sorted(rng.sample(range(1, n_), min(n_ - 1, 4)))
            segs = [data[a_:b_] for a_, b_ in zip([0] + cuts, cuts + [n_])]
            jobs = [(data, (1, 0, 1, True), None), (data, (1, 0, 2, True), None), (data, (1, 1, 1, True), segs), (data, (0, 0, 2, True), None), (data, (1, 0, 1, True), None)]
            if it % 2:
                jobs.reverse()
            check_live(em, p, "C16", jobs, "one MSM stream under both label options")
            for lab in (1, 2):
                for v_ in live_readers(p, [(data, (1, 0, lab, True), None)], False)[0]:
                    if v_[0] == "Y" and v_[2] is not None:
                        em.direct_evaluations += 1
                        if full_obs(p.RTCMMessage(payload=v_[1][3:-3], labelmsm=lab)) != v_[2]:
                            em.violation("C16: a reader with labelmsm=%d returns a message that differs from the constructor called with that option" % lab,
                                         {"stream": data.hex(), "cfg": [1, 0, lab, True], "frame": v_[1].hex()}, {})
        em.samples = [{"note": "MSM streams through several live readers with label options 1 / 2, read in turn; reader result == constructor with the same option"}]

    elif prop == "C12":
        # the reader over a CHUNKED socket: a mixed stream cut into chunks of random sizes, sent in random segments
        for it in range(40 if thorough else 12):
            data, items = mixed_stream(tabs, rng, rng.randrange(2, 8), ["frame", "frame", "zero", "nmea", "ubx", "noise", "damaged", "repeat"], None)
            if len(data) > 4000:
                continue
            want = [(r[1], None if r[2] is None else r[2].payload) for h, r in run_reader(p, FStream(data), (1, 0, 1, True), len(items) + 2)[0] if r[0] == "Y"]
            body = b""
            i = 0
            while i < len(data):
                j = min(len(data), i + rng.choice([1, 2, 7, 19, 64, 300]))
                body += (rng.choice(["%x", "%X", "0%x"]) % (j - i)).encode() + b"\r\n" + data[i:j] + b"\r\n"
                i = j
            if rng.random() < 0.7:
                body += b"0\r\n\r\n"
            for rep in range(3 if thorough else 2):
                n = len(body)
                cuts = sorted(rng.sample(range(1, n), min(n - 1, rng.choice([0, 1, 3, 10, 40])))) if n > 1 else []
                segs = [body[a_:b_] for a_, b_ in zip([0] + cuts, cuts + [n])]
                res = add_sock_case(em, p, segs, (1, 0, 1, True), len(items) + 3, "mixed stream in a chunked body of %d bytes, %d segments" % (n, len(segs)), chunked=True)
                em.direct_evaluations += 1
                got = [(r[1], None if r[2] is None else r[2].payload) for h, r in res if r[0] == "Y"]
                if got != want:
                    em.violation("C12: reader over a chunked socket returns different messages than over the decoded bytes",
                                 {"recv_events": [x.hex() for x in segs], "chunked": True, "decoded": data.hex()}, {"returned": len(got), "expected": len(want)})
        em.samples = [{"note": "mixed streams wrapped in chunked transfer encoding with random chunk sizes and receive boundaries"}]
    em.finish()


if __name__ == "__main__":
    main()
