"""Re-run the inputs recorded in a replay file on the implementation of the current working tree and print what happens."""
import json
import sys

import vlib


def show(x):
    s = repr(x)
    return s if len(s) < 1500 else s[:1500] + "..."


def main():
    d = json.load(open(sys.argv[1]))
    p = vlib.import_impl()
    import gen
    rc = 0
    for v in d.get("failing_inputs", []):
        inp = v.get("input") or (v.get("case") or {}).get("input") or {}
        print("---", v.get("kind"), v.get("driver"), v.get("desc"))
        try:
            if "payload" in inp:
                pl = bytes.fromhex(inp["payload"])
                for lab in ([inp["labelmsm"]] if "labelmsm" in inp else [1]):
                    try:
                        m = p.RTCMMessage(payload=pl, labelmsm=lab)
                        print("RTCMMessage ->", show(gen.public_attrs(m)))
                        try:
                            print("parse_msm ->", show(p.parse_msm(m)))
                        except Exception as e:  # noqa
                            print("parse_msm raised", repr(e))
                    except Exception as e:  # noqa
                        print("RTCMMessage raised", repr(e))
            if "name" in inp:
                for f in (p.att2idx, p.att2name, p.datadesc):
                    try:
                        print(f.__name__, "->", show(f(inp["name"])))
                    except Exception as e:  # noqa
                        print(f.__name__, "raised", repr(e))
            if "stream" in inp:
                import drv_reader
                data = bytes.fromhex(inp["stream"])
                cfgs = [tuple(inp.get("cfg(validate,quitonerror,labelmsm,parsed)") or inp.get("cfg") or (1, 0, 1, True))]
                sched = [None if x < 0 else x for x in inp.get("schedule", [])]
                for cfg in cfgs:
                    res, _ = drv_reader.run_reader(p, drv_reader.FStream(data, sched), cfg, inp.get("reads", 30))
                    print("reader", cfg, "->", show(drv_reader.readable(res)))
            if "recv_events" in inp and "ops" in inp:
                import drv_sock
                evs = [bytes.fromhex(e) if e is not None else None for e in inp["recv_events"]]
                try:
                    print("socket ->", show(drv_sock.run_ops(p, evs, inp["ops"], encoding=inp.get("encoding", 0), bufsize=inp.get("bufsize", 4096))))
                except Exception as e:  # noqa
                    print("socket raised", repr(e))
            if "segments" in inp:
                import drv_sock
                evs = [bytes.fromhex(e) for e in inp["segments"]]
                n = sum(len(e) for e in evs)
                try:
                    print("socket ->", show(drv_sock.run_ops(p, evs, inp.get("ops", [1] * (n + 2)), encoding=inp.get("encoding", 0))))
                except Exception as e:  # noqa
                    print("socket raised", repr(e))
            if "message" in inp:
                m = bytes.fromhex(inp["message"])
                print("calc_crc24q ->", p.calc_crc24q(m), "reference", gen.crc24q_ref(m))
            if "frame" in inp:
                fr = bytearray(bytes.fromhex(inp["frame"]))
                for b in inp.get("bits", []):
                    fr[b // 8] ^= 0x80 >> (b % 8)
                try:
                    print("parse ->", p.RTCMReader.parse(bytes(fr)))
                except Exception as e:  # noqa
                    print("parse raised", repr(e))
        except Exception as e:  # noqa
            print("replay machinery error", repr(e))
            rc = 2
        if v.get("model"):
            print("model said:", str(v["model"])[-1500:])
    for o in d.get("failed_obligations", []):
        print("--- failed obligation:", o["name"], "::", o.get("detail", "")[-800:])
    return rc


if __name__ == "__main__":
    sys.exit(main())
