"""Driver `crc`: calc_crc24q / crc2bytes / len2bytes against the Gallina mirror, plus the direct search for C08
(reference remainder by GF(2) long division; exhaustive single-bit / adjacent-pair flips, sampled two-bit, odd and burst
damage of valid frames must be rejected by RTCMReader.parse; validate=0 must ignore the checksum bytes)."""
import random

import drvlib
import gen
import vlib


def main():
    a = drvlib.args()
    vlib.import_impl()
    from pyrtcm import RTCMReader, calc_crc24q, crc2bytes, len2bytes
    from pyrtcm.exceptions import RTCMParseError
    rng = random.Random(a.seed * 1000003 + 8)
    thorough = a.tier == "thorough"
    em = drvlib.Emitter(a.out, "crc", tables=False)
    if a.prop != "C08":
        # run on behalf of a property that rests on the checksum helpers (framing, validation, serialisation): say so in what is reported
        _v = em.violation
        em.violation = lambda desc, inp, detail, key=None: _v("%s (through the checksum helpers it rests on): %s" % (a.prop, desc), inp, detail, key)
    tabs = gen.Tabs()

    msgs = []
    for n in list(range(0, 41)) + [255, 256, 257, 1023, 1024, 1029, 2000]:
        msgs.append(("zeros", bytes(n)))
        msgs.append(("ones", b"\xff" * n))
        if n:
            msgs.append(("singlebit", bytes(n - 1) + b"\x01"))
            msgs.append(("firstbit", b"\x80" + bytes(n - 1)))
        msgs.append(("random", bytes(rng.getrandbits(8) for _ in range(n))))
    for _ in range(600 if thorough else 150):
        n = rng.choice([rng.randrange(0, 64), rng.randrange(0, 300), rng.randrange(0, 1500)])
        msgs.append(("random", bytes(rng.getrandbits(8) for _ in range(n))))
    frames = []
    idents = list(tabs.ALL)
    for _ in range(60 if thorough else 25):
        b = gen.build(tabs, rng.choice(idents), rng)
        if b and 2 <= len(b.payload) <= 1023:
            frames.append(gen.frame(b.payload))
    frames.append(gen.frame(bytes([0x3e, 0xd0]) + bytes(1021)))
    for f in frames:
        msgs.append(("frame", f))
        msgs.append(("frame-nocrc", f[:-3]))

    # every 1-byte and every 2-byte message (direct only): whatever table a byte-wise / pair-wise implementation indexes, from a zero
    # register these reach each of its entries; plus 3-byte messages sampled
    for v in list(range(256)) + list(range(256, 65536 + 256)) + [None] * (20000 if thorough else 4000):
        m = bytes([v]) if v is not None and v < 256 else (v - 256).to_bytes(2, "big") if v is not None else bytes(rng.getrandbits(8) for _ in range(3))
        em.direct_evaluations += 1
        try:
            c = calc_crc24q(m)
        except Exception as e:  # noqa
            em.violation("crc helper raised %r" % e, {"message": m.hex()}, repr(e))
            break
        if c != gen.crc24q_ref(m):
            em.violation("calc_crc24q differs from the CRC-24Q remainder", {"message": m.hex()}, {"impl": c, "reference": gen.crc24q_ref(m)})
            break
    em.count("exhaustive.1_and_2_byte_messages", 65792)
    for kind, m in msgs:
        em.count("kind." + kind)
        em.count("len.%s" % ("0" if not m else "1-40" if len(m) <= 40 else "41-300" if len(m) <= 300 else ">300"))
        try:
            c = calc_crc24q(m)
            cb = crc2bytes(m)
            lb = len2bytes(m)
        except Exception as e:  # noqa
            em.violation("crc helper raised %r" % e, {"message": m.hex()}, repr(e))
            continue
        exp = vlib.ser_Z(c) + b"\x00" + vlib.ser_bytes(cb) + b"\x00" + vlib.ser_bytes(lb)
        em.add("obs_crc (unpack %s)" % vlib.blob(m), exp, [], "crc of %d-byte %s message" % (len(m), kind),
               {"message": m.hex()}, {"crc": c, "crc2bytes": cb.hex(), "len2bytes": lb.hex()},
               explain="(calc_crc24q (unpack %s), crc2bytes (unpack %s))" % (vlib.blob(m), vlib.blob(m)), size=len(m), spec=["crc", m.hex()])
        # direct: reference remainder
        em.direct_evaluations += 1
        ref = gen.crc24q_ref(m)
        if c != ref:
            em.violation("calc_crc24q differs from the CRC-24Q remainder", {"message": m.hex()}, {"impl": c, "reference": ref})
        if calc_crc24q(m + ref.to_bytes(3, "big")) != 0:
            em.violation("crc over message+crc is not zero", {"message": m.hex()}, {})
    # the same (mutable) buffer object reused between calls and altered in place: every call must see the current content
    for f in frames[:6]:
        buf = bytearray(f)
        em.direct_evaluations += 3
        ok0 = calc_crc24q(buf) == gen.crc24q_ref(bytes(buf))
        try:
            RTCMReader.parse(buf, validate=1)
        except Exception:  # noqa
            pass
        q = rng.randrange(0, len(buf) * 8)
        buf[q // 8] ^= 0x80 >> (q % 8)
        if not ok0 or calc_crc24q(buf) != gen.crc24q_ref(bytes(buf)):
            em.violation("calc_crc24q on a reused buffer altered in place returns a stale value", {"message": bytes(buf).hex(), "previous_content": f.hex()}, {})
        try:
            RTCMReader.parse(buf, validate=1)
            em.violation("a frame damaged in place after having been parsed is accepted", {"frame": f.hex(), "bits": [q], "note": "same bytearray object parsed before the damage"}, {})
        except RTCMParseError:
            pass
        except Exception:  # noqa
            pass
    em.samples = [{"message": m.hex()[:80], "kind": k} for k, m in msgs[50:53]]

    # ---- direct search: guaranteed-detectable damage must be rejected by the static parser
    def rejected(fr):
        try:
            RTCMReader.parse(fr, validate=1)
        except RTCMParseError:
            return True
        except Exception:  # other library errors do not count as CRC rejection
            return False
        return False

    def flip(fr, positions):
        b = bytearray(fr)
        for p in positions:
            b[p // 8] ^= 0x80 >> (p % 8)
        return bytes(b)

    ndet = 0
    # the shortest frames first (payloads of 0, 1 and 2 bytes: "for every frame length"), then frames of defined types
    shortest = [gen.frame(b""), gen.frame(b"\x3e"), gen.frame(b"\x00"), gen.frame(bytes([0x3e, 0xd0])), gen.frame(bytes([0xfe, 0xc0, 0x2a]))]
    for fi, f in enumerate(shortest + frames[: (12 if thorough else 5)]):
        nb = len(f) * 8
        ok0 = True
        try:
            RTCMReader.parse(f, validate=1)
        except Exception as e:  # noqa
            ok0 = False
        singles = range(nb) if (thorough or nb <= 2400) else rng.sample(range(nb), 2400)
        for p in singles:
            ndet += 1
            if not rejected(flip(f, [p])):
                em.violation("single flipped bit accepted", {"frame": f.hex(), "bits": [p]}, {})
        for p in (range(nb - 1) if nb <= 2400 else rng.sample(range(nb - 1), 2400)):
            ndet += 1
            if not rejected(flip(f, [p, p + 1])):
                em.violation("two adjacent flipped bits accepted", {"frame": f.hex(), "bits": [p, p + 1]}, {})
        for _ in range(3000 if thorough else 600):
            p, q = rng.sample(range(nb), 2)
            ndet += 1
            if not rejected(flip(f, [p, q])):
                em.violation("two flipped bits accepted", {"frame": f.hex(), "bits": [p, q]}, {})
        for _ in range(1500 if thorough else 300):
            k = rng.choice([3, 5, 7, 9, 11, 21, 33])
            if k > nb:
                continue
            ps = rng.sample(range(nb), k)
            ndet += 1
            if not rejected(flip(f, ps)):
                em.violation("odd number of flipped bits accepted", {"frame": f.hex(), "bits": ps}, {})
        for _ in range(3000 if thorough else 600):
            ln = rng.randrange(2, 25)
            if ln > nb:
                continue
            st = rng.randrange(0, nb - ln + 1)
            inner = [st + i for i in range(1, ln - 1) if rng.random() < 0.5]
            ndet += 1
            if not rejected(flip(f, [st, st + ln - 1] + inner)):
                em.violation("burst of <=24 bits accepted", {"frame": f.hex(), "bits": [st, st + ln - 1] + inner}, {})
        # validate off: checksum bytes irrelevant
        for _ in range(20):
            g = f[:-3] + bytes(rng.getrandbits(8) for _ in range(3))
            ndet += 1
            try:
                m1 = RTCMReader.parse(f, validate=0)
                m2 = RTCMReader.parse(g, validate=0)
                if gen.public_attrs(m1) != gen.public_attrs(m2) or m1.payload != m2.payload:
                    em.violation("validate=0 result depends on checksum bytes", {"frame": f.hex(), "other": g.hex()}, {})
            except Exception as e:  # noqa
                if ok0:
                    em.violation("validate=0 parse raised %r" % e, {"frame": g.hex()}, repr(e))
    # frames whose checksum IS 000000 (header+payload divisible by the generator) and damage that makes the remainder of
    # header+payload vanish: "no remainder" must not be read as "nothing to check"
    for f in frames[: (10 if thorough else 5)]:
        body = f[:-3]
        if len(body) < 9:
            continue
        z = body[:-3] + gen.crc24q_ref(body[:-3]).to_bytes(3, "big")          # last three payload bytes := CRC of what precedes
        zf = z + b"\x00\x00\x00"                                             # a VALID frame with checksum 000000
        ndet += 1
        if gen.crc24q_ref(z) != 0 or rejected(zf) and False:
            pass
        try:
            RTCMReader.parse(zf, validate=1)
        except RTCMParseError:
            em.violation("a valid frame whose checksum is 000000 is rejected", {"frame": zf.hex(), "bits": []}, {})
        except Exception:  # noqa  (the altered payload may not decode: not the CRC gate's business)
            pass
        nbz = len(zf) * 8
        for ps in ([nbz - 1], [nbz - 24], [nbz - 9, nbz - 2], [nbz - 1, nbz - 2, nbz - 3], [nbz - 24, nbz - 1] + [nbz - 5, nbz - 13]):
            ndet += 1
            if not rejected(flip(zf, ps)):
                em.violation("damage confined to the checksum field of a frame whose correct checksum is 000000 is accepted", {"frame": zf.hex(), "bits": ps}, {})
        # the original frame with its last three payload bytes overwritten that way: a burst of at most 24 bits
        g = z + f[-3:]
        if g != f:
            ndet += 1
            bits = [i for i in range(len(f) * 8) if (f[i // 8] ^ g[i // 8]) >> (7 - i % 8) & 1]
            if not rejected(g):
                em.violation("an error burst of at most 24 bits that makes header+payload divisible by the generator is accepted", {"frame": f.hex(), "bits": bits}, {})
        em.count("damage.zero_remainder")
    # histories: the SAME damaged bytes looked at with validation off first (a diagnostic look at a frame that failed), through the
    # reader or the static parser, then parsed with validation on -- and the other way round: the verdict with validation on must not
    # depend on what was parsed before
    import io as _io
    for f in frames[: (8 if thorough else 4)]:
        nb = len(f) * 8
        for _ in range(12 if thorough else 6):
            kind = rng.choice(["one", "two", "odd", "burst", "crc"])
            if kind == "one":
                ps = [rng.randrange(nb)]
            elif kind == "two":
                ps = rng.sample(range(nb), 2)
            elif kind == "odd":
                ps = rng.sample(range(nb), rng.choice([3, 5, 7]))
            elif kind == "burst":
                st = rng.randrange(0, nb - 24)
                ps = [st, st + 23] + [st + i for i in range(1, 23) if rng.random() < 0.5]
            else:
                ps = [nb - 1 - rng.randrange(24)]
            g = flip(f, ps)
            ndet += 3
            for how in ("static", "reader"):
                try:
                    if how == "static":
                        RTCMReader.parse(g, validate=0)
                    else:
                        list(RTCMReader(_io.BytesIO(g + g), validate=0, quitonerror=0))
                except Exception:  # noqa
                    pass
                if not rejected(g):
                    em.violation("a damaged frame is accepted with validation on after the same bytes were parsed with validation off (%s)" % how,
                                 {"frame": f.hex(), "bits": ps, "note": "history: parse(validate=0) of the damaged bytes via the %s, then parse(validate=1)" % how}, {})
                # (through a stream only for damage behind the length field: a damaged length changes what the reader takes for the frame)
                got = [r for r, _ in RTCMReader(_io.BytesIO(g + f + g), validate=1, quitonerror=0)] if min(ps) >= 24 else [f]
                if got != [f]:
                    em.violation("reader with validation on returns %d frames from damaged+good+damaged after the damaged bytes were parsed with validation off" % len(got),
                                 {"frame": f.hex(), "bits": ps, "note": "history: validate=0 parse first"}, {})
            # ... and a good frame parsed first must not make its damaged sibling acceptable, nor the reverse
            try:
                RTCMReader.parse(f, validate=1)
            except Exception:  # noqa
                pass
            if not rejected(g):
                em.violation("a damaged frame is accepted right after its undamaged original was parsed", {"frame": f.hex(), "bits": ps}, {})
        em.count("damage.history")
    # an operation of the library that FAILS half-way (serialising a message whose payload does not fit the length field raises) must not
    # leave anything behind that changes the next checksum computation or the next verdict
    from pyrtcm import RTCMMessage as _RM
    for f in frames[:3]:
        try:
            _RM(payload=bytes([0x3e, 0xd0]) + bytes(65540)).serialize()
        except Exception:  # noqa
            pass
        ndet += 3
        if calc_crc24q(f) != 0 or calc_crc24q(f[:-3]) != gen.crc24q_ref(f[:-3]):
            em.violation("calc_crc24q returns a wrong value right after a serialize() call that raised", {"message": f.hex(), "note": "history: RTCMMessage(65542-byte payload).serialize() raised just before"}, {})
        try:
            _RM(payload=bytes([0x3e, 0xd0]) + bytes(65540)).serialize()
        except Exception:  # noqa
            pass
        g = flip(f, [0, 1, 8, 17, 23])
        if not rejected(g):
            em.violation("a damaged frame is accepted right after a serialize() call that raised", {"frame": f.hex(), "bits": [0, 1, 8, 17, 23], "note": "history: failed serialize() first"}, {})
        em.count("damage.after_failed_serialize")
    # damage of the LENGTH field that turns the frame into <valid shorter frame> + residue: still damage, still to be rejected
    for lf, bits, short in gen.prefix_frame_pairs(rng):
        ndet += 2
        try:
            RTCMReader.parse(lf, validate=1)
        except Exception as e:  # noqa
            em.violation("crafted long frame is not accepted: %r" % e, {"frame": lf.hex()}, {})
            continue
        if not rejected(flip(lf, bits)):
            em.violation("%d flipped bit(s) in the length field accepted (the damaged bytes begin with a valid shorter frame)" % len(bits), {"frame": lf.hex(), "bits": bits}, {})
        em.count("damage.prefixframe")
    # trailing residue after a valid frame is not that frame: the static parser's CRC gate covers the whole buffer it is given
    for f in frames[:4]:
        for extra in (b"\r\n", b"\x00", bytes(rng.getrandbits(8) for _ in range(5))):
            ndet += 1
            g = f + extra
            if gen.crc24q_ref(g[:-3]) != int.from_bytes(g[-3:], "big") and not rejected(g):
                em.violation("a buffer whose CRC-24Q is not zero is accepted with validation on", {"frame": g.hex(), "bits": [], "note": "valid frame + %d trailing bytes" % len(extra)}, {})
    em.direct_evaluations += ndet
    em.count("damage.evaluations", ndet)
    em.finish()


if __name__ == "__main__":
    main()
