"""Driver `tables` (C10): direct search on the implementation for layout defects.
 1. every identity decodes the payloads the independent encoder builds for it, and those payloads occupy exactly the pinned
    number of bits for their repeat counts (tools/pinned_lengths.py);
 2. combined orbit+clock blocks decode like the orbit block followed by the clock block (bit transplant);
 3. parallel families (IGS vs RTCM SSR blocks, IGS constellations among themselves) decode the same bits to the same values.
No correspondence cases are emitted: the Coq side of C10 is the per-run table theorems."""
import random

import drvlib
import gen
import pinned_lengths
import vlib


def group_slices(b, tabs):
    """per top-level group iteration: list of (key, width, offset, raw) for fields carrying a single index"""
    its = {}
    for nm, k, t, w, off, raw in b.fields:
        parts = nm[len(k):].split("_")[1:]
        if len(parts) >= 1:
            its.setdefault(int(parts[0]), []).append((nm, k, w, off, raw))
    return [its[i] for i in sorted(its)]


def bits_of(payload, off, w):
    v = int.from_bytes(payload, "big")
    return (v >> (len(payload) * 8 - off - w)) & ((1 << w) - 1) if w else 0


def make_payload(tabs, rng, ident, nsat, groupbits):
    """payload of `ident` with count = nsat whose group area is the given list of (value,width) sequences"""
    b = gen.build(tabs, ident, rng, force_counts={k: nsat for k in tabs.counters}, mode="zeros")
    if b is None:
        return None, None
    first = min((f[4] for f in b.fields if f[0] != f[1]), default=b.nbits)
    v = bits_of(b.payload, 0, first)
    n = first
    for val, w in groupbits:
        v = (v << w) | val
        n += w
    pad = (-n) % 8
    return (v << pad).to_bytes((n + pad) // 8, "big"), b


def values(m):
    return [v for k, v in gen.public_attrs(m) if "_" in k and k.split("_")[0] not in ("DF001",)]


def main():
    a = drvlib.args()
    p = vlib.import_impl()
    tabs = gen.Tabs()
    rng = random.Random(a.seed * 49979687 + 10)
    thorough = a.tier == "thorough"
    em = drvlib.Emitter(a.out, "tables", tables=True)

    # 1. decodable + pinned length
    for ident in tabs.ALL:
        built = 0
        bigs = gen.bigcount_builds(tabs, rng, [ident]) if ident in ("1007", "1008", "1029", "1033", "4076_201") else []
        for r in range((6 if thorough else 2) + len(bigs)):
            # the last rounds: repeat counters at 99 / 100 / 101 / their field maximum, harmonic layers of every shape
            b = gen.build(tabs, ident, rng, maxcount=rng.choice([1, 2, 3, 5])) if r < (6 if thorough else 2) else bigs[r - (6 if thorough else 2)]
            if b is None or len(b.payload) > 1023:
                continue
            built += 1
            em.direct_evaluations += 1
            em.count("family." + ("msm" if ident in tabs.M else "igs" if ident in tabs.I else "rtcm"))
            try:
                m = p.RTCMMessage(payload=b.payload)
            except Exception as e:  # noqa
                em.violation("C10: message type %s cannot be decoded: %r" % (ident, e), {"identity": ident, "payload": b.payload.hex()}, repr(e)[:300])
                continue
            nolabel = lambda l: [(k, v) for k, v in l if k.split("_")[0] not in ("PRN", "CELLPRN", "CELLSIG")]  # labels are C09's business
            if nolabel(gen.public_attrs(m)) != nolabel(b.exp):
                em.violation("C10: %s does not decode to the values laid out in definition order" % ident, {"identity": ident, "payload": b.payload.hex()}, {})
            if ident in pinned_lengths.PINNED:
                want = pinned_lengths.evaluate(ident, b.pathcounts)
                if want != b.nbits:
                    em.violation("C10: %s with counts %s occupies %d bits, the standard specifies %d" % (ident, dict(b.counts), b.nbits, want),
                                 {"identity": ident, "payload": b.payload.hex(), "counts": {str(k): v for k, v in b.pathcounts.items()}}, {})
                # one byte fewer than the pinned length must not parse (ties the pin to the decoder)
                need = (want + 7) // 8
                if need >= 3 and need <= len(b.payload):
                    try:
                        p.RTCMMessage(payload=b.payload[:need - 1])
                        em.violation("C10: %s accepted with %d bytes although the standard's length needs %d" % (ident, need - 1, need), {"payload": b.payload[:need - 1].hex()}, {})
                    except Exception:  # noqa
                        pass

        if not built and gen.LAST_ERROR[0] and gen.LAST_ERROR[0].startswith(ident + ":"):
            # the layout itself cannot be walked: look for a payload on which the implementation fails for a reason other than running out of bits
            mid, sub = gen.ident_header(ident)
            hdr = bytes([mid >> 4, (mid & 15) << 4]) if sub is None else bytes([mid >> 4, ((mid & 15) << 4) | (sub >> 7), (sub & 127) << 1])
            found = None
            sparse = [bytes(rng.getrandbits(8) & rng.getrandbits(8) & rng.getrandbits(8) for _ in range(1000)) for _ in range(40)]
            for fill in [b"\xff" * 300, b"\x55" * 300, bytes(rng.getrandbits(8) for _ in range(300))] + sparse:
                pay = hdr + fill
                try:
                    p.RTCMMessage(payload=pay)
                except Exception as e:  # noqa
                    c = e.__cause__
                    if not (isinstance(c, ValueError) and "negative shift" in str(c)):
                        found = (pay, e)
                        break
            em.direct_evaluations += 1
            if found:
                em.violation("C10: message type %s cannot be decoded: %r" % (ident, found[1]), {"identity": ident, "payload": found[0].hex()}, gen.LAST_ERROR[0])
            else:
                em.violation("C10: layout of %s is malformed (%s)" % (ident, gen.LAST_ERROR[0]), {"identity": ident}, gen.LAST_ERROR[0])

    # 2./3. bit transplants
    def transplant(src, dst, what, select=lambda grp: grp):
        for _ in range(4 if thorough else 2):
            nsat = rng.choice([1, 2])
            bs = gen.build(tabs, src, rng, force_counts={k: nsat for k in tabs.counters})
            if bs is None:
                continue
            groups = group_slices(bs, tabs)
            bits = []
            for g in groups:
                bits += [(raw, w) for nm, k, w, off, raw in select(g)]
            pay, bd = make_payload(tabs, rng, dst, len(groups), bits)
            if pay is None:
                continue
            em.direct_evaluations += 1
            try:
                ms = p.RTCMMessage(payload=bs.payload)
                md = p.RTCMMessage(payload=pay)
            except Exception as e:  # noqa
                em.violation("C10: %s: transplanted block does not decode: %r" % (what, e), {"source": bs.payload.hex(), "target": pay.hex()}, {})
                continue
            vs = []
            pub = dict(gen.public_attrs(ms))
            for g in groups:
                vs += [pub[nm] for nm, k, w, off, raw in select(g)]
            vd = values(md)
            # by name as well: an attribute that exists in both messages must have the same value (same bits)
            pd = dict(gen.public_attrs(md))
            named = [(nm, pub[nm], pd[nm]) for g in groups for nm, k, w, off, raw in select(g) if nm in pd and pd[nm] != pub[nm]]
            if named:
                em.violation("C10: %s: field %s decodes to %r in %s and %r in %s from the same bits" % (what, named[0][0], named[0][1], src, named[0][2], dst),
                             {"source_identity": src, "source": bs.payload.hex(), "target_identity": dst, "target": pay.hex()}, {"differing": repr(named[:6])})
            if vs != vd:
                em.violation("C10: %s: the same bits decode to different values" % what,
                             {"source_identity": src, "source": bs.payload.hex(), "target_identity": dst, "target": pay.hex()},
                             {"source_values": repr(vs)[:300], "target_values": repr(vd)[:300]})

    def has(*ids):
        return all(i in tabs.ALL for i in ids)
    triples = [("1060", "1057", "1058"), ("1066", "1063", "1064")] + [("4076_%03d" % (c + 3), "4076_%03d" % (c + 1), "4076_%03d" % (c + 2)) for c in (20, 40, 60, 80, 100, 120)]
    for comb, orb, clk in triples:
        if not has(comb, orb, clk):
            continue
        norb = len(group_slices(gen.build(tabs, orb, rng, force_counts={k: 1 for k in tabs.counters}), tabs)[0])
        transplant(comb, orb, "%s orbit part vs %s" % (comb, orb), lambda g: g[:norb])
        transplant(comb, clk, "%s clock part vs %s" % (comb, clk), lambda g: g[:1] + g[norb:])
    pairs = [("4076_021", "1057"), ("4076_022", "1058"), ("4076_023", "1060"), ("4076_024", "1062"), ("4076_027", "1061")]
    for c in ("04", "06", "08", "10", "12"):
        for k in "123467":
            pairs.append(("4076_%s%s" % (c, k), "4076_02%s" % k))
    for s_, d_ in pairs:
        if has(s_, d_):
            transplant(s_, d_, "%s block vs %s block" % (s_, d_))
    # the same decodes while other threads decode other message types (the layouts are shared tables; a decode must not depend on
    # what is being decoded next to it)
    import sys as _sys
    import threading as _th
    conc = []
    for ident in [i for t in triples for i in t if has(*t)][:9] + [i for i in ("1059", "1065", "4076_025", "1077", "1230", "1029") if has(i)]:
        b = gen.build(tabs, ident, rng, maxcount=3)
        if b is not None and len(b.payload) <= 1023:
            try:
                conc.append((ident, b.payload, gen.public_attrs(p.RTCMMessage(payload=b.payload))))
            except Exception:  # noqa
                pass
    errs = []

    def worker(seed):
        r = random.Random(seed)
        mine = conc * 60
        r.shuffle(mine)
        for ident, pay, want in mine:
            try:
                if gen.public_attrs(p.RTCMMessage(payload=pay)) != want:
                    errs.append((ident, pay))
            except Exception:  # noqa
                errs.append((ident, pay))
    oldsw = _sys.getswitchinterval()
    _sys.setswitchinterval(1e-6)
    try:
        ths = [_th.Thread(target=worker, args=(i,)) for i in range(6)]
        for t in ths:
            t.start()
        for t in ths:
            t.join()
    finally:
        _sys.setswitchinterval(oldsw)
    em.direct_evaluations += 360 * len(conc)
    for ident, pay in errs[:2]:
        em.violation("C10: %s decodes differently (or not at all) while other threads decode other message types" % ident,
                     {"identity": ident, "payload": pay.hex(), "note": "6 threads, switch interval 1e-6"}, {})
    em.samples = [{"checks": "decodability + pinned length of every identity; bit transplants between combined/orbit/clock and parallel families; decodes under concurrency"}]
    # the same direct checks once more in another interpreter mode: assertions stripped (python -O), another string-hash seed
    import os as _os
    if not _os.environ.get("VERIF_INNER"):
        import subprocess as _sp
        import tempfile as _tf
        import json as _json
        inner = _tf.mkdtemp(prefix="inner-", dir=a.out)
        env2 = dict(_os.environ)
        env2["VERIF_INNER"] = "1"
        env2["PYTHONHASHSEED"] = "987"
        pr = _sp.run([_sys.executable, "-O", _os.path.abspath(__file__), "--prop", a.prop, "--tier", a.tier, "--seed", str(a.seed), "--out", inner],
                     capture_output=True, text=True, env=env2, timeout=3000)
        try:
            mi = _json.load(open(_os.path.join(inner, "meta.json")))
        except Exception:  # noqa
            mi = None
        if pr.returncode != 0 or mi is None:
            em.violation("C10: the direct checks crash under python -O: %s" % pr.stderr[-300:], {"note": "python -O"}, {})
        else:
            em.direct_evaluations += mi.get("direct_evaluations", 0)
            for v in mi.get("direct_violations", [])[:5]:
                v["desc"] = "under python -O (assertions stripped): " + v["desc"]
                v.setdefault("input", {})["note"] = "python -O"
                em.direct_violations.append(v)
        em.count("second_interpreter_mode", 1)
    em.finish()


if __name__ == "__main__":
    main()
