"""Common driver plumbing: argument parsing, case-file emission, meta.json."""
import argparse
import json
import os
import random
import sys

import vlib

PREAMBLE = """From Coq Require Import NArith ZArith List String Bool PrimFloat Uint63.
From Coq.Strings Require Import Byte.
From PyRtcm Require Import Base.Bytes Base.Dec Model.Types Model.Crc Model.Message Model.Reader Model.Socket Model.Helpers Corr.CaseLib Corr.Obs.
%s
Import ListNotations.
Open Scope uint63_scope.
"""
TABLES_IMPORT = "From PyRtcmGen Require Import Tables."


def args():
    ap = argparse.ArgumentParser()
    ap.add_argument("--prop", required=True)
    ap.add_argument("--tier", default="quick")
    ap.add_argument("--seed", type=int, default=0)
    ap.add_argument("--out", required=True)
    ap.add_argument("--mode", default="")
    return ap.parse_args()


class Emitter:
    """collects cases (got-expression, expected blob, expected floats, description) and writes sharded .v files"""

    def __init__(self, out, driver, tables=True, shard_cases=400, shard_bytes=120000):
        self.out = out
        self.driver = driver
        self.preamble = PREAMBLE % (TABLES_IMPORT if tables else "")
        self.shard_cases = shard_cases
        self.shard_bytes = shard_bytes
        self.cases = []  # (got_expr, exp_bytes, exp_floats, size)
        self.specs = []
        self.meta_cases = []
        self.direct_violations = []
        self.direct_evaluations = 0
        self.dist = {}
        self.samples = []

    def count(self, key, n=1):
        self.dist[key] = self.dist.get(key, 0) + n

    def add(self, got_expr, exp_bytes, exp_floats, desc, inp, impl, explain=None, size=0, spec=None):
        self.cases.append((got_expr, exp_bytes, exp_floats, size + len(exp_bytes)))
        self.meta_cases.append({"desc": desc, "input": inp, "impl": impl, "explain": explain})
        self.specs.append(spec)

    def order_check(self, max_specs=4000):
        """re-evaluate the recorded calls in a fresh interpreter in reverse order; a different observable = order dependence"""
        import evalspec
        import subprocess
        idx = [i for i, sp in enumerate(self.specs) if sp is not None]
        if not idx:
            return
        if len(idx) > max_specs:
            step = len(idx) / float(max_specs)
            idx = [idx[int(j * step)] for j in range(max_specs)]
        keep = set(idx)
        path = os.path.join(self.out, "specs.json")
        with open(path, "w") as f:
            json.dump([sp if i in keep else None for i, sp in enumerate(self.specs)], f)
        # first-run observables in the same canonical text form: recompute them HERE (same process, original order already ran)
        p = vlib.import_impl()
        # the other interpreter also differs in what must not matter: assertions stripped (-O), another string-hash seed
        env2 = dict(os.environ)
        env2["PYTHONHASHSEED"] = "987"
        pr = subprocess.run([sys.executable, "-O", os.path.join(os.path.dirname(__file__), "evalspec.py"), path], capture_output=True, text=True,
                            env=env2, timeout=1800)
        if pr.returncode != 0:
            self.violation("order-independence harness failed", {}, pr.stderr[-500:])
            return
        rev = json.loads(pr.stdout)
        n = 0
        for i in idx:
            here = evalspec.evaluate(p, self.specs[i])
            there = rev.get(str(i))
            self.direct_evaluations += 1
            if there is None or [here[0], list(here[1])] != [there[0], list(there[1])]:
                n += 1
                if n <= 5:
                    self.violation("the same call gives a different result in a fresh interpreter that made the calls in reverse order, with assertions stripped (python -O) and another hash seed (state carried between calls, or dependence on the interpreter's mode)",
                                   self.meta_cases[i]["input"], {"case": self.meta_cases[i]["desc"]})
        self.count("order_check.cases", len(idx))

    def violation(self, desc, inp, detail, key=None):
        v = {"desc": desc, "input": inp, "detail": detail}
        if key:
            v["key"] = key
        self.direct_violations.append(v)

    def finish(self, extra=None):
        try:
            self.order_check()
        except Exception as e:  # noqa
            self.violation("order-independence harness crashed: %r" % e, {}, {})
        files = []
        n = len(self.cases)
        tot = sum(c[3] for c in self.cases)
        nsh = max(1, -(-n // self.shard_cases), -(-tot // self.shard_bytes), min(vlib.NCPU, n // 40))
        per = -(-n // nsh) if n else 1
        i = 0
        k = 0
        while i < n:
            j = min(n, i + per)
            fn = "cases_%s_%d.v" % (self.driver, k)
            with open(os.path.join(self.out, fn), "w") as f:
                f.write(self.preamble)
                f.write("Definition cases : list (obs * obs) := [\n")
                f.write(";\n".join("(%s, (unpack %s, %s))" % (g, vlib.blob(e), vlib.floatlist(fl)) for g, e, fl, _ in self.cases[i:j]))
                f.write("].\nEval vm_compute in (mismatches cases).\n")
            files.append({"file": fn, "n": j - i, "first": i})
            i = j
            k += 1
        with open(os.path.join(self.out, "cases.json"), "w") as f:
            json.dump(self.meta_cases, f)
        meta = {"driver": self.driver, "n_cases": len(self.cases), "files": files, "preamble": self.preamble,
                "direct_violations": self.direct_violations[:20], "direct_evaluations": self.direct_evaluations,
                "distribution": self.dist, "samples": self.samples[:5]}
        if extra:
            meta.update(extra)
        with open(os.path.join(self.out, "meta.json"), "w") as f:
            json.dump(meta, f)
