#!/bin/bash
# independent re-check (coqchk) of every property module, the PyO development and -- compiled into a scratch directory against the
# current /repo -- every per-run source-theorem file; prints the context summary (axioms of everything loaded)
cd "$(dirname "$(readlink -f "$0")")/.."
[ -f coq/Base/Bytes.vo ] || bin/setup > /dev/null 2>&1
D=$(mktemp -d /tmp/coqchk.XXXX)
export VERIF_REPO=${VERIF_REPO:-/repo}
( cd $D && PYTHONPATH=/repo/src /venv/bin/python $OLDPWD/tools/gen_tables.py $D/Tables.v >/dev/null && coqc -R $OLDPWD/coq PyRtcm -R $D PyRtcmGen Tables.v )
for k in sock:SrcOSock reader:SrcOReader msg:SrcOMsg msgdec:SrcOMsgDec helpers:SrcOHelpers arr:SrcOArr arr2:SrcOArr2; do /venv/bin/python tools/gen_src2.py $D/${k#*:}.v ${k%%:*} >/dev/null; (cd $D && coqc -R $OLDPWD/coq PyRtcm -R $D PyRtcmGen ${k#*:}.v); done
/venv/bin/python tools/gen_src.py $D/Src.v >/dev/null; (cd $D && coqc -R $OLDPWD/coq PyRtcm -R $D PyRtcmGen Src.v)
MODS=""
for f in Src_inst SrcSock_inst SrcReader_inst SrcReaderIter_inst SrcReader_tables_inst SrcMsg_inst SrcMsg_tables_inst SrcHelpers_inst SrcArr_inst SrcArr_tables_inst SrcArr2_inst SrcArr2_tables_inst SrcMsgDecSingle_inst SrcMsgDecWalk_inst SrcMsgDecTop_inst SrcMsgDec_inst SrcMsgDec_tables_inst C10_len_inst; do
  cp run/$f.v $D/ && (cd $D && timeout 1200 coqc -R $OLDPWD/coq PyRtcm -R $D PyRtcmGen -w -notation-overridden $f.v > /dev/null 2>&1) && MODS="$MODS PyRtcmGen.$f"
done
PROPS=$(ls coq/Properties/*.v | sed 's#coq/Properties/\(.*\)\.v#PyRtcm.Properties.\1#')
echo "checking: $PROPS $MODS"
( cd coq && timeout 14000 coqchk -silent -o -R . PyRtcm -R $D PyRtcmGen $PROPS $MODS ) 2>&1 | tail -80
rm -rf $D
