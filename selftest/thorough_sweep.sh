#!/bin/bash
# usage: selftest/thorough_sweep.sh [jobs]  -- every thorough check once on the unchanged tree (scratch output), one summary line each
cd "$(dirname "$(readlink -f "$0")")/.."
J=${1:-3}
[ -f coq/Base/Bytes.vo ] || bin/setup > /dev/null 2>&1
OUT=$(mktemp -d /tmp/thorough.XXXX)
for p in C08 C10 C14 C19 C02 C05 C07 C13 C15 C16 C17 C18 C03 C06 C09 C11 C12 C04 C01; do echo $p; done |
  xargs -P$J -I{} sh -c 'VERIF_OUT='$OUT' timeout 7000 bin/check {} --tier thorough > '$OUT'/{}.out 2>&1; echo "{} rc=$? $(grep -m1 -E "^(OK|VIOLATION)" '$OUT'/{}.out | cut -c1-200)"; grep "^  - " '$OUT'/{}.out | head -2 | cut -c1-250'
rm -rf $OUT
