#!/bin/bash
# usage: selftest/try_green.sh <patch.diff> [props...]   -- a behaviour-preserving patch: every check must stay green
set -u
P=$(readlink -f "$1"); shift
PROPS=${@:-C01 C02 C03 C04 C05 C06 C07 C08 C09 C10 C11 C12 C13 C14 C15 C16 C17 C18 C19}
cd /verif
git -C /repo diff --quiet || { echo "/repo has uncommitted changes"; exit 2; }
git -C /repo apply "$P" || { echo "patch does not apply"; exit 2; }
trap 'git -C /repo checkout -- . ; git -C /repo clean -fdq src 2>/dev/null' EXIT
mkdir -p /tmp/greenrun
run() { p=$1; cp evidence/$p.json /tmp/greenrun/$p.bak 2>/dev/null; VERIF_JOBS=6 timeout 1800 bin/check $p > /tmp/greenrun/$p.out 2>&1; rc=$?; cp /tmp/greenrun/$p.bak evidence/$p.json 2>/dev/null
  if [ $rc -ne 0 ]; then echo "ALARM $p rc=$rc: $(grep -m1 VIOLATION /tmp/greenrun/$p.out | cut -c1-150)"; grep "^  - " /tmp/greenrun/$p.out | head -3 | cut -c1-250; else echo "green $p"; fi; }
export -f run
echo $PROPS | tr ' ' '\n' | xargs -P 3 -I{} bash -c 'run {}'
