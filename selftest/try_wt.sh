#!/bin/bash
# usage: selftest/try_wt.sh <seeded-dir-or-patch> <prop> [<prop> ...]
# like try_patch.sh but leaves /repo alone: makes a scratch worktree of /repo HEAD, applies the patch there and runs the quick
# checks against it (VERIF_REPO) with evidence / replays redirected (VERIF_OUT), so several mutants can run in parallel.
set -u
P=$(readlink -f "$1"); [ -d "$P" ] && P=$P/patch.diff; shift
N=$(basename $(dirname $P)); [ "$N" = "seed" ] && N=$(basename $P .patch); [ "$N" = "green" ] && N=$(basename $P .diff)
WT=/tmp/seedwt/$N; OUT=/tmp/seedrun/$N
rm -rf $WT $OUT; mkdir -p /tmp/seedwt $OUT/evidence $OUT/work/replays
git -C /repo worktree add -q --detach $WT HEAD || exit 2
trap 'git -C /repo worktree remove --force $WT; git -C /repo worktree prune' EXIT
git -C $WT apply "$P" || { echo "$N: patch does not apply"; exit 2; }
cd "$(dirname "$(readlink -f "$0")")/.."
for p in "$@"; do
  VERIF_REPO=$WT VERIF_OUT=$OUT timeout 2400 bin/check $p > $OUT/$p.out 2>&1
  echo "$N :: $p rc=$? $(grep -c VIOLATION $OUT/$p.out) $(grep -m1 VIOLATION $OUT/$p.out | cut -c1-160)"
  grep "^  - " $OUT/$p.out | head -3 | cut -c1-220
done
