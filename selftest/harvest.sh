#!/bin/bash
# usage: selftest/harvest.sh <Cxx> <name>   -- takes the mutation from /tmp/seed/<Cxx>, verifies it (tests pass, demo fails with / passes without), stores it under seeded/<name>
set -u
ID=$1; NAME=$2; WT=/tmp/seed/$ID; OUT=/verif/seeded/$NAME; PID=${ID#R2_}; PID=${PID#R3_}; PID=${PID#R4_}; PID=${PID#R5_}; PID=${PID#R6_}; PID=${PID#R7_}; PID=${PID#R8_}; PID=${PID#R9_}; PID=${PID#RA_}; PID=${PID#RB_}; PID=${PID#RC_}
mkdir -p $OUT
git -C $WT diff -- src > $OUT/patch.diff
cp $WT/demo_$PID.py $OUT/demo.py 2>/dev/null || { echo "no demo"; exit 1; }
[ -s $OUT/patch.diff ] || { echo "empty patch"; exit 1; }
# independent verification in a fresh scratch worktree
V=/tmp/seedverify_$NAME; rm -rf $V; git -C /repo worktree add -q $V HEAD
cp $OUT/demo.py $V/demo_$PID.py
sed -i "s#$WT#$V#g" $V/demo_$PID.py
( cd $V && PYTHONPATH=$V/src /venv/bin/python demo_$PID.py > $OUT/demo_clean.out 2>&1; echo "demo on clean tree rc=$?" )
git -C $V apply $OUT/patch.diff
( cd $V && PYTHONPATH=$V/src /venv/bin/python -m pytest -q -p no:cacheprovider 2>&1 | tail -1 )
( cd $V && PYTHONPATH=$V/src /venv/bin/python demo_$PID.py > $OUT/demo_mutant.out 2>&1; echo "demo on mutant rc=$?" )
git -C /repo worktree remove --force $V
