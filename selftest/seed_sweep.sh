#!/bin/bash
# usage: selftest/seed_sweep.sh "<seeds>" [jobs]   -- every quick check on the unchanged tree under several seeds (looking for seed-dependent
# false alarms of the direct searches); evidence / replays go to a scratch directory, one summary line per run
cd "$(dirname "$(readlink -f "$0")")/.."
SEEDS=${1:-"1 2 3"}; J=${2:-4}
[ -f coq/Base/Bytes.vo ] || bin/setup > /dev/null 2>&1
OUT=$(mktemp -d /tmp/seedsweep.XXXX)
for s in $SEEDS; do for p in C01 C02 C03 C04 C05 C06 C07 C08 C09 C10 C11 C12 C13 C14 C15 C16 C17 C18 C19; do echo "$s $p"; done; done |
  xargs -P$J -L1 sh -c 'mkdir -p '$OUT'/$0; VERIF_OUT='$OUT'/$0 VERIF_SEED=$0 bin/check $1 --tier quick > '$OUT'/$0/$1.out 2>&1; echo "seed=$0 $1 rc=$? $(grep -m1 -E "^(OK|VIOLATION)" '$OUT'/$0/$1.out | cut -c1-200)"; grep "^  - " '$OUT'/$0/$1.out | head -2 | cut -c1-250'
rm -rf $OUT
