#!/bin/bash
# usage: selftest/try_patch.sh <patch.diff> <prop> [<prop> ...]
# applies the patch to /repo, runs the quick checks of the given properties, reverts the patch.  Development-time tool.
set -u
P=$(readlink -f "$1"); shift
cd /verif
git -C /repo diff --quiet || { echo "/repo has uncommitted changes"; exit 2; }
git -C /repo apply "$P" || { echo "patch does not apply"; exit 2; }
trap 'git -C /repo checkout -- . ; git -C /repo status --short | head -3' EXIT
mkdir -p /tmp/seedrun
for p in "$@"; do
  ( cp evidence/$p.json /tmp/seedrun/$p.evidence.bak 2>/dev/null
    timeout 1800 bin/check $p > /tmp/seedrun/$p.out 2>&1; echo "$p rc=$? $(grep -c VIOLATION /tmp/seedrun/$p.out) $(grep -m1 VIOLATION /tmp/seedrun/$p.out | cut -c1-160)"
    grep "^  - " /tmp/seedrun/$p.out | head -3 | cut -c1-220
    cp /tmp/seedrun/$p.evidence.bak evidence/$p.json 2>/dev/null ) &
done
wait
