#!/bin/bash
# runs every seeded change against the quick check of the property it breaks (scratch worktrees, 4 at a time; /repo untouched);
# prints one line per change.  usage: selftest/all_seeded.sh [jobs]
cd "$(dirname "$(readlink -f "$0")")/.."
J=${1:-4}
ls -d seeded/*/ | xargs -P$J -I{} sh -c 'd={}; p=$(python3 -c "import json;print(json.load(open(\"$d/meta.json\"))[\"breaks_property\"])"); selftest/try_wt.sh $d $p 2>&1 | grep " :: "'
