#!/bin/bash
# runs every seeded change against the quick check of the property it breaks; prints one line per change
cd /verif
for d in seeded/*/; do
  n=$(basename $d); p=$(python3 -c "import json;print(json.load(open('$d/meta.json'))['breaks_property'])")
  out=$(selftest/try_patch.sh $d/patch.diff $p 2>&1 | grep "^$p rc=")
  echo "$n :: $out"
done
