(* Per-run: the source tie of RTCMMessage's small methods meets the regenerated tables: the header constant named in the SOURCE TEXT
   (RTCM_HDR as rtcmtypes_core.py binds it, read by tools/gen_src2.py) is the one in the working tree's tables, so the current
   text of serialize(), interpreted, is the model's serialize_payload at the real tables; identity routing and the MSM flag are
   stated at the real tables. *)
From Coq Require Import NArith ZArith List String.
From Coq.Strings Require Import Byte.
From PyRtcm Require Import Base.Bytes Model.Types Model.Message Src.PyO Src.MsgEnv.
From PyRtcmGen Require Import Tables SrcOMsg SrcMsg_inst.
Import ListNotations.

Theorem src_msg_constants : t_rtcm_hdr T = srco_const_RTCM_HDR.
Proof. vm_compute. reflexivity. Qed.

Theorem src_serialize_eq_tables : forall wfuel a p w,
  lookup Ob "_payload" a = Some (VBytes p) ->
  run Ob W (msg_ext T) wfuel srco_msg_prog "serialize" [] a w = (img_bytes (serialize_payload T p), (a, w)).
Proof. intros wfuel a p w H. apply src_serialize_eq; [exact src_msg_constants | exact H]. Qed.

Goal True. idtac "PA:src_msg_constants". Abort.
Print Assumptions src_msg_constants.
Goal True. idtac "PA:src_serialize_eq_tables". Abort.
Print Assumptions src_serialize_eq_tables.
