(* C04 / C16 at the regenerated tables *)
From Coq Require Import NArith ZArith List String.
From PyRtcm Require Import Base.Bytes Model.Types Model.Message Spec.TotalWf Proofs.DecodeLabel2 Proofs.DecodeTotal Properties.C04.
From PyRtcmGen Require Import Tables.
Import ListNotations.

(* the decidable condition under which the model of the constructor has no Unmodelled answer left *)
Theorem C04_tables_total_ok : tables_total_ok T = true.
Proof. vm_compute. reflexivity. Qed.
Goal True. idtac "PA:C04_tables_total_ok". Abort.
Print Assumptions C04_tables_total_ok.

(* hence, for the working tree's tables: every payload gives a message or a library error *)
Theorem C04_instance : forall p lbl, match construct T p lbl with Ok _ | Lib _ => True | _ => False end.
Proof. exact (C04_construct_total T C04_tables_total_ok). Qed.
Goal True. idtac "PA:C04_instance". Abort.
Print Assumptions C04_instance.

Theorem C16_csg_only_in_msm : csg_only_in_msm T = true.
Proof. vm_compute. reflexivity. Qed.
Goal True. idtac "PA:C16_csg_only_in_msm". Abort.
Print Assumptions C16_csg_only_in_msm.
