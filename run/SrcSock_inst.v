(* Per-run source tie for socketwrapper.SocketWrapper: the PyO interpretation (Src/PyO.v) of the CURRENT source text of
     SocketWrapper.__init__ / _recv / read / readline / dechunk
   (translated by tools/gen_src2.py into PyRtcmGen.SrcOSock) equals the hand-written model (Model/Socket.v) for EVERY
   encoding, buffer size, zlib behaviour, socket behaviour whose failures are of a class `_recv` catches, and every
   model state -- as long as the model stays in its modelled territory (unm = false) and the iteration budget of the
   interpreter's `while` is at least the stated bound.  The environment instantiation is Src/SockEnv.v.
   Each method is first proved in a call environment M assumed to behave like the model for its callees
   (dechunk_call, recv_call, read_call, readline_call, init_call), then linked for srco_sock_prog. *)
From Coq Require Import ZArith NArith List String Bool Lia.
From Coq.Strings Require Import Byte.
From PyRtcm Require Import Base.Bytes Model.Types Model.Reader Model.Socket Src.PyO Src.PyOLemmas Src.PyOSockLemmas Src.SockEnv.
From PyRtcmGen Require Import SrcOSock.
Import ListNotations.
Open Scope string_scope.
Open Scope Z_scope.

(* what the model is instantiated with in this run: per-chunk function and chunked flag, from the constants of the source *)
Definition the_dz (enc:Z) (zl:Z -> bytes -> option bytes) : bytes -> bytes :=
  dz_of zl srco_const_ENCODE_GZIP srco_const_ENCODE_COMPRESS srco_const_ENCODE_DEFLATE srco_const_MAX_WBITS enc.
Definition the_chunked (enc:Z) : bool := negb (Z.land enc srco_const_ENCODE_CHUNKED =? 0).

(* symbolic execution: statements are unfolded one at a time with the equations of Src/PyOLemmas.v; [ev] then computes the
   expressions and the frame bookkeeping (closed names only) and leaves every function of the model folded *)
Ltac ev := cbv [eval eval_list ret lookup update setattr String.eqb Ascii.eqb Bool.eqb locals self world
                set_locals set_self set_world binop_val int_binop unop_val truth cmp_val eq_val mem_val builtin_val
                assign target_expr Z.opp sock_self append
                srco_const_ENCODE_CHUNKED srco_const_ENCODE_GZIP srco_const_ENCODE_COMPRESS srco_const_ENCODE_DEFLATE srco_const_MAX_WBITS].
(* whole statements, handler selection and environment calls on closed names as well *)
Ltac evx := cbv [exec exec_list PyOLemmas.pick matches existsb subclass parent orb sock_ext c_name c_kw
                eval eval_list ret lookup update setattr String.eqb Ascii.eqb Bool.eqb locals self world
                set_locals set_self set_world binop_val int_binop unop_val truth cmp_val eq_val mem_val builtin_val
                assign target_expr Z.opp sock_self append
                srco_const_ENCODE_CHUNKED srco_const_ENCODE_GZIP srco_const_ENCODE_COMPRESS srco_const_ENCODE_DEFLATE srco_const_MAX_WBITS].

(* the parts of dechunk's body, read off the translated source *)
Definition dechunk_cond : expr := Eval cbv in match nth 3 (m_body srco_sock_dechunk) SPass with SWhile c _ => c | _ => ENone end.
Definition dechunk_body : list stmt := Eval cbv in match nth 3 (m_body srco_sock_dechunk) SPass with SWhile _ b => b | _ => [] end.

(* environment bookkeeping only: closed strings *)
Ltac names := cbv [lookup update setattr String.eqb Ascii.eqb Bool.eqb locals self world set_locals set_self set_world sock_self].

(* ================= dechunk ================= *)
Definition zlib_try : stmt := Eval cbv in
  match nth 3 dechunk_body SPass with SIf _ th _ => nth 3 th SPass | _ => SPass end.

(* the statements after the loop, and the loop's outcome as the model sees it *)
Definition dechunk_tail : list stmt := Eval cbv in skipn 4 (m_body srco_sock_dechunk).
Definition dimg (d:dres) : res (ctl Ob) :=
  match d with
  | DOk c p => ROk (CRet Ob (VTuple [VBytes c; VBytes p]))
  | DUnm => RFail (FUnmodelled "int(x,16) syntax")
  end.

Section Dechunk.
  Variables (enc bs : Z) (zl : Z -> bytes -> option bytes).
  Variable M : string -> option (mcall Ob W).
  Variable wfuel : nat.
  Notation ext := (sock_ext zl).
  Notation dz := (the_dz enc zl).
  Notation exec := (exec Ob W ext M wfuel).
  Notation exec_list := (exec_list Ob W ext M wfuel).
  Notation eval := (eval Ob W ext M).
  Notation state := (state Ob W).

  (* the frame of dechunk: parameter, then locals in order of first assignment; the BytesIO is (segment, position) *)
  Definition dfr (seg:bytes) (p:nat) (chunks partial lb cl chunk term err : val Ob) : env Ob :=
    [("segment", VBytes seg); ("instream", VBio seg p); ("chunks", chunks); ("partial", partial);
     ("length_bytes", lb); ("chunk_length", cl); ("chunk", chunk); ("term", term); ("err", err)].

  Definition dst seg p chunks partial lb cl chunk term err (s:sock) (w:W) : state :=
    {| locals := dfr seg p chunks partial lb cl chunk term err; self := sock_self enc bs s; world := w |}.

  Lemma ext_decompress wb c (w:W) :
    ext {| c_name := "decompress"; c_kw := ["wbits"] |} [VBytes c; VInt wb] w =
      match zl wb c with Some d => (ROk (VBytes d), w) | None => (RExc "zlib.error", w) end.
  Proof. reflexivity. Qed.
  Lemma ext_logerr v (w:W) : ext {| c_name := "logger.error"; c_kw := [] |} [v] w = (ROk VNone, w).
  Proof. reflexivity. Qed.

  Lemma stage_ok b we wb seg p chunks partial lb cl chunk term s w :
    (forall st, eval we st = (ROk (VInt wb), st)) ->
    exec (SIf (EBin OAnd (ESelf "_encoding") (EInt b))
            [SAssign (TVar "chunk") (ECallX {| c_name := "decompress"; c_kw := ["wbits"] |} [EVar "chunk"; we])] [])
         (dst seg p chunks partial lb cl (VBytes chunk) term VUnbound s w) =
    if bit_set enc b then
      match zl wb chunk with
      | Some d => (ROk (CNext Ob), dst seg p chunks partial lb cl (VBytes d) term VUnbound s w)
      | None => (RExc "zlib.error", dst seg p chunks partial lb cl (VBytes chunk) term VUnbound s w)
      end
    else (ROk (CNext Ob), dst seg p chunks partial lb cl (VBytes chunk) term VUnbound s w).
  Proof.
    intro H. rewrite exec_if. unfold dst, dfr, bit_set. ev.
    destruct (Z.land enc b =? 0); cbn [negb].
    - reflexivity.
    - rewrite exec_list_cons, exec_assign, eval_callx, eval_list_cons, eval_var. names.
      rewrite eval_list_cons, H, eval_list_nil. names. rewrite ext_decompress.
      destruct (zl wb chunk); reflexivity.
  Qed.

  Lemma zlib_try_ok seg p chunks partial lb cl chunk term s w :
    exec zlib_try (dst seg p chunks partial lb cl (VBytes chunk) term VUnbound s w)
    = (ROk (CNext Ob), dst seg p chunks partial lb cl (VBytes (dz chunk)) term VUnbound s w).
  Proof.
    unfold zlib_try. rewrite exec_try.
    unfold the_dz, dz_of, stage.
    assert (HL : forall cls c, matches cls ["zlib.error"] = true ->
       PyOLemmas.pick Ob W ext M wfuel cls (dst seg p chunks partial lb cl (VBytes c) term VUnbound s w)
         [(["zlib.error"], Some "err", [SExpr (ECallRef (ESelf "logger") "error" [ECallB BText [EVar "err"]])])]
       = (ROk (CNext Ob), dst seg p chunks partial lb cl (VBytes c) term VUnbound s w)).
    { intros cls c Hm. cbn [PyOLemmas.pick]. rewrite Hm. unfold dst, dfr. evx. reflexivity. }
    unfold srco_const_ENCODE_GZIP, srco_const_ENCODE_COMPRESS, srco_const_ENCODE_DEFLATE, srco_const_MAX_WBITS.
    rewrite exec_list_cons, (stage_ok _ _ (Z.lor 15 16)) by reflexivity.
    destruct (bit_set enc 2); [destruct (zl (Z.lor 15 16) chunk) as [d|]; [|cbv beta iota; apply HL; reflexivity]|];
    cbv beta iota;
    (rewrite exec_list_cons, (stage_ok _ _ 15) by reflexivity;
     destruct (bit_set enc 4); [destruct (zl 15 _) as [d'|]; [|cbv beta iota; apply HL; reflexivity]|];
     cbv beta iota;
     (rewrite exec_list_cons, (stage_ok _ _ (Z.opp 15)) by reflexivity;
      destruct (bit_set enc 8); [destruct (zl (Z.opp 15) _) as [d''|]; [|cbv beta iota; apply HL; reflexivity]|];
      cbv beta iota; rewrite exec_list_nil; reflexivity)).
  Qed.

  Definition dfin (x:res (ctl Ob) * state) : res (ctl Ob) * state :=
    match x with
    | (ROk (CNext _), s1) => exec_list dechunk_tail s1
    | (ROk (CBreak _), s1) => (ROk (CBreak Ob), s1)
    | (ROk (CCont _), s1) => (ROk (CCont Ob), s1)
    | (ROk (CRet _ v), s1) => (ROk (CRet Ob v), s1)
    | (RExc c, s1) => (RExc c, s1)
    | (RFail f, s1) => (RFail f, s1)
    end.

  Lemma dechunk_loop_ok seg s w : forall f k p chunks lb cl chunk term,
    (List.length (skipn p seg) < f)%nat -> (f <= k)%nat ->
    proj Ob W (dfin (wloop Ob W (eval dechunk_cond) (exec_list dechunk_body) k
                      (dst seg p (VBytes chunks) (VBytes []) lb cl chunk term VUnbound s w))) =
    (dimg (dechunk_loop dz (List.length seg) f (skipn p seg) chunks), (sock_self enc bs s, w)).
  Proof.
    set (C := eval dechunk_cond). set (B := exec_list dechunk_body).
    induction f as [|f IH]; intros k p chunks lb cl chunk term Hf Hk; [lia|].
    destruct k as [|k]; [lia|].
    rewrite wloop_S'. unfold C at 1. unfold dechunk_cond. ev.
    match goal with |- context[B ?st] => change (B st) with (exec_list dechunk_body st) end.
    unfold dechunk_body, dst, dfr.
    cbn [dechunk_loop].
    rewrite exec_list_cons, exec_assign. ev.
    destruct (upto_lf (skipn p seg)) as [lb' r1] eqn:E1.
    rewrite exec_list_cons, exec_if. ev. rewrite crlf_slice.
    destruct (ends_crlf lb') eqn:Ec; cbn [negb].
    2:{ rewrite exec_list_cons, exec_assign. ev. rewrite exec_list_cons, exec_break.
        cbv [wcont dfin dechunk_tail proj fst snd]. evx. reflexivity. }
    rewrite exec_list_nil, exec_list_cons, exec_try, exec_list_cons, exec_assign. ev.
    destruct (int16 (strip lb')) as [n| |] eqn:En.
    2:{ cbv [PyOLemmas.pick matches existsb subclass parent orb String.eqb Ascii.eqb Bool.eqb].
        rewrite exec_list_cons, exec_break.
        cbv [wcont dfin dechunk_tail proj fst snd]. evx. reflexivity. }
    2:{ reflexivity. }
    cbv beta iota. rewrite ?exec_list_nil. rewrite exec_list_cons, exec_if. ev.
    destruct n as [|pp].
    { change (Z.of_N 0 =? 0) with true. cbn [negb].
      rewrite exec_list_cons, exec_expr. ev.
      destruct (upto_lf (skipn (p + List.length lb') seg)) as [l2 r2].
      rewrite exec_list_cons, exec_break.
      cbv [wcont dfin dechunk_tail proj fst snd]. evx. reflexivity. }
    change (Z.of_N (N.pos pp) =? 0) with false. cbn [negb].
    rewrite exec_list_cons, exec_assign. ev. rewrite min_N_nat_neg. ev.
    rewrite min_N_nat.
    set (kk := N.to_nat (N.min (N.pos pp) (N.of_nat (List.length seg)))).
    rewrite exec_list_cons, exec_assign. ev.
    rewrite bio_read. pose proof (bio_readline _ _ _ _ E1) as H1. rewrite H1.
    destruct (upto_lf (skipn kk r1)) as [tm r3] eqn:E3.
    rewrite exec_list_cons, exec_if. ev. rewrite eqb_nat_N.
    destruct (N.of_nat (List.length (firstn kk r1)) =? N.pos pp)%N eqn:El; cbn [negb orb]; ev.
    2:{ rewrite exec_list_cons, exec_assign. ev. rewrite exec_list_cons, exec_break.
        cbv [wcont dfin dechunk_tail proj fst snd]. evx. rewrite <- app_assoc. reflexivity. }
    rewrite lf_slice.
    destruct (ends_lf tm) eqn:Et; cbn [negb]; ev.
    2:{ rewrite exec_list_cons, exec_assign. ev. rewrite exec_list_cons, exec_break.
        cbv [wcont dfin dechunk_tail proj fst snd]. evx. rewrite <- app_assoc. reflexivity. }
    rewrite exec_list_nil, exec_list_cons.
    match goal with |- context[PyO.exec _ _ _ _ _ (STry ?b ?h) {| locals := ?l; self := ?a; world := ?ww |}] =>
      change (exec (STry b h) {| locals := l; self := a; world := ww |})
        with (exec zlib_try (dst seg (p + List.length lb' + List.length (firstn kk r1) + List.length tm) (VBytes chunks) (VBytes [])
                (VBytes lb') (VInt (Z.of_N (N.pos pp))) (VBytes (firstn kk r1)) (VBytes tm) VUnbound s w)) end.
    rewrite zlib_try_ok. unfold dst, dfr.
    rewrite exec_list_cons. cbv [PyO.exec]. ev. rewrite exec_list_nil.
    cbv [wcont]. rewrite ?exec_list_nil. cbv beta iota.
    assert (H3 : skipn (p + List.length lb' + List.length (firstn kk r1) + List.length tm) seg = r3).
    { pose proof (bio_read seg (p + List.length lb') kk) as H2. rewrite H1 in H2.
      apply bio_readline. rewrite H2. exact E3. }
    rewrite <- H3.
    apply (IH k _ _ (VBytes lb') (VInt (Z.of_N (N.pos pp))) (VBytes (dz (firstn kk r1))) (VBytes tm)); [|lia].
    rewrite H3. apply upto_lf_len in E1. apply upto_lf_len in E3. apply ends_crlf_len in Ec.
    rewrite skipn_length in E3. lia.
  Qed.

  Lemma dechunk_call seg s w : (List.length seg < wfuel)%nat ->
    call Ob W ext M wfuel "dechunk" srco_sock_dechunk [VBytes seg] (sock_self enc bs s) w =
      (dres_img (dechunk dz seg), (sock_self enc bs s, w)).
  Proof.
    intro Hw. rewrite (call_eq Ob W ext M wfuel "dechunk" srco_sock_dechunk [VBytes seg] _ _ [("segment", VBytes seg)] eq_refl).
    cbv [srco_sock_dechunk m_body m_locals map app].
    rewrite exec_list_cons, exec_assign. ev.
    rewrite exec_list_cons, exec_assign. ev.
    rewrite exec_list_cons, exec_assign. ev.
    rewrite exec_list_cons, exec_while.
    match goal with |- ret_of _ _ ?X = _ =>
      replace X with (dimg (dechunk_loop dz (List.length seg) (S (List.length seg)) (skipn 0 seg) []), (sock_self enc bs s, w))
    end.
    2:{ symmetry.
        assert (Hf : (List.length (skipn 0 seg) < S (List.length seg))%nat) by (cbn [skipn]; lia).
        exact (dechunk_loop_ok seg s w (S (List.length seg)) wfuel 0 [] VUnbound VUnbound VUnbound VUnbound Hf Hw). }
    cbn [skipn]. unfold dechunk. destruct (dechunk_loop _ _ _ _ _); reflexivity.
  Qed.
End Dechunk.

(* ================= _recv ================= *)
Section Recv.
  Variables (enc bs : Z) (zl : Z -> bytes -> option bytes).
  Variable M : string -> option (mcall Ob W).
  Variable wfuel : nat.
  Notation ext := (sock_ext zl).
  Notation dz := (the_dz enc zl).
  Notation chunked := (the_chunked enc).
  Notation exec := (exec Ob W ext M wfuel).
  Notation exec_list := (exec_list Ob W ext M wfuel).
  Notation eval := (eval Ob W ext M).
  Notation state := (state Ob W).

  Variable gD : mcall Ob W.
  Hypothesis MD : M "dechunk" = Some gD.
  Hypothesis GD : forall seg s w, (List.length seg < wfuel)%nat ->
    gD [VBytes seg] (sock_self enc bs s) w = (dres_img (dechunk dz seg), (sock_self enc bs s, w)).

  Lemma ext_recv n (w:W) :
    ext {| c_name := "sock.recv"; c_kw := [] |} [VInt n] w =
      match w with
      | [] => (ROk (VBytes []), [])
      | PData d :: r => (ROk (VBytes d), r)
      | PFail cls :: r => (RExc cls, r)
      end.
  Proof. reflexivity. Qed.

  Lemma recv_call s w : caught w -> evs s = map ev_of w -> (sock_fuel s <= wfuel)%nat ->
    unm (snd (recv chunked dz s)) = false ->
    call Ob W ext M wfuel "_recv" srco_sock__recv [] (sock_self enc bs s) w =
      (ROk (VBool (fst (recv chunked dz s))), (sock_self enc bs (snd (recv chunked dz s)), tl w)).
  Proof.
    intros Hc He Hw Hu. rewrite (call_eq Ob W ext M wfuel "_recv" srco_sock__recv [] _ _ [] eq_refl).
    cbv [srco_sock__recv m_body m_locals map app].
    rewrite exec_list_cons, exec_try, exec_list_cons, exec_assign. ev. rewrite ext_recv.
    unfold recv, sock_fuel in *. rewrite He in *.
    destruct w as [|[d|c] r]; cbn [map ev_of tl] in *.
    - ev. rewrite exec_list_cons, exec_if. ev. rewrite eqb_len_0. ev.
      rewrite exec_list_cons, exec_return. ev. reflexivity.
    - ev. rewrite exec_list_cons, exec_if. ev. rewrite eqb_len_0.
      destruct d as [|b d].
      { ev. rewrite exec_list_cons, exec_return. ev. reflexivity. }
      set (dd := b :: d) in *. ev.
      rewrite exec_list_nil, exec_list_cons, exec_if. ev.
      change (negb (Z.land enc 1 =? 0)) with chunked.
      destruct chunked.
      + rewrite exec_list_cons, exec_assign. ev.
        rewrite exec_list_cons, exec_assign, eval_callm, eval_list_cons, eval_var. names.
        rewrite eval_list_nil, MD. names.
        match goal with |- context[gD ?a ?e ?w] => change (gD a e w) with (gD a (sock_self enc bs s) w) end.
        rewrite GD by (cbn [data_len] in Hw; rewrite app_length; lia).
        destruct (dechunk dz (partial s ++ dd)%list) as [c p|]; [|discriminate Hu].
        cbv [dres_img]. ev. rewrite exec_list_cons. cbv [PyO.exec]. ev.
        rewrite !exec_list_nil. cbv beta iota.
        rewrite exec_list_cons, exec_return. ev. reflexivity.
      + rewrite exec_list_cons. cbv [PyO.exec]. ev. rewrite !exec_list_nil. cbv beta iota.
        rewrite exec_list_cons, exec_return. ev. reflexivity.
    - cbv beta iota. cbn [PyOLemmas.pick].
      inversion Hc as [|x y Hm Hr]; subst. rewrite Hm.
      rewrite exec_list_cons, exec_return. ev. reflexivity.
  Qed.

End Recv.

(* ================= read ================= *)
Definition read_cond : expr := Eval cbv in match nth 0 (m_body srco_sock_read) SPass with SWhile c _ => c | _ => ENone end.
Definition read_body : list stmt := Eval cbv in match nth 0 (m_body srco_sock_read) SPass with SWhile _ b => b | _ => [] end.

Section Read.
  Variables (enc bs : Z) (zl : Z -> bytes -> option bytes).
  Variable M : string -> option (mcall Ob W).
  Variable wfuel : nat.
  Notation ext := (sock_ext zl).
  Notation dz := (the_dz enc zl).
  Notation chunked := (the_chunked enc).
  Notation exec := (exec Ob W ext M wfuel).
  Notation exec_list := (exec_list Ob W ext M wfuel).
  Notation eval := (eval Ob W ext M).
  Notation state := (state Ob W).
  Notation recv := (recv chunked dz).
  Notation fill := (fill chunked dz).
  Notation sock_read := (sock_read chunked dz).

  Variable gR : mcall Ob W.
  Hypothesis MR : M "_recv" = Some gR.
  Hypothesis GR : forall s w, caught w -> evs s = map ev_of w -> (sock_fuel s <= wfuel)%nat -> unm (snd (recv s)) = false ->
    gR [] (sock_self enc bs s) w = (ROk (VBool (fst (recv s))), (sock_self enc bs (snd (recv s)), tl w)).

  Definition rst (n:Z) (dv:val Ob) (s:sock) (w:W) : state :=
    {| locals := [("num", VInt n); ("data", dv)]; self := sock_self enc bs s; world := w |}.

  Lemma read_loop_ok n dv : 0 <= n -> forall f k s w,
    caught w -> evs s = map ev_of w -> (sock_fuel s <= wfuel)%nat ->
    (List.length (evs s) < f)%nat -> (List.length (evs s) < k)%nat ->
    unm (snd (fill f (Z.to_nat n) s)) = false ->
    exists w', wloop Ob W (eval read_cond) (exec_list read_body) k (rst n dv s w) =
                 (ROk (if fst (fill f (Z.to_nat n) s) then CNext Ob else CRet Ob (VBytes [])),
                  rst n dv (snd (fill f (Z.to_nat n) s)) w')
               /\ evs (snd (fill f (Z.to_nat n) s)) = map ev_of w' /\ suffix w' w.
  Proof.
    intro Hn. set (C := eval read_cond). set (B := exec_list read_body).
    induction f as [|f IH]; intros k s w Hc He Hw Hf Hk Hu; [lia|].
    destruct k as [|k]; [lia|].
    rewrite wloop_S'. unfold C at 1. unfold read_cond, rst. ev.
    rewrite (ltb_nat_Z _ _ Hn). cbn [fill] in *.
    destruct (Nat.leb (Z.to_nat n) (List.length (buf s))); cbn [negb fst snd] in *.
    { exists w. split; [reflexivity|]. split; [exact He|apply suffix_refl]. }
    match goal with |- context[B ?st] => change (B st) with (exec_list read_body st) end.
    unfold read_body.
    assert (Hu' : unm (snd (recv s)) = false).
    { destruct (unm (snd (recv s))) eqn:E; [|reflexivity].
      destruct (recv s) as [ok s']. cbn [snd] in E.
      destruct ok; [rewrite (fill_unm_mono _ _ _ _ _ E) in Hu|cbn [snd] in Hu; rewrite E in Hu]; discriminate. }
    pose proof (GR s w Hc He Hw Hu') as G. pose proof (recv_evs chunked dz s) as Ev.
    pose proof (recv_fuel chunked dz s) as Hw'.
    pose proof (recv_ok_evs chunked dz s) as Hne.
    rewrite exec_list_cons, exec_if, eval_un, eval_callm, eval_list_nil, MR. names.
    match goal with |- context[gR ?a ?e ?w] => change (gR a e w) with (gR a (sock_self enc bs s) w) end.
    rewrite G. clear G.
    destruct (recv s) as [ok s']. cbn [fst snd] in *.
    assert (He' : evs s' = map ev_of (tl w)).
    { rewrite Ev, He. destruct w; reflexivity. }
    ev. destruct ok; cbn [negb].
    - rewrite exec_list_nil, exec_list_nil. cbv [wcont].
      destruct (evs s) as [|e0 r0] eqn:E0; [exfalso; now apply Hne|]. cbn [tl List.length] in *.
      destruct (IH k s' (tl w) (caught_tl _ Hc) He') as (w' & H1 & H2 & H3); try (rewrite Ev; lia); [lia|exact Hu|].
      exists w'. split; [exact H1|]. split; [exact H2|]. eapply suffix_trans; [exact H3|apply suffix_tl].
    - rewrite exec_list_cons, exec_return. ev. cbv [wcont].
      exists (tl w). split; [reflexivity|]. split; [exact He'|apply suffix_tl].
  Qed.

  Lemma read_call n s w : 0 <= n -> caught w -> evs s = map ev_of w -> (sock_fuel s <= wfuel)%nat ->
    unm (snd (sock_read (Z.to_nat n) s)) = false ->
    exists w', call Ob W ext M wfuel "read" srco_sock_read [VInt n] (sock_self enc bs s) w =
                 (ROk (VBytes (fst (sock_read (Z.to_nat n) s))), (sock_self enc bs (snd (sock_read (Z.to_nat n) s)), w'))
               /\ evs (snd (sock_read (Z.to_nat n) s)) = map ev_of w' /\ suffix w' w.
  Proof.
    intros Hn Hc He Hw Hu. rewrite (call_eq Ob W ext M wfuel "read" srco_sock_read [VInt n] _ _ [("num", VInt n)] eq_refl).
    cbv [srco_sock_read m_body m_locals map app].
    rewrite exec_list_cons, exec_while.
    unfold sock_read in *.
    assert (Hu' : unm (snd (fill (S (List.length (evs s))) (Z.to_nat n) s)) = false).
    { destruct (fill _ _ s) as [ok s']. destruct ok; exact Hu. }
    assert (Hw0 : (List.length (evs s) < wfuel)%nat) by (unfold sock_fuel in Hw; lia).
    destruct (read_loop_ok n VUnbound Hn (S (List.length (evs s))) wfuel s w Hc He Hw (Nat.lt_succ_diag_r _) Hw0 Hu')
      as (w' & H1 & H2 & H3).
    exists w'.
    change (wloop Ob W _ _ wfuel _) with (wloop Ob W (eval read_cond) (exec_list read_body) wfuel (rst n VUnbound s w)).
    rewrite H1. clear H1.
    destruct (fill _ _ s) as [ok s']. cbn [fst snd] in *.
    destruct ok.
    - unfold rst. rewrite exec_list_cons, exec_assign. ev.
      rewrite exec_list_cons, exec_assign. ev.
      rewrite exec_list_cons, exec_return. ev.
      rewrite (slice_to _ _ Hn), (slice_from _ _ Hn).
      split; [reflexivity|]. split; [exact H2|exact H3].
    - split; [reflexivity|]. split; [exact H2|exact H3].
  Qed.
End Read.

(* ================= readline ================= *)
Definition readline_cond : expr := Eval cbv in match nth 1 (m_body srco_sock_readline) SPass with SWhile c _ => c | _ => ENone end.
Definition readline_body : list stmt := Eval cbv in match nth 1 (m_body srco_sock_readline) SPass with SWhile _ b => b | _ => [] end.

Section Readline.
  Variables (enc bs : Z) (zl : Z -> bytes -> option bytes).
  Variable M : string -> option (mcall Ob W).
  Variable wfuel : nat.
  Notation ext := (sock_ext zl).
  Notation dz := (the_dz enc zl).
  Notation chunked := (the_chunked enc).
  Notation exec := (exec Ob W ext M wfuel).
  Notation exec_list := (exec_list Ob W ext M wfuel).
  Notation eval := (eval Ob W ext M).
  Notation state := (state Ob W).
  Notation sock_read := (sock_read chunked dz).
  Notation readline_loop := (readline_loop chunked dz).
  Notation sock_readline := (sock_readline chunked dz).

  Variable gRd : mcall Ob W.
  Hypothesis MRd : M "read" = Some gRd.
  Hypothesis GRd : forall n s w, 0 <= n -> caught w -> evs s = map ev_of w -> (sock_fuel s <= wfuel)%nat ->
    unm (snd (sock_read (Z.to_nat n) s)) = false ->
    exists w', gRd [VInt n] (sock_self enc bs s) w =
                 (ROk (VBytes (fst (sock_read (Z.to_nat n) s))), (sock_self enc bs (snd (sock_read (Z.to_nat n) s)), w'))
               /\ evs (snd (sock_read (Z.to_nat n) s)) = map ev_of w' /\ suffix w' w.

  Definition lst (line:bytes) (dv:val Ob) (s:sock) (w:W) : state :=
    {| locals := [("line", VBytes line); ("data", dv)]; self := sock_self enc bs s; world := w |}.

  Lemma readline_loop_ok : forall f k line dv s w,
    caught w -> evs s = map ev_of w -> (sock_fuel s <= wfuel)%nat -> (f <= k)%nat ->
    unm (snd (readline_loop f line s)) = false ->
    exists w' dv', wloop Ob W (eval readline_cond) (exec_list readline_body) k (lst line dv s w) =
                 (ROk (CNext Ob), lst (fst (readline_loop f line s)) dv' (snd (readline_loop f line s)) w')
               /\ evs (snd (readline_loop f line s)) = map ev_of w' /\ suffix w' w.
  Proof.
    set (C := eval readline_cond). set (B := exec_list readline_body).
    induction f as [|f IH]; intros k line dv s w Hc He Hw Hk Hu; [discriminate Hu|].
    destruct k as [|k]; [lia|].
    rewrite wloop_S'. unfold C at 1. unfold readline_cond, lst. ev.
    match goal with |- context[B ?st] => change (B st) with (exec_list readline_body st) end.
    unfold readline_body. cbn [readline_loop] in *.
    assert (Hu' : unm (snd (sock_read (Z.to_nat 1) s)) = false).
    { change (Z.to_nat 1) with 1%nat.
      destruct (unm (snd (sock_read 1 s))) eqn:E; [|reflexivity].
      destruct (sock_read 1 s) as [d s']. cbn [snd] in E.
      destruct d as [|b [|b2 d2]]; cbn [snd] in Hu; try congruence.
      destruct (ends_crlf _); cbn [snd] in Hu; try congruence.
      rewrite (readline_loop_unm_mono _ _ _ _ _ E) in Hu. discriminate. }
    destruct (GRd 1 s w ltac:(lia) Hc He Hw Hu') as (w1 & G1 & G2 & G3).
    pose proof (sock_read_fuel chunked dz (Z.to_nat 1) s) as Hwf.
    change (Z.to_nat 1) with 1%nat in *.
    rewrite exec_list_cons, exec_assign, eval_callm, eval_list_cons. ev. rewrite MRd. 
    match goal with |- context[gRd ?a ?e ?w] => change (gRd a e w) with (gRd a (sock_self enc bs s) w) end.
    rewrite G1. clear G1.
    destruct (sock_read 1 s) as [d s']. cbn [fst snd] in *.
    ev. rewrite exec_list_cons, exec_if. ev. rewrite eqb_len_1.
    assert (Hc1 : caught w1) by (eapply caught_suffix; eauto).
    assert (Hw1 : (sock_fuel s' <= wfuel)%nat) by lia.
    destruct d as [|b [|b2 d2]]; ev.
    - rewrite exec_list_cons, exec_break. cbv [wcont]. cbn [fst snd].
      exists w1, (VBytes []). split; [reflexivity|]. split; [exact G2|exact G3].
    - rewrite exec_list_cons. cbv [PyO.exec]. ev.
      rewrite exec_list_cons, exec_if. ev. rewrite crlf_slice.
      destruct (ends_crlf (line ++ [b])%list); ev.
      + rewrite exec_list_cons, exec_break. cbv [wcont]. cbn [fst snd].
        exists w1, (VBytes [b]). split; [reflexivity|]. split; [exact G2|exact G3].
      + rewrite !exec_list_nil. cbv [wcont].
        destruct (IH k (line ++ [b])%list (VBytes [b]) s' w1 Hc1 G2 Hw1 ltac:(lia) Hu) as (w' & dv' & H1 & H2 & H3).
        exists w', dv'. split; [exact H1|]. split; [exact H2|]. eapply suffix_trans; eauto.
    - rewrite exec_list_cons, exec_break. cbv [wcont]. cbn [fst snd].
      exists w1, (VBytes (b :: b2 :: d2)). split; [reflexivity|]. split; [exact G2|exact G3].
  Qed.

  Lemma readline_call s w : caught w -> evs s = map ev_of w ->
    (sock_fuel s + List.length (buf s) <= wfuel)%nat ->
    unm (snd (sock_readline s)) = false ->
    exists w', call Ob W ext M wfuel "readline" srco_sock_readline [] (sock_self enc bs s) w =
                 (ROk (VBytes (fst (sock_readline s))), (sock_self enc bs (snd (sock_readline s)), w'))
               /\ evs (snd (sock_readline s)) = map ev_of w' /\ suffix w' w.
  Proof.
    intros Hc He Hw2 Hu.
    assert (Hw : (sock_fuel s <= wfuel)%nat) by lia.
    assert (Hw3 : (S (List.length (buf s) + List.length (partial s) + data_len (evs s)) <= wfuel)%nat)
      by (unfold sock_fuel in Hw2; lia).
    rewrite (call_eq Ob W ext M wfuel "readline" srco_sock_readline [] _ _ [] eq_refl).
    cbv [srco_sock_readline m_body m_locals map app].
    rewrite exec_list_cons, exec_assign. ev.
    rewrite exec_list_cons, exec_while.
    unfold sock_readline in *.
    destruct (readline_loop_ok _ wfuel [] VUnbound s w Hc He Hw Hw3 Hu) as (w' & dv' & H1 & H2 & H3).
    exists w'.
    change (wloop Ob W _ _ wfuel _) with (wloop Ob W (eval readline_cond) (exec_list readline_body) wfuel (lst [] VUnbound s w)).
    rewrite H1. clear H1. unfold lst.
    rewrite exec_list_cons, exec_return. ev.
    split; [reflexivity|]. split; [exact H2|exact H3].
  Qed.
End Readline.

(* ================= __init__ ================= *)
Section Init.
  Variables (enc bs : Z) (zl : Z -> bytes -> option bytes).
  Variable M : string -> option (mcall Ob W).
  Variable wfuel : nat.
  Notation ext := (sock_ext zl).
  Notation dz := (the_dz enc zl).
  Notation chunked := (the_chunked enc).
  Notation exec := (exec Ob W ext M wfuel).
  Notation exec_list := (exec_list Ob W ext M wfuel).
  Notation eval := (eval Ob W ext M).
  Notation recv := (recv chunked dz).
  Notation sock_init := (sock_init chunked dz).

  Variable gR : mcall Ob W.
  Hypothesis MR : M "_recv" = Some gR.
  Hypothesis GR : forall s w, caught w -> evs s = map ev_of w -> (sock_fuel s <= wfuel)%nat -> unm (snd (recv s)) = false ->
    gR [] (sock_self enc bs s) w = (ROk (VBool (fst (recv s))), (sock_self enc bs (snd (recv s)), tl w)).

  Lemma ext_getlogger v (w:W) : ext {| c_name := "getLogger"; c_kw := [] |} [v] w = (ROk (VRef "logger"), w).
  Proof. reflexivity. Qed.

  Lemma init_call w : caught w -> (sock_fuel (sock0 (map ev_of w)) <= wfuel)%nat ->
    unm (sock_init (map ev_of w)) = false ->
    call Ob W ext M wfuel "__init__" srco_sock_init [VRef "sock"; VInt enc; VInt bs] [] w =
      (ROk VNone, (sock_self enc bs (sock_init (map ev_of w)), tl w)).
  Proof.
    intros Hc Hw Hu.
    rewrite (call_eq Ob W ext M wfuel "__init__" srco_sock_init [VRef "sock"; VInt enc; VInt bs] _ _
               [("sock", VRef "sock"); ("encoding", VInt enc); ("bufsize", VInt bs)] eq_refl).
    cbv [srco_sock_init m_body m_locals map app].
    rewrite exec_list_cons, exec_assign, eval_callx. ev. rewrite ext_getlogger. ev.
    do 5 (rewrite exec_list_cons, exec_assign; ev).
    unfold sock_init in *.
    change {| buf := []; partial := []; evs := map ev_of w; unm := false |} with (sock0 (map ev_of w)) in *.
    set (s0 := sock0 (map ev_of w)) in *.
    rewrite exec_list_cons, exec_expr, eval_callm, eval_list_nil, MR. names.
    match goal with |- context[gR ?a ?e ?w] => change (gR a e w) with (gR a (sock_self enc bs s0) w) end.
    rewrite (GR s0 w Hc eq_refl Hw Hu). rewrite exec_list_nil. reflexivity.
  Qed.
End Init.

(* ================= the linked program ================= *)
Section Linked.
  Variables (enc bs : Z) (zl : Z -> bytes -> option bytes) (wfuel : nat).
  Notation ext := (sock_ext zl).
  Notation dz := (the_dz enc zl).
  Notation chunked := (the_chunked enc).
  Notation link := (link Ob W ext wfuel).
  Notation srun := (run Ob W ext wfuel srco_sock_prog).

  Ltac at_meth := unfold run, srco_sock_prog; rewrite ?link_skip by reflexivity; rewrite link_here.
  Ltac find_meth := rewrite ?link_skip by reflexivity; rewrite link_here; reflexivity.

  Theorem src_sock_dechunk_eq : forall seg s w, (List.length seg < wfuel)%nat ->
    srun "dechunk" [VBytes seg] (sock_self enc bs s) w =
      (dres_img (dechunk dz seg), (sock_self enc bs s, w)).
  Proof. intros seg s w H. at_meth. now apply dechunk_call. Qed.

  (* _recv as the methods before it see it *)
  Lemma recv_linked M : M "dechunk" = Some (call Ob W ext (link []) wfuel "dechunk" srco_sock_dechunk) ->
    forall s w, caught w -> evs s = map ev_of w -> (sock_fuel s <= wfuel)%nat -> unm (snd (recv chunked dz s)) = false ->
    call Ob W ext M wfuel "_recv" srco_sock__recv [] (sock_self enc bs s) w =
      (ROk (VBool (fst (recv chunked dz s))), (sock_self enc bs (snd (recv chunked dz s)), tl w)).
  Proof.
    intros HM s w. eapply recv_call; [exact HM|].
    intros seg s1 w1 H. now apply dechunk_call.
  Qed.

  Theorem src_sock_recv_eq : forall s w, caught w -> evs s = map ev_of w -> (sock_fuel s <= wfuel)%nat ->
    unm (snd (recv chunked dz s)) = false ->
    srun "_recv" [] (sock_self enc bs s) w =
      (ROk (VBool (fst (recv chunked dz s))), (sock_self enc bs (snd (recv chunked dz s)), tl w))
    /\ evs (snd (recv chunked dz s)) = map ev_of (tl w).
  Proof.
    intros s w Hc He Hw Hu. split.
    - at_meth. apply recv_linked; auto; find_meth.
    - rewrite recv_evs, He. destruct w; reflexivity.
  Qed.

  Lemma read_linked M :
    M "_recv" = Some (call Ob W ext (link [("dechunk", srco_sock_dechunk)]) wfuel "_recv" srco_sock__recv) ->
    forall n s w, 0 <= n -> caught w -> evs s = map ev_of w -> (sock_fuel s <= wfuel)%nat ->
    unm (snd (sock_read chunked dz (Z.to_nat n) s)) = false ->
    exists w', call Ob W ext M wfuel "read" srco_sock_read [VInt n] (sock_self enc bs s) w =
                 (ROk (VBytes (fst (sock_read chunked dz (Z.to_nat n) s))),
                  (sock_self enc bs (snd (sock_read chunked dz (Z.to_nat n) s)), w'))
               /\ evs (snd (sock_read chunked dz (Z.to_nat n) s)) = map ev_of w' /\ suffix w' w.
  Proof.
    intros HM n s w. eapply read_call; [exact HM|].
    apply recv_linked. find_meth.
  Qed.

  (* the world after a call, given the model's state after it: the events not yet consumed *)
  Definition world_after (w:W) (s':sock) : W := skipn (List.length w - List.length (evs s')) w.

  Lemma world_after_eq w w' s' : evs s' = map ev_of w' -> suffix w' w -> w' = world_after w s'.
  Proof. intros He Hs. unfold world_after. rewrite He, map_length. now apply suffix_explicit. Qed.

  Theorem src_sock_read_eq : forall n s w, 0 <= n -> caught w -> evs s = map ev_of w -> (sock_fuel s <= wfuel)%nat ->
    let r := sock_read chunked dz (Z.to_nat n) s in
    unm (snd r) = false ->
    srun "read" [VInt n] (sock_self enc bs s) w =
      (ROk (VBytes (fst r)), (sock_self enc bs (snd r), world_after w (snd r)))
    /\ evs (snd r) = map ev_of (world_after w (snd r)).
  Proof.
    intros n s w Hn Hc He Hw r Hu. subst r.
    destruct (read_linked (link [("__init__", srco_sock_init); ("_recv", srco_sock__recv); ("dechunk", srco_sock_dechunk)])
                ltac:(find_meth) n s w Hn Hc He Hw Hu) as (w' & H1 & H2 & H3).
    rewrite <- (world_after_eq _ _ _ H2 H3). split; [|exact H2].
    at_meth. exact H1.
  Qed.

  Theorem src_sock_readline_eq : forall s w, caught w -> evs s = map ev_of w ->
    (sock_fuel s + List.length (buf s) <= wfuel)%nat ->
    let r := sock_readline chunked dz s in
    unm (snd r) = false ->
    srun "readline" [] (sock_self enc bs s) w =
      (ROk (VBytes (fst r)), (sock_self enc bs (snd r), world_after w (snd r)))
    /\ evs (snd r) = map ev_of (world_after w (snd r)).
  Proof.
    intros s w Hc He Hw r Hu. subst r.
    destruct (readline_call enc bs zl
                (link [("read", srco_sock_read); ("__init__", srco_sock_init); ("_recv", srco_sock__recv); ("dechunk", srco_sock_dechunk)])
                wfuel _ ltac:(find_meth) (read_linked _ ltac:(find_meth)) s w Hc He Hw Hu) as (w' & H1 & H2 & H3).
    rewrite <- (world_after_eq _ _ _ H2 H3). split; [|exact H2].
    at_meth. exact H1.
  Qed.

  Theorem src_sock_init_eq : forall w, caught w -> (sock_fuel (sock0 (map ev_of w)) <= wfuel)%nat ->
    let s' := sock_init chunked dz (map ev_of w) in
    unm s' = false ->
    srun "__init__" [VRef "sock"; VInt enc; VInt bs] [] w = (ROk VNone, (sock_self enc bs s', tl w))
    /\ evs s' = map ev_of (tl w).
  Proof.
    intros w Hc Hw s' Hu. subst s'. split.
    - at_meth. eapply init_call; eauto; [find_meth|]. apply recv_linked. find_meth.
    - unfold sock_init. rewrite recv_evs. cbn [evs]. destruct w; reflexivity.
  Qed.
End Linked.

Goal True. idtac "PA:src_sock_dechunk_eq". Abort.
Print Assumptions src_sock_dechunk_eq.
Goal True. idtac "PA:src_sock_recv_eq". Abort.
Print Assumptions src_sock_recv_eq.
Goal True. idtac "PA:src_sock_read_eq". Abort.
Print Assumptions src_sock_read_eq.
Goal True. idtac "PA:src_sock_readline_eq". Abort.
Print Assumptions src_sock_readline_eq.
Goal True. idtac "PA:src_sock_init_eq". Abort.
Print Assumptions src_sock_init_eq.
