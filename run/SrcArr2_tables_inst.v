(* Per-run: the source tie of rtcmhelpers.parse_4076_201 meets the regenerated tables: the working tree's COEFFS passes the side
   condition (attribute-name prefixes are not hidden names, coefficient names distinct and not "Layer Height"), so the current text of
   parse_4076_201, interpreted in the environment built from the real tables and any message object o, is Model.Helpers.parse_4076_201 T o. *)
From Coq Require Import NArith ZArith List String.
From PyRtcm Require Import Base.Bytes Model.Types Model.Message Model.Helpers Src.PyO Src.ArrEnv Src.Arr2Env.
From PyRtcmGen Require Import Tables SrcOArr2 SrcArr2_inst.
Import ListNotations.

Theorem src_arr2_coeffs_ok : coeffs_ok T srco_arr2_reserved = true.
Proof. vm_compute. reflexivity. Qed.

Theorem src_parse_4076_201_eq_tables : forall wfuel o a w,
  count_not_str o "IDF035" -> attrs_small o -> (S (List.length (o_attrs o)) < wfuel)%nat -> modelled (parse_4076_201 T o) ->
  run Ob W (arr2_ext T srco_arr2_reserved o) wfuel srco_arr2_prog "parse_4076_201" [VRef "msg"] a w
  = (img_4076 (parse_4076_201 T o), (a, tt)).
Proof. intros wfuel o a w. apply src_parse_4076_201_eq. exact src_arr2_coeffs_ok. Qed.

Goal True. idtac "PA:src_arr2_coeffs_ok". Abort.
Print Assumptions src_arr2_coeffs_ok.
Goal True. idtac "PA:src_parse_4076_201_eq_tables". Abort.
Print Assumptions src_parse_4076_201_eq_tables.
