(* Per-run source tie for the reader, continued (run/SrcReader_inst.v is the first part): the PyO interpretation of the
   CURRENT source text of
     rtcmreader.RTCMReader.__next__ / __init__
   (translated by tools/gen_src2.py into PyRtcmGen.SrcOReader) against the hand-written model (Model/Reader.v):
     1. __next__      = read(), with (None, None) turned into StopIteration                       [src_next_eq]
     2. the iteration protocol (`for x in reader:` / `list(reader)`) on top of __next__
                      = Model.Reader.iterate, event for event                                       [src_iter_eq]
     3. __init__      builds exactly the attribute store [reader_self c h] that every other theorem of the reader
                      source tie starts from, and does not touch the stream                        [src_init_eq]
                      (for a socket: the same store with _stream = what SocketWrapper(...) returned) [src_init_socket_eq]
   for EVERY underlying stream, message constructor, configuration, handler / no handler, and budget.
   Definitions that are part of the statements: [next_image], [loop_end], [iter_next], [iter_image], [reader_ext_ctor]. *)
From Coq Require Import ZArith NArith List String Bool Lia.
From Coq.Strings Require Import Byte.
From PyRtcm Require Import Base.Bytes Model.Types Model.Crc Model.Reader Model.Socket.
From PyRtcm Require Import Src.PyO Src.PyOLemmas Src.PyOReaderLemmas Src.ReaderEnv.
From PyRtcmGen Require Import SrcOReader SrcReader_inst.
Import ListNotations.
Open Scope string_scope.
Open Scope Z_scope.

(* [run prog f] = [call <the methods after f> f] *)
Ltac at_meth := unfold run, srco_reader_prog; rewrite ?link_skip by reflexivity; rewrite link_here.

Section Iter.
Variables St Msg : Type.
Variable ops : stream_ops St.
Variable construct : bytes -> Z -> outcome Msg.
Variable c : cfg.
Variable h : bool.
Notation W := (W St).
Notation ext := (reader_ext St Msg ops construct).
Notation slf := (reader_self Msg c h).
Notation run_ wfuel := (run Msg W ext wfuel srco_reader_prog).
Notation NMEA := srco_const_NMEA_HDR.
Notation UBX := srco_const_UBX_HDR.
Notation VALCK := srco_const_VALCKSUM.
Notation ERR_RAISE := srco_const_ERR_RAISE.
Notation ERR_LOG := srco_const_ERR_LOG.
Notation read_ := (read ops construct NMEA UBX VALCK ERR_RAISE ERR_LOG c).
Notation iterate_ := (iterate ops construct NMEA UBX VALCK ERR_RAISE ERR_LOG c).

(* ================= 1. __next__ ================= *)
(* the model's read() results as results of __next__: as [image] (Src/ReaderEnv.v) except that end of stream -- read()
   returning (None, None) -- is the exception StopIteration.  A yield in raw-only mode is (raw, None): raw is bytes,
   so `raw_data is None and parsed_data is None` is false and the pair is returned. *)
Definition next_image (o:rd_result Msg) : res (val Msg) :=
  match o with
  | RYield raw m => ROk (VTuple [VBytes raw; optv Msg m])
  | REnd => RExc "StopIteration"
  | RRaise e => RExc (liberr_class e)
  | RForeign k => RExc (pyexc_class k)
  | RUnmodelled w => RFail (FUnmodelled w)
  | ROutOfFuel => RFail FOutOfFuel
  end.

(* MAIN 1: whenever the model's read() with fuel [fuel] ends, __next__ interpreted with any larger while-budget gives the
   corresponding result, the same stream state, the same handler calls, and leaves self unchanged
   (same hypotheses and same final world as src_read_eq_any_budget) *)
Theorem src_next_eq fuel wfuel st log0 hlog o st' :
  no_eof Msg construct ->
  read_ fuel st = (hlog, o, st') ->
  o <> ROutOfFuel ->
  (fuel < wfuel)%nat ->
  run_ wfuel "__next__" [] slf (st, log0) = (next_image o, (slf, (st', (log0 ++ hlog)%list))).
Proof.
  intros Hc HR HO Hlt.
  pose proof (src_read_eq_any_budget St Msg ops construct c h fuel wfuel st log0 hlog o st' Hc HR HO Hlt) as R.
  set (L := (log0 ++ hlog)%list) in *. clearbody L.
  unfold run, srco_reader_prog in R |- *.
  rewrite link_skip in R by reflexivity. rewrite link_here in R.
  rewrite link_here.
  enter srco_reader_next.
  sx. rewrite link_here. fold slf. rewrite R.
  destruct o as [raw m| |e|k|w|]; cbn [image next_image]; sx.
  - destruct m; cbn [optv]; sx; reflexivity.
  - reflexivity.
  - reflexivity.
  - reflexivity.
  - reflexivity.
  - reflexivity.
Qed.

(* ================= 2. iteration ================= *)
(* Python's iteration protocol over a reader (`for x in reader: ...`, `list(reader)`; RTCMReader.__iter__ returns self),
   on top of the interpreter: call __next__ repeatedly; each returned value is one item of the loop; the first
   StopIteration ends the loop normally; any other exception ends it and propagates out of the loop.  [n] bounds the
   number of __next__ calls (the items asked for).  How the loop stands after at most n calls: *)
Inductive loop_end :=
| LStop                     (* __next__ raised StopIteration: the loop is over, normally *)
| LRaise (cls:string)       (* __next__ raised something else: the exception leaves the loop *)
| LFail (f:fail)            (* the interpreter gave up (never the case under the theorem's hypotheses) *)
| LMore.                    (* n items delivered and the loop has not ended *)

(* result: the items in order, each with the handler / logger log as it stands when the item is delivered (what the
   loop body can observe); how the loop ended; self and world (stream state, total log) at that point *)
Fixpoint iter_next (wfuel:nat) (n:nat) (a:env Msg) (w:W) : list (val Msg * list liberr) * loop_end * (env Msg * W) :=
  match n with
  | O => ([], LMore, (a, w))
  | S n' =>
      match run_ wfuel "__next__" [] a w with
      | (ROk v, (a', w')) =>
          let '(items, e, fin) := iter_next wfuel n' a' w' in ((v, snd w') :: items, e, fin)
      | (RExc cls, fin) => ([], if String.eqb cls "StopIteration" then LStop else LRaise cls, fin)
      | (RFail f, fin) => ([], LFail f, fin)
      end
  end.

(* the same reading of the model's event list (Model.Reader.iterate: one event (handler calls, result) per read(); a
   result other than a yield is the last event): [log] = the log before the first event *)
Fixpoint iter_image (log:list liberr) (evs:list (list liberr * rd_result Msg)) : list (val Msg * list liberr) * loop_end :=
  match evs with
  | [] => ([], LMore)
  | (hl, RYield raw m) :: t =>
      let '(items, e) := iter_image (log ++ hl)%list t in ((VTuple [VBytes raw; optv Msg m], (log ++ hl)%list) :: items, e)
  | (_, REnd) :: _ => ([], LStop)
  | (_, RRaise e) :: _ => ([], LRaise (liberr_class e))
  | (_, RForeign k) :: _ => ([], LRaise (pyexc_class k))
  | (_, RUnmodelled w) :: _ => ([], LFail (FUnmodelled w))
  | (_, ROutOfFuel) :: _ => ([], LFail FOutOfFuel)
  end.

Lemma liberr_not_stop e : String.eqb (liberr_class e) "StopIteration" = false.
Proof. destruct e; reflexivity. Qed.
Lemma pyexc_not_stop k : String.eqb (pyexc_class k) "StopIteration" = false.
Proof. destruct k; reflexivity. Qed.

(* MAIN 2: iterating over the reader = the model's [iterate], event for event: the same items (raw, parsed) in the same
   order, each delivered after the same handler calls; the same ending (end of stream = normal end of the loop; a raised
   library error or foreign exception leaves the loop with its class); the same final stream state; the total log = the
   log before ++ the handler calls of all the reads in order; self unchanged.
   Hypotheses: the constructor does not raise EOFError (as for read()); no read() inside runs out of the model's fuel;
   the interpreter's while-budget exceeds that fuel. *)
Theorem src_iter_eq fuel wfuel :
  no_eof Msg construct ->
  (fuel < wfuel)%nat ->
  forall n st log0 evs st',
  iterate_ fuel n st = (evs, st') ->
  Forall (fun ev => snd ev <> ROutOfFuel) evs ->
  iter_next wfuel n slf (st, log0) = (iter_image log0 evs, (slf, (st', (log0 ++ List.concat (map fst evs))%list))).
Proof.
  intros Hc Hlt. induction n as [|n IH]; intros st log0 evs st' HI HF.
  - cbn [iterate] in HI. inversion HI; subst. cbn [iter_next iter_image map List.concat]. rewrite app_nil_r. reflexivity.
  - cbn [iterate] in HI. destruct (read_ fuel st) as [[hl o] s1] eqn:ER.
    destruct o as [raw m| |e|k|w|].
    + destruct (iterate_ fuel n s1) as [evs' s2] eqn:EI. inversion HI; subst. inversion HF; subst.
      cbn [iter_next].
      rewrite (src_next_eq fuel wfuel st log0 hl (RYield raw m) s1 Hc ER ltac:(discriminate) Hlt).
      cbn [next_image]. rewrite (IH s1 (log0 ++ hl)%list evs' st' EI H2).
      cbn [iter_image snd map fst List.concat]. rewrite app_assoc.
      destruct (iter_image (log0 ++ hl)%list evs') as [items e]. reflexivity.
    + inversion HI; subst. cbn [iter_next].
      rewrite (src_next_eq fuel wfuel st log0 hl REnd st' Hc ER ltac:(discriminate) Hlt).
      cbn [next_image iter_image snd map fst List.concat]. rewrite app_nil_r. reflexivity.
    + inversion HI; subst. cbn [iter_next].
      rewrite (src_next_eq fuel wfuel st log0 hl (RRaise e) st' Hc ER ltac:(discriminate) Hlt).
      cbn [next_image iter_image snd map fst List.concat]. rewrite liberr_not_stop, app_nil_r. reflexivity.
    + inversion HI; subst. cbn [iter_next].
      rewrite (src_next_eq fuel wfuel st log0 hl (RForeign k) st' Hc ER ltac:(discriminate) Hlt).
      cbn [next_image iter_image snd map fst List.concat]. rewrite pyexc_not_stop, app_nil_r. reflexivity.
    + inversion HI; subst. cbn [iter_next].
      rewrite (src_next_eq fuel wfuel st log0 hl (RUnmodelled w) st' Hc ER ltac:(discriminate) Hlt).
      cbn [next_image iter_image snd map fst List.concat]. rewrite app_nil_r. reflexivity.
    + inversion HI; subst. inversion HF; subst. cbn [snd] in *. congruence.
Qed.

(* ================= 3. __init__ ================= *)
(* the environment of the constructor: reader_ext (Src/ReaderEnv.v) extended with the three callees only __init__ has
     isinstance(x, socket)                        -> [is_socket]                     (any x; the world is not touched)
     getLogger("pyrtcm.rtcmreader")               -> the reference "logger"          (the world is not touched)
     SocketWrapper(x, encoding=e, bufsize=b)      -> [sockwrap [x; e; b]]            (ANY function of the arguments and the
                                                                                      world: returns a value or raises)
   every other callee means what it means in reader_ext *)
Definition reader_ext_ctor (is_socket:bool) (sockwrap:list (val Msg) -> W -> res (val Msg) * W)
                           (cs:callsig) (args:list (val Msg)) (w:W) : res (val Msg) * W :=
  let nm := c_name cs in
  if String.eqb nm "isinstance" then
    match c_kw cs, args with
    | [k], [_] => if String.eqb k "socket" then (ROk (VBool is_socket), w) else unm St Msg "isinstance of another class" w
    | _, _ => unm St Msg "isinstance arguments" w
    end
  else if String.eqb nm "getLogger" then
    match c_kw cs, args with
    | [], [VStr s] => if String.eqb s "pyrtcm.rtcmreader" then (ROk (VRef "logger"), w) else unm St Msg "another logger" w
    | _, _ => unm St Msg "getLogger arguments" w
    end
  else if String.eqb nm "SocketWrapper" then
    match c_kw cs with
    | [k1; k2] => if String.eqb k1 "encoding" && String.eqb k2 "bufsize" then sockwrap args w
                  else unm St Msg "SocketWrapper keywords" w
    | _ => unm St Msg "SocketWrapper keywords" w
    end
  else reader_ext St Msg ops construct cs args w.

(* RTCMReader(datastream, validate=, quitonerror=, labelmsm=, bufsize=, parsed=, errorhandler=, encoding=): the
   arguments in the order of the signature (keywords resolved by the caller), for the configuration c / handler h *)
Definition ctor_args (bufsize encoding:Z) : list (val Msg) :=
  [VRef "stream"; VInt (validate c); VInt (quitonerror c); VInt (labelmsm c); VInt bufsize; VBool (parsed c);
   (if h then VRef "handler" else VNone); VInt encoding].

Lemma ctor_isinstance b sw v w :
  reader_ext_ctor b sw {| c_name := "isinstance"; c_kw := ["socket"] |} [v] w = (ROk (VBool b), w).
Proof. reflexivity. Qed.
Lemma ctor_getlogger b sw w :
  reader_ext_ctor b sw {| c_name := "getLogger"; c_kw := [] |} [VStr "pyrtcm.rtcmreader"] w = (ROk (VRef "logger"), w).
Proof. reflexivity. Qed.
Lemma ctor_sockwrap b sw args w :
  reader_ext_ctor b sw {| c_name := "SocketWrapper"; c_kw := ["encoding"; "bufsize"] |} args w = sw args w.
Proof. reflexivity. Qed.

(* MAIN 3: for a stream that is not a socket, __init__ run on the EMPTY attribute store returns None, leaves exactly
   [reader_self c h] -- the store every other theorem of the reader source tie assumes -- and does not touch the world
   (neither the stream nor the log), whatever bufsize / encoding are *)
Theorem src_init_eq wfuel sockwrap bufsize encoding w :
  run Msg W (reader_ext_ctor false sockwrap) wfuel srco_reader_prog "__init__" (ctor_args bufsize encoding) [] w
  = (ROk VNone, (slf, w)).
Proof.
  at_meth. unfold ctor_args. enter srco_reader_init.
  destruct h; sx; rewrite ctor_isinstance; sx; rewrite ctor_getlogger; sx; reflexivity.
Qed.

(* for a socket: SocketWrapper(datastream, encoding=encoding, bufsize=bufsize) is called once, first; if it returns v
   the store is [reader_self c h] with _stream = v (world as SocketWrapper left it); if it raises, the exception leaves
   __init__ and no attribute has been set *)
Theorem src_init_socket_eq wfuel sockwrap bufsize encoding w :
  run Msg W (reader_ext_ctor true sockwrap) wfuel srco_reader_prog "__init__" (ctor_args bufsize encoding) [] w
  = match sockwrap [VRef "stream"; VInt encoding; VInt bufsize] w with
    | (ROk v, w') => (ROk VNone, (("_stream", v) :: tl slf, w'))
    | (RExc cls, w') => (RExc cls, ([], w'))
    | (RFail f, w') => (RFail f, ([], w'))
    end.
Proof.
  at_meth. unfold ctor_args. enter srco_reader_init.
  destruct h; sx; rewrite ctor_isinstance; sx; rewrite ctor_sockwrap;
    (destruct (sockwrap [VRef "stream"; VInt encoding; VInt bufsize] w) as [[v|cls|f] w']; sx; [|reflexivity|reflexivity]);
    rewrite ctor_getlogger; sx; reflexivity.
Qed.
End Iter.

Goal True. idtac "PA:src_next_eq". Abort.
Print Assumptions src_next_eq.
Goal True. idtac "PA:src_iter_eq". Abort.
Print Assumptions src_iter_eq.
Goal True. idtac "PA:src_init_eq". Abort.
Print Assumptions src_init_eq.
Goal True. idtac "PA:src_init_socket_eq". Abort.
Print Assumptions src_init_socket_eq.
