(* Per-run source tie for the reader: the PyO interpretation (Src/PyO.v) of the CURRENT source text of
     rtcmreader.RTCMReader.read / _parse_ubx / _parse_nmea / _parse_rtcm3 / _read_bytes / _read_line / _do_error / parse
   (translated by tools/gen_src2.py into PyRtcmGen.SrcOReader) equals the hand-written model (Model/Reader.v), for EVERY
   underlying stream (any record of stream operations, any stream state), every message constructor, every
   configuration, with or without an error handler, and every iteration budget.  The environment (what the stream,
   the handler / logger, calc_crc24q and RTCMMessage mean; the attributes of a constructed reader; how the model's
   results read as interpreter results) is Src/ReaderEnv.v. *)
From Coq Require Import ZArith NArith List String Bool Lia.
From Coq.Strings Require Import Byte.
From PyRtcm Require Import Base.Bytes Model.Types Model.Crc Model.Reader Model.Socket.
From PyRtcm Require Import Src.PyO Src.PyOLemmas Src.PyOReaderLemmas Src.ReaderEnv.
From PyRtcmGen Require Import SrcOReader.
Import ListNotations.
Open Scope string_scope.
Open Scope Z_scope.

(* ---------- symbolic execution ---------- *)
(* one simple statement / expression on a concrete state, by computation: only the interpreter's own functions and
   comparisons of closed strings unfold; arithmetic, bytes operations, the environment and the model stay folded *)
Ltac interp t :=
  eval cbv [PyO.exec PyO.eval PyO.eval_list PyO.assign target_expr ret lookup update setattr
            truth binop_val int_binop unop_val eq_val cmp_val builtin_val
            set_locals set_self set_world locals self world
            String.eqb Ascii.eqb Bool.eqb append reader_self map srco_const_NMEA_HDR] in t.
(* a subscript can raise, so its result is not known by computation: expressions containing one are opened node by
   node (unfolding equations) until the subscript is exposed *)
Ltac step_stmt :=
  match goal with
  | |- context [PyO.assign ?Ob ?W ?tg ?v (Build_state ?A ?B ?l ?sf ?w)] =>
      let t := constr:(PyO.assign Ob W tg v (Build_state A B l sf w)) in
      let t' := interp t in change t with t'
  | |- context [PyO.exec ?Ob ?W ?ext ?M ?wf ?st (Build_state ?A ?B ?l ?sf ?w)] =>
      let s := constr:(Build_state A B l sf w) in
      let t := constr:(PyO.exec Ob W ext M wf st s) in
      lazymatch st with
      | SIf ?c ?th ?el => rewrite (exec_if Ob W ext M wf c th el s)
      | STry ?b ?hs => rewrite (exec_try Ob W ext M wf b hs s)
      | SWhile _ _ => fail
      | SAssign ?tg ?e =>
          lazymatch e with
          | context [EIndex _ _] => rewrite (exec_assign Ob W ext M wf tg e s)
          | _ => let t' := interp t in change t with t'
          end
      | _ => let t' := interp t in change t with t'
      end
  | |- context [PyO.eval ?Ob ?W ?ext ?M ?e (Build_state ?A ?B ?l ?sf ?w)] =>
      let s := constr:(Build_state A B l sf w) in
      let t := constr:(PyO.eval Ob W ext M e s) in
      lazymatch e with
      | context [EIndex _ _] =>
          lazymatch e with
          | EIndex ?a ?i => rewrite (eval_index Ob W ext M a i s)
          | EBin ?o ?a ?b => rewrite (eval_bin Ob W ext M o a b s)
          | EAnd ?a ?b => rewrite (eval_and Ob W ext M a b s)
          | ECmp ?a [(?o, ?b)] => rewrite (eval_cmp1 Ob W ext M a o b s)
          end
      | _ => let t' := interp t in change t with t'
      end
  end.
Ltac rd := cbv [PyO.exec_list]; cbv beta iota; cbn [truth cmp_last binop_val int_binop cmp_val eq_val].
Ltac sx := rd; repeat (step_stmt; rd).
(* entering a method *)
Ltac enter m := cbv [call m m_params m_locals m_body bind_params map app].

Lemma zero_ltb_of_nat n : (0 <? Z.of_nat n) = Nat.ltb 0 n.
Proof. change 0 with (Z.of_nat 0). apply of_nat_ltb. Qed.
Lemma ltb0_negb n : Nat.ltb 0 n = negb (Nat.eqb n 0).
Proof. destruct n; reflexivity. Qed.

Section Reader.
Variables St Msg : Type.
Variable ops : stream_ops St.
Variable construct : bytes -> Z -> outcome Msg.
Variable c : cfg.
Variable h : bool.
Variable wfuel : nat.
Notation W := (W St).
Notation ext := (reader_ext St Msg ops construct).
Notation slf := (reader_self Msg c h).
Notation mtab := (string -> option (mcall Msg W)).

(* the model's internal exceptions as interpreter results *)
Definition exc_res {A} (e:exc) : res A :=
  match e with
  | ELib e => RExc (liberr_class e)
  | EEOF => RExc "EOFError"
  | EForeign k => RExc (pyexc_class k)
  | EUnm w => RFail (FUnmodelled w)
  end.
(* result of a method that leaves self alone, does not touch the log and mirrors a model function *)
Definition img {A} (f : A -> val Msg) (r : Reader.res A * St) (log : list liberr) : res (val Msg) * (env Msg * W) :=
  match r with
  | (Reader.ROk a, st') => (ROk (f a), (slf, (st', log)))
  | (Reader.RExc e, st') => (exc_res e, (slf, (st', log)))
  end.

(* ---------- the environment on the calls the source makes ---------- *)
Lemma ext_read n st log :
  ext {| c_name := "stream.read"; c_kw := [] |} [VInt (Z.of_nat n)] (st, log) =
  let '(d, st') := s_read ops n st in (ROk (VBytes d), (st', log)).
Proof. cbv [reader_ext c_name c_kw String.eqb Ascii.eqb Bool.eqb]. rewrite of_nat_ltb0, Nat2Z.id. reflexivity. Qed.
Lemma ext_readline st log :
  ext {| c_name := "stream.readline"; c_kw := [] |} [] (st, log) =
  let '(d, st') := s_readline ops st in (ROk (VBytes d), (st', log)).
Proof. reflexivity. Qed.
Lemma ext_handler e st log :
  ext {| c_name := "handler"; c_kw := [] |} [VExc (liberr_class e)] (st, log) = (ROk VNone, (st, (log ++ [e])%list)).
Proof. destruct e; reflexivity. Qed.
Lemma ext_logger e st log :
  ext {| c_name := "logger.error"; c_kw := [] |} [VExc (liberr_class e)] (st, log) = (ROk VNone, (st, (log ++ [e])%list)).
Proof. destruct e; reflexivity. Qed.
Lemma ext_crc m w :
  ext {| c_name := "calc_crc24q"; c_kw := [] |} [VBytes m] w = (ROk (VInt (Z.of_N (calc_crc24q m))), w).
Proof. destruct w. reflexivity. Qed.
Lemma ext_msg p l w :
  ext {| c_name := "RTCMMessage"; c_kw := ["payload"; "labelmsm"] |} [VBytes p; VInt l] w = (outcome_res Msg (construct p l), w).
Proof. destruct w. reflexivity. Qed.

Definition do_error_res (e:liberr) (st:St) (log:list liberr) : res (val Msg) * (env Msg * W) :=
  if quitonerror c =? srco_const_ERR_RAISE then (RExc (liberr_class e), (slf, (st, log)))
  else if quitonerror c =? srco_const_ERR_LOG then (ROk VNone, (slf, (st, (log ++ [e])%list)))
  else (ROk VNone, (slf, (st, log))).

(* ================= _read_bytes, _read_line, _do_error, parse: no callee inside the class ================= *)
Section Leaves.
Variable MT : mtab.

Lemma read_bytes_ok n st log :
  call Msg W ext MT wfuel "_read_bytes" srco_reader__read_bytes [VInt (Z.of_nat n)] slf (st, log)
  = img (@VBytes Msg) (read_bytes ops n st) log.
Proof.
  enter srco_reader__read_bytes.
  sx. rewrite ext_read. unfold read_bytes. destruct (s_read ops n st) as [d st1].
  sx. rewrite of_nat_eqb0. destruct (Nat.eqb (List.length d) 0) eqn:E0; cbn [andb]; sx.
  - rewrite zero_ltb_of_nat, ltb0_negb. destruct (Nat.eqb n 0); cbn [negb]; [|reflexivity]. sx.
    rewrite zero_ltb_of_nat, of_nat_ltb. destruct (Nat.ltb 0 (List.length d)); cbn [andb]; sx.
    + destruct (Nat.ltb (List.length d) n); sx; reflexivity.
    + reflexivity.
  - rewrite zero_ltb_of_nat, of_nat_ltb. destruct (Nat.ltb 0 (List.length d)); cbn [andb]; sx.
    + destruct (Nat.ltb (List.length d) n); sx; reflexivity.
    + reflexivity.
Qed.

Lemma read_line_ok st log :
  call Msg W ext MT wfuel "_read_line" srco_reader__read_line [] slf (st, log)
  = img (@VBytes Msg) (read_line ops st) log.
Proof.
  enter srco_reader__read_line.
  sx. rewrite ext_readline. unfold read_line. destruct (s_readline ops st) as [d st1].
  sx. rewrite of_nat_eqb0, <- (rev_length d).
  destruct (rev d) as [|l r] eqn:E; cbn [List.length Nat.eqb]; sx; [reflexivity|].
  rewrite slice_m1, E, beqb_beq, beq_single. destruct (Byte.eqb l x0a); cbn [negb]; sx; reflexivity.
Qed.

Lemma do_error_ok e st log :
  call Msg W ext MT wfuel "_do_error" srco_reader__do_error [VExc (liberr_class e)] slf (st, log)
  = do_error_res e st log.
Proof.
  enter srco_reader__do_error. unfold do_error_res.
  sx. destruct (quitonerror c =? srco_const_ERR_RAISE); sx; [reflexivity|].
  destruct (quitonerror c =? srco_const_ERR_LOG); sx; [|reflexivity].
  destruct h; sx.
  - rewrite ext_handler. reflexivity.
  - rewrite ext_logger. reflexivity.
Qed.

Lemma parse_ok m v l a w :
  call Msg W ext MT wfuel "parse" srco_reader_parse [VBytes m; VInt v; VInt l] a w
  = (outcome_res Msg (parse construct srco_const_VALCKSUM v l m), (a, w)).
Proof.
  enter srco_reader_parse. unfold parse.
  sx. destruct (Z.land v srco_const_VALCKSUM =? 0); cbn [negb andb]; sx.
  - rewrite slice_3_m3, ext_msg. destruct (construct _ l); reflexivity.
  - rewrite ext_crc. sx. rewrite of_N_eqb0. destruct (N.eqb (calc_crc24q m) 0); cbn [negb]; sx.
    + rewrite slice_3_m3, ext_msg. destruct (construct _ l); reflexivity.
    + reflexivity.
Qed.
End Leaves.

Lemma read_bytes_len n st d st' : read_bytes ops n st = (Reader.ROk d, st') -> (n <= List.length d)%nat.
Proof.
  unfold read_bytes. destruct (s_read ops n st) as [d0 s0].
  destruct (Nat.eqb_spec (List.length d0) 0) as [E|E]; cbn [andb].
  - destruct (Nat.eqb_spec n 0) as [->|N0]; cbn [negb]; [|discriminate].
    destruct (Nat.ltb 0 (List.length d0) && Nat.ltb (List.length d0) 0); [discriminate|].
    intro H. inversion H. lia.
  - destruct (Nat.ltb_spec 0 (List.length d0)); [|lia]. cbn [andb].
    destruct (Nat.ltb_spec (List.length d0) n); [discriminate|].
    intro HH. inversion HH. subst. lia.
Qed.

(* ================= _parse_nmea, _parse_ubx, _parse_rtcm3: in any method table whose callees are the model's ================= *)
Definition rb_spec (g:mcall Msg W) : Prop :=
  forall z st log, 0 <= z -> g [VInt z] slf (st, log) = img (@VBytes Msg) (read_bytes ops (Z.to_nat z) st) log.
Definition rl_spec (g:mcall Msg W) : Prop :=
  forall st log, g [] slf (st, log) = img (@VBytes Msg) (read_line ops st) log.
Definition parse_spec (g:mcall Msg W) : Prop :=
  forall m v l a w, g [VBytes m; VInt v; VInt l] a w = (outcome_res Msg (parse construct srco_const_VALCKSUM v l m), (a, w)).
(* _parse_ubx / _parse_nmea return (raw_data, None); the model does not build raw_data (read() discards it) *)
Definition skip_spec (f:St -> Reader.res unit * St) (g:mcall Msg W) : Prop :=
  forall hdr st log,
    match f st with
    | (Reader.ROk _, st') => exists raw, g [VBytes hdr] slf (st, log) = (ROk (VTuple [VBytes raw; VNone]), (slf, (st', log)))
    | (Reader.RExc e, st') => g [VBytes hdr] slf (st, log) = (exc_res e, (slf, (st', log)))
    end.
Definition pair_val (p:bytes * option Msg) : val Msg := VTuple [VBytes (fst p); optv Msg (snd p)].
Definition rtcm3_spec (g:mcall Msg W) : Prop :=
  forall hdr st log, (2 <= List.length hdr)%nat ->
    g [VBytes hdr] slf (st, log) = img pair_val (parse_rtcm3 ops construct srco_const_VALCKSUM c hdr st) log.

Section Mid.
Variable MT : mtab.
Variables g_rb g_rl g_parse : mcall Msg W.
Hypothesis H_rb : MT "_read_bytes" = Some g_rb.
Hypothesis G_rb : rb_spec g_rb.
Hypothesis H_rl : MT "_read_line" = Some g_rl.
Hypothesis G_rl : rl_spec g_rl.
Hypothesis H_parse : MT "parse" = Some g_parse.
Hypothesis G_parse : parse_spec g_parse.

Lemma parse_nmea_ok : skip_spec (parse_nmea ops) (call Msg W ext MT wfuel "_parse_nmea" srco_reader__parse_nmea).
Proof.
  intros hdr st log. enter srco_reader__parse_nmea.
  sx. rewrite H_rl. fold slf. rewrite G_rl. unfold parse_nmea, bind, img.
  destruct (read_line ops st) as [[d|e] st1]; sx.
  - eexists. reflexivity.
  - destruct e; reflexivity.
Qed.

Lemma parse_ubx_ok : skip_spec (parse_ubx ops) (call Msg W ext MT wfuel "_parse_ubx" srco_reader__parse_ubx).
Proof.
  intros hdr st log. enter srco_reader__parse_ubx.
  sx. rewrite H_rb. fold slf. rewrite G_rb by discriminate. change (Z.to_nat 4) with 4%nat.
  unfold parse_ubx, bind, img.
  destruct (read_bytes ops 4 st) as [[byten|e] st1] eqn:E1; sx; [|destruct e; reflexivity].
  apply read_bytes_len in E1. rewrite (le_acc_2_4 byten E1).
  rewrite H_rb. fold slf. rewrite G_rb by lia.
  replace (Z.to_nat (Z.of_N (bN (nth 2 byten x00) + 256 * bN (nth 3 byten x00)) + 2))
    with (N.to_nat (bN (nth 2 byten x00) + 256 * bN (nth 3 byten x00)) + 2)%nat by lia.
  unfold img. destruct (read_bytes ops _ st1) as [[b2|e] st2]; sx.
  - eexists. reflexivity.
  - destruct e; reflexivity.
Qed.

Lemma parse_rtcm3_ok : rtcm3_spec (call Msg W ext MT wfuel "_parse_rtcm3" srco_reader__parse_rtcm3).
Proof.
  intros hdr st log Hh. enter srco_reader__parse_rtcm3.
  sx. rewrite H_rb. fold slf. rewrite G_rb by discriminate. change (Z.to_nat 1) with 1%nat.
  unfold parse_rtcm3, bind, img.
  destruct (read_bytes ops 1 st) as [[hdr3|e] st1] eqn:E1; sx; [|destruct e; reflexivity].
  apply read_bytes_len in E1.
  change (index_bytes Msg hdr 1) with (index_bytes Msg hdr (Z.of_nat 1)).
  rewrite index_nonneg by lia. sx. change (8 <? 0) with false. sx.
  change (index_bytes Msg hdr3 0) with (index_bytes Msg hdr3 (Z.of_nat 0)).
  rewrite index_nonneg by lia. sx. rewrite shl8_or. sx.
  rewrite H_rb. fold slf. rewrite G_rb by lia. rewrite <- N_nat_Z, Nat2Z.id.
  unfold img. destruct (read_bytes ops _ st1) as [[payload|e] st2]; sx; [|destruct e; reflexivity].
  rewrite H_rb. fold slf. rewrite G_rb by discriminate. change (Z.to_nat 3) with 3%nat.
  unfold img. destruct (read_bytes ops 3 st2) as [[crc|e] st3]; sx; [|destruct e; reflexivity].
  rewrite <- !app_assoc.
  destruct (parsed c) eqn:Ep; sx.
  - rewrite H_parse. fold slf. rewrite G_parse. 
    destruct (parse construct srco_const_VALCKSUM (validate c) (labelmsm c) _) as [m|e|k|w]; cbn [outcome_res of_outcome]; sx; unfold reader_self; rewrite Ep; reflexivity.
  - unfold reader_self; rewrite Ep; reflexivity.
Qed.
End Mid.

(* RTCMMessage(...) does not raise EOFError (a proved property of the real constructor); without this, an EOFError out
   of the constructor would be caught by read()'s `except EOFError` while the model reports it as RForeign XEOF *)
Definition no_eof : Prop := forall p l, construct p l <> Foreign XEOF.

Lemma read_bytes_exc n s e s' : read_bytes ops n s = (Reader.RExc e, s') -> e <> EForeign XEOF.
Proof.
  unfold read_bytes. destruct (s_read ops n s) as [d s0].
  destruct (_ && _); [intro HH; inversion HH; discriminate|].
  destruct (_ && _); intro HH; inversion HH; discriminate.
Qed.
Lemma read_line_exc s e s' : read_line ops s = (Reader.RExc e, s') -> e <> EForeign XEOF.
Proof.
  unfold read_line. destruct (s_readline ops s) as [d s0].
  destruct (rev d) as [|l r]; [intro HH; inversion HH; discriminate|].
  destruct (Byte.eqb l x0a); intro HH; inversion HH; discriminate.
Qed.
Lemma parse_ubx_exc s e s' : parse_ubx ops s = (Reader.RExc e, s') -> e <> EForeign XEOF.
Proof.
  unfold parse_ubx, bind. destruct (read_bytes ops 4 s) as [[a|e0] s0] eqn:E0.
  - destruct (read_bytes ops _ s0) as [[a1|e1] s1] eqn:E1; intro HH; inversion HH; subst.
    eapply read_bytes_exc; eauto.
  - intro HH; inversion HH; subst. eapply read_bytes_exc; eauto.
Qed.
Lemma parse_nmea_exc s e s' : parse_nmea ops s = (Reader.RExc e, s') -> e <> EForeign XEOF.
Proof.
  unfold parse_nmea, bind. destruct (read_line ops s) as [[a|e0] s0] eqn:E0; intro HH; inversion HH; subst.
  eapply read_line_exc; eauto.
Qed.
Lemma parse_rtcm3_exc hdr s e s' : no_eof ->
  parse_rtcm3 ops construct srco_const_VALCKSUM c hdr s = (Reader.RExc e, s') -> e <> EForeign XEOF.
Proof.
  intro Hc. unfold parse_rtcm3, bind.
  destruct (read_bytes ops 1 s) as [[a|e0] s0] eqn:E0; [|intro HH; inversion HH; subst; eapply read_bytes_exc; eauto].
  destruct (read_bytes ops _ s0) as [[a1|e1] s1] eqn:E1; [|intro HH; inversion HH; subst; eapply read_bytes_exc; eauto].
  destruct (read_bytes ops 3 s1) as [[a2|e2] s2] eqn:E2; [|intro HH; inversion HH; subst; eapply read_bytes_exc; eauto].
  destruct (parsed c); [|discriminate].
  unfold parse. destruct (_ && _); cbn [of_outcome]; [intro HH; inversion HH; discriminate|].
  destruct (construct _ _) as [m|le|k|w] eqn:Ec; cbn [of_outcome]; intro HH; inversion HH; subst; try discriminate.
  intro K. inversion K. subst. eapply Hc; eauto.
Qed.
Lemma attempt_no_xeof st st' : no_eof ->
  attempt ops construct srco_const_NMEA_HDR srco_const_UBX_HDR srco_const_VALCKSUM c st <> (Reader.RExc (EForeign XEOF), st').
Proof.
  intros Hc HA. revert HA. unfold attempt, bind.
  destruct (read_bytes ops 1 st) as [[a|e0] s0] eqn:E0; [|intro HH; inversion HH; subst; eapply read_bytes_exc; eauto].
  destruct (negb (is_sync a)); [discriminate|].
  destruct (read_bytes ops 1 s0) as [[a1|e1] s1] eqn:E1; [|intro HH; inversion HH; subst; eapply read_bytes_exc; eauto].
  destruct (beq _ _).
  { destruct (parse_ubx ops s1) as [[u|e2] s2] eqn:E2; intro HH; inversion HH; subst. eapply parse_ubx_exc; eauto. }
  destruct (existsb _ _).
  { destruct (parse_nmea ops s1) as [[u|e2] s2] eqn:E2; intro HH; inversion HH; subst. eapply parse_nmea_exc; eauto. }
  destruct (_ && _); [|discriminate].
  destruct (parse_rtcm3 _ _ _ _ _ s1) as [[u|e2] s2] eqn:E2; intro HH; inversion HH; subst. eapply parse_rtcm3_exc; eauto.
Qed.

(* ================= read ================= *)
(* the pieces of the translated read(): [parsing = True; while parsing: try: TBODY except HANDLERS; return ...] *)
Definition read_while : stmt := nth 1 (m_body srco_reader_read) SPass.
Definition read_cond : expr := match read_while with SWhile cnd _ => cnd | _ => ENone end.
Definition read_body : list stmt := match read_while with SWhile _ b => b | _ => [] end.
Definition read_try : stmt := nth 0 read_body SPass.
Definition read_tbody : list stmt := match read_try with STry b _ => b | _ => [] end.
Definition read_handlers := match read_try with STry _ hs => hs | _ => [] end.

(* the frame of read(): parameters (none), then locals in the translator's order *)
Definition rl (p e r pd b1 b2 bh : val Msg) : env Msg :=
  [("parsing", p); ("err", e); ("raw_data", r); ("parsed_data", pd); ("byte1", b1); ("byte2", b2); ("bytehdr", bh)].
Definition mk (l:env Msg) (st:St) (log:list liberr) : state Msg W := {| locals := l; self := slf; world := (st, log) |}.
(* at the head of the loop *)
Definition S0 r pd b1 b2 bh st log : state Msg W := mk (rl (VBool true) VUnbound r pd b1 b2 bh) st log.

Lemma is_sync_existsb b : existsb (beq b) [[xb5]; [x24]; [xd3]] = is_sync b.
Proof. unfold is_sync. cbn [existsb]. now rewrite orb_false_r, orb_assoc. Qed.

Section Top.
Variable MT : mtab.
Variables g_rb g_ubx g_nmea g_rtcm3 g_de : mcall Msg W.
Hypothesis H_rb : MT "_read_bytes" = Some g_rb.
Hypothesis G_rb : rb_spec g_rb.
Hypothesis H_ubx : MT "_parse_ubx" = Some g_ubx.
Hypothesis G_ubx : skip_spec (parse_ubx ops) g_ubx.
Hypothesis H_nmea : MT "_parse_nmea" = Some g_nmea.
Hypothesis G_nmea : skip_spec (parse_nmea ops) g_nmea.
Hypothesis H_rtcm3 : MT "_parse_rtcm3" = Some g_rtcm3.
Hypothesis G_rtcm3 : rtcm3_spec g_rtcm3.
Hypothesis H_de : MT "_do_error" = Some g_de.
Hypothesis G_de : forall e st log, g_de [VExc (liberr_class e)] slf (st, log) = do_error_res e st log.

Notation attempt_ := (attempt ops construct srco_const_NMEA_HDR srco_const_UBX_HDR srco_const_VALCKSUM c).

(* the statements inside `try:` *)
Definition tbody_spec (r : res (ctl Msg) * state Msg W) (a : Reader.res (option (bytes * option Msg)) * St) (log:list liberr) : Prop :=
  match a with
  | (Reader.ROk (Some (raw, m)), st') =>
      exists b1 b2 bh, r = (ROk (CNext Msg), mk (rl (VBool false) VUnbound (VBytes raw) (optv Msg m) b1 b2 bh) st' log)
  | (Reader.ROk None, st') => exists x pd b1 b2 bh, r = (ROk (CCont Msg), S0 x pd b1 b2 bh st' log)
  | (Reader.RExc e, st') => exists x pd b1 b2 bh, r = (exc_res e, S0 x pd b1 b2 bh st' log)
  end.

Ltac done := unfold S0, mk, rl; repeat eexists.

Lemma tbody_ok x pd b1 b2 bh st log :
  tbody_spec (exec_list Msg W ext MT wfuel read_tbody (S0 x pd b1 b2 bh st log)) (attempt_ st) log.
Proof.
  cbv [read_tbody read_try read_body read_while srco_reader_read m_body nth S0 mk rl].
  sx. rewrite H_rb. fold slf. rewrite G_rb by discriminate. change (Z.to_nat 1) with 1%nat.
  unfold attempt, bind, img.
  destruct (read_bytes ops 1 st) as [[byte1|e] st1] eqn:E1; sx; [|destruct e; done].
  apply read_bytes_len in E1.
  change [VBytes [xb5]; VBytes [x24]; VBytes [xd3]] with (map (@VBytes Msg) [[xb5]; [x24]; [xd3]]).
  rewrite mem_val_bytes, is_sync_existsb.
  destruct (is_sync byte1); cbn [negb]; sx; [|done].
  rewrite H_rb. fold slf. rewrite G_rb by discriminate. change (Z.to_nat 1) with 1%nat. unfold img.
  destruct (read_bytes ops 1 st1) as [[byte2|e] st2] eqn:E2; sx; [|destruct e; done].
  apply read_bytes_len in E2.
  rewrite beqb_beq. destruct (beq (byte1 ++ byte2)%list srco_const_UBX_HDR); sx.
  { (* UBX *)
    rewrite H_ubx. fold slf. pose proof (G_ubx (byte1 ++ byte2)%list st2 log) as GU.
    destruct (parse_ubx ops st2) as [[[]|e] st3].
    - destruct GU as [raw GU]. rewrite GU. sx. done.
    - rewrite GU. destruct e; done. }
  match goal with |- context [mem_val Msg (VBytes ?b) ?l] =>
    change (mem_val Msg (VBytes b) l) with (mem_val Msg (VBytes b) (map (@VBytes Msg) srco_const_NMEA_HDR)) end.
  rewrite mem_val_bytes. destruct (existsb (beq (byte1 ++ byte2)%list) srco_const_NMEA_HDR); sx.
  { (* NMEA *)
    rewrite H_nmea. fold slf. pose proof (G_nmea (byte1 ++ byte2)%list st2 log) as GU.
    destruct (parse_nmea ops st2) as [[[]|e] st3].
    - destruct GU as [raw GU]. rewrite GU. sx. done.
    - rewrite GU. destruct e; done. }
  rewrite beqb_beq. destruct (beq byte1 [xd3]); cbn [andb]; sx; [|done].
  change (index_bytes Msg byte2 0) with (index_bytes Msg byte2 (Z.of_nat 0)).
  rewrite index_nonneg by lia. sx. rewrite land_inv3.
  destruct (N.eqb (N.land (bN (nth 0 byte2 x00)) 252) 0); sx; [|done].
  rewrite H_rtcm3. fold slf. rewrite G_rtcm3 by (rewrite app_length; lia). unfold img.
  destruct (parse_rtcm3 ops construct srco_const_VALCKSUM c (byte1 ++ byte2)%list st2) as [[[raw m]|e] st3]; sx.
  - done.
  - destruct e; done.
Qed.

(* the handlers *)
Lemma pick_named cls l sf (w:W) classes x hbody r :
  matches cls classes = true ->
  pick Msg W ext MT wfuel cls {| locals := l; self := sf; world := w |} ((classes, Some x, hbody) :: r) =
  let '(r', s2) := exec_list Msg W ext MT wfuel hbody {| locals := update Msg x (VExc cls) l; self := sf; world := w |} in
  (r', {| locals := update Msg x VUnbound (locals Msg W s2); self := self Msg W s2; world := world Msg W s2 |}).
Proof. intro Hm. cbn [pick]. rewrite Hm. reflexivity. Qed.
Lemma pick_skip cls s1 classes x hbody r :
  matches cls classes = false ->
  pick Msg W ext MT wfuel cls s1 ((classes, x, hbody) :: r) = pick Msg W ext MT wfuel cls s1 r.
Proof. intro Hm. cbn [pick]. rewrite Hm. reflexivity. Qed.

Definition lib_classes := ["RTCMMessageError"; "RTCMParseError"; "RTCMStreamError"; "RTCMTypeError"].
Lemma matches_lib_eof e : matches (liberr_class e) ["EOFError"] = false.
Proof. destruct e; reflexivity. Qed.
Lemma matches_lib_lib e : matches (liberr_class e) lib_classes = true.
Proof. destruct e; reflexivity. Qed.
Lemma matches_py_eof k : k <> XEOF -> matches (pyexc_class k) ["EOFError"] = false.
Proof. destruct k; try reflexivity. congruence. Qed.
Lemma matches_py_lib k : matches (pyexc_class k) lib_classes = false.
Proof. destruct k; reflexivity. Qed.

Definition lib_spec (r : res (ctl Msg) * state Msg W) (e:liberr) (st:St) (log:list liberr) : Prop :=
  if quitonerror c =? 0 then exists x pd b1 b2 bh, r = (ROk (CCont Msg), S0 x pd b1 b2 bh st log)
  else if quitonerror c =? srco_const_ERR_RAISE then exists ls, r = (RExc (liberr_class e), mk ls st log)
  else if quitonerror c =? srco_const_ERR_LOG then exists x pd b1 b2 bh, r = (ROk (CCont Msg), S0 x pd b1 b2 bh st (log ++ [e])%list)
  else exists x pd b1 b2 bh, r = (ROk (CCont Msg), S0 x pd b1 b2 bh st log).

Ltac norm := cbv [locals self world update String.eqb Ascii.eqb Bool.eqb].

Lemma handlers_lib e x pd b1 b2 bh st log :
  lib_spec (pick Msg W ext MT wfuel (liberr_class e) (S0 x pd b1 b2 bh st log) read_handlers) e st log.
Proof.
  cbv [read_handlers read_try read_body read_while srco_reader_read m_body nth S0 mk].
  rewrite pick_skip by apply matches_lib_eof. rewrite pick_named by apply matches_lib_lib.
  match goal with |- context [update Msg "err" (VExc ?cls) ?l] =>
    let t := constr:(update Msg "err" (VExc cls) l) in
    let t' := eval cbv [update String.eqb Ascii.eqb Bool.eqb rl] in t in change t with t' end.
  unfold lib_spec.
  sx. destruct (quitonerror c =? 0); cbn [negb]; sx.
  - norm. done.
  - rewrite H_de. fold slf. rewrite G_de. unfold do_error_res.
    destruct (quitonerror c =? srco_const_ERR_RAISE); sx; [norm; done|].
    destruct (quitonerror c =? srco_const_ERR_LOG); sx; norm; done.
Qed.

Lemma handlers_eof x pd b1 b2 bh st log :
  exists ls, pick Msg W ext MT wfuel "EOFError" (S0 x pd b1 b2 bh st log) read_handlers
             = (ROk (CRet Msg (VTuple [VNone; VNone])), mk ls st log).
Proof.
  cbv [read_handlers read_try read_body read_while srco_reader_read m_body nth S0 mk].
  cbn [pick]. change (matches "EOFError" ["EOFError"]) with true. cbv iota.
  sx. done.
Qed.

Lemma handlers_foreign k x pd b1 b2 bh st log : k <> XEOF ->
  pick Msg W ext MT wfuel (pyexc_class k) (S0 x pd b1 b2 bh st log) read_handlers
  = (RExc (pyexc_class k), S0 x pd b1 b2 bh st log).
Proof.
  intro Hk. cbv [read_handlers read_try read_body read_while srco_reader_read m_body nth].
  rewrite pick_skip by (apply matches_py_eof; exact Hk). rewrite pick_skip by apply matches_py_lib.
  reflexivity.
Qed.

(* one pass of the loop body *)
Definition iter_spec (r : res (ctl Msg) * state Msg W) (a : Reader.res (option (bytes * option Msg)) * St) (log:list liberr) : Prop :=
  match a with
  | (Reader.ROk (Some (raw, m)), st') =>
      exists b1 b2 bh, r = (ROk (CNext Msg), mk (rl (VBool false) VUnbound (VBytes raw) (optv Msg m) b1 b2 bh) st' log)
  | (Reader.ROk None, st') => exists x pd b1 b2 bh, r = (ROk (CCont Msg), S0 x pd b1 b2 bh st' log)
  | (Reader.RExc EEOF, st') => exists ls, r = (ROk (CRet Msg (VTuple [VNone; VNone])), mk ls st' log)
  | (Reader.RExc (ELib e), st') => lib_spec r e st' log
  | (Reader.RExc (EForeign k), st') => exists ls, r = (RExc (pyexc_class k), mk ls st' log)
  | (Reader.RExc (EUnm w), st') => exists ls, r = (RFail (FUnmodelled w), mk ls st' log)
  end.

Lemma exec_list_single a (s:state Msg W) : exec_list Msg W ext MT wfuel [a] s = exec Msg W ext MT wfuel a s.
Proof. rewrite exec_list_cons. destruct (exec Msg W ext MT wfuel a s) as [[[]|cls|f] s1]; reflexivity. Qed.

Lemma body_ok x pd b1 b2 bh st log : no_eof ->
  iter_spec (exec_list Msg W ext MT wfuel read_body (S0 x pd b1 b2 bh st log)) (attempt_ st) log.
Proof.
  intro Hc. change read_body with [STry read_tbody read_handlers].
  rewrite exec_list_single, exec_try.
  pose proof (tbody_ok x pd b1 b2 bh st log) as T.
  pose proof (fun s' => attempt_no_xeof st s' Hc) as NX.
  destruct (attempt_ st) as [[[[raw m]|]|e] st']; cbn [tbody_spec iter_spec] in *.
  - destruct T as (b1' & b2' & bh' & ->). eauto.
  - destruct T as (x' & pd' & b1' & b2' & bh' & ->). eauto 6.
  - destruct T as (x' & pd' & b1' & b2' & bh' & ->).
    destruct e as [le| |k|w]; cbn [exc_res].
    + apply handlers_lib.
    + destruct (handlers_eof x' pd' b1' b2' bh' st' log) as [ls ->]. eauto.
    + rewrite handlers_foreign by (intro K; subst k; exact (NX st' eq_refl)). unfold S0. eauto.
    + unfold S0. eauto.
Qed.

(* the loop *)
Notation read_ := (read ops construct srco_const_NMEA_HDR srco_const_UBX_HDR srco_const_VALCKSUM
                     srco_const_ERR_RAISE srco_const_ERR_LOG c).
Definition loop_spec (r : res (ctl Msg) * state Msg W) (o:rd_result Msg) (st':St) (log:list liberr) : Prop :=
  match o with
  | RYield raw m => exists b1 b2 bh, r = (ROk (CNext Msg), mk (rl (VBool false) VUnbound (VBytes raw) (optv Msg m) b1 b2 bh) st' log)
  | REnd => exists ls, r = (ROk (CRet Msg (VTuple [VNone; VNone])), mk ls st' log)
  | RRaise e => exists ls, r = (RExc (liberr_class e), mk ls st' log)
  | RForeign k => exists ls, r = (RExc (pyexc_class k), mk ls st' log)
  | RUnmodelled w => exists ls, r = (RFail (FUnmodelled w), mk ls st' log)
  | ROutOfFuel => exists ls, r = (RFail FOutOfFuel, mk ls st' log)
  end.
(* j = what is left of the interpreter's budget when the model's fuel k is spent: a message found with the last unit of
   fuel needs one more evaluation of the loop condition; conversely the model only reports ROutOfFuel at exactly k *)
Definition budget_ok (o:rd_result Msg) (j:nat) : Prop :=
  match o with RYield _ _ => (1 <= j)%nat | ROutOfFuel => j = O | _ => True end.

Notation wl := (wloop Msg W (eval Msg W ext MT read_cond) (exec_list Msg W ext MT wfuel read_body)).

Lemma loop_ok j : no_eof -> forall k x pd b1 b2 bh st log0 hlog o st',
  read_ k st = (hlog, o, st') -> budget_ok o j ->
  loop_spec (wl (k + j)%nat (S0 x pd b1 b2 bh st log0)) o st' (log0 ++ hlog)%list.
Proof.
  intros Hc. induction k as [|k IH]; intros x pd b1 b2 bh st log0 hlog o st' HR HB.
  - cbn [read] in HR. inversion HR; subst. cbn [budget_ok] in HB. subst j. cbn [Nat.add loop_spec].
    rewrite wloop_O, app_nil_r. unfold S0. eauto.
  - cbn [read] in HR. cbn [Nat.add]. rewrite wloop_S.
    change (eval Msg W ext MT read_cond (S0 x pd b1 b2 bh st log0)) with (@ROk (val Msg) (VBool true), S0 x pd b1 b2 bh st log0).
    cbv iota. cbn [truth].
    pose proof (body_ok x pd b1 b2 bh st log0 Hc) as B.
    destruct (attempt_ st) as [[[[raw m]|]|e] st1]; cbn [iter_spec] in B.
    + (* a message *)
      inversion HR; subst. destruct B as (b1' & b2' & bh' & ->). cbn [budget_ok] in HB.
      destruct (k + j)%nat as [|n] eqn:En; [lia|]. rewrite wloop_S.
      change (eval Msg W ext MT read_cond (mk (rl (VBool false) VUnbound (VBytes raw) (optv Msg m) b1' b2' bh') st' log0))
        with (@ROk (val Msg) (VBool false), mk (rl (VBool false) VUnbound (VBytes raw) (optv Msg m) b1' b2' bh') st' log0).
      cbv iota. cbn [truth loop_spec]. rewrite app_nil_r. eauto.
    + (* continue *)
      destruct B as (x' & pd' & b1' & b2' & bh' & ->). eapply IH; eauto.
    + destruct e as [le| |kk|w].
      * (* a library error: the three modes *)
        unfold lib_spec in B.
        destruct (quitonerror c =? 0).
        { destruct B as (x' & pd' & b1' & b2' & bh' & ->). eapply IH; eauto. }
        destruct (quitonerror c =? srco_const_ERR_RAISE).
        { inversion HR; subst. destruct B as (ls & ->). cbn [loop_spec]. rewrite app_nil_r. eauto. }
        destruct (quitonerror c =? srco_const_ERR_LOG).
        { destruct (read_ k st1) as [[h1 o1] s1] eqn:E1. inversion HR; subst.
          destruct B as (x' & pd' & b1' & b2' & bh' & ->).
          replace (log0 ++ le :: h1)%list with ((log0 ++ [le]) ++ h1)%list by (rewrite <- app_assoc; reflexivity).
          eapply IH; eauto. }
        destruct B as (x' & pd' & b1' & b2' & bh' & ->). eapply IH; eauto.
      * inversion HR; subst. destruct B as (ls & ->). cbn [loop_spec]. rewrite app_nil_r. eauto.
      * inversion HR; subst. destruct B as (ls & ->). cbn [loop_spec]. rewrite app_nil_r. eauto.
      * inversion HR; subst. destruct B as (ls & ->). cbn [loop_spec]. rewrite app_nil_r. eauto.
Qed.

(* the method *)
Lemma read_ok j k st log0 hlog o st' : no_eof -> wfuel = (k + j)%nat ->
  read_ k st = (hlog, o, st') -> budget_ok o j ->
  call Msg W ext MT wfuel "read" srco_reader_read [] slf (st, log0) = (image Msg o, (slf, (st', (log0 ++ hlog)%list))).
Proof.
  intros Hc Hw HR HB. enter srco_reader_read.
  sx. rewrite exec_while.
  pose proof (loop_ok j Hc k VUnbound VUnbound VUnbound VUnbound VUnbound st log0 hlog o st' HR HB) as L.
  rewrite <- Hw in L.
  match goal with |- context [wloop Msg W ?cnd ?bd wfuel ?s] =>
    change (wloop Msg W cnd bd wfuel s) with (wl wfuel (S0 VUnbound VUnbound VUnbound VUnbound VUnbound st log0)) end.
  destruct o as [raw m| |e|kk|w|]; cbn [loop_spec image] in *.
  - destruct L as (b1 & b2 & bh & ->). unfold mk, rl. destruct m; cbn [optv]; sx; reflexivity.
  - destruct L as (ls & ->). unfold mk. sx. reflexivity.
  - destruct L as (ls & ->). unfold mk. sx. reflexivity.
  - destruct L as (ls & ->). unfold mk. sx. reflexivity.
  - destruct L as (ls & ->). unfold mk. sx. reflexivity.
  - destruct L as (ls & ->). unfold mk. sx. reflexivity.
Qed.
End Top.
End Reader.

(* ================= linking: the methods as they sit in the translated class ================= *)
Section Linked.
Variables St Msg : Type.
Variable ops : stream_ops St.
Variable construct : bytes -> Z -> outcome Msg.
Variable c : cfg.
Variable h : bool.
Notation W := (W St).
Notation ext := (reader_ext St Msg ops construct).
Notation slf := (reader_self Msg c h).
Notation run_ wfuel := (run Msg W ext wfuel srco_reader_prog).
Notation NMEA := srco_const_NMEA_HDR.
Notation UBX := srco_const_UBX_HDR.
Notation VALCK := srco_const_VALCKSUM.

(* [run prog f] = [call <the methods after f> f] *)
Ltac at_meth := unfold run, srco_reader_prog; rewrite ?link_skip by reflexivity; rewrite link_here.
Ltac find_meth := rewrite ?link_skip by reflexivity; rewrite link_here; reflexivity.

Lemma rb_linked wfuel MT : rb_spec St Msg ops c h (call Msg W ext MT wfuel "_read_bytes" srco_reader__read_bytes).
Proof. intros z st log Hz. rewrite <- (Z2Nat.id z) at 1 by exact Hz. apply read_bytes_ok. Qed.
Lemma rl_linked wfuel MT : rl_spec St Msg ops c h (call Msg W ext MT wfuel "_read_line" srco_reader__read_line).
Proof. intros st log. apply read_line_ok. Qed.
Lemma parse_linked wfuel MT : parse_spec St Msg construct (call Msg W ext MT wfuel "parse" srco_reader_parse).
Proof. intros m v l a w. apply parse_ok. Qed.

Theorem src_read_bytes_eq wfuel n st log :
  run_ wfuel "_read_bytes" [VInt (Z.of_nat n)] slf (st, log) = img St Msg c h (@VBytes Msg) (read_bytes ops n st) log.
Proof. at_meth. apply read_bytes_ok. Qed.

Theorem src_read_line_eq wfuel st log :
  run_ wfuel "_read_line" [] slf (st, log) = img St Msg c h (@VBytes Msg) (read_line ops st) log.
Proof. at_meth. apply read_line_ok. Qed.

Theorem src_do_error_eq wfuel e st log :
  run_ wfuel "_do_error" [VExc (liberr_class e)] slf (st, log) = do_error_res St Msg c h e st log.
Proof. at_meth. apply do_error_ok. Qed.

(* RTCMReader.parse (static): any self, any world; neither is touched *)
Theorem src_parse_eq wfuel m v l a w :
  run_ wfuel "parse" [VBytes m; VInt v; VInt l] a w = (outcome_res Msg (parse construct VALCK v l m), (a, w)).
Proof. at_meth. apply parse_ok. Qed.

Theorem src_parse_nmea_eq wfuel : skip_spec St Msg c h (parse_nmea ops) (run_ wfuel "_parse_nmea").
Proof. at_meth. eapply parse_nmea_ok; [find_meth|apply rl_linked]. Qed.

Theorem src_parse_ubx_eq wfuel : skip_spec St Msg c h (parse_ubx ops) (run_ wfuel "_parse_ubx").
Proof. at_meth. eapply parse_ubx_ok; [find_meth|apply rb_linked]. Qed.

Theorem src_parse_rtcm3_eq wfuel hdr st log : (2 <= List.length hdr)%nat ->
  run_ wfuel "_parse_rtcm3" [VBytes hdr] slf (st, log)
  = img St Msg c h (pair_val Msg) (parse_rtcm3 ops construct VALCK c hdr st) log.
Proof.
  at_meth. eapply parse_rtcm3_ok; [find_meth|apply rb_linked|find_meth|apply parse_linked].
Qed.

(* read(): fuel = the model's fuel, j = what the interpreter's budget has beyond it *)
Lemma read_linked j fuel st log0 hlog o st' :
  no_eof Msg construct ->
  read ops construct NMEA UBX VALCK srco_const_ERR_RAISE srco_const_ERR_LOG c fuel st = (hlog, o, st') ->
  budget_ok Msg o j ->
  run_ (fuel + j)%nat "read" [] slf (st, log0) = (image Msg o, (slf, (st', (log0 ++ hlog)%list))).
Proof.
  intros Hc HR HB. at_meth.
  eapply read_ok with (j := j) (k := fuel);
    [ find_meth | apply rb_linked
    | find_meth | eapply parse_ubx_ok; [find_meth|apply rb_linked]
    | find_meth | eapply parse_nmea_ok; [find_meth|apply rl_linked]
    | find_meth | eapply parse_rtcm3_ok; [find_meth|apply rb_linked|find_meth|apply parse_linked]
    | find_meth | intros e s l; apply do_error_ok
    | exact Hc | reflexivity | exact HR | exact HB ].
Qed.

(* MAIN 1: whenever the model's read() with fuel [fuel] ends (message, end of stream, raised error), the source's read()
   interpreted with a while-budget of fuel + 1 does the same: same result, same stream state, same handler calls,
   self unchanged.  (One more unit than the model because a message found on the last unit still needs the loop
   condition `while parsing` to be evaluated once more.) *)
Theorem src_read_eq fuel st log0 hlog o st' :
  no_eof Msg construct ->
  read ops construct NMEA UBX VALCK srco_const_ERR_RAISE srco_const_ERR_LOG c fuel st = (hlog, o, st') ->
  o <> ROutOfFuel ->
  run_ (S fuel) "read" [] slf (st, log0) = (image Msg o, (slf, (st', (log0 ++ hlog)%list))).
Proof.
  intros Hc HR HO. rewrite <- Nat.add_1_r. eapply read_linked; eauto.
  destruct o; cbn [budget_ok]; auto. congruence.
Qed.

(* MAIN 2: with the SAME budget the two agree on every outcome except a message: end of stream, a raised error and
   running out of budget (ROutOfFuel = FOutOfFuel, after the same calls on the stream and the handler) *)
Theorem src_read_eq_same_fuel fuel st log0 hlog o st' :
  no_eof Msg construct ->
  read ops construct NMEA UBX VALCK srco_const_ERR_RAISE srco_const_ERR_LOG c fuel st = (hlog, o, st') ->
  (forall raw m, o <> RYield raw m) ->
  run_ fuel "read" [] slf (st, log0) = (image Msg o, (slf, (st', (log0 ++ hlog)%list))).
Proof.
  intros Hc HR HO. rewrite <- (Nat.add_0_r fuel) at 1. eapply read_linked; eauto.
  destruct o; cbn [budget_ok]; auto. exfalso. eapply HO. reflexivity.
Qed.

(* the model's fuel is only a bound: once read() ends within [fuel] it ends the same way with more *)
Lemma read_fuel_mono d : forall fuel st hlog o st',
  read ops construct NMEA UBX VALCK srco_const_ERR_RAISE srco_const_ERR_LOG c fuel st = (hlog, o, st') ->
  o <> ROutOfFuel ->
  read ops construct NMEA UBX VALCK srco_const_ERR_RAISE srco_const_ERR_LOG c (fuel + d) st = (hlog, o, st').
Proof.
  induction fuel as [|k IH]; intros st hlog o st' HR HO.
  - cbn [read] in HR. inversion HR; subst. congruence.
  - cbn [read Nat.add] in *.
    destruct (attempt ops construct NMEA UBX VALCK c st) as [[[[raw m]|]|[le| |kk|w]] s1]; try exact HR.
    + apply IH; assumption.
    + destruct (quitonerror c =? 0); [apply IH; assumption|].
      destruct (quitonerror c =? srco_const_ERR_RAISE); [exact HR|].
      destruct (quitonerror c =? srco_const_ERR_LOG); [|apply IH; assumption].
      destruct (read ops construct NMEA UBX VALCK srco_const_ERR_RAISE srco_const_ERR_LOG c k s1) as [[h1 o1] s2] eqn:E1.
      inversion HR; subst. rewrite (IH _ _ _ _ E1 HO). reflexivity.
Qed.

(* MAIN 3 (corollary of MAIN 1): ... and with every larger budget *)
Theorem src_read_eq_any_budget fuel wfuel st log0 hlog o st' :
  no_eof Msg construct ->
  read ops construct NMEA UBX VALCK srco_const_ERR_RAISE srco_const_ERR_LOG c fuel st = (hlog, o, st') ->
  o <> ROutOfFuel ->
  (fuel < wfuel)%nat ->
  run_ wfuel "read" [] slf (st, log0) = (image Msg o, (slf, (st', (log0 ++ hlog)%list))).
Proof.
  intros Hc HR HO Hlt.
  replace wfuel with (S (fuel + (wfuel - fuel - 1)))%nat by lia.
  apply src_read_eq; [exact Hc| |exact HO]. apply read_fuel_mono; assumption.
Qed.
End Linked.

Goal True. idtac "PA:src_read_eq". Abort.
Print Assumptions src_read_eq.
Goal True. idtac "PA:src_read_eq_any_budget". Abort.
Print Assumptions src_read_eq_any_budget.
Goal True. idtac "PA:src_read_eq_same_fuel". Abort.
Print Assumptions src_read_eq_same_fuel.
Goal True. idtac "PA:src_parse_eq". Abort.
Print Assumptions src_parse_eq.
Goal True. idtac "PA:src_parse_rtcm3_eq". Abort.
Print Assumptions src_parse_rtcm3_eq.
Goal True. idtac "PA:src_parse_ubx_eq". Abort.
Print Assumptions src_parse_ubx_eq.
Goal True. idtac "PA:src_parse_nmea_eq". Abort.
Print Assumptions src_parse_nmea_eq.
Goal True. idtac "PA:src_read_bytes_eq". Abort.
Print Assumptions src_read_bytes_eq.
Goal True. idtac "PA:src_read_line_eq". Abort.
Print Assumptions src_read_line_eq.
Goal True. idtac "PA:src_do_error_eq". Abort.
Print Assumptions src_do_error_eq.
