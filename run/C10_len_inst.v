(* C10, length polynomials tied to the decoder (DESIGN.md section 10, deviation (v) closed), at the regenerated tables.
   Generic theorems: coq/Proofs/LengthSound.v; definitions of peval / walk_bits and of the decidable side conditions:
   coq/Spec/PolyEval.v. *)
From Coq Require Import NArith ZArith List String.
From Coq.Strings Require Import Byte.
From PyRtcm Require Import Base.Bytes Model.Types Model.Message Spec.PinnedLengths Spec.Layouts Spec.PolyEval
  Proofs.DecodeWalk Proofs.DecodeExtend Proofs.DecodeLabel2 Proofs.LengthSound.
From PyRtcmGen Require Import Tables.
Import ListNotations. Open Scope Z_scope.

(* every layout of the working tree: whatever the walk reads back (repeat counts, conditions, mask counts, harmonic degrees)
   keeps its value until the end of the walk, and the length polynomial is a faithful rendering of the layout *)
Theorem C10_len_tables_ok : tables_len_ok T = true.
Proof. vm_compute. reflexivity. Qed.
Goal True. idtac "PA:C10_len_tables_ok". Abort.
Print Assumptions C10_len_tables_ok.

Theorem C10_len_side_conditions :
  length_mismatches T = [] /\ keys_nodupb (map fst (all_layouts T)) = true /\ label_zero_width T = true.
Proof. vm_compute. repeat split; reflexivity. Qed.
Goal True. idtac "PA:C10_len_side_conditions". Abort.
Print Assumptions C10_len_side_conditions.

(* a successful decode consumes exactly poly(counts) bits: the layout's own polynomial ... *)
Theorem C10_len_decode : forall p lbl o off ident b,
  decode_run T p lbl = Ok (o, off) -> identity p = Ok ident -> get_dict T ident = Some b ->
  off = peval T (poly_body T [] b) o /\ off = walk_bits T b o /\
  (peval T (poly_body T [] b) o + 7) / 8 <= Z.of_nat (List.length p).
Proof.
  intros p lbl o off ident b E I D.
  destruct C10_len_side_conditions as [_ [_ W]].
  pose proof (decode_run_length_tables T p lbl o off ident b C10_len_tables_ok E I D) as L.
  split; [exact L|split].
  - rewrite L. symmetry. apply walk_bits_peval.
    pose proof (tables_len_ok_layout T ident b C10_len_tables_ok D) as K.
    unfold len_ok in K. apply andb_prop in K. apply K.
  - exact (decode_run_min_bytes T p lbl o off ident b C10_len_tables_ok W E I D).
Qed.
Goal True. idtac "PA:C10_len_decode". Abort.
Print Assumptions C10_len_decode.

(* ... and, for every identity with a pin, the polynomial pinned from the standards *)
Theorem C10_len_decode_pinned : forall p lbl o off ident b pin,
  In (ident, pin) pinned_lengths ->
  decode_run T p lbl = Ok (o, off) -> identity p = Ok ident -> get_dict T ident = Some b ->
  off = peval T pin o /\ (peval T pin o + 7) / 8 <= Z.of_nat (List.length p).
Proof.
  intros p lbl o off ident b pin IP E I D.
  destruct C10_len_side_conditions as [LM [ND W]]. split.
  - exact (decode_run_pinned_length T p lbl o off ident b pin C10_len_tables_ok LM ND IP E I D).
  - exact (decode_run_pinned_min_bytes T p lbl o off ident b pin C10_len_tables_ok LM ND W IP E I D).
Qed.
Goal True. idtac "PA:C10_len_decode_pinned". Abort.
Print Assumptions C10_len_decode_pinned.

(* ---------- concrete instances: the statement is not vacuous ---------- *)
(* 1059 (GPS code bias): 2 satellites with 2 and 1 biases: 67 + 2*11 + 3*19 = 146 bits *)
Definition p1059 : list byte := [x42; x35; x2e; x6b; xf3; x53; x51; x80; x42; x0b; x51; x25; xea; x24; xb1; x82; xb9; x53; x00].
(* 4076_201 (IGS VTEC): 2 layers of degree/order (2,1) and (1,1): 5+2 and 3+1 coefficients: 83 + 2*16 + 11*16 = 291 bits;
   the harmonic-count attributes of the decoded message are those of the LAST layer only *)
Definition p201 : list byte := [xfe; xc1; x92; x1d; xb2; x1d; x30; x99; x91; x6f; x2d; x62; x02; x3c; x47; xb3; x82; xe7; x11; xa2;
  x2d; x95; xa1; xe4; x3a; x75; x92; x00; x03; xf6; x3e; x51; x87; x24; xd4; x2e; x00].
(* 1077 (GPS MSM7): 2 satellites, 2 signals, 3 cells: 169 + 2*2 + 2*36 + 3*80 = 485 bits *)
Definition p1077 : list byte := [x43; x5a; x09; x95; x3f; x48; xf2; x24; xcb; x90; x10; x00; x00; x00; x00; x00; x00; x20; x00; x80;
  x00; x59; xc0; x5c; x69; x10; x94; x35; xa6; x49; xdc; x53; x53; x0f; x13; xd4; x91; x3b; x27; x7c; x55; x47; xb6; x82; xe8; x76;
  xd4; x57; x45; xc8; xd3; xcc; x05; xf4; x63; x8c; x39; x6c; x98; x40; x48].

Definition pinned_of (ident:string) : poly := match assoc ident pinned_lengths with Some q => q | None => [] end.
Definition attrs_of (o:obj) (ks:list string) : list (option value) := map (fun k => assoc k (o_attrs o)) ks.

Theorem C10_len_example_1059 :
  match decode_run T p1059 1 with
  | Ok (o, off) => off = 146 /\ peval T (pinned_of "1059") o = 146 /\ pinned_of "1059" = [([], 67); (["DF387"], 11); (["DF387"; "DF379+1"], 19)] /\
                   attrs_of o ["DF387"; "DF379_01"; "DF379_02"] = [Some (VInt 2); Some (VInt 2); Some (VInt 1)]
  | _ => False
  end.
Proof. vm_compute. repeat split; reflexivity. Qed.
Goal True. idtac "PA:C10_len_example_1059". Abort.
Print Assumptions C10_len_example_1059.

Theorem C10_len_example_4076_201 :
  match decode_run T p201 1 with
  | Ok (o, off) => off = 291 /\ peval T (pinned_of "4076_201") o = 291 /\
                   attrs_of o ["IDF035"; "IDF037_01"; "IDF038_01"; "IDF037_02"; "IDF038_02"; "_NHarmCoeffC"; "_NHarmCoeffS"]
                   = [Some (VInt 1); Some (VInt 1); Some (VInt 0); Some (VInt 0); Some (VInt 0); Some (VInt 3); Some (VInt 1)]
  | _ => False
  end.
Proof. vm_compute. repeat split; reflexivity. Qed.
Goal True. idtac "PA:C10_len_example_4076_201". Abort.
Print Assumptions C10_len_example_4076_201.

Theorem C10_len_example_1077 :
  match decode_run T p1077 1 with
  | Ok (o, off) => off = 485 /\ peval T (pinned_of "1077") o = 485 /\
                   attrs_of o ["NSat"; "NSig"; "NCell"] = [Some (VInt 2); Some (VInt 2); Some (VInt 3)]
  | _ => False
  end.
Proof. vm_compute. repeat split; reflexivity. Qed.
Goal True. idtac "PA:C10_len_example_1077". Abort.
Print Assumptions C10_len_example_1077.

(* through the theorem instead of by evaluating the decoder *)
Theorem C10_len_example_by_theorem : forall o off, decode_run T p201 1 = Ok (o, off) ->
  off = peval T (pinned_of "4076_201") o /\ (peval T (pinned_of "4076_201") o + 7) / 8 <= 37.
Proof.
  intros o off E.
  assert (D : exists b, get_dict T "4076_201" = Some b) by (vm_compute; eexists; reflexivity).
  destruct D as [b D].
  apply (C10_len_decode_pinned p201 1 o off "4076_201"%string b (pinned_of "4076_201")); try assumption.
  - apply assoc_In. vm_compute. reflexivity.
  - reflexivity.
Qed.
Goal True. idtac "PA:C10_len_example_by_theorem". Abort.
Print Assumptions C10_len_example_by_theorem.
