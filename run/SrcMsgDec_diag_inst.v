(* Per-run, informational: what run/SrcMsgDec_tables_inst.v leaves out, and instances of its final corollary on real messages.
   Kept apart from run/SrcMsgDec_tables_inst.v because these statements depend on the content of particular layouts (they are
   expected to change when the payload definitions change; the corollaries there do not).
     src_msgdec_layouts_fail   the identities whose layout does NOT pass layout_ok: exactly ["4076_201"]
     src_msgdec_4076_201_why   of the four parts of walk_ok it fails no_idf038 only
     src_msgdec_passing        the identities that pass, listed: 151 of the 152 layouts; the deepest nesting is 4
     src_msgdec_examples_accepted, src_construct_example_1097
                               five messages of the repository's test data (1005, 1230, 1029 with its text fields, the MSM7 message 1097,
                               the nested SSR message 1059): the model accepts them, so by src_construct_eq_all the translated __init__
                               returns None and leaves the model's object *)
From Coq Require Import NArith ZArith List String Bool Lia.
From Coq.Strings Require Import Byte.
From PyRtcm Require Import Base.Bytes Model.Types Model.Message Src.PyO Src.ReaderEnv Src.MsgDecEnv Src.PyOMsgDecLemmas Src.PyOMsgDecGuard.
From PyRtcm Require Src.PyOMsgDecWalkLemmas.
From PyRtcmGen Require Import Tables SrcOMsgDec SrcMsgDec_inst SrcMsgDec_tables_inst.
Import ListNotations.
Open Scope string_scope.

Module WL := PyRtcm.Src.PyOMsgDecWalkLemmas.

Theorem src_msgdec_layouts_fail : map fst (filter (fun kv => negb (layout_ok (snd kv))) (all_layouts T)) = ["4076_201"].
Proof. vm_compute. reflexivity. Qed.
Theorem src_msgdec_4076_201_why :
  match assoc "4076_201" (t_igs T) with
  | Some b => (WL.no_idf038 b, WL.nodup_labels b, WL.keys_ok srco_msgdec_reserved b, WL.labels_ok (name_ok srco_msgdec_reserved) b)
              = (false, true, true, true)
  | None => False
  end.
Proof. vm_compute. reflexivity. Qed.

(* the identities with a layout that passes: all of RTCM_PAYLOADS_GET, _GET_MSM, _GET_IGS but 4076_201 *)
Definition passing : list string := Eval vm_compute in map fst (filter (fun kv => layout_ok (snd kv)) (all_layouts T)).
Theorem src_msgdec_passing :
  map fst (filter (fun kv => layout_ok (snd kv)) (all_layouts T)) = passing /\
  List.length passing = 151%nat /\ List.length (all_layouts T) = 152%nat.
Proof. vm_compute. repeat split; reflexivity. Qed.

Theorem src_msgdec_max_depth : fold_right Nat.max 0%nat (map (fun kv => WL.body_depth (snd kv)) (all_layouts T)) = 4%nat.
Proof. vm_compute. reflexivity. Qed.

(* ================= real messages run through ================= *)
Definition accepted (p:bytes) (l:Z) : bool :=
  not_excluded excluded (Some p) && match construct T (Some p) l with Ok _ => true | _ => false end.
Lemma accepted_runs wfuel D p l : (10 <= D)%nat -> accepted p l = true ->
  exists o a', construct T (Some p) l = Ok o /\
    rrun dob W (msgdec_ext T) wfuel srco_msgdec_prog D "__init__" [VBytes p; VInt l] [] tt = (ROk VNone, (a', tt)) /\
    store_rel a' o /\ o_immutable o = true.
Proof.
  intros HD HA. unfold accepted in HA. apply andb_true_iff in HA. destruct HA as [HN HA].
  pose proof (src_construct_eq_all T wfuel excluded cks 4 D (Some p) l src_msgdec_tables_ok src_msgdec_layouts_ok src_msgdec_guard_ok
                ltac:(lia) HN) as H.
  cbv zeta in H. cbn [payload_arg] in H.
  destruct (construct T (Some p) l) as [o| | |]; try discriminate.
  destruct H as [a' [H1 [H2 H3]]]. exists o, a'. split; [reflexivity|]. split; [exact H1|]. split; assumption.
Qed.

(* payloads (frame header and CRC stripped) of messages in /repo/tests/pygpsdata-*.log *)
Definition p_1005 : bytes := [x3e; xd0; x00; x03; x8a; x58; xd9; x49; x3c; x87; x2f; x34; x10; x9d; x07; xd6; xaf; x48; x20]%list.
Definition p_1230 : bytes := [x4c; xe0; x00; x80]%list.
Definition p_1029 : bytes := [x40; x50; x00; xeb; xde; x74; xa7; x87; x07; x55; x6e; x6b; x6e; x6f; x77; x6e]%list.
Definition p_1097 : bytes := [x44; x90; x00; x30; xab; x88; xa6; x00; x00; x01; x80; x04; x12; x00; x00; x00; x00; x20; x01; x00; x00; x7f; xe9; xea; x8b; x29; xca; x60; x00; x00; x50; x20; x2b; x5a; xf8; x85; x7e; x75; xef; xe0; x34; xe0; x1f; xfd; x01; xf4; x19; x7f; x89; x81; xa5; x4e; x3a; xa5; x32; x7e; x15; x68; x36; x65; xdc; x18; xdd; xef; x59; xfb; x2a; x9f; xf3; x3f; xfd; x16; x51; xfe; x24; x4b; xe8; xe5; x3b; xea; x9c; x5c; x1f; x97; x44; x20; xd2; xc9; xf6; xfb; xf5; xf7; xb8; x19; xfe; xd1; x61; xff; xc8; xc2; xaa; xaa; xaa; xaa; xaa; xaa; xaa; xaa; xaa; xaa; xaa; xaa; xa0; x05; xc1; x88; x52; x15; x85; x61; x58; x5a; x18; x85; x61; x78; x69; x52; xd2; x73; x83; xd7; x07; xc9; xc4; xb3; x80; xc5; x67; x8a; xd4; xe1; xd2; xc3; x96]%list.
Definition p_1059 : bytes := [x42; x37; x1e; x30; x20; x80; x01; x8b; xc0; x88; x00; x0b; xa8; x03; xe0; x84; x00; x43; xd4; x07; x18; x62; x07; xea; x8a; xfd; xb4; x41; x03; xfe; x15; x7f; xda; x28; x80; x02; x0a; x80; x5d; x18; x40; xfc; xcd; x5f; xa0; x0e; x20; x00; xba; xa0; x19; x08; x10; x3f; x4a; x57; xe6; x64; x88; x1f; xc7; x2b; xf8; x52; x84; x0f; xd5; x15; xfa; xc1; x62; x00; x05; x0a; x00; xe4; xc1; x00; x06; x95; x01; x08; x68; x80; x03; x12; x80; x6a; x38; x40; x00; x71; x40; x16; x9e; x20; x00; x6e; xa0; x16; xd0; x10; x00; x8b; x50; x0b; xa8; x88; x00; x2b; x28; x06; xa4; x84; x00; x07; xd4; x01; xaa; x62; x00; x20; x0a; x03; x01; x41; x00; x07; x35; x00; x62; xb0; x80; x03; xf2; x80; x67; x5c; x40; x00; x7d; x40; x1b; x30; x20; x7e; x8a; xaf; xd8; xd9; x10; x3f; x40; x57; xe4; xed; x08; x1f; x8a; x2b; xf0; xf6; xc4; x0f; xda; x15; xfb; x33; x82; x00; x07; xea; x01; x2d; xd1; x00; x03; x45; x00; xa6; xf8; x80; x03; xf2; x80; x92; x80; x40; xfe; x09; x5f; xbf; x00]%list.

(* all five are accepted by the model, with either label option; so is, without the source tie, their guarded construction *)
Theorem src_msgdec_examples_accepted :
  forallb (fun p => accepted p 1 && accepted p 2 && followed T (Some p) 1 && followed T (Some p) 2) [p_1005; p_1230; p_1029; p_1097; p_1059] = true.
Proof. vm_compute. reflexivity. Qed.

(* e.g. the MSM7 message, with RINEX signal labels (labelmsm = 1): the translated __init__ returns None and leaves the model's object *)
Theorem src_construct_example_1097 : forall wfuel D, (10 <= D)%nat ->
  exists o a', construct T (Some p_1097) 1 = Ok o /\
    rrun dob W (msgdec_ext T) wfuel srco_msgdec_prog D "__init__" [VBytes p_1097; VInt 1] [] tt = (ROk VNone, (a', tt)) /\
    store_rel a' o /\ o_immutable o = true.
Proof.
  intros wfuel D HD. apply accepted_runs; [exact HD|]. vm_compute. reflexivity.
Qed.

Goal True. idtac "PA:src_msgdec_layouts_fail". Abort.
Print Assumptions src_msgdec_layouts_fail.
Goal True. idtac "PA:src_msgdec_passing". Abort.
Print Assumptions src_msgdec_passing.
Goal True. idtac "PA:src_construct_example_1097". Abort.
Print Assumptions src_construct_example_1097.
