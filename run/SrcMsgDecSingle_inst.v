(* Per-run source tie for the two leaf methods of the message decoder, rtcmmessage.RTCMMessage._getsatcellmaps and
   RTCMMessage._set_attribute_single: the PyO interpretation (Src/PyO.v) of their CURRENT source text (translated by
   tools/gen_src2.py `msgdec` into PyRtcmGen.SrcOMsgDec) against the hand-written model (Model/Message.v: getsatcellmaps, set_single),
   for ALL tables T, payloads, attribute stores related to the model's object by MsgDecEnv.store_rel, labels, indices and offsets.
   Environment: Src/MsgDecEnv.v (msgdec_ext T, dob, store_rel).  Generic lemmas and the vocabulary of the statements:
   Src/PyOMsgDecLemmas.v (agree, gsm_post, single_post, name_ok, fd_ok, masks_plain, lazy_same, getsatcellmaps_lazy, set_single_gen,
   set_single_guarded, ...).

   agree p R m r  (m a model outcome, r the result of the method call):
     Ok x         -> exists v a', r = (ROk v, (a', tt)) /\ R x v a'            (gsm_post: v = None /\ store_rel a' o';
                                                                               single_post: v = VInt off' /\ store_rel a' o')
     Lib e        -> exists a', r = (RExc (liberr_class e), (a', tt)) /\ lookup "_payload" a' = Some (VBytes p)
     Foreign k    -> exists a', r = (RExc (dec_exc_class k), (a', tt)) /\ lookup "_payload" a' = Some (VBytes p)
     Unmodelled _ -> exists f, fst r = RFail f

   Each method is proved in an ABSTRACT method table whose callees meet their specifications (id_spec, set_spec; for
   _set_attribute_single the _getsatcellmaps call is a parameter: model function gsm, precondition P, agreement G_gsm), then for the
   class as linked recursively (rlink srco_msgdec_prog d):

   (a) getsatcellmaps_lazy_ok / getsatcellmaps_ok (abstract table), src_getsatcellmaps_lazy_eq / src_getsatcellmaps_eq (linked, depth >= 2):
         store_rel a o -> o_immutable o = false -> identity (o_payload o) = Ok ident -> masks_plain o [-> lazy_same T ident o] ->
         agree (o_payload o) gsm_post (getsatcellmaps[_lazy] T ident o) (call .. "_getsatcellmaps" .. [] a tt)
       masks_plain o: none of DF394 / DF395 / DF396 is a str in o (PyO: a chr()-made str >> int is "operand kind", RFail, where CPython
       raises TypeError = the model's Foreign XType).
       MODEL DEVIATION: the source reads DF396 inside the nested loop only, i.e. only if nsat * nsig > 0; Model.getsatcellmaps reads it
       first.  getsatcellmaps_lazy is the model with the read moved (no other change); the theorem against it needs no condition on
       DF396; lazy_same T ident o (if both masks are ints and select no cell, DF396 reads as an int) is exactly when the two agree.

   (b) set_single_gen_ok (abstract table, the _getsatcellmaps call a parameter), src_set_attribute_single_eq (linked, depth >= 3):
         anam <> "IDF038" -> name_ok srco_msgdec_reserved anam = true -> Forall (fun i => i < 10 ^ 4300) index ->
         (forall fd, find_field T anam = Some fd -> fd_ok fd = true) ->
         store_rel a o -> o_immutable o = false -> identity (o_payload o) = Ok ident ->
         (forall fd, find_field T anam = Some fd -> df_ty fd = TSTR -> str_or_absent o anam) ->
         (forall fd, find_field T anam = Some fd -> anam = "DF396" -> int_or_absent o (t_nsat T) /\ int_or_absent o (t_nsig T)) ->
         (anam = "DF396" -> forall o2 off, set_single_gen T Ok anam index (o, offset) = Ok (o2, off) -> masks_plain o2 /\ lazy_same T ident o2) ->
         agree (o_payload o) single_post (set_single T ident anam index (o, offset))
               (call .. "_set_attribute_single" .. [VStr anam; VInt offset; VList (map VInt index)] a tt)
       and src_set_attribute_single_guarded: the last three conditions as ONE boolean test single_pre on (label, index, object, offset),
       table condition forallb fd_ok (t_fields T) = true, conclusion agree_ns (as agree, nothing claimed for Unmodelled) against
       set_single_guarded T ident (= set_single where single_pre holds, Unmodelled elsewhere): single_spec of the walk with
       leaf := set_single_guarded T ident, name_ok := name_ok srco_msgdec_reserved, strict = false.
       Why the conditions: i < 10^4300: f"{i:02d}" (CPython's digit limit; the model renders any i);  fd_ok: the resolution is a number
       (MsgDecEnv answers RTCM_DATA_FIELDS[k] with RFail for RBad, the model fails only where it scales) and a type name the
       translator did not know is not one the source knows;  name_ok: setattr on one of the eight fixed attributes breaks store_rel, on a
       name bound in the class PyO is RFail (name_ok of the rendered name follows: no such name ends in a digit);  str_or_absent: old int /
       float + str is RFail in PyO ("operand kind" / "float arithmetic"), TypeError in CPython and in the model;  int_or_absent NSat / NSig
       at DF396: str * int is repetition and float * int goes on in Python, the model says TypeError / not modelled;  the last one: the
       preconditions of (a) on the object the model passes to getsatcellmaps.
   Constants of the source text: t_na / t_nsat / t_nsig / t_ncell T = srco_const_NA / NSAT / NSIG / NCELL (hypotheses of the closed
   theorems; to be discharged on the regenerated tables like t_rtcm_hdr in run/SrcMsg_tables_inst.v).
   The IDF038 branch (true division, not in PyO) is excluded by anam <> "IDF038". *)
From Coq Require Import ZArith NArith List String Bool Lia PrimFloat.
From Coq.Strings Require Import Byte.
From PyRtcm Require Import Base.Bytes Base.Dec Model.Types Model.Message.
From PyRtcm Require Import Src.PyO Src.PyOLemmas Src.PyOReaderLemmas Src.PyOMsgLemmas Src.ReaderEnv Src.MsgDecEnv Src.PyOMsgDecLemmas.
From PyRtcmGen Require Import SrcOMsgDec.
Import ListNotations.
Open Scope string_scope.
Open Scope Z_scope.

(* ---------- symbolic execution ---------- *)
(* one statement / expression on a state with concrete locals, by computation; accepted only if it runs through to a result pair.
   `lookup` is for the locals only: an expression that reads an attribute of the (abstract) self gets stuck and is opened node by node *)
Ltac interp t :=
  eval cbv [PyO.exec PyO.eval PyO.eval_list PyO.assign target_expr ret lookup update
            truth binop_val int_binop unop_val eq_val cmp_val mem_val
            set_locals set_self set_world locals self world
            String.eqb Ascii.eqb Bool.eqb existsb orb
            srco_const_PRN srco_const_CELPRN srco_const_CELSIG srco_const_CHA srco_const_INT srco_const_INTS srco_const_STR srco_const_NA srco_const_NSAT srco_const_NSIG srco_const_NCELL] in t.
Ltac rw E := lazymatch type of E with ?l = ?r => change l with r end.
Ltac whole t := let t' := interp t in lazymatch t' with (_, _) => change t with t' end.
Ltac step :=
  match goal with
  | |- context [PyO.assign ?Ob ?W ?tg ?v (Build_state ?A ?B ?l ?sf ?w)] =>
      let t := constr:(PyO.assign Ob W tg v (Build_state A B l sf w)) in
      let t' := interp t in change t with t'
  | |- context [PyO.exec ?Ob ?W ?ext ?M ?wf ?st (Build_state ?A ?B ?l ?sf ?w)] =>
      let s := constr:(Build_state A B l sf w) in
      let t := constr:(PyO.exec Ob W ext M wf st s) in
      lazymatch st with SFor _ _ _ => fail | SAssign (TVar "bits") _ => fail | SIf (ECmp (EVar "ares") _) _ _ => fail | _ => idtac end;
      lazymatch st with
      | SIf ?c ?th ?el => rw (exec_if_branch Ob W ext M wf c th el s)
      | _ =>
      first [ whole t |
      lazymatch st with
      | SAssign ?tg ?e => rw (exec_assign Ob W ext M wf tg e s)
      | SAug ?tg ?o ?e => rw (exec_aug Ob W ext M wf tg o e s); cbv [target_expr]
      | SReturn ?e => rw (exec_return Ob W ext M wf e s)
      | SExpr ?e => rw (exec_expr Ob W ext M wf e s)
      | SRaise ?e => rw (exec_raise Ob W ext M wf e s)
      | SSetItemSelf ?a ?k ?e => rw (exec_setitem_self Ob W ext M wf a k e s)
      end ]
      end
  | |- context [PyO.iter_values ?Ob ?W ?ext ?M ?it (Build_state ?A ?B ?l ?sf ?w)] =>
      let s := constr:(Build_state A B l sf w) in
      lazymatch it with
      | ItRange ?e => rw (iter_range Ob W ext M e s)
      | ItValue ?e => cbv [iter_values]
      end
  | |- context [PyO.eval_list ?Ob ?W ?ext ?M ?l (Build_state ?A ?B ?lc ?sf ?w)] =>
      let s := constr:(Build_state A B lc sf w) in
      let t := constr:(PyO.eval_list Ob W ext M l s) in
      first [ whole t |
      lazymatch l with
      | [] => rw (eval_list_nil Ob W ext M s)
      | ?a :: ?r => rw (eval_list_cons Ob W ext M a r s)
      end ]
  | |- context [eval_opt ?Ob ?W ?ext ?M ?o (Build_state ?A ?B ?l ?sf ?w)] =>
      let t := constr:(eval_opt Ob W ext M o (Build_state A B l sf w)) in
      let t1 := eval cbv [eval_opt] in t in
      let t' := interp t1 in change t with t'
  | |- context [PyO.eval ?Ob ?W ?ext ?M ?e (Build_state ?A ?B ?l ?sf ?w)] =>
      let s := constr:(Build_state A B l sf w) in
      let t := constr:(PyO.eval Ob W ext M e s) in
      first [ whole t |
        lazymatch e with
        | ESelf ?x => rw (eval_self Ob W ext M x s); cbn [self];
                      try match goal with H : lookup _ x ?a = _ |- context [lookup _ x ?a] => rewrite H; cbv beta iota end
        | EIndex ?a ?i => rw (eval_index Ob W ext M a i s)
        | EBin ?o ?a ?b => rw (eval_bin Ob W ext M o a b s)
        | EUn ?o ?a => rw (eval_un Ob W ext M o a s)
        | EAnd ?a ?b => rw (eval_and Ob W ext M a b s)
        | EOr ?a ?b => rw (eval_or Ob W ext M a b s)
        | EIf ?c ?a ?b => rw (eval_if Ob W ext M c a b s)
        | ECmp ?a [(?o, ?b)] => rewrite (eval_cmp1 Ob W ext M a o b s)
        | ESlice ?x ?lo ?hi => rw (eval_slice Ob W ext M x lo hi s)
        | ECallB ?f ?args => rw (eval_callb Ob W ext M f args s)
        | ECallX ?c ?args => rw (eval_callx Ob W ext M c args s)
        | ECallM ?m ?args => rw (eval_callm Ob W ext M m args s)
        | ETuple ?args => rw (eval_tuple Ob W ext M args s)
        | EMethGet ?a ?b ?c => rw (eval_methget Ob W ext M a b c s)
        | ESetattrSelf ?rs ?en ?ev => rw (eval_setattr_self Ob W ext M rs en ev s)
        | EGetattrSelf ?rs ?en ?ed => rw (eval_getattr_self Ob W ext M rs en ed s)
        | EExcNew ?c ?args => rw (eval_excnew Ob W ext M c args s)
        end ]
  end.
(* statement lists are unfolded one statement at a time, the rest is kept behind a name (small goals) *)
Ltac spine :=
  repeat match goal with
  | |- context [branch ?Ob ?W ?ext ?M ?wf (ROk true) ?th ?el ?s] =>
      change (branch Ob W ext M wf (ROk true) th el s) with (PyO.exec_list Ob W ext M wf th s)
  | |- context [branch ?Ob ?W ?ext ?M ?wf (ROk false) ?th ?el ?s] =>
      change (branch Ob W ext M wf (ROk false) th el s) with (PyO.exec_list Ob W ext M wf el s)
  | |- context [branch ?Ob ?W ?ext ?M ?wf (RExc ?c) ?th ?el ?s] =>
      change (branch Ob W ext M wf (RExc c) th el s) with (@RExc (ctl Ob) c, s)
  | |- context [branch ?Ob ?W ?ext ?M ?wf (RFail ?f) ?th ?el ?s] =>
      change (branch Ob W ext M wf (RFail f) th el s) with (@RFail (ctl Ob) f, s)
  | |- context [PyO.exec_list ?Ob ?W ?ext ?M ?wf ?l (Build_state ?A ?B ?lc ?sf ?w)] =>
      let s := constr:(Build_state A B lc sf w) in
      lazymatch l with
      | [] => rw (exec_list_nil Ob W ext M wf s)
      | [?a] => rw (exec_list_cons Ob W ext M wf a [] s)
      | ?a :: ?r => rw (exec_list_cons Ob W ext M wf a r s); let R := fresh "rest" in set (R := r)
      | _ => is_var l; subst l
      end
  end.
Ltac rd := cbv [set_world set_self set_locals]; cbv beta iota; cbn [truth cmp_last binop_val int_binop cmp_val eq_val world self locals negb andb orb]; repeat (progress spine; cbv beta iota);
  repeat match goal with
         | |- context [existsb (String.eqb ?n) srco_msgdec_reserved] =>
             let t := constr:(existsb (String.eqb n) srco_msgdec_reserved) in
             let t' := eval cbv [existsb String.eqb Ascii.eqb Bool.eqb orb srco_msgdec_reserved srco_const_PRN srco_const_CELPRN srco_const_CELSIG srco_const_CHA srco_const_INT srco_const_INTS srco_const_STR srco_const_NA srco_const_NSAT srco_const_NSIG srco_const_NCELL] in t in
             lazymatch t' with true => idtac | false => idtac end;
             change t with t'; cbv beta iota
         | |- context [Zpos ?p <? 0] => change (Zpos p <? 0) with false; cbv beta iota; cbn [binop_val int_binop]
         | |- context [index_list ?Ob (?x :: ?r) 0] => change (index_list Ob (x :: r) 0) with (@ROk (val Ob) x); cbv beta iota
         | |- context [index_list ?Ob [?x; ?y] 1] => change (index_list Ob [x; y] 1) with (@ROk (val Ob) y); cbv beta iota
         | |- context [negb (?x =? ?y)] =>
             let t := constr:(negb (x =? y)) in
             let t' := eval cbv in t in
             lazymatch t' with true => idtac | false => idtac end;
             change t with t'; cbv beta iota
         end.
Ltac sx := rd; repeat (step; rd).
(* `for` statements, the extraction of the bits and the scaling are opened on request only (separate lemmas) *)
Ltac open_stmt :=
  match goal with
  | |- context [PyO.exec ?Ob ?W ?ext ?M ?wf (SAssign ?tg ?e) (Build_state ?A ?B ?l ?sf ?w)] =>
      rw (exec_assign Ob W ext M wf tg e (Build_state A B l sf w))
  | |- context [PyO.exec ?Ob ?W ?ext ?M ?wf (SIf ?c ?th ?el) (Build_state ?A ?B ?l ?sf ?w)] =>
      rw (exec_if_branch Ob W ext M wf c th el (Build_state A B l sf w))
  end.
Ltac open_for :=
  match goal with
  | |- context [PyO.exec ?Ob ?W ?ext ?M ?wf (SFor ?tg ?it ?b) (Build_state ?A ?B ?l ?sf ?w)] =>
      rw (exec_for Ob W ext M wf tg it b (Build_state A B l sf w))
  end.
Ltac enter m := cbv [call m m_params m_locals m_body bind_params map app].
(* self.x / getattr(self, x) on a store with known facts *)
Ltac look H := try (rewrite H; cbv beta iota).

(* b[k] on a list that is long enough / too short *)
Ltac idx n :=
  match goal with
  | |- context [index_bytes ?Ob ?l ?k] =>
      change (index_bytes Ob l k) with (index_bytes Ob l (Z.of_nat n));
      first [ rewrite index_nonneg by (cbn [List.length]; lia); cbn [nth]
            | rewrite index_oob by (cbn [List.length]; lia) ]
  end.

(* ================= _getsatcellmaps ================= *)
Definition gsm_body := Eval cbv [m_body srco_msgdec__getsatcellmaps] in m_body srco_msgdec__getsatcellmaps.
Definition gsm_loop1 := Eval cbv [nth gsm_body] in nth 4 gsm_body SPass.
Definition gsm_loop2 := Eval cbv [nth gsm_body] in nth 7 gsm_body SPass.
Definition gsm_loop3 := Eval cbv [nth gsm_body] in nth 12 gsm_body SPass.

(* the locals of _getsatcellmaps *)
Definition gl (prnmap sigmap sigcode nsat idx sigs nsig sgc fqc ncells ncell sat sig : val dob) : env dob :=
  [("prnmap", prnmap); ("sigmap", sigmap); ("sigcode", sigcode); ("nsat", nsat); ("idx", idx); ("sigs", sigs); ("nsig", nsig);
   ("sgc", sgc); ("fqc", fqc); ("ncells", ncells); ("ncell", ncell); ("sat", sat); ("sig", sig)].
Notation U := (@VUnbound dob).
Notation VI := (@PyO.VInt dob).
Notation VS := (@PyO.VStr dob).


(* ================= _set_attribute_single ================= *)
Definition sgl_body := Eval cbv [m_body srco_msgdec__set_attribute_single] in m_body srco_msgdec__set_attribute_single.
Definition ss0 := Eval cbv [nth sgl_body] in nth 0 sgl_body SPass.
Definition ss1 := Eval cbv [nth sgl_body] in nth 1 sgl_body SPass.
Definition ss2 := Eval cbv [nth sgl_body] in nth 2 sgl_body SPass.
Definition ss3 := Eval cbv [nth sgl_body] in nth 3 sgl_body SPass.
Definition ss4 := Eval cbv [nth sgl_body] in nth 4 sgl_body SPass.
Definition ss5 := Eval cbv [nth sgl_body] in nth 5 sgl_body SPass.
Definition ss6 := Eval cbv [nth sgl_body] in nth 6 sgl_body SPass.
Definition ss7 := Eval cbv [nth sgl_body] in nth 7 sgl_body SPass.
Definition ss8 := Eval cbv [nth sgl_body] in nth 8 sgl_body SPass.
Definition ss9 := Eval cbv [nth sgl_body] in nth 9 sgl_body SPass.
Lemma sgl_body_eq : m_body srco_msgdec__set_attribute_single = [ss0; ss1; ss2; ss3; ss4; ss5; ss6; ss7; ss8; ss9].
Proof. reflexivity. Qed.

(* the locals of _set_attribute_single *)
Definition sl_ (anam offset index anami i atyp asiz ares und val bits msb nbits vN vM nc ns : val dob) : env dob :=
  [("anam", anam); ("offset", offset); ("index", index); ("anami", anami); ("i", i); ("atyp", atyp); ("asiz", asiz); ("ares", ares);
   ("_", und); ("val", val); ("bits", bits); ("msb", msb); ("nbits", nbits); ("N", vN); ("M", vM); ("nc", nc); ("ns", ns)].

Definition else_of (st:stmt) : list stmt := match st with SIf _ _ el => el | _ => [] end.
Definition ss4_inner := Eval cbv [else_of hd ss4] in else_of (hd SPass (else_of (hd SPass (else_of ss4)))).
Definition sbits := Eval cbv [nth ss4_inner] in nth 0 ss4_inner SPass.
Definition sscale := Eval cbv [nth ss4_inner else_of hd] in hd SPass (else_of (nth 4 ss4_inner SPass)).
Section Dec.
Variable T : tables.
Variable wfuel : nat.
Notation ext := (msgdec_ext T).
Notation mtab := (string -> option (mcall dob W)).
Hypothesis C_na : t_na T = srco_const_NA.

Section Maps.
Variable MT : mtab.
Variables g_id g_set : mcall dob W.
Hypothesis H_id : MT "identity" = Some g_id.
Hypothesis G_id : id_spec g_id.
Hypothesis H_set : MT "__setattr__" = Some g_set.
Hypothesis G_set : set_spec g_set.

Notation exec := (PyO.exec dob W ext MT wfuel).
Notation St l a := (Build_state dob W l a tt).
Notation sa := (PyO.setattr dob).

Lemma satlab_val pm i : (match zassoc i pm with Some x => VS x | None => VS srco_const_NA end) = VS (gsm_satlab T pm i).
Proof. unfold gsm_satlab. rewrite C_na. destruct (zassoc i pm); reflexivity. Qed.

Lemma loop1_ok a0 pm vsm vsc z :
  lookup dob "DF394" a0 = Some (VI z) ->
  exec gsm_loop1 (St (gl (VOpq (DPrn pm)) vsm vsc (VI 0) U U U U U U U U U) (sa "_satmap" (VDict []) a0))
  = (ROk (CNext dob),
     St (gl (VOpq (DPrn pm)) vsm vsc (VI (Z.of_nat (List.length (gsm_satlabels T pm z)))) (VI 64) U U U U U U U U)
        (sa "_satmap" (satmap_val (Some (number (gsm_satlabels T pm z)))) a0)).
Proof.
  intro L. unfold gsm_loop1. open_for. sx. change (Z.to_nat 65) with 65%nat.
  pose (shape := fun (sl:list string) (u:val dob) =>
     St (gl (VOpq (DPrn pm)) vsm vsc (VI (Z.of_nat (List.length sl))) u U U U U U U U U) (sa "_satmap" (satmap_val (Some (number sl))) a0)).
  pose (stp := fun (sl:list string) (i:nat) => if Z.testbit z (64 - Z.of_nat i) then (sl ++ [gsm_satlab T pm (Z.of_nat i)])%list else sl).
  change (St (gl (VOpq (DPrn pm)) vsm vsc (VI 0) U U U U U U U U U) (sa "_satmap" (VDict []) a0)) with (shape [] U).
  rewrite (floop_inv dob W (list string) nat (fun i => VI (Z.of_nat i)) shape stp (fun _ r => Forall (fun i => (i < 65)%nat) r)).
  - unfold stp. rewrite fold_append. cbn [app]. rewrite (fold_last_seq (fun i => VI (Z.of_nat i)) 64).
    unfold shape, gsm_satlabels, gsm_sats, zrange. rewrite filter_map_comm, map_map. reflexivity.
  - intros sl u i r HI. apply Forall_inv_tail in HI as HT. apply Forall_inv in HI. split; [|exact HT].
    unfold shape, gl. sx.
    rewrite lookup_setattr_other by reflexivity. look L. sx.
    replace (64 - Z.of_nat i <? 0) with false by (symmetry; apply Z.ltb_ge; lia). sx.
    rewrite shr_and1 by lia. unfold stp. destruct (Z.testbit z (64 - Z.of_nat i)); sx; [|reflexivity].
    rewrite ext_prn_get. sx. rewrite lookup_setattr_same. sx. rewrite satlab_val, satmap_val_eq.
    rewrite (dict_set_number string VS). sx. rewrite setattr_twice, app_length, Nat2Z.inj_add. reflexivity.
  - exact (seq_bound 0 65).
Qed.

Lemma fold_fst {A1 A2 X} (step:A1 * A2 -> X -> A1 * A2) (step':A1 -> X -> A1) l a :
  (forall a x, fst (step a x) = step' (fst a) x) -> fst (fold_left step l a) = fold_left step' l (fst a).
Proof. intro H. revert a. induction l as [|x r IH]; intro a; [reflexivity|]. cbn [fold_left]. now rewrite IH, H. Qed.

Lemma loop2_ok a0 vpm sgm (b:bool) vnsat vidx z :
  lookup dob "DF395" a0 = Some (VI z) ->
  exists vsgc vfqc,
  exec gsm_loop2 (St (gl vpm (VOpq (DSig sgm)) (VI (if b then 1 else 0)) vnsat vidx (VList []) (VI 0) U U U U U U) a0)
  = (ROk (CNext dob),
     St (gl vpm (VOpq (DSig sgm)) (VI (if b then 1 else 0)) vnsat (VI 32) (VList (map VS (gsm_sigs T sgm b z)))
            (VI (Z.of_nat (List.length (gsm_sigs T sgm b z)))) vsgc vfqc U U U U) a0).
Proof.
  intro L. unfold gsm_loop2.
  pose (shape := fun (st:list string * (val dob * val dob)) (u:val dob) =>
     St (gl vpm (VOpq (DSig sgm)) (VI (if b then 1 else 0)) vnsat u (VList (map VS (fst st))) (VI (Z.of_nat (List.length (fst st))))
            (fst (snd st)) (snd (snd st)) U U U U) a0).
  pose (tup := fun i:Z => match zassoc i sgm with Some (x, y) => VTuple [VS x; VS y] | None => VTuple [VS srco_const_NA; VS srco_const_NA] end).
  pose (stp := fun (st:list string * (val dob * val dob)) (i:nat) =>
     if Z.testbit z (32 - Z.of_nat i) then ((fst st ++ [gsm_siglab T sgm b (Z.of_nat i)])%list, (tup (Z.of_nat i), VS (gsm_siglab T sgm b (Z.of_nat i)))) else st).
  pose (fin := fold_left stp (seq 0 33) ([], (U, U))).
  exists (fst (snd fin)), (snd (snd fin)).
  open_for. sx. change (Z.to_nat 33) with 33%nat.
  change (St (gl vpm (VOpq (DSig sgm)) (VI (if b then 1 else 0)) vnsat vidx (VList []) (VI 0) U U U U U U) a0) with (shape ([], (U, U)) vidx).
  rewrite (floop_inv dob W _ nat (fun i => VI (Z.of_nat i)) shape stp (fun _ r => Forall (fun i => (i < 33)%nat) r)).
  - fold fin. rewrite (fold_last_seq (fun i => VI (Z.of_nat i)) 32). unfold shape.
    assert (E : fst fin = gsm_sigs T sgm b z).
    { unfold fin. rewrite (fold_fst stp (fun sg i => if Z.testbit z (32 - Z.of_nat i) then (sg ++ [gsm_siglab T sgm b (Z.of_nat i)])%list else sg)).
      - cbn [fst]. rewrite fold_append. cbn [app]. unfold gsm_sigs, gsm_sigids, zrange. rewrite filter_map_comm, map_map. reflexivity.
      - intros st i. unfold stp. destruct (Z.testbit z (32 - Z.of_nat i)); reflexivity. }
    rewrite E. reflexivity.
  - intros [sg [c f]] u i r HI. apply Forall_inv_tail in HI as HT. apply Forall_inv in HI. split; [|exact HT].
    unfold shape, gl. cbn [fst snd]. sx. look L. sx.
    replace (32 - Z.of_nat i <? 0) with false by (symmetry; apply Z.ltb_ge; lia). sx.
    rewrite shr_and1 by lia. unfold stp. destruct (Z.testbit z (32 - Z.of_nat i)); sx; [|reflexivity].
    rewrite ext_sig_get. sx. cbn [fst snd]. unfold tup, gsm_siglab. rewrite C_na.
    destruct (zassoc (Z.of_nat i) sgm) as [[x y]|]; destruct b; sx.
      all: rewrite map_snoc, app_length, Nat2Z.inj_add; reflexivity.
  - exact (seq_bound 0 33).
Qed.

Lemma loop3_ok a0 vpm vsm vsc vsgc vfqc vsig (sl sg:list string) c :
  ((List.length sl * List.length sg)%nat <> 0%nat -> lookup dob "DF396" a0 = Some (VI c)) ->
  lookup dob "_satmap" a0 = Some (satmap_val (Some (number sl))) ->
  exists vsat' vsig',
  exec gsm_loop3 (St (gl vpm vsm vsc (VI (Z.of_nat (List.length sl))) (VI 0) (VList (map VS sg)) (VI (Z.of_nat (List.length sg))) vsgc vfqc
                         (VI (Z.of_nat (List.length sl) * Z.of_nat (List.length sg))) (VI 0) U vsig)
                     (sa "_cellmap" (VDict []) a0))
  = (ROk (CNext dob),
     St (gl vpm vsm vsc (VI (Z.of_nat (List.length sl))) (VI (Z.of_nat (List.length sl * List.length sg))) (VList (map VS sg))
            (VI (Z.of_nat (List.length sg))) vsgc vfqc
            (VI (Z.of_nat (List.length sl) * Z.of_nat (List.length sg))) (VI (Z.of_nat (List.length (gsm_hits sl sg c)))) vsat' vsig')
        (sa "_cellmap" (cellmap_val (Some (number (gsm_hits sl sg c)))) a0)).
Proof.
  intros L LS. unfold gsm_loop3.
  set (ncells := Z.of_nat (List.length sl) * Z.of_nat (List.length sg)).
  set (tb := fun x => Z.testbit c (ncells - x)).
  pose (shape := fun (st:(nat * list (string*string)) * val dob) (u:val dob) =>
     St (gl vpm vsm vsc (VI (Z.of_nat (List.length sl))) (VI (Z.of_nat (fst (fst st)))) (VList (map VS sg)) (VI (Z.of_nat (List.length sg))) vsgc vfqc
            (VI ncells) (VI (Z.of_nat (List.length (snd (fst st))))) u (snd st))
        (sa "_cellmap" (cellmap_val (Some (number (snd (fst st))))) a0)).
  pose (inner := fun (k:nat) (st:nat * list (string*string)) (j:nat) => hit_step tb st (nth k sl "", nth j sg "")).
  pose (stp := fun (st:(nat * list (string*string)) * val dob) (k:nat) =>
     (fold_left (inner k) (seq 0 (List.length sg)) (fst st), fold_left (fun _ j => VI (Z.of_nat j)) (seq 0 (List.length sg)) (snd st))).
  pose (fin := fold_left stp (seq 0 (List.length sl)) ((0%nat, []), vsig)).
  exists (fold_left (fun _ k => VI (Z.of_nat k)) (seq 0 (List.length sl)) U), (snd fin).
  unfold gl. open_for. sx. rewrite Nat2Z.id.
  match goal with |- context [floop dob W ?bd ?by_ ?vvs ?s0] => change s0 with (shape ((0%nat, []), vsig) U) end.
  rewrite (floop_inv dob W _ nat (fun k => VI (Z.of_nat k)) shape stp
             (fun st r => (fst (fst st) + List.length sg * List.length r <= List.length sl * List.length sg)%nat /\ Forall (fun k => (k < List.length sl)%nat) r)).
  - fold fin. unfold shape.
    assert (E : fst fin = ((List.length sl * List.length sg)%nat, gsm_hits sl sg c)).
    { unfold fin. rewrite (fold_fst stp (fun st k => fold_left (inner k) (seq 0 (List.length sg)) st)) by reflexivity.
      cbn [fst]. unfold inner. apply (gsm_loop3_fold sl sg c). }
    rewrite E. reflexivity.
  - intros [[idx hits] vs] u k r [HI HF]. apply Forall_inv_tail in HF as HT. apply Forall_inv in HF. cbn [fst snd List.length] in HI.
    assert (HI2 : (fst (fold_left (inner k) (seq 0 (List.length sg)) (idx, hits)) + List.length sg * List.length r <= List.length sl * List.length sg)%nat).
    { unfold inner. rewrite (hit_fold_fst tb (fun j => (nth k sl "", nth j sg ""))). rewrite seq_length. cbn [fst]. lia. }
    split; [|split; [exact HI2|exact HT]].
    unfold shape, gl. cbn [fst snd]. sx. open_for. sx. rewrite Nat2Z.id.
    (* the inner loop *)
    pose (shape2 := fun (st:nat * list (string*string)) (u:val dob) =>
       St (gl vpm vsm vsc (VI (Z.of_nat (List.length sl))) (VI (Z.of_nat (fst st))) (VList (map VS sg)) (VI (Z.of_nat (List.length sg))) vsgc vfqc
              (VI ncells) (VI (Z.of_nat (List.length (snd st)))) (VI (Z.of_nat k)) u)
          (sa "_cellmap" (cellmap_val (Some (number (snd st)))) a0)).
    match goal with |- context [floop dob W ?bd ?by_ ?vvs ?s0] => change s0 with (shape2 (idx, hits) vs) end.
    rewrite (floop_inv dob W _ nat (fun j => VI (Z.of_nat j)) shape2 (inner k)
               (fun st r' => (fst st + List.length r' <= List.length sl * List.length sg)%nat /\ Forall (fun j => (j < List.length sg)%nat) r')).
    + sx. reflexivity.
    + intros [idx' hits'] u' j r' [HI' HF']. apply Forall_inv_tail in HF' as HT'. apply Forall_inv in HF'. cbn [fst snd List.length] in HI'.
      split; [|split; [cbn [inner hit_step fst]; lia|exact HT']].
      unfold shape2, gl. cbn [fst snd]. sx.
      rewrite lookup_setattr_other by reflexivity. rewrite L by lia. cbv beta iota. sx.
      assert (HN : 0 <= ncells - (Z.of_nat idx' + 1)) by (unfold ncells; nia).
      replace (ncells - (Z.of_nat idx' + 1) <? 0) with false by (symmetry; apply Z.ltb_ge; exact HN). sx.
      rewrite shr_and1 by exact HN. unfold inner, hit_step. cbn [fst snd]. fold (tb (Z.of_nat idx' + 1)).
      rewrite Nat2Z.inj_succ. unfold Z.succ.
      destruct (tb (Z.of_nat idx' + 1)); sx; [|reflexivity].
      rewrite lookup_setattr_other by reflexivity. look LS. sx.
      rewrite satmap_val_eq. sx. rewrite (dict_get_number string VS sl k "" HF). sx.
      rewrite (index_list_nth (map VS sg) j (VS "")) by (rewrite map_length; exact HF'). rewrite (map_nth VS). sx.
      rewrite lookup_setattr_same. sx. rewrite cellmap_val_eq. sx.
      rewrite dict_set_cell. sx.
      rewrite setattr_twice, app_length, Nat2Z.inj_add. reflexivity.
    + split; [rewrite seq_length; cbn [fst]; nia|exact (seq_bound 0 (List.length sg))].
  - cbn [fst snd]. split; [rewrite seq_length; lia|exact (seq_bound 0 (List.length sl))].
Qed.

(* a mask that is missing, or a float: the first iteration fails *)
Definition bad_attr (x:option (val dob)) : Prop := x = None \/ exists f, x = Some (VFloat f).
Definition bad_res (x:option (val dob)) (r:res (ctl dob)) : Prop :=
  match x with None => r = RExc "AttributeError" | _ => exists f, r = RFail f end.

Lemma loop1_bad a0 vpm vsm vsc :
  bad_attr (lookup dob "DF394" a0) ->
  exists r l', exec gsm_loop1 (St (gl vpm vsm vsc (VI 0) U U U U U U U U U) (sa "_satmap" (VDict []) a0))
               = (r, St l' (sa "_satmap" (VDict []) a0)) /\ bad_res (lookup dob "DF394" a0) r.
Proof.
  intro B. unfold gsm_loop1, gl. open_for. sx. change (Z.to_nat 65) with 65%nat. change (seq 0 65) with (0%nat :: seq 1 64). cbn [map].
  rewrite floop_cons. sx. rewrite lookup_setattr_other by reflexivity.
  destruct B as [B|[f B]]; rewrite B; sx; do 2 eexists; (split; [reflexivity|]); cbn; eauto.
Qed.
Lemma loop2_bad a0 vpm vsm vsc vnsat vidx :
  bad_attr (lookup dob "DF395" a0) ->
  exists r l', exec gsm_loop2 (St (gl vpm vsm vsc vnsat vidx (VList []) (VI 0) U U U U U U) a0) = (r, St l' a0) /\ bad_res (lookup dob "DF395" a0) r.
Proof.
  intro B. unfold gsm_loop2, gl. open_for. sx. change (Z.to_nat 33) with 33%nat. change (seq 0 33) with (0%nat :: seq 1 32). cbn [map].
  rewrite floop_cons. sx.
  destruct B as [B|[f B]]; rewrite B; sx; do 2 eexists; (split; [reflexivity|]); cbn; eauto.
Qed.
Lemma loop3_bad a0 vpm vsm vsc vsgc vfqc vsig (sl sg:list string) :
  (List.length sl * List.length sg)%nat <> 0%nat ->
  bad_attr (lookup dob "DF396" a0) ->
  exists r l',
  exec gsm_loop3 (St (gl vpm vsm vsc (VI (Z.of_nat (List.length sl))) (VI 0) (VList (map VS sg)) (VI (Z.of_nat (List.length sg))) vsgc vfqc
                         (VI (Z.of_nat (List.length sl) * Z.of_nat (List.length sg))) (VI 0) U vsig)
                     (sa "_cellmap" (VDict []) a0))
  = (r, St l' (sa "_cellmap" (VDict []) a0)) /\ bad_res (lookup dob "DF396" a0) r.
Proof.
  intros NZ B. unfold gsm_loop3, gl. open_for. sx. rewrite Nat2Z.id.
  destruct sl as [|s0 sl']; [cbn in NZ; lia|]. destruct sg as [|g0 sg']; [cbn in NZ; lia|].
  cbn [List.length seq map]. rewrite floop_cons. sx. open_for. sx. rewrite Nat2Z.id. cbn [List.length seq map]. rewrite floop_cons. sx.
  rewrite lookup_setattr_other by reflexivity.
  destruct B as [B|[f B]]; rewrite B; sx; do 2 eexists; (split; [reflexivity|]); cbn; eauto.
Qed.

(* getint on a mask, read in the store *)
Lemma mask_cases a o k : store_rel a o -> masks_plain o -> In k ["DF394"; "DF395"; "DF396"] ->
  (exists z, getint o k = Ok z /\ lookup dob k a = Some (VI z)) \/
  (getint o k = Foreign XAttribute /\ lookup dob k a = None) \/
  (exists f, getint o k = Unmodelled "float used as integer" /\ lookup dob k a = Some (VFloat f)).
Proof.
  intros SR MP Hk. assert (NF : existsb (String.eqb k) fixed_names = false).
  { cbn [In] in Hk. repeat destruct Hk as [<-|Hk]; try reflexivity. contradiction. }
  pose proof (store_rel_attr a o k SR NF) as R. specialize (MP k Hk). unfold getint, getattr.
  destruct (assoc k (o_attrs o)) as [[z|f|u]|]; cbn [obind].
  - left. eauto.
  - right. right. eauto.
  - exfalso. exact (MP u eq_refl).
  - right. left. auto.
Qed.


Theorem getsatcellmaps_lazy_ok a o ident :
  store_rel a o -> o_immutable o = false -> identity (o_payload o) = Ok ident -> masks_plain o ->
  agree (o_payload o) gsm_post (getsatcellmaps_lazy T ident o)
        (call dob W ext MT wfuel "_getsatcellmaps" srco_msgdec__getsatcellmaps [] a tt).
Proof.
  intros SR HI HID MP.
  destruct (store_rel_fixed a o SR) as (Limm & Lpay & _ & _ & Llab & _ & _ & _). rewrite HI in Limm.
  enter srco_msgdec__getsatcellmaps. fold (gl U U U U U U U U U U U U U).
  unfold getsatcellmaps_lazy, gl.
  sx. rewrite H_id, (G_id _ _ _ Lpay), HID. cbn [img_ident]. sx.
  cbn [builtin_val]. sx. change 3 with (Z.of_nat 3). rewrite slice_str_0_to. sx. rewrite ext_prnsig.
  destruct (assoc (substring 0 3 ident) (t_prnsig T)) as [[pm sgm]|]; sx.
  2: { eexists. split; [reflexivity|exact Lpay]. }
  look Llab. sx.
  set (b := negb (o_labelmsm o =? 2)).
  match goal with |- context [if ?c then (ROk (VI 0), ?s) else (ROk (VI 1), ?s)] =>
    replace (if c then (ROk (VI 0), s) else (@ROk (val dob) (VI 1), s)) with (@ROk (val dob) (VI (if b then 1 else 0)), s) by (unfold b; destruct c; reflexivity) end.
  sx. rewrite H_set, (proj2 (G_set "_satmap" (VDict []) a tt) Limm) by discriminate. sx.
  set (a1 := sa "_satmap" (VDict []) a).
  assert (Lpay1 : lookup dob "_payload" a1 = Some (VBytes (o_payload o))) by (unfold a1; rewrite lookup_setattr_other by reflexivity; exact Lpay).
  match goal with |- context [PyO.exec _ _ _ _ _ (SFor (TVar "idx") (ItRange (EInt 65)) ?bd) _] => change (SFor (TVar "idx") (ItRange (EInt 65)) bd) with gsm_loop1 end.
  (* DF394 *)
  destruct (mask_cases a o "DF394" SR MP) as [[z [G1 L1]]|B1]; [cbn; auto| |].
  2: { destruct (loop1_bad a (VOpq (DPrn pm)) (VOpq (DSig sgm)) (VI (if b then 1 else 0))) as (r & l' & E & B).
       { destruct B1 as [[_ B1]|[f [_ B1]]]; rewrite B1; [left|right]; eauto. }
       unfold gl, a1 in *. rewrite E.
       destruct B1 as [[G1 B1]|[f [G1 B1]]]; rewrite G1; rewrite B1 in B; cbn [bad_res] in B.
       - subst r. sx. eexists. split; [reflexivity|exact Lpay1].
       - destruct B as [f' ->]. sx. eexists. reflexivity. }
  rewrite G1. cbn [obind].
  pose proof (loop1_ok a pm (VOpq (DSig sgm)) (VI (if b then 1 else 0)) z L1) as E1. unfold gl in E1. unfold a1. rewrite E1. clear E1. sx.
  set (sl := gsm_satlabels T pm z).
  set (a2 := sa "_satmap" (satmap_val (Some (number sl))) a).
  assert (SR2 : store_rel a2 (with_sat o (number sl))) by (apply store_rel_set_satmap; exact SR).
  assert (Lpay2 : lookup dob "_payload" a2 = Some (VBytes (o_payload o))) by (unfold a2; rewrite lookup_setattr_other by reflexivity; exact Lpay).
  match goal with |- context [PyO.exec _ _ _ _ _ (SFor (TVar "idx") (ItRange (EInt 33)) ?bd) _] => change (SFor (TVar "idx") (ItRange (EInt 33)) bd) with gsm_loop2 end.
  (* DF395 *)
  destruct (mask_cases a o "DF395" SR MP) as [[z' [G2 L2]]|B2]; [cbn; auto| |].
  2: { destruct (loop2_bad a2 (VOpq (DPrn pm)) (VOpq (DSig sgm)) (VI (if b then 1 else 0)) (VI (Z.of_nat (List.length sl))) (VI 64)) as (r & l' & E & B).
       { unfold a2. rewrite lookup_setattr_other by reflexivity. destruct B2 as [[_ B2]|[f [_ B2]]]; rewrite B2; [left|right]; eauto. }
       unfold gl in *. rewrite E. unfold a2 in B. rewrite lookup_setattr_other in B by reflexivity.
       destruct B2 as [[G2 B2]|[f [G2 B2]]]; rewrite G2; rewrite B2 in B; cbn [bad_res] in B.
       - subst r. sx. eexists. split; [reflexivity|exact Lpay2].
       - destruct B as [f' ->]. sx. eexists. reflexivity. }
  rewrite G2. cbn [obind].
  assert (L2' : lookup dob "DF395" a2 = Some (VI z')) by (unfold a2; rewrite lookup_setattr_other by reflexivity; exact L2).
  destruct (loop2_ok a2 (VOpq (DPrn pm)) sgm b (VI (Z.of_nat (List.length sl))) (VI 64) z' L2') as (vsgc & vfqc & E2).
  unfold gl in E2. rewrite E2. clear E2. sx.
  set (sg := gsm_sigs T sgm b z').
  assert (Limm2 : lookup dob "_immutable" a2 = Some (VBool false)) by (unfold a2; rewrite lookup_setattr_other by reflexivity; exact Limm).
  rewrite H_set, (proj2 (G_set "_cellmap" (VDict []) a2 tt) Limm2) by discriminate. sx.
  match goal with |- context [PyO.exec _ _ _ _ _ (SFor (TVar "sat") ?it ?bd) _] => change (SFor (TVar "sat") it bd) with gsm_loop3 end.
  assert (LS : lookup dob "_satmap" a2 = Some (satmap_val (Some (number sl)))) by (unfold a2; apply lookup_setattr_same).
  assert (FIN : forall c, 
     agree (o_payload o) gsm_post (Ok (gsm_result T o pm sgm z z' c))
       (ROk VNone, (sa "_cellmap" (cellmap_val (Some (number (gsm_hits sl sg c)))) a2, tt))).
  { intros c. cbn [agree]. do 2 eexists. split; [reflexivity|]. split; [reflexivity|].
    unfold gsm_result. cbv zeta. fold b sl sg. rewrite with_maps_eq. apply store_rel_set_cellmap. exact SR2. }
  rewrite gsm_ncells_eq. fold sl sg.
  destruct (Nat.eqb_spec (List.length sl * List.length sg) 0) as [EZ|NZ].
  - cbn [obind].
    destruct (loop3_ok a2 (VOpq (DPrn pm)) (VOpq (DSig sgm)) (VI (if b then 1 else 0)) vsgc vfqc U sl sg 0) as (vsat' & vsig' & E3);
      [intro; contradiction|exact LS|].
    unfold gl in E3. rewrite E3. clear E3. sx. apply (FIN 0).
  - destruct (mask_cases a o "DF396" SR MP) as [[c [G3 L3]]|B3]; [cbn; auto| |].
    2: { destruct (loop3_bad a2 (VOpq (DPrn pm)) (VOpq (DSig sgm)) (VI (if b then 1 else 0)) vsgc vfqc U sl sg NZ) as (r & l' & E & B).
         { unfold a2. rewrite lookup_setattr_other by reflexivity. destruct B3 as [[_ B3]|[f [_ B3]]]; rewrite B3; [left|right]; eauto. }
         unfold gl in *. rewrite E. unfold a2 in B. rewrite lookup_setattr_other in B by reflexivity.
         destruct B3 as [[G3 B3]|[f [G3 B3]]]; rewrite G3; rewrite B3 in B; cbn [bad_res] in B.
         - subst r. sx. eexists. split; [reflexivity|]. rewrite lookup_setattr_other by reflexivity. exact Lpay2.
         - destruct B as [f' ->]. sx. eexists. reflexivity. }
    rewrite G3. cbn [obind].
    destruct (loop3_ok a2 (VOpq (DPrn pm)) (VOpq (DSig sgm)) (VI (if b then 1 else 0)) vsgc vfqc U sl sg c) as (vsat' & vsig' & E3);
      [intros _; unfold a2; rewrite lookup_setattr_other by reflexivity; exact L3|exact LS|].
    unfold gl in E3. rewrite E3. clear E3. sx. apply (FIN c).
Qed.

(* against the model as it stands (eager read of DF396): the inputs on which it differs from the source are excluded by lazy_same *)
Theorem getsatcellmaps_ok a o ident :
  store_rel a o -> o_immutable o = false -> identity (o_payload o) = Ok ident -> masks_plain o -> lazy_same T ident o ->
  agree (o_payload o) gsm_post (getsatcellmaps T ident o)
        (call dob W ext MT wfuel "_getsatcellmaps" srco_msgdec__getsatcellmaps [] a tt).
Proof. intros SR HI HID MP LZ. rewrite <- (lazy_same_eq T ident o LZ). apply getsatcellmaps_lazy_ok; assumption. Qed.
End Maps.

Section Single.
Variable MT : mtab.
Variables g_set g_gsm : mcall dob W.
Hypothesis H_set : MT "__setattr__" = Some g_set.
Hypothesis G_set : set_spec g_set.
Hypothesis H_gsm : MT "_getsatcellmaps" = Some g_gsm.
Hypothesis C_nsat : t_nsat T = srco_const_NSAT.
Hypothesis C_nsig : t_nsig T = srco_const_NSIG.
Hypothesis C_ncell : t_ncell T = srco_const_NCELL.
(* the model of the _getsatcellmaps call, the objects on which the method meets it, and its specification *)
Variable gsm : obj -> outcome obj.
Variable P : obj -> Prop.
Hypothesis G_gsm : forall a o, store_rel a o -> o_immutable o = false -> P o -> agree (o_payload o) gsm_post (gsm o) (g_gsm [] a tt).

Notation exec := (PyO.exec dob W ext MT wfuel).
Notation St l a := (Build_state dob W l a tt).
Notation sa := (PyO.setattr dob).

(* ---- the name of the attribute ---- *)
Lemma name_ok_loop a anam offset index vi :
  Forall (fun i => i < 10 ^ 4300) index ->
  exists vi',
  exec ss1 (St (sl_ (VS anam) (VI offset) (VList (map VI index)) (VS anam) vi U U U U U U U U U U U U) a)
  = (ROk (CNext dob), St (sl_ (VS anam) (VI offset) (VList (map VI index)) (VS (render_name anam index)) vi' U U U U U U U U U U U U) a).
Proof.
  intro HB. unfold ss1, sl_. open_for. sx.
  pose (shape := fun (nm:string) (u:val dob) =>
     St (sl_ (VS anam) (VI offset) (VList (map VI index)) (VS nm) u U U U U U U U U U U U U) a).
  match goal with |- context [floop dob W ?bd ?by_ ?vvs ?s0] => change s0 with (shape anam vi) end.
  exists (fold_left (fun _ x => VI x) index vi).
  rewrite (floop_inv dob W string Z VI shape (fun s i => if 0 <? i then s ++ idx_suffix i else s) (fun _ r => Forall (fun i => i < 10 ^ 4300) r)).
  - reflexivity.
  - intros nm u i r HI. apply Forall_inv_tail in HI as HT. apply Forall_inv in HI. split; [|exact HT].
    unfold shape, sl_. sx. destruct (0 <? i) eqn:E0; sx; [|reflexivity].
    cbn [builtin_val]. apply Z.ltb_lt in E0.
    replace ((0 <=? i) && (i <? 10 ^ 4300)) with true.
    2: { symmetry. apply andb_true_iff. split; [apply Z.leb_le; clear -E0; lia|apply Z.ltb_lt; exact HI]. }
    sx. reflexivity.
  - exact HB.
Qed.

(* ---- the field definition ---- *)
Definition res_v (r:Types.res) : val dob := match r with RInt z => VI z | RFloat f => VFloat f | RBad _ => VNone end.
Lemma res_val_ok fd : fd_ok fd = true -> res_val (df_res fd) = ROk (res_v (df_res fd)).
Proof. unfold fd_ok. destruct (df_res fd); cbn; [reflexivity|reflexivity|discriminate]. Qed.

Lemma fields_ok a anam voff vidx vanami vi :
  match find_field T anam with
  | None => exec ss2 (St (sl_ (VS anam) voff vidx vanami vi U U U U U U U U U U U U) a)
            = (RExc "KeyError", St (sl_ (VS anam) voff vidx vanami vi U U U U U U U U U U U U) a)
  | Some fd => fd_ok fd = true ->
      exec ss2 (St (sl_ (VS anam) voff vidx vanami vi U U U U U U U U U U U U) a)
      = (ROk (CNext dob), St (sl_ (VS anam) voff vidx vanami vi (VS (dtype_name (df_ty fd))) (VI (df_bits fd)) (res_v (df_res fd)) (VS (df_desc fd))
                                  U U U U U U U U) a)
  end.
Proof.
  unfold ss2, sl_. sx. rewrite ext_fields.
  destruct (find_field T anam) as [fd|]; [|sx; reflexivity].
  intro OK. rewrite (res_val_ok fd OK). sx. reflexivity.
Qed.

(* ---- the width: DF396 is NSat * NSig bits wide ---- *)

Lemma asiz_ok a o anam fd voff vidx vanami vi vatyp vres vund :
  store_rel a o ->
  (anam = "DF396" -> int_or_absent o (t_nsat T) /\ int_or_absent o (t_nsig T)) ->
  match single_asiz T anam fd o with
  | Ok z => exec ss3 (St (sl_ (VS anam) voff vidx vanami vi vatyp (VI (df_bits fd)) vres vund U U U U U U U U) a)
            = (ROk (CNext dob), St (sl_ (VS anam) voff vidx vanami vi vatyp (VI z) vres vund U U U U U U U U) a)
  | Foreign k => exists l', exec ss3 (St (sl_ (VS anam) voff vidx vanami vi vatyp (VI (df_bits fd)) vres vund U U U U U U U U) a)
                            = (RExc (dec_exc_class k), St l' a)
  | _ => False
  end.
Proof.
  intros SR HI. unfold ss3, sl_, single_asiz. sx.
  destruct (String.eqb anam "DF396") eqn:E; sx; [|reflexivity].
  apply String.eqb_eq in E. destruct (HI E) as [I1 I2]. unfold int_or_absent in I1, I2.
  rewrite C_nsat in *. rewrite C_nsig in *.
  pose proof (store_rel_attr a o srco_const_NSAT SR eq_refl) as R1.
  pose proof (store_rel_attr a o srco_const_NSIG SR eq_refl) as R2.
  unfold getint, getattr. unfold srco_const_NSAT, srco_const_NSIG in *.
  destruct (assoc "NSat" (o_attrs o)) as [[x| |]|]; try contradiction; cbn [obind]; look R1; sx.
  2: { eexists. reflexivity. }
  destruct (assoc "NSig" (o_attrs o)) as [[y| |]|]; try contradiction; cbn [obind]; look R2; sx.
  2: { eexists. reflexivity. }
  reflexivity.
Qed.

(* ---- the bits of the field ---- *)
Lemma bits_ok a o offset asiz vanam vidx vanami vi vatyp vres vund vval vmsb :
  store_rel a o ->
  exec sbits (St (sl_ vanam (VI offset) vidx vanami vi vatyp (VI asiz) vres vund vval U vmsb U U U U U) a)
  = match get_bits (o_payloadi o) (8 * Z.of_nat (List.length (o_payload o))) offset asiz with
    | Ok b => (ROk (CNext dob), St (sl_ vanam (VI offset) vidx vanami vi vatyp (VI asiz) vres vund vval (VI (Z.of_N b)) vmsb U U U U U) a)
    | _ => (RExc "ValueError", St (sl_ vanam (VI offset) vidx vanami vi vatyp (VI asiz) vres vund vval U vmsb U U U U U) a)
    end.
Proof.
  intro SR. destruct (store_rel_fixed a o SR) as (_ & _ & Lpi & Lpb & _).
  unfold sbits, sl_. open_stmt. sx. look Lpi. sx. look Lpb. sx.
  rewrite get_bits_eq.
  set (sh := 8 * Z.of_nat (List.length (o_payload o)) - offset - asiz).
  destruct (sh <? 0) eqn:E1; sx; [reflexivity|].
  destruct (asiz <? 0) eqn:E2; sx; [reflexivity|].
  apply Z.ltb_ge in E1, E2. rewrite (bits_Z _ _ _ E1 E2). reflexivity.
Qed.

(* ---- scaling by the resolution ---- *)
Definition not_bad (r:Types.res) : Prop := match r with RBad _ => False | _ => True end.
Lemma scale_ok a v r vanam voff vidx vanami vi vatyp vasiz vund vbits vmsb :
  not_bad r ->
  match scale v r with
  | Ok mv => exists v', val_rel v' mv /\
      exec sscale (St (sl_ vanam voff vidx vanami vi vatyp vasiz (res_v r) vund (VI v) vbits vmsb U U U U U) a)
      = (ROk (CNext dob), St (sl_ vanam voff vidx vanami vi vatyp vasiz (res_v r) vund v' vbits vmsb U U U U U) a)
  | Unmodelled _ => exists f l',
      exec sscale (St (sl_ vanam voff vidx vanami vi vatyp vasiz (res_v r) vund (VI v) vbits vmsb U U U U U) a) = (RFail f, St l' a)
  | _ => False
  end.
Proof.
  intro NB. unfold sscale, sl_. destruct r as [z|f|w]; [| |contradiction]; cbn [scale res_v]; open_stmt; sx.
  - rewrite mem01_int. sx. destruct ((z =? 0) || (z =? 1)); sx; (eexists; split; [|reflexivity]; constructor).
  - rewrite mem01_float. sx. destruct ((f =? 0) || (f =? 1))%float; sx; [eexists; split; [|reflexivity]; constructor|].
    destruct (Z.abs v <? 2 ^ 53); sx; [eexists; split; [|reflexivity]; constructor|do 2 eexists; reflexivity].
Qed.
(* a character is not scaled *)
Lemma scale_cha a u r vanam voff vidx vanami vi vatyp vasiz vund vbits vmsb :
  not_bad r ->
  if res_is_unit r
  then exec sscale (St (sl_ vanam voff vidx vanami vi vatyp vasiz (res_v r) vund (VUStr u) vbits vmsb U U U U U) a)
       = (ROk (CNext dob), St (sl_ vanam voff vidx vanami vi vatyp vasiz (res_v r) vund (VUStr u) vbits vmsb U U U U U) a)
  else exists f l',
       exec sscale (St (sl_ vanam voff vidx vanami vi vatyp vasiz (res_v r) vund (VUStr u) vbits vmsb U U U U U) a) = (RFail f, St l' a).
Proof.
  intro NB. unfold sscale, sl_. destruct r as [z|f|w]; [| |contradiction]; cbn [res_is_unit res_v]; open_stmt; sx.
  - rewrite mem01_int. sx. destruct ((z =? 0) || (z =? 1)); sx; [reflexivity|do 2 eexists; reflexivity].
  - rewrite mem01_float. sx. destruct ((f =? 0) || (f =? 1))%float; sx; [reflexivity|do 2 eexists; reflexivity].
Qed.

(* ---- the value ---- *)
Definition bits_v (ob:option N) : val dob := match ob with Some b => VI (Z.of_N b) | None => U end.
Definition vrel (a:env dob) (fd:dfield) (tn:string) (asiz:Z) (index:list Z) (offset:Z) (vanam vanami vi vund:val dob)
           (m:outcome (value * option N)) (r:res (ctl dob) * state dob W) : Prop :=
  match m with
  | Ok (mv, ob) => exists v vm, val_rel v mv /\
      r = (ROk (CNext dob),
           St (sl_ vanam (VI offset) (VList (map VI index)) vanami vi (VS tn) (VI asiz) (res_v (df_res fd)) vund v (bits_v ob) vm U U U U U) a)
  | Foreign k => exists l', r = (RExc (dec_exc_class k), St l' a)
  | Unmodelled _ => exists f l', r = (RFail f, St l' a)
  | Lib _ => False
  end.
Definition value_goal (a:env dob) (fd:dfield) (tn:string) (asiz:Z) (index:list Z) (o:obj) (offset:Z) (vanam vanami vi vund:val dob) : Prop :=
  vrel a fd tn asiz index offset vanam vanami vi vund (single_value fd asiz index o offset)
       (exec ss4 (St (sl_ vanam (VI offset) (VList (map VI index)) vanami vi (VS tn) (VI asiz) (res_v (df_res fd)) vund U U U U U U U U) a)).

Lemma value_prn a o fd asiz index offset vanam vanami vi vund :
  store_rel a o -> df_ty fd = TPRN -> value_goal a fd "PRN" asiz index o offset vanam vanami vi vund.
Proof.
  intros SR Ety. destruct (store_rel_fixed a o SR) as (_ & _ & _ & _ & _ & _ & Lsat & _).
  unfold value_goal, single_value, ss4, sl_. rewrite Ety. sx. look Lsat. sx.
  destruct index as [|i r]; cbn [first_index obind map]; sx.
  { unfold index_list, list_pos. cbn. sx. eexists. reflexivity. }
  destruct (o_satmap o) as [m|]; cbn [satmap_val]; sx.
  2: { eexists. reflexivity. }
  rewrite (dict_get_int string VS). destruct (zassoc i m) as [x|]; cbn [option_map]; sx; cbn [vrel].
  - do 2 eexists. split; [apply VR_str|reflexivity].
  - eexists. reflexivity.
Qed.

Lemma value_cell a o fd asiz index offset vanam vanami vi vund (second:bool) :
  store_rel a o -> df_ty fd = (if second then TCSG else TCPR) ->
  value_goal a fd (if second then "CSG" else "CPR") asiz index o offset vanam vanami vi vund.
Proof.
  intros SR Ety. destruct (store_rel_fixed a o SR) as (_ & _ & _ & _ & _ & _ & _ & Lcell).
  unfold value_goal, single_value, ss4, sl_. rewrite Ety. destruct second; sx; look Lcell; sx.
  all: destruct index as [|i r]; cbn [first_index obind map]; sx.
  all: try (unfold index_list, list_pos; cbn; sx; eexists; reflexivity).
  all: destruct (o_cellmap o) as [m|]; cbn [cellmap_val]; sx.
  all: try (eexists; reflexivity).
  all: rewrite (dict_get_int (string*string) (fun p => VTuple [VS (fst p); VS (snd p)])); destruct (zassoc i m) as [[x y]|]; cbn [option_map fst snd]; sx.
  all: cbn [vrel]; try (eexists; reflexivity).
  all: do 2 eexists; (split; [apply VR_str|reflexivity]).
Qed.

(* the extraction of the bits, at its place in the method *)
Ltac use_bits SR :=
  match goal with
  | |- context [PyO.exec _ _ _ _ _ sbits (Build_state _ _ [("anam", ?vanam); ("offset", VI ?offset); ("index", ?vidx); ("anami", ?vanami); ("i", ?vi);
                                                         ("atyp", ?vatyp); ("asiz", VI ?asiz); ("ares", ?vres); ("_", ?vund); ("val", ?vval);
                                                         ("bits", U); ("msb", ?vmsb); ("nbits", U); ("N", U); ("M", U); ("nc", U); ("ns", U)] ?a _)] =>
      let E := fresh "EB" in
      pose proof (bits_ok a _ offset asiz vanam vidx vanami vi vatyp vres vund vval vmsb SR) as E; unfold sl_ in E; rewrite E; clear E
  end.
Ltac use_scale NB :=
  match goal with
  | |- context [PyO.exec _ _ _ _ _ sscale (Build_state _ _ [("anam", ?vanam); ("offset", ?voff); ("index", ?vidx); ("anami", ?vanami); ("i", ?vi);
                                                          ("atyp", ?vatyp); ("asiz", ?vasiz); ("ares", res_v ?r); ("_", ?vund); ("val", VI ?v);
                                                          ("bits", ?vbits); ("msb", ?vmsb); ("nbits", U); ("N", U); ("M", U); ("nc", U); ("ns", U)] ?a _)] =>
      let E := fresh "ES" in
      pose proof (scale_ok a v r vanam voff vidx vanami vi vatyp vasiz vund vbits vmsb NB) as E; unfold sl_ in E;
      destruct (scale v r) as [mv| | |w]; try contradiction;
      [destruct E as (v' & VR & E)|destruct E as (f' & l' & E)]; rewrite E; clear E
  end.

Lemma value_snt a o fd asiz index offset vanam vanami vi vund :
  store_rel a o -> df_ty fd = TSNT -> not_bad (df_res fd) -> value_goal a fd "SNT" asiz index o offset vanam vanami vi vund.
Proof.
  intros SR Ety NB. unfold value_goal, single_value, ss4, sl_. rewrite Ety. sx.
  fold sbits. use_bits SR.
  rewrite get_bits_eq. destruct (_ || _); [sx; eexists; reflexivity|]. cbn [obind]. set (b := N.land _ _). sx.
  rewrite sub1_ltb. destruct (asiz <? 1) eqn:E1; sx; [eexists; reflexivity|].
  apply Z.ltb_ge in E1. rewrite shl1 by lia.
  destruct (Z.land (Z.of_N b) (2 ^ (asiz - 1)) =? 0); sx.
  2: rewrite <- Z.opp_eq_mul_m1.
  all: fold sscale; use_scale NB; sx; cbn [vrel obind].
  all: try (do 2 eexists; split; [exact VR|reflexivity]).
  all: do 2 eexists; reflexivity.
Qed.

Lemma value_int a o fd asiz index offset vanam vanami vi vund :
  store_rel a o -> df_ty fd = TINT -> not_bad (df_res fd) -> value_goal a fd "INT" asiz index o offset vanam vanami vi vund.
Proof.
  intros SR Ety NB. unfold value_goal, single_value, ss4, sl_. rewrite Ety. sx.
  fold sbits. use_bits SR.
  rewrite get_bits_eq. destruct (_ || _) eqn:EG; [sx; eexists; reflexivity|]. cbn [obind]. set (b := N.land _ _). sx.
  rewrite sub1_ltb. destruct (asiz <? 1) eqn:E1; sx; [eexists; reflexivity|].
  apply Z.ltb_ge in E1. rewrite shl1 by lia.
  destruct (Z.land (Z.of_N b) (2 ^ (asiz - 1)) =? 0); sx.
  2: (replace (asiz <? 0) with false by (symmetry; apply Z.ltb_ge; lia); sx; rewrite shl1 by lia).
  all: fold sscale; use_scale NB; sx; cbn [vrel obind].
  all: try (do 2 eexists; split; [exact VR|reflexivity]).
  all: do 2 eexists; reflexivity.
Qed.

Lemma value_cha a o fd asiz index offset vanam vanami vi vund :
  store_rel a o -> df_ty fd = TCHA -> not_bad (df_res fd) -> value_goal a fd "CHA" asiz index o offset vanam vanami vi vund.
Proof.
  intros SR Ety NB. unfold value_goal, single_value, ss4, sl_. rewrite Ety. sx.
  fold sbits. use_bits SR.
  rewrite get_bits_eq. destruct (_ || _) eqn:EG; [sx; eexists; reflexivity|]. cbn [obind]. set (b := N.land _ _). sx.
  cbn [builtin_val]. rewrite chr_ok, N2Z.id. destruct (1114112 <=? b)%N; sx; [eexists; reflexivity|].
  fold sscale.
  match goal with
  | |- context [PyO.exec _ _ _ _ _ sscale (Build_state _ _ [("anam", ?vanam); ("offset", ?voff); ("index", ?vidx); ("anami", ?vanami); ("i", ?vi);
                                                          ("atyp", ?vatyp); ("asiz", ?vasiz); ("ares", res_v ?r); ("_", ?vund); ("val", VUStr ?u);
                                                          ("bits", ?vbits); ("msb", ?vmsb); ("nbits", U); ("N", U); ("M", U); ("nc", U); ("ns", U)] ?a _)] =>
      pose proof (scale_cha a u r vanam voff vidx vanami vi vatyp vasiz vund vbits vmsb NB) as E; unfold sl_ in E
  end.
  destruct (res_is_unit (df_res fd)).
  - rewrite E. sx. cbn [vrel]. do 2 eexists. split; [apply VR_ustr|reflexivity].
  - destruct E as (f' & l' & E). rewrite E. sx. do 2 eexists. reflexivity.
Qed.

Lemma value_str a o fd asiz index offset vanam vanami vi vund :
  store_rel a o -> df_ty fd = TSTR -> value_goal a fd "STR" asiz index o offset vanam vanami vi vund.
Proof.
  intros SR Ety. unfold value_goal, single_value, ss4, sl_. rewrite Ety. sx.
  fold sbits. use_bits SR.
  rewrite get_bits_eq. destruct (_ || _) eqn:EG; [sx; eexists; reflexivity|]. cbn [obind]. set (b := N.land _ _). sx.
  rewrite of_N_eqb0. destruct (b =? 0)%N; sx.
  - cbn [vrel]. do 2 eexists. split; [apply (VR_str "")|reflexivity].
  - cbn [builtin_val]. rewrite chr_ok, N2Z.id. destruct (1114112 <=? b)%N; sx; [eexists; reflexivity|].
    cbn [vrel]. do 2 eexists. split; [apply VR_ustr|reflexivity].
Qed.

(* a type name the method has no case for *)
Definition tn_plain (tn:string) : Prop := Forall (fun k => String.eqb tn k = false /\ String.eqb k tn = false) type_names.
Ltac strs := repeat match goal with H : String.eqb ?x ?y = false |- context [String.eqb ?x ?y] => rewrite H end.
Ltac sxs := sx; repeat (progress (cbn [mem_val eq_val]; strs); sx).

Lemma value_plain a o fd tn asiz index offset vanam vanami vi vund :
  store_rel a o -> tn_plain tn ->
  (df_ty fd = TBIT \/ df_ty fd = TBITX \/ df_ty fd = TUINT \/ exists s, df_ty fd = TOther s) -> not_bad (df_res fd) ->
  value_goal a fd tn asiz index o offset vanam vanami vi vund.
Proof.
  intros SR TP Hty NB. unfold tn_plain, type_names in TP.
  repeat (apply Forall_cons_iff in TP; destruct TP as [[? ?] TP]). clear TP.
  unfold srco_const_PRN, srco_const_CELPRN, srco_const_CELSIG, srco_const_INTS, srco_const_INT, srco_const_CHA, srco_const_STR in *.
  assert (EV : single_value fd asiz index o offset =
               do bits <- get_bits (o_payloadi o) (8 * Z.of_nat (List.length (o_payload o))) offset asiz;
               do v <- scale (Z.of_N bits) (df_res fd); Ok (v, Some bits)).
  { unfold single_value. destruct Hty as [E|[E|[E|[s E]]]]; rewrite E; reflexivity. }
  unfold value_goal. rewrite EV. clear EV. unfold ss4, sl_. sxs.
  fold sbits. use_bits SR.
  rewrite get_bits_eq. destruct (_ || _) eqn:EG; [sx; eexists; reflexivity|]. cbn [obind]. set (b := N.land _ _). sxs.
  fold sscale; use_scale NB; sx; cbn [vrel obind].
  - do 2 eexists; split; [exact VR|reflexivity].
  - do 2 eexists; reflexivity.
Qed.

Lemma tn_plain_other s : existsb (String.eqb s) type_names = false -> tn_plain s.
Proof.
  unfold tn_plain, type_names. cbn [existsb]. intro H.
  repeat (apply orb_false_iff in H; destruct H as [?H H]).
  repeat (constructor; [split; [assumption|apply eqb_sym_false; assumption]|]). constructor.
Qed.
Lemma tn_plain_lit tn : forallb (fun k => negb (String.eqb tn k) && negb (String.eqb k tn)) type_names = true -> tn_plain tn.
Proof.
  unfold tn_plain. intro H. apply Forall_forall. intros k Hk. rewrite forallb_forall in H. specialize (H k Hk).
  apply andb_true_iff in H. destruct H as [H1 H2]. split; apply negb_true_iff; assumption.
Qed.

Lemma value_ok a o fd asiz index offset vanam vanami vi vund :
  store_rel a o -> fd_ok fd = true -> value_goal a fd (dtype_name (df_ty fd)) asiz index o offset vanam vanami vi vund.
Proof.
  intros SR OK. unfold fd_ok in OK. apply andb_true_iff in OK. destruct OK as [OK1 OK2].
  assert (NB : not_bad (df_res fd)) by (destruct (df_res fd); [exact I|exact I|discriminate]).
  destruct (df_ty fd) eqn:Ety; cbn [dtype_name].
  - apply value_plain; [exact SR|apply tn_plain_lit; reflexivity|auto|exact NB].
  - apply value_plain; [exact SR|apply tn_plain_lit; reflexivity|auto|exact NB].
  - apply value_cha; assumption.
  - apply value_str; assumption.
  - apply value_int; assumption.
  - apply value_plain; [exact SR|apply tn_plain_lit; reflexivity|auto|exact NB].
  - apply value_snt; assumption.
  - apply value_prn; assumption.
  - apply (value_cell a o fd asiz index offset vanam vanami vi vund false); assumption.
  - apply (value_cell a o fd asiz index offset vanam vanami vi vund true); assumption.
  - apply value_plain; [exact SR|apply tn_plain_other; apply negb_true_iff; exact OK2| |exact NB].
    right. right. right. eauto.
Qed.

(* ---- the attribute ---- *)
Notation nm_ok := (name_ok srco_msgdec_reserved).
Lemma nm_ok_facts n : nm_ok n = true ->
  existsb (String.eqb n) fixed_names = false /\ existsb (String.eqb n) srco_msgdec_reserved = false.
Proof. unfold name_ok. intro H. apply andb_true_iff in H. destruct H as [H1 H2]. split; apply negb_true_iff; assumption. Qed.
Lemma not_fixed_payload n : existsb (String.eqb n) fixed_names = false -> String.eqb n "_payload" = false.
Proof. intro H. apply not_fixed in H. destruct H as (_ & H & _). apply eqb_sym_false. exact H. Qed.


Lemma is_str_name fd : fd_ok fd = true ->
  String.eqb (dtype_name (df_ty fd)) srco_const_STR = match df_ty fd with TSTR => true | _ => false end.
Proof.
  unfold fd_ok. intro OK. apply andb_true_iff in OK. destruct OK as [_ OK].
  destruct (df_ty fd); try reflexivity. cbn [dtype_name]. apply negb_true_iff in OK. unfold type_names in OK. cbn [existsb] in OK.
  repeat (apply orb_false_iff in OK; destruct OK as [?H OK]). assumption.
Qed.

Lemma store_ok a o fd anam anami v mv voff vidx vi vasiz vund vbits vmsb :
  store_rel a o -> o_immutable o = false -> fd_ok fd = true -> nm_ok anam = true -> nm_ok anami = true -> val_rel v mv ->
  (df_ty fd = TSTR -> (exists s, mv = Types.VStr s) /\ str_or_absent o anam) ->
  exists o1 a1,
    single_store fd anam anami mv o = Ok o1 /\
    exec ss5 (St (sl_ (VS anam) voff vidx (VS anami) vi (VS (dtype_name (df_ty fd))) vasiz (res_v (df_res fd)) vund v vbits vmsb U U U U U) a)
    = (ROk (CNext dob), St (sl_ (VS anam) voff vidx (VS anami) vi (VS (dtype_name (df_ty fd))) vasiz (res_v (df_res fd)) vund v vbits vmsb U U U U U) a1) /\
    store_rel a1 o1 /\ o_immutable o1 = false /\ o_payload o1 = o_payload o.
Proof.
  intros SR HI OK N1 N2 VR HS.
  destruct (store_rel_fixed a o SR) as (Limm & _). rewrite HI in Limm.
  destruct (nm_ok_facts _ N1) as [F1 R1]. destruct (nm_ok_facts _ N2) as [F2 R2].
  unfold ss5, sl_, single_store. sx. pose proof (is_str_name fd OK) as IS. unfold srco_const_STR in IS. rewrite IS. clear IS.
  destruct (df_ty fd) eqn:Ety; sx.
  4: { (* STR *)
    destruct (HS eq_refl) as [[s ->] SA]. unfold str_or_absent in SA.
    pose proof (store_rel_attr a o anam SR F1) as RA.
    rewrite R1. sx.
    destruct (assoc anam (o_attrs o)) as [[|?|old]|]; try contradiction.
    - destruct RA as [(t & -> & RA)|RA]; look RA; sx; inversion VR; subst; sx.
      all: rewrite ?R1; sx; rewrite H_set; match goal with |- context [g_set [VStr ?n; ?x] ?aa tt] => rewrite (proj2 (G_set n x aa tt) Limm) by discriminate end; sx.
      all: unfold Message.setattr; rewrite HI; do 2 eexists; split; [reflexivity|]; split; [reflexivity|]; split; [|split; [exact HI|reflexivity]].
      all: apply store_rel_setattr; [exact SR|exact F1|]; first [constructor|rewrite <- codes_app; constructor].
    - look RA. sx. inversion VR; subst; sx.
      all: rewrite ?R1; sx; rewrite H_set; match goal with |- context [g_set [VStr ?n; ?x] ?aa tt] => rewrite (proj2 (G_set n x aa tt) Limm) by discriminate end; sx.
      all: unfold Message.setattr; rewrite HI; do 2 eexists; split; [reflexivity|]; split; [reflexivity|]; split; [|split; [exact HI|reflexivity]].
      all: apply store_rel_setattr; [exact SR|exact F1|constructor]. }
  all: inversion VR; subst; sx; rewrite R2; sx; rewrite H_set;
       match goal with |- context [g_set [VStr ?n; ?x] ?aa tt] => rewrite (proj2 (G_set n x aa tt) Limm) by discriminate end; sx.
  all: unfold Message.setattr; rewrite HI; do 2 eexists; split; [reflexivity|]; split; [reflexivity|]; split; [|split; [exact HI|reflexivity]].
  all: apply store_rel_setattr; [exact SR|exact F2|constructor].
Qed.

(* ---- the MSM counts and maps ---- *)
Definition xrel (pay:bytes) (anam:string) (voff vidx vanami vi vatyp vasiz vres vund v vbits vmsb:val dob)
           (m:outcome obj) (r:res (ctl dob) * state dob W) : Prop :=
  match m with
  | Ok o2 => exists vnb a2, r = (ROk (CNext dob), St (sl_ (VS anam) voff vidx vanami vi vatyp vasiz vres vund v vbits vmsb vnb U U U U) a2) /\ store_rel a2 o2
  | Lib e => exists l' a', r = (RExc (liberr_class e), St l' a') /\ lookup dob "_payload" a' = Some (VBytes pay)
  | Foreign k => exists l' a', r = (RExc (dec_exc_class k), St l' a') /\ lookup dob "_payload" a' = Some (VBytes pay)
  | Unmodelled _ => exists f s', r = (RFail f, s')
  end.

Lemma extras_ok a o1 anam ob voff vidx vanami vi vatyp vasiz vres vund v vmsb :
  store_rel a o1 -> o_immutable o1 = false ->
  (anam = "DF396" -> forall b o2, ob = Some b -> Message.setattr o1 (t_ncell T) (Types.VInt (popcount b)) = Ok o2 -> P o2) ->
  xrel (o_payload o1) anam voff vidx vanami vi vatyp vasiz vres vund v (bits_v ob) vmsb
       (single_extras T gsm anam ob o1)
       (exec ss7 (St (sl_ (VS anam) voff vidx vanami vi vatyp vasiz vres vund v (bits_v ob) vmsb U U U U U) a)).
Proof.
  intros SR HI HP.
  destruct (store_rel_fixed a o1 SR) as (Limm & Lpay & _). rewrite HI in Limm.
  unfold single_extras. rewrite C_nsat, C_nsig, C_ncell.
  destruct (String.eqb anam "DF394") eqn:E4; [|destruct (String.eqb anam "DF395") eqn:E5; [|destruct (String.eqb anam "DF396") eqn:E6]]; cbn [orb].
  4: { (* none of the three *)
    unfold ss7, sl_. sx. cbn [mem_val eq_val]. rewrite (String.eqb_sym "DF394"), (String.eqb_sym "DF395"), (String.eqb_sym "DF396"), E4, E5, E6. sx.
    cbn [xrel]. do 2 eexists. split; [reflexivity|exact SR]. }
  all: try apply String.eqb_eq in E4; try apply String.eqb_eq in E5; try apply String.eqb_eq in E6; subst anam.
  all: destruct ob as [b|]; cbn [bits_v]; unfold ss7, sl_; sx.
  all: try (cbn [xrel dec_exc_class]; do 2 eexists; split; [reflexivity|exact Lpay]).
  all: cbn [builtin_val]; rewrite popcount_bits; sx; rewrite H_set;
       match goal with |- context [g_set [VStr ?n; ?x] ?aa tt] => rewrite (proj2 (G_set n x aa tt) Limm) by discriminate end; sx.
  all: unfold Message.setattr; rewrite HI; cbn [obind].
  1,2: cbn [xrel]; do 2 eexists; (split; [reflexivity|]); apply store_rel_setattr; [exact SR|reflexivity|constructor].
  (* DF396: the maps *)
  rewrite H_gsm.
  set (o2 := with_attrs o1 (upd srco_const_NCELL (Types.VInt (popcount b)) (o_attrs o1))).
  set (a2 := sa "NCell" (VI (popcount b)) a).
  assert (SR2 : store_rel a2 o2) by (apply store_rel_setattr; [exact SR|reflexivity|constructor]).
  assert (P2 : P o2).
  { apply (HP eq_refl b o2 eq_refl). unfold Message.setattr. rewrite HI, C_ncell. reflexivity. }
  pose proof (G_gsm a2 o2 SR2 HI P2) as G. change (o_payload o2) with (o_payload o1) in G.
  destruct (g_gsm [] a2 tt) as [rr [a3 w3]]. destruct (gsm o2) as [o3|e|k|w]; cbn [agree] in G.
  - destruct G as (v' & a' & E & -> & SR3). inversion E; subst. sx. cbn [xrel]. do 2 eexists. split; [reflexivity|exact SR3].
  - destruct G as (a' & E & LP). inversion E; subst. sx. cbn [xrel]. do 2 eexists. split; [reflexivity|exact LP].
  - destruct G as (a' & E & LP). inversion E; subst. sx. cbn [xrel]. do 2 eexists. split; [reflexivity|exact LP].
  - destruct G as (f & E). cbn [fst] in E. subst rr. sx. cbn [xrel]. do 2 eexists. reflexivity.
Qed.

(* ---- the method ---- *)
Lemma value_str_kind fd asiz index o offset mv ob :
  single_value fd asiz index o offset = Ok (mv, ob) -> df_ty fd = TSTR -> exists s, mv = Types.VStr s.
Proof.
  intros E Ety. unfold single_value in E. rewrite Ety in E.
  destruct (get_bits _ _ offset asiz) as [b| | |]; cbn [obind] in E; try discriminate.
  destruct (b =? 0)%N; [inversion E; eauto|]. destruct (1114112 <=? b)%N; [discriminate|inversion E; eauto].
Qed.


Theorem set_single_gen_ok a o anam index offset :
  anam <> "IDF038" -> nm_ok anam = true -> nm_ok (render_name anam index) = true ->
  Forall (fun i => i < 10 ^ 4300) index ->
  (forall fd, find_field T anam = Some fd -> fd_ok fd = true) ->
  store_rel a o -> o_immutable o = false ->
  (forall fd, find_field T anam = Some fd -> df_ty fd = TSTR -> str_or_absent o anam) ->
  (forall fd, find_field T anam = Some fd -> anam = "DF396" -> int_or_absent o (t_nsat T) /\ int_or_absent o (t_nsig T)) ->
  (anam = "DF396" -> forall o2 off, set_single_gen T (fun x => Ok x) anam index (o, offset) = Ok (o2, off) -> P o2) ->
  agree (o_payload o) single_post (set_single_gen T gsm anam index (o, offset))
        (call dob W ext MT wfuel "_set_attribute_single" srco_msgdec__set_attribute_single [VS anam; VI offset; VList (map VI index)] a tt).
Proof.
  intros NH N1 N2 HB Hfd SR HI Hstr Hint HP.
  destruct (store_rel_fixed a o SR) as (_ & Lpay & _).
  cbv [call m_params m_locals bind_params app srco_msgdec__set_attribute_single m_body]. cbn [map app].
  match goal with |- context [PyO.exec_list _ _ _ _ _ ?l _] => change l with [ss0; ss1; ss2; ss3; ss4; ss5; ss6; ss7; ss8; ss9] end.
  unfold set_single_gen. sx. unfold ss0. sx.
  destruct (name_ok_loop a anam offset index U HB) as (vi & E1). unfold sl_ in E1. rewrite E1. clear E1. sx.
  pose proof (fields_ok a anam (VI offset) (VList (map VI index)) (VS (render_name anam index)) vi) as E2. unfold sl_ in E2.
  destruct (find_field T anam) as [fd|] eqn:EF.
  2: { rewrite E2. sx. eexists. split; [reflexivity|exact Lpay]. }
  pose proof (Hfd fd eq_refl) as OK. rewrite (E2 OK). clear E2. sx.
  (* the width *)
  pose proof (asiz_ok a o anam fd (VI offset) (VList (map VI index)) (VS (render_name anam index)) vi (VS (dtype_name (df_ty fd))) (res_v (df_res fd)) (VS (df_desc fd)) SR (Hint fd eq_refl)) as E3.
  unfold sl_ in E3.
  destruct (single_asiz T anam fd o) as [asiz| |k|] eqn:EA; try contradiction; cbn [obind].
  2: { destruct E3 as (l' & E3). rewrite E3. sx. eexists. split; [reflexivity|exact Lpay]. }
  rewrite E3. clear E3. sx.
  (* the value *)
  pose proof (value_ok a o fd asiz index offset (VS anam) (VS (render_name anam index)) vi (VS (df_desc fd)) SR OK) as E4.
  unfold value_goal, sl_ in E4.
  destruct (single_value fd asiz index o offset) as [[mv ob]| |k|w] eqn:EV; cbn [vrel obind fst snd] in *; try contradiction.
  2: { destruct E4 as (l' & E4). rewrite E4. sx. eexists. split; [reflexivity|exact Lpay]. }
  2: { destruct E4 as (f & l' & E4). rewrite E4. sx. eexists. reflexivity. }
  destruct E4 as (v & vm & VR & E4). unfold sl_ in E4. rewrite E4. clear E4. sx.
  (* the attribute *)
  destruct (store_ok a o fd anam (render_name anam index) v mv (VI offset) (VList (map VI index)) vi (VI asiz) (VS (df_desc fd)) (bits_v ob) vm SR HI OK N1 N2 VR)
    as (o1 & a1 & Est & E5 & SR1 & HI1 & HP1).
  { intro Ety. split; [exact (value_str_kind _ _ _ _ _ _ _ EV Ety)|exact (Hstr fd eq_refl Ety)]. }
  unfold sl_ in E5. rewrite E5, Est. clear E5. cbn [obind]. sx.
  unfold ss6. sx.
  (* the MSM extras *)
  assert (HPx : anam = "DF396" -> forall b o2, ob = Some b -> Message.setattr o1 (t_ncell T) (Types.VInt (popcount b)) = Ok o2 -> P o2).
  { intros EN b o2 -> ES. apply (HP EN o2 (offset + asiz)). unfold set_single_gen. rewrite EF, EA. cbn [obind]. rewrite EV. cbn [obind fst snd]. rewrite Est. cbn [obind].
    subst anam. unfold single_extras, single_harm. cbn [String.eqb Ascii.eqb Bool.eqb orb]. rewrite ES. reflexivity. }
  pose proof (extras_ok a1 o1 anam ob (VI (offset + asiz)) (VList (map VI index)) (VS (render_name anam index)) vi (VS (dtype_name (df_ty fd))) (VI asiz) (res_v (df_res fd))
                (VS (df_desc fd)) v vm SR1 HI1 HPx) as E7.
  unfold sl_ in E7. rewrite HP1 in E7.
  destruct (single_extras T gsm anam ob o1) as [o2|e|k|w]; cbn [xrel obind] in *.
  2: { destruct E7 as (l' & a' & E7 & LP). rewrite E7. sx. eexists. split; [reflexivity|exact LP]. }
  2: { destruct E7 as (l' & a' & E7 & LP). rewrite E7. sx. eexists. split; [reflexivity|exact LP]. }
  2: { destruct E7 as (f & s' & E7). rewrite E7. destruct s'. sx. eexists. reflexivity. }
  destruct E7 as (vnb & a2 & E7 & SR2). rewrite E7. clear E7. unfold sl_. sx.
  (* no harmonic coefficients *)
  assert (EH : String.eqb anam "IDF038" = false) by (apply String.eqb_neq; exact NH).
  unfold single_harm. rewrite EH. cbn [obind]. unfold ss8. sx. rewrite EH. sx.
  unfold ss9. sx.
  cbn [agree]. do 2 eexists. split; [reflexivity|]. split; [reflexivity|exact SR2].
Qed.
End Single.

(* ================= the methods as they sit in the translated class ================= *)
Section Leaves.
Variable MT : mtab.
Lemma identity_ok a p w :
  lookup dob "_payload" a = Some (VBytes p) ->
  call dob W ext MT wfuel "identity" srco_msgdec_identity [] a w = (img_ident (identity p), (a, w)).
Proof.
  intro H. destruct w. enter srco_msgdec_identity.
  destruct p as [|b0 [|b1 r]].
  - sx. idx 0%nat. sx. reflexivity.
  - sx. idx 0%nat. sx. idx 1%nat. sx. reflexivity.
  - sx. idx 0%nat. sx. idx 1%nat. sx. rewrite msgnum_Z. sx.
    change 4076 with (Z.of_N 4076). rewrite of_N_eqb_const. cbn [identity].
    destruct (N.eqb (msgnum b0 b1) 4076) eqn:E; sx.
    + destruct r as [|b2 r']; sx.
      * idx 1%nat. sx. idx 2%nat. sx. reflexivity.
      * idx 1%nat. sx. idx 2%nat. sx. rewrite subtype_Z. sx.
        rewrite strof_small by apply msgnum_lt. sx. rewrite fmtd_small by apply subtype_lt. sx.
        rewrite strof_str. sx. rewrite app_str_assoc. reflexivity.
    + rewrite strof_small by apply msgnum_lt. sx. reflexivity.
Qed.
Lemma setattr_true n v a w :
  lookup dob "_immutable" a = Some (VBool true) ->
  call dob W ext MT wfuel "__setattr__" srco_msgdec_setattr [VStr n; v] a w = (RExc "RTCMMessageError", (a, w)).
Proof. intro H. destruct w. enter srco_msgdec_setattr. sx. reflexivity. Qed.
Lemma setattr_false n v a w :
  lookup dob "_immutable" a = Some (VBool false) -> v <> VUnbound ->
  call dob W ext MT wfuel "__setattr__" srco_msgdec_setattr [VStr n; v] a w = (ROk VNone, (setattr dob n v a, w)).
Proof. intros H Hv. destruct w. enter srco_msgdec_setattr. sx. destruct v; try congruence; reflexivity. Qed.
End Leaves.
Lemma id_linked MT : id_spec (call dob W ext MT wfuel "identity" srco_msgdec_identity).
Proof. intros a p w H. apply identity_ok. exact H. Qed.
Lemma set_linked MT : set_spec (call dob W ext MT wfuel "__setattr__" srco_msgdec_setattr).
Proof. intros n v a w. split; [apply setattr_true|apply setattr_false]. Qed.

(* ---- the class as linked (recursive linking, call-depth budget d) ---- *)
Notation prog_M := (rlink dob W ext wfuel srco_msgdec_prog).
Lemma M_identity d : prog_M (S d) "identity" = Some (call dob W ext (prog_M d) wfuel "identity" srco_msgdec_identity).
Proof. reflexivity. Qed.
Lemma M_setattr d : prog_M (S d) "__setattr__" = Some (call dob W ext (prog_M d) wfuel "__setattr__" srco_msgdec_setattr).
Proof. reflexivity. Qed.
Lemma M_gsm d : prog_M (S d) "_getsatcellmaps" = Some (call dob W ext (prog_M d) wfuel "_getsatcellmaps" srco_msgdec__getsatcellmaps).
Proof. reflexivity. Qed.
Lemma M_single d : prog_M (S d) "_set_attribute_single" = Some (call dob W ext (prog_M d) wfuel "_set_attribute_single" srco_msgdec__set_attribute_single).
Proof. reflexivity. Qed.

(* (a) _getsatcellmaps with one level of calls below it *)
Theorem src_getsatcellmaps_eq d a o ident :
  store_rel a o -> o_immutable o = false -> identity (o_payload o) = Ok ident -> masks_plain o -> lazy_same T ident o ->
  agree (o_payload o) gsm_post (getsatcellmaps T ident o)
        (call dob W ext (prog_M (S d)) wfuel "_getsatcellmaps" srco_msgdec__getsatcellmaps [] a tt).
Proof.
  apply (getsatcellmaps_ok (prog_M (S d)) _ _ (M_identity d) (id_linked _) (M_setattr d) (set_linked _)).
Qed.
(* the same against what the source does with DF396 (read only if some cell exists): no condition on DF396 being readable *)
Theorem src_getsatcellmaps_lazy_eq d a o ident :
  store_rel a o -> o_immutable o = false -> identity (o_payload o) = Ok ident -> masks_plain o ->
  agree (o_payload o) gsm_post (getsatcellmaps_lazy T ident o)
        (call dob W ext (prog_M (S d)) wfuel "_getsatcellmaps" srco_msgdec__getsatcellmaps [] a tt).
Proof.
  apply (getsatcellmaps_lazy_ok (prog_M (S d)) _ _ (M_identity d) (id_linked _) (M_setattr d) (set_linked _)).
Qed.

(* (b) _set_attribute_single with two levels of calls below it *)
Hypothesis C_nsat : t_nsat T = srco_const_NSAT.
Hypothesis C_nsig : t_nsig T = srco_const_NSIG.
Hypothesis C_ncell : t_ncell T = srco_const_NCELL.

Notation nm_ok := (name_ok srco_msgdec_reserved).
Lemma reserved_no_digit : forallb (fun x => negb (last_digit x)) (fixed_names ++ srco_msgdec_reserved) = true.
Proof. reflexivity. Qed.

(* the objects on which the _getsatcellmaps call is followed *)
Definition gsm_pre (ident:string) (o:obj) : Prop := identity (o_payload o) = Ok ident /\ masks_plain o /\ lazy_same T ident o.

Theorem src_set_attribute_single_eq d a o ident anam index offset :
  anam <> "IDF038" -> nm_ok anam = true -> Forall (fun i => i < 10 ^ 4300) index ->
  (forall fd, find_field T anam = Some fd -> fd_ok fd = true) ->
  store_rel a o -> o_immutable o = false -> identity (o_payload o) = Ok ident ->
  (forall fd, find_field T anam = Some fd -> df_ty fd = TSTR -> str_or_absent o anam) ->
  (forall fd, find_field T anam = Some fd -> anam = "DF396" -> int_or_absent o (t_nsat T) /\ int_or_absent o (t_nsig T)) ->
  (anam = "DF396" -> forall o2 off, set_single_gen T (fun x => Ok x) anam index (o, offset) = Ok (o2, off) -> masks_plain o2 /\ lazy_same T ident o2) ->
  agree (o_payload o) single_post (set_single T ident anam index (o, offset))
        (call dob W ext (prog_M (S (S d))) wfuel "_set_attribute_single" srco_msgdec__set_attribute_single
              [VS anam; VI offset; VList (map VI index)] a tt).
Proof.
  intros NH N1 HB Hfd SR HI HID Hstr Hint HP. rewrite set_single_gen_eq.
  apply (set_single_gen_ok (prog_M (S (S d))) _ _ (M_setattr (S d)) (set_linked _) (M_gsm (S d)) C_nsat C_nsig C_ncell
           (getsatcellmaps T ident) (gsm_pre ident)); try assumption.
  - intros a2 o2 SR2 HI2 (ID2 & MP2 & LZ2). apply src_getsatcellmaps_eq; assumption.
  - apply name_ok_render; [exact reserved_no_digit|exact N1].
  - intros EN o2 off E. destruct (HP EN o2 off E) as [MP LZ]. split; [|split; assumption].
    rewrite (set_single_gen_payload T anam index o offset o2 off NH E). exact HID.
Qed.

(* the same with the conditions on the object as one test, non-strict (nothing claimed where the test fails): the form the walk
   (run/SrcMsgDecWalk_inst.v, single_spec with leaf := set_single_guarded T ident) uses *)
Theorem src_set_attribute_single_guarded d a o ident anam index offset :
  forallb fd_ok (t_fields T) = true ->
  anam <> "IDF038" -> nm_ok anam = true -> Forall (fun i => i < 10 ^ 4300) index ->
  store_rel a o -> o_immutable o = false -> identity (o_payload o) = Ok ident ->
  agree_ns (o_payload o) single_post (set_single_guarded T ident anam index (o, offset))
           (call dob W ext (prog_M (S (S d))) wfuel "_set_attribute_single" srco_msgdec__set_attribute_single
                 [VS anam; VI offset; VList (map VI index)] a tt).
Proof.
  intros HF NH N1 HB SR HI HID. unfold set_single_guarded.
  destruct (single_pre T ident anam index (o, offset)) eqn:EP; [|exact I].
  apply agree_weaken. unfold single_pre in EP. cbn [fst] in EP.
  apply src_set_attribute_single_eq; try assumption.
  - intros fd E. rewrite forallb_forall in HF. apply HF. apply (find_field_In T anam). exact E.
  - intros fd E Ety. rewrite E, Ety in EP. apply andb_true_iff in EP. destruct EP as [EP _]. apply str_or_absent_iff. exact EP.
  - intros fd E EN. rewrite E in EP. apply andb_true_iff in EP. destruct EP as [_ EP]. subst anam. cbn [String.eqb Ascii.eqb Bool.eqb] in EP.
    apply andb_true_iff in EP. destruct EP as [EP _]. apply andb_true_iff in EP. destruct EP as [E1 E2].
    split; apply int_or_absent_iff; assumption.
  - intros EN o2 off E. destruct (find_field T anam) as [fd|] eqn:EF.
    + apply andb_true_iff in EP. destruct EP as [_ EP]. subst anam. cbn [String.eqb Ascii.eqb Bool.eqb] in EP.
      apply andb_true_iff in EP. destruct EP as [_ EP]. rewrite E in EP. apply andb_true_iff in EP. destruct EP as [E1 E2].
      split; [apply masks_plain_iff; exact E1|apply lazy_same_iff; exact E2].
    + unfold set_single_gen in E. rewrite EF in E. discriminate.
Qed.
End Dec.

Goal True. idtac "PA:getsatcellmaps_lazy_ok". Abort.
Print Assumptions getsatcellmaps_lazy_ok.
Goal True. idtac "PA:getsatcellmaps_ok". Abort.
Print Assumptions getsatcellmaps_ok.
Goal True. idtac "PA:set_single_gen_ok". Abort.
Print Assumptions set_single_gen_ok.
Goal True. idtac "PA:src_getsatcellmaps_lazy_eq". Abort.
Print Assumptions src_getsatcellmaps_lazy_eq.
Goal True. idtac "PA:src_getsatcellmaps_eq". Abort.
Print Assumptions src_getsatcellmaps_eq.
Goal True. idtac "PA:src_set_attribute_single_eq". Abort.
Print Assumptions src_set_attribute_single_eq.
Goal True. idtac "PA:src_set_attribute_single_guarded". Abort.
Print Assumptions src_set_attribute_single_guarded.
