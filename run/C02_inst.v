(* C02 / C05 / C11 / C17 at the regenerated tables: framing constants and the NMEA / UBX header tables the theorems need *)
From Coq Require Import NArith ZArith List.
From Coq.Strings Require Import Byte.
From PyRtcm Require Import Base.Bytes Model.Types Model.Message Model.Reader Spec.Items Corr.Obs Proofs.ReaderComplete.
From PyRtcmGen Require Import Tables.
Import ListNotations.

Definition nmea_ok_b (l:list bytes) : bool := forallb (fun h => match h with [a; _] => Byte.eqb a x24 | _ => false end) l.
Lemma nmea_ok_b_sound l : nmea_ok_b l = true -> nmea_hdr_ok l.
Proof.
  unfold nmea_ok_b, nmea_hdr_ok. intro H. rewrite forallb_forall in H. apply Forall_forall.
  intros h Hin. specialize (H h Hin). destruct h as [|a [|t [|x r]]]; try discriminate.
  exists t. apply Byte.byte_dec_bl in H. now subst.
Qed.

Theorem C02_framing_tables : t_valcksum T = 1%Z /\ t_err_raise T = 2%Z /\ t_err_log T = 1%Z /\ t_err_ignore T = 0%Z /\
  t_ubx_hdr T = [xb5; x62] /\ t_rtcm_hdr T = [xd3] /\ nmea_hdr_ok (t_nmea_hdr T).
Proof. repeat split; try (vm_compute; reflexivity). apply nmea_ok_b_sound. vm_compute. reflexivity. Qed.
Goal True. idtac "PA:C02_framing_tables". Abort.
Print Assumptions C02_framing_tables.
