(* Per-run source tie for the second array helper of rtcmhelpers (C18): the PyO interpretation (Src/PyO.v) of the CURRENT source text of
     parse_4076_201
   (translated by tools/gen_src2.py `arr2` into PyRtcmGen.SrcOArr2) equals the hand-written model Model/Helpers.v: parse_4076_201.

     src_parse_4076_201_eq :  forall T wfuel o a w,
        coeffs_ok T srco_arr2_reserved = true -> count_not_str o "IDF035" -> attrs_small o ->
        S (length (o_attrs o)) < wfuel -> modelled (parse_4076_201 T o) ->
        run Ob W (arr2_ext T srco_arr2_reserved o) wfuel srco_arr2_prog "parse_4076_201" [VRef "msg"] a w
          = (img_4076 (parse_4076_201 T o), (a, tt))

   for ALL tables T and ALL objects o.  Environment and image of the result ({0: {"Layer Height": h, name: [values], ..}, 1: ..} | None;
   Foreign outcomes as the exception class): Src/Arr2Env.v.  Hypotheses:
     coeffs_ok        on the table COEFFS (decided on the regenerated one in run/SrcArr2_tables_inst.v): no f"{field}_.." can be a name bound
                      in class RTCMMessage or a fixed instance attribute; the coefficient names are distinct and none is "Layer Height"
                      (otherwise the Python dict and the model's association list differ);
     count_not_str    IDF035, when present, does not hold a str (`msg.IDF035 + 1`: TypeError in CPython, "operand kind" in PyO);
     attrs_small      the object has at most 1048576 data attributes: f"{i+1:02d}" is rendered for i up to that number (PyO's BFmtD follows
                      CPython's 4300-digit limit; any bound below 10^4300 would do);
     wfuel            the interpreter's `while` budget exceeds the model's own fuel S (length (o_attrs o)) (one more test of `not eof`);
     modelled         the model's answer is not Unmodelled (a float / huge layer count; the model's fuel, which is never exhausted in fact).
   The nested stores of the source (hmc[lyr][coeff] = [], hmc[lyr][coeff].append(v), hmc[lyr]["Layer Height"] = v) reach PyO, whose lists and
   dicts are values, as the translator's read - modify - write-back sequences (tools/gen_src2.py: nested_store / nested_append, with the
   aliasing discipline that makes this exact).  The proof follows the text: the `while not eof: try .. except AttributeError` search
   by induction on the model's fuel (collect), the `for field, coeff in COEFFS.values()` loop by induction over the table, the layer loop
   by induction over the remaining layers with the outcome of the model's all_ok (a missing IDF036_nn: AttributeError out of the loop). *)
From Coq Require Import ZArith NArith List String Ascii Bool Lia.
From PyRtcm Require Import Base.Bytes Base.Dec Model.Types Model.Message Model.Helpers.
From PyRtcm Require Import Src.PyO Src.PyOLemmas Src.PyOReaderLemmas Src.PyOMsgLemmas Src.PyOHelpersLemmas Src.ReaderEnv Src.MsgDecEnv Src.PyOMsgDecLemmas Src.ArrEnv Src.PyOArrLemmas Src.Arr2Env.
From PyRtcmGen Require Import SrcOArr2.
Import ListNotations.
Open Scope string_scope.
Open Scope Z_scope.

(* x.append(v) on a local: what happens once the value is known *)
Section AppendK.
  Variable ext : callsig -> list (val Ob) -> W -> res (val Ob) * W.
  Variable M : string -> option (mcall Ob W).
  Definition append_k (x:string) (v:val Ob) (s1:state Ob W) : res (val Ob) * state Ob W :=
    match lookup Ob x (locals Ob W s1) with
    | Some (VList l) => (ROk VNone, set_locals Ob W (update Ob x (VList (l ++ [v])%list) (locals Ob W s1)) s1)
    | Some VUnbound | None => (RExc "UnboundLocalError", s1)
    | Some _ => (RFail (FUnmodelled "append on a non-list"), s1)
    end.
  Lemma eval_listappend x ev (s:state Ob W) :
    eval Ob W ext M (EListAppend x ev) s = match eval Ob W ext M ev s with (ROk v, s1) => append_k x v s1 | other => other end.
  Proof. reflexivity. Qed.
End AppendK.

Ltac interp t :=
  eval cbv [PyO.exec PyO.eval PyO.eval_list PyO.assign target_expr ret lookup update
            truth binop_val int_binop unop_val eq_val cmp_val mem_val dict_set setitem_k append_k
            set_locals set_self set_world locals self world
            String.eqb Ascii.eqb Bool.eqb existsb orb negb] in t.
Ltac rw E := lazymatch type of E with ?l = ?r => change l with r end.
Ltac whole t := let t' := interp t in lazymatch t' with (_, _) => change t with t' end.
Ltac step :=
  match goal with
  | |- context [PyO.assign ?Ob ?W ?tg ?v (Build_state ?A ?B ?l ?sf ?w)] =>
      let t := constr:(PyO.assign Ob W tg v (Build_state A B l sf w)) in
      let t' := interp t in change t with t'
  | |- context [append_k ?x ?v (Build_state ?A ?B ?l ?sf ?w)] =>
      let t := constr:(append_k x v (Build_state A B l sf w)) in whole t
  | |- context [setitem_k ?x ?v ?vk (Build_state ?A ?B ?l ?sf ?w)] =>
      let t := constr:(setitem_k x v vk (Build_state A B l sf w)) in whole t
  | |- context [PyO.exec ?Ob ?W ?ext ?M ?wf ?st (Build_state ?A ?B ?l ?sf ?w)] =>
      let s := constr:(Build_state A B l sf w) in
      let t := constr:(PyO.exec Ob W ext M wf st s) in
      lazymatch st with SFor _ _ _ => fail | SWhile _ _ => fail | _ => idtac end;
      lazymatch st with
      | SIf ?c ?th ?el => rw (exec_if_branch Ob W ext M wf c th el s)
      | _ =>
      first [ whole t |
      lazymatch st with
      | SAssign ?tg ?e => rw (exec_assign Ob W ext M wf tg e s)
      | SReturn ?e => rw (exec_return Ob W ext M wf e s)
      | SExpr ?e => rw (exec_expr Ob W ext M wf e s)
      | SSetItemLocal ?x ?k ?e => rw (exec_setitem_local ext M wf x k e s)
      | SAug ?tg ?o ?e => rw (exec_aug Ob W ext M wf tg o e s); cbv [target_expr]
      | STry ?b ?hs => rewrite (exec_try Ob W ext M wf b hs s)
      end ]
      end
  | |- context [PyO.eval_list ?Ob ?W ?ext ?M ?l (Build_state ?A ?B ?lc ?sf ?w)] =>
      let s := constr:(Build_state A B lc sf w) in
      let t := constr:(PyO.eval_list Ob W ext M l s) in
      first [ whole t |
      lazymatch l with
      | [] => rw (eval_list_nil Ob W ext M s)
      | ?a :: ?r => rw (eval_list_cons Ob W ext M a r s)
      end ]
  | |- context [eval_opt ?Ob ?W ?ext ?M ?o (Build_state ?A ?B ?l ?sf ?w)] =>
      let t := constr:(eval_opt Ob W ext M o (Build_state A B l sf w)) in
      let t1 := eval cbv [eval_opt] in t in
      let t' := interp t1 in change t with t'
  | |- context [PyO.eval ?Ob ?W ?ext ?M ?e (Build_state ?A ?B ?l ?sf ?w)] =>
      let s := constr:(Build_state A B l sf w) in
      let t := constr:(PyO.eval Ob W ext M e s) in
      first [ whole t |
        lazymatch e with
        | EIndex ?a ?i => rw (eval_index Ob W ext M a i s)
        | EBin ?o ?a ?b => rw (eval_bin Ob W ext M o a b s)
        | EUn ?o ?a => rw (eval_un Ob W ext M o a s)
        | EOr ?a ?b => rw (eval_or Ob W ext M a b s)
        | ESlice ?x ?lo ?hi => rw (eval_slice Ob W ext M x lo hi s)
        | ECallB ?f ?args => rw (eval_callb Ob W ext M f args s)
        | ECallX ?c ?args => rw (eval_callx Ob W ext M c args s)
        | ETuple ?args => rw (eval_tuple Ob W ext M args s)
        | ECmp ?a [(?o, ?b)] => rewrite (eval_cmp1 Ob W ext M a o b s)
        | EListAppend ?x ?ev => rw (eval_listappend ext M x ev s)
        | ETupleRange ?x ?lo ?hi ?b => rewrite (eval_tuplerange Ob W ext M x lo hi b s)
        end ]
  end.
Ltac spine :=
  repeat match goal with
  | |- context [branch ?Ob ?W ?ext ?M ?wf (ROk true) ?th ?el ?s] =>
      change (branch Ob W ext M wf (ROk true) th el s) with (PyO.exec_list Ob W ext M wf th s)
  | |- context [branch ?Ob ?W ?ext ?M ?wf (ROk false) ?th ?el ?s] =>
      change (branch Ob W ext M wf (ROk false) th el s) with (PyO.exec_list Ob W ext M wf el s)
  | |- context [branch ?Ob ?W ?ext ?M ?wf (RExc ?c) ?th ?el ?s] =>
      change (branch Ob W ext M wf (RExc c) th el s) with (@RExc (ctl Ob) c, s)
  | |- context [branch ?Ob ?W ?ext ?M ?wf (RFail ?f) ?th ?el ?s] =>
      change (branch Ob W ext M wf (RFail f) th el s) with (@RFail (ctl Ob) f, s)
  | |- context [PyO.exec_list ?Ob ?W ?ext ?M ?wf ?l (Build_state ?A ?B ?lc ?sf ?w)] =>
      let s := constr:(Build_state A B lc sf w) in
      lazymatch l with
      | [] => rw (exec_list_nil Ob W ext M wf s)
      | [?a] => rw (exec_list_cons Ob W ext M wf a [] s)
      | ?a :: ?r => rw (exec_list_cons Ob W ext M wf a r s); let R := fresh "rest" in set (R := r)
      | _ => is_var l; subst l
      end
  end.
Ltac rd := cbv [set_world set_self set_locals]; cbv beta iota; cbn [truth cmp_last binop_val int_binop unop_val cmp_val eq_val world self locals negb andb orb]; repeat (progress spine; cbv beta iota);
  repeat match goal with
         | |- context [index_list ?Ob (?x :: ?r) 0] => change (index_list Ob (x :: r) 0) with (@ROk (val Ob) x); cbv beta iota
         | |- context [index_list ?Ob [?x; ?y] 1] => change (index_list Ob [x; y] 1) with (@ROk (val Ob) y); cbv beta iota
         end.
Ltac sx := rd; repeat (step; rd).
Ltac open_for :=
  match goal with
  | |- context [PyO.exec ?Ob ?W ?ext ?M ?wf (SFor ?tg ?it ?b) (Build_state ?A ?B ?l ?sf ?w)] =>
      rw (exec_for Ob W ext M wf tg it b (Build_state A B l sf w))
  end.
Ltac enter m := cbv [call m m_params m_locals m_body bind_params map app].


(* ---------- insertion-ordered dicts whose keys are the images of an injective key type ---------- *)
Section Keyed.
  Variable X : Type.
  Variable K : X -> val Ob.
  Hypothesis K_refl : forall x, eq_val Ob (K x) (K x) = Some true.
  Hypothesis K_neq : forall x y, x <> y -> eq_val Ob (K x) (K y) = Some false.
  Definition kent (xv:X * val Ob) : val Ob * val Ob := (K (fst xv), snd xv).
  Lemma kget_snoc x v l : ~ In x (map fst l) -> dict_get Ob (K x) (map kent (l ++ [(x, v)])) = Some (Some v).
  Proof.
    induction l as [|[y u] r IH]; intro H; cbn [app map kent fst snd PyO.dict_get].
    - now rewrite K_refl.
    - rewrite K_neq by (intro E; apply H; left; exact E). apply IH. intro H'. apply H. right. exact H'.
  Qed.
  Lemma kset_snoc x v v' l : ~ In x (map fst l) -> dict_set Ob (K x) v' (map kent (l ++ [(x, v)])) = Some (map kent (l ++ [(x, v')])).
  Proof.
    induction l as [|[y u] r IH]; intro H; cbn [app map kent fst snd PyO.dict_set].
    - now rewrite K_refl.
    - rewrite K_neq by (intro E; apply H; left; exact E). rewrite IH by (intro H'; apply H; right; exact H'). reflexivity.
  Qed.
  Lemma kset_fresh x v l : ~ In x (map fst l) -> dict_set Ob (K x) v (map kent l) = Some (map kent (l ++ [(x, v)])).
  Proof.
    induction l as [|[y u] r IH]; intro H; cbn [app map kent fst snd PyO.dict_set]; [reflexivity|].
    rewrite K_neq by (intro E; apply H; left; exact E). rewrite IH by (intro H'; apply H; right; exact H'). reflexivity.
  Qed.
End Keyed.
Definition KS (x:string) : val Ob := PyO.VStr x.
Definition KI (j:nat) : val Ob := PyO.VInt (Z.of_nat j).
Lemma KS_refl x : eq_val Ob (KS x) (KS x) = Some true. Proof. cbn. now rewrite String.eqb_refl. Qed.
Lemma KS_neq x y : x <> y -> eq_val Ob (KS x) (KS y) = Some false. Proof. intro H. cbn. apply String.eqb_neq in H. now rewrite H. Qed.
Lemma KI_refl x : eq_val Ob (KI x) (KI x) = Some true. Proof. cbn. now rewrite Z.eqb_refl. Qed.
Lemma KI_neq x y : x <> y -> eq_val Ob (KI x) (KI y) = Some false.
Proof. intro H. cbn. f_equal. apply Z.eqb_neq. intro E. apply H. now apply Nat2Z.inj. Qed.
Notation sentS := (kent string KS).
Notation sentI := (kent nat KI).
Lemma iget_snoc j v l : ~ In j (map fst l) -> dict_get Ob (PyO.VInt (Z.of_nat j)) (map sentI (l ++ [(j, v)])) = Some (Some v).
Proof. exact (kget_snoc nat KI KI_refl KI_neq j v l). Qed.
Lemma iset_snoc j v v' l : ~ In j (map fst l) -> dict_set Ob (PyO.VInt (Z.of_nat j)) v' (map sentI (l ++ [(j, v)])) = Some (map sentI (l ++ [(j, v')])).
Proof. exact (kset_snoc nat KI KI_refl KI_neq j v v' l). Qed.
Lemma iset_fresh j v l : ~ In j (map fst l) -> dict_set Ob (PyO.VInt (Z.of_nat j)) v (map sentI l) = Some (map sentI (l ++ [(j, v)])).
Proof. exact (kset_fresh nat KI KI_neq j v l). Qed.
Lemma sget_snoc x v l : ~ In x (map fst l) -> dict_get Ob (PyO.VStr x) (map sentS (l ++ [(x, v)])) = Some (Some v).
Proof. exact (kget_snoc string KS KS_refl KS_neq x v l). Qed.
Lemma sset_snoc x v v' l : ~ In x (map fst l) -> dict_set Ob (PyO.VStr x) v' (map sentS (l ++ [(x, v)])) = Some (map sentS (l ++ [(x, v')])).
Proof. exact (kset_snoc string KS KS_refl KS_neq x v v' l). Qed.
Lemma sset_fresh x v l : ~ In x (map fst l) -> dict_set Ob (PyO.VStr x) v (map sentS l) = Some (map sentS (l ++ [(x, v)])).
Proof. exact (kset_fresh string KS KS_neq x v l). Qed.

Lemma fmtd_succ (n:nat) : Z.of_nat n <= 1048577 ->
  builtin_val Ob (BFmtD 2) [PyO.VInt (Z.of_nat n + 1)] = ROk (PyO.VStr (dd (N.of_nat n + 1))).
Proof.
  intro H. cbn [builtin_val].
  assert (B : (0 <=? Z.of_nat n + 1) && (Z.of_nat n + 1 <? 10 ^ 4300) = true).
  { apply andb_true_iff. split; [apply Z.leb_le; lia|]. apply Z.ltb_lt.
    pose proof (Z.pow_le_mono_r 10 7 4300 ltac:(lia) ltac:(lia)) as P. change (10 ^ 7) with 10000000 in P.
    revert P. generalize (10 ^ 4300). intros z P. lia. }
  rewrite B. unfold dd. do 3 f_equal. lia.
Qed.

Ltac use_eq E :=
  lazymatch type of E with
  | ?l = _ =>
      lazymatch l with
      | wloop _ _ _ _ ?k _ => match goal with |- context [wloop ?o1 ?w1 ?c1 ?b1 k ?s1] => change (wloop o1 w1 c1 b1 k s1) with l end
      | floop _ _ _ _ ?vs _ => match goal with |- context [floop ?o1 ?w1 ?c1 ?b1 vs ?s1] => change (floop o1 w1 c1 b1 vs s1) with l end
      end
  end; rewrite E.
Ltac setk lem H := unfold setitem_k; cbn [lookup locals String.eqb Ascii.eqb Bool.eqb]; rewrite lem by exact H;
  cbv [set_locals locals self world update String.eqb Ascii.eqb Bool.eqb].

Section Arr2.
Variable T : tables.
Variable wfuel : nat.
Variable o : obj.
Notation R := srco_arr2_reserved.
Notation ext := (arr2_ext T R o).
Notation run_ := (run Ob W ext wfuel srco_arr2_prog).

Lemma ext_identity w :
  ext {| c_name := "RTCMMessage.identity"; c_kw := [] |} [VRef "msg"] w = (img_outcome (@PyO.VStr Ob) (obj_identity o), tt).
Proof. reflexivity. Qed.
Lemma ext_getattr n w : hidden R n = false ->
  ext {| c_name := "getattr"; c_kw := [] |} [VRef "msg"; PyO.VStr n] w
  = (match assoc n (o_attrs o) with Some v => ROk (img_value v) | None => RExc "AttributeError" end, tt).
Proof. intro H. cbv [arr2_ext c_name c_kw String.eqb Ascii.eqb Bool.eqb negb]. now rewrite H. Qed.
Lemma ext_coeffs w : ext {| c_name := "COEFFS.values"; c_kw := [] |} [] w = (ROk (VList (map coeff_tuple (t_coeffs T))), tt).
Proof. reflexivity. Qed.

Lemma eval_var_img M0 x h (l:env Ob) sf (w:W) : lookup Ob x l = Some (img_value h) ->
  eval Ob W ext M0 (EVar x) {| locals := l; self := sf; world := w |} = (ROk (img_value h), {| locals := l; self := sf; world := w |}).
Proof.
  intro H. cbn [PyO.eval locals]. rewrite H. destruct h as [z|f|u]; cbn [img_value]; try reflexivity.
  destruct (forallb _ u); reflexivity.
Qed.

(* ---------- the loops, cut out of the translated text ---------- *)
Definition p4_body := Eval cbv [m_body srco_arr2_parse_4076_201] in m_body srco_arr2_parse_4076_201.
Definition for_body (s:stmt) : list stmt := match s with SFor _ _ b => b | _ => [] end.
Definition lyr_for := Eval cbv [nth p4_body] in nth 2 p4_body SPass.
Definition co_for := Eval cbv [nth for_body lyr_for] in nth 5 (for_body lyr_for) SPass.
Definition the_while := Eval cbv [nth for_body co_for] in nth 6 (for_body co_for) SPass.
Definition wh_cond := match the_while with SWhile c _ => c | _ => ENone end.
Definition wh_body := match the_while with SWhile _ b => b | _ => [] end.

Definition locs2 (hmc lyr field coeff i eof v t1 t2 : val Ob) : env Ob :=
  [("msg", VRef "msg"); ("hmc", hmc); ("lyr", lyr); ("field", field); ("coeff", coeff); ("i", i); ("eof", eof);
   ("%v", v); ("%t1", t1); ("%t2", t2)].
Definition st_ (l:env Ob) (a:env Ob) : state Ob W := {| locals := l; self := a; world := tt |}.

(* hmc while layer j is being filled: the finished layers, then layer j with its entries so far, the last one the list being built *)
Definition hmc_val (prel:list (nat * val Ob)) (j:nat) (curl:list (string * val Ob)) (coeff:string) (acc:list (val Ob)) : val Ob :=
  VDict (map sentI (prel ++ [(j, VDict (map sentS (curl ++ [(coeff, VList acc)])))])).

Section Loops.
Variable M0 : string -> option (mcall Ob W).

Lemma while_ok a prel j curl field coeff :
  ~ In j (map fst prel) -> ~ In coeff (map fst curl) -> Z.of_nat j <= 1048577 ->
  (forall d, hidden R ((field ++ "_") ++ d) = false) ->
  forall fuel k n acc v t1 t2 vs,
  collect fuel o (field ++ "_" ++ dd (N.of_nat j + 1)) (N.of_nat n) = Some vs ->
  (fuel < k)%nat -> Z.of_nat n + Z.of_nat fuel <= 1048577 ->
  exists i' t1' t2',
  wloop Ob W (eval Ob W ext M0 wh_cond) (exec_list Ob W ext M0 wfuel wh_body) k
        (st_ (locs2 (hmc_val prel j curl coeff acc) (PyO.VInt (Z.of_nat j)) (PyO.VStr field) (PyO.VStr coeff) (PyO.VInt (Z.of_nat n)) (VBool false) v t1 t2) a)
  = (ROk (CNext Ob),
     st_ (locs2 (hmc_val prel j curl coeff (acc ++ map img_value vs)) (PyO.VInt (Z.of_nat j)) (PyO.VStr field) (PyO.VStr coeff) i' (VBool true) v t1' t2') a).
Proof.
  intros Hj Hc Bj Hh. induction fuel as [|f IH]; intros k n acc v t1 t2 vs HC Hk Bn; [discriminate|].
  destruct k as [|k]; [lia|]. cbn [collect] in HC.
  rewrite wloop_S. cbv [st_ locs2 wh_cond wh_body the_while hmc_val]. sx. rewrite iget_snoc by exact Hj. sx. rewrite sget_snoc by exact Hc. sx.
  change (builtin_val Ob BStrOf [PyO.VStr field]) with (@ROk (val Ob) (PyO.VStr field)). sx.
  rewrite (fmtd_succ j Bj). sx. rewrite (fmtd_succ n) by lia. sx.
  rewrite ext_getattr by (rewrite !sapp_assoc; rewrite <- sapp_assoc; apply Hh).
  replace ((((field ++ "_") ++ dd (N.of_nat j + 1)) ++ "_") ++ dd (N.of_nat n + 1))%string
    with ((field ++ "_" ++ dd (N.of_nat j + 1)) ++ "_" ++ dd (N.of_nat n + 1))%string by (now rewrite !sapp_assoc).
  destruct (assoc ((field ++ "_" ++ dd (N.of_nat j + 1)) ++ "_" ++ dd (N.of_nat n + 1)) (o_attrs o)) as [v0|].
  - (* one more coefficient *)
    destruct (collect f o (field ++ "_" ++ dd (N.of_nat j + 1)) (N.of_nat n + 1)) as [vs'|] eqn:HC'; [|discriminate].
    cbn [option_map] in HC. injection HC as <-.
    sx. unfold setitem_k. cbn [lookup locals String.eqb Ascii.eqb Bool.eqb]. rewrite sset_snoc by exact Hc.
    cbv [set_locals locals self world update String.eqb Ascii.eqb Bool.eqb]. sx.
    unfold setitem_k. cbn [lookup locals String.eqb Ascii.eqb Bool.eqb]. rewrite iset_snoc by exact Hj.
    cbv [set_locals locals self world update String.eqb Ascii.eqb Bool.eqb]. sx.
    replace (Z.of_nat n + 1) with (Z.of_nat (S n)) by lia.
    replace (N.of_nat n + 1)%N with (N.of_nat (S n)) in HC' by lia.
    destruct (IH k (S n) (acc ++ [img_value v0])%list v
                (VDict (map sentS (curl ++ [(coeff, VList (acc ++ [img_value v0]))])))
                (VList (acc ++ [img_value v0])) vs' HC' ltac:(lia) ltac:(lia)) as (i' & t1' & t2' & E).
    exists i', t1', t2'. etransitivity; [exact E|]. cbn [map]. rewrite <- app_assoc. reflexivity.
  - (* AttributeError: eof = True, the loop ends at the next test *)
    injection HC as <-. sx. cbn [pick]. change (matches "AttributeError" ["AttributeError"]) with true. cbv beta iota. sx.
    destruct k as [|k]; [lia|]. rewrite wloop_S. sx.
    eexists _, _, _. cbn [map]. rewrite app_nil_r. reflexivity.
Qed.

(* the model's answer for one table entry at layer index lyr (1-based), and for one layer *)
Definition Gm (lyr:N) (e:Z * (string * string)) : option (string * list value) :=
  let '(_, (field, coeff)) := e in
  option_map (fun l => (coeff, l)) (collect (S (List.length (o_attrs o))) o (field ++ "_" ++ dd lyr) 0%N).
Definition Fm (lyr:N) : outcome layer_out :=
  do h <- getattr o ("IDF036_" ++ dd lyr);
  match all_some (map (Gm lyr) (t_coeffs T)) with
  | None => Unmodelled "fuel"
  | Some cs => Ok {| l_height := h; l_coeffs := cs |}
  end.
Definition centry (c:string * list value) : string * val Ob := (fst c, VList (map img_value (snd c))).

Lemma co_loop a prel j : ~ In j (map fst prel) -> Z.of_nat j <= 1048577 -> attrs_small o -> (S (List.length (o_attrs o)) < wfuel)%nat ->
  forall es curl cs field0 coeff0 i0 eof0 v0 t10 t20,
  (forall e, In e es -> forall d, hidden R ((fst (snd e) ++ "_") ++ d) = false) ->
  NoDup (map fst curl ++ map (fun e => snd (snd e)) es) ->
  all_some (map (Gm (N.of_nat j + 1)) es) = Some cs ->
  exists field' coeff' i' eof' v' t1' t2',
  floop Ob W (assign Ob W (TTuple [TVar "field"; TVar "coeff"])) (exec_list Ob W ext M0 wfuel (for_body co_for)) (map coeff_tuple es)
        (st_ (locs2 (VDict (map sentI (prel ++ [(j, VDict (map sentS curl))]))) (PyO.VInt (Z.of_nat j)) field0 coeff0 i0 eof0 v0 t10 t20) a)
  = (ROk (CNext Ob),
     st_ (locs2 (VDict (map sentI (prel ++ [(j, VDict (map sentS (curl ++ map centry cs)))]))) (PyO.VInt (Z.of_nat j)) field' coeff' i' eof' v' t1' t2') a).
Proof.
  intros Hj Bj HA HW. induction es as [|[z [field coeff]] es IH]; intros curl cs field0 coeff0 i0 eof0 v0 t10 t20 Hh ND HS.
  - cbn [map all_some] in HS. injection HS as <-. cbn [map]. rewrite app_nil_r. repeat eexists.
  - cbn [map all_some Gm] in HS.
    destruct (collect (S (List.length (o_attrs o))) o (field ++ "_" ++ dd (N.of_nat j + 1)) 0%N) as [vs|] eqn:HC; [|discriminate].
    cbn [option_map] in HS.
    destruct (all_some (map (Gm (N.of_nat j + 1)) es)) as [cs'|] eqn:HS'; [|discriminate]. cbn [option_map] in HS. injection HS as <-.
    assert (Hc : ~ In coeff (map fst curl)).
    { cbn [map snd] in ND. apply NoDup_remove_2 in ND. intro H. apply ND. apply in_or_app. left. exact H. }
    cbn [map]. unfold coeff_tuple at 1. cbn [fst snd]. rewrite floop_cons. cbv [st_ locs2 for_body co_for]. step. cbv beta iota. sx.
    rewrite iget_snoc by exact Hj. sx. setk sset_fresh Hc. sx. setk iset_snoc Hj. sx.
    rewrite exec_while.
    destruct (while_ok a prel j curl field coeff Hj Hc Bj (Hh _ (or_introl eq_refl)) (S (List.length (o_attrs o))) wfuel 0%nat []
                (VList []) (VDict (map sentS (curl ++ [(coeff, VList [])]))) t20 vs HC HW ltac:(unfold attrs_small in HA; lia))
      as (i' & t1' & t2' & E).
    use_eq E. cbv [st_ locs2 hmc_val]. cbv beta iota. sx. cbn [app].
    destruct (IH (curl ++ [(coeff, VList (map img_value vs))])%list cs' (PyO.VStr field) (PyO.VStr coeff) i' (VBool true) (VList []) t1' t2')
      as (f' & c' & i'' & e' & v' & t1'' & t2'' & E2).
    + intros e He. apply Hh. right. exact He.
    + rewrite map_app. cbn [map fst snd] in *. rewrite <- app_assoc. exact ND.
    + first [exact HS' | reflexivity].
    + use_eq E2. exists f', c', i'', e', v', t1'', t2''. cbn [map centry fst snd]. rewrite <- app_assoc. reflexivity.
Qed.

Lemma distinct_NoDup l : distinct l = true -> NoDup l.
Proof.
  induction l as [|x r IH]; [constructor|]. cbn [distinct]. intro H. apply andb_true_iff in H. destruct H as [H1 H2].
  constructor; [|now apply IH]. intro HI. apply negb_true_iff in H1.
  assert (existsb (String.eqb x) r = true) by (apply existsb_exists; exists x; split; [exact HI|apply String.eqb_refl]). congruence.
Qed.
Lemma img_layer_eq h cs : img_layer {| l_height := h; l_coeffs := cs |} = VDict (map sentS ([("Layer Height", img_value h)] ++ map centry cs)).
Proof. unfold img_layer. cbn [l_height l_coeffs app map kent fst snd]. rewrite map_map. reflexivity. Qed.

Lemma lyr_loop a : coeffs_ok T R = true -> attrs_small o -> (S (List.length (o_attrs o)) < wfuel)%nat ->
  forall m j0 prel lyr0 f0 c0 i0 e0 v0 t10 t20,
  map fst prel = seq 0 j0 -> Z.of_nat (j0 + m) <= 1048578 ->
  match all_ok (map Fm (map (fun k => N.of_nat k + 1)%N (seq j0 m))) with
  | Ok ls => exists lyr' f' c' i' e' v' t1' t2',
      floop Ob W (assign Ob W (TVar "lyr")) (exec_list Ob W ext M0 wfuel (for_body lyr_for)) (map (fun k => PyO.VInt (Z.of_nat k)) (seq j0 m))
            (st_ (locs2 (VDict (map sentI prel)) lyr0 f0 c0 i0 e0 v0 t10 t20) a)
      = (ROk (CNext Ob), st_ (locs2 (VDict (map sentI (prel ++ combine (seq j0 m) (map img_layer ls)))) lyr' f' c' i' e' v' t1' t2') a)
  | Lib e => exists l',
      floop Ob W (assign Ob W (TVar "lyr")) (exec_list Ob W ext M0 wfuel (for_body lyr_for)) (map (fun k => PyO.VInt (Z.of_nat k)) (seq j0 m))
            (st_ (locs2 (VDict (map sentI prel)) lyr0 f0 c0 i0 e0 v0 t10 t20) a) = (RExc (liberr_class e), st_ l' a)
  | Foreign k => exists l',
      floop Ob W (assign Ob W (TVar "lyr")) (exec_list Ob W ext M0 wfuel (for_body lyr_for)) (map (fun k => PyO.VInt (Z.of_nat k)) (seq j0 m))
            (st_ (locs2 (VDict (map sentI prel)) lyr0 f0 c0 i0 e0 v0 t10 t20) a) = (RExc (pyexc_class k), st_ l' a)
  | Unmodelled _ => True
  end.
Proof.
  intros HK HA HW. unfold coeffs_ok in HK. apply andb_true_iff in HK. destruct HK as [HK1 HK2].
  assert (Hh : forall e, In e (t_coeffs T) -> forall d, hidden R ((fst (snd e) ++ "_") ++ d) = false).
  { intros e He d. apply hidden_no_prefix. rewrite forallb_forall in HK1. exact (HK1 e He). }
  apply distinct_NoDup in HK2.
  induction m as [|m IH]; intros j0 prel lyr0 f0 c0 i0 e0 v0 t10 t20 HP Bm.
  - cbn [seq map all_ok]. rewrite app_nil_r. repeat eexists.
  - cbn [seq map all_ok]. unfold Fm at 1. unfold getattr.
    assert (Hj : ~ In j0 (map fst prel)) by (rewrite HP; intro H; apply in_seq in H; lia).
    rewrite floop_cons. cbv [st_ locs2 for_body lyr_for]. step. cbv beta iota. sx.
    setk iset_fresh Hj. sx. rewrite (fmtd_succ j0) by lia. sx.
    rewrite ext_getattr by (apply (hidden_no_prefix R "IDF036_"); vm_compute; reflexivity).
    destruct (assoc ("IDF036_" ++ dd (N.of_nat j0 + 1)) (o_attrs o)) as [h|]; cbn [obind];
      [|sx; eexists; unfold st_; reflexivity].
    destruct (all_some (map (Gm (N.of_nat j0 + 1)) (t_coeffs T))) as [cs|] eqn:HS; cbn [obind]; [|exact I].
    sx. rewrite iget_snoc by exact Hj. sx. rewrite (eval_var_img M0 "%v" h) by reflexivity. sx. setk iset_snoc Hj. sx.
    open_for. cbv [iter_values]. sx. rewrite ext_coeffs. sx.
    destruct (co_loop a prel j0 Hj ltac:(lia) HA HW (t_coeffs T) [("Layer Height", img_value h)] cs f0 c0 i0 e0 (img_value h)
                (VDict [(PyO.VStr "Layer Height", img_value h)]) t20 Hh HK2 HS)
      as (f' & c' & i' & e' & v' & t1' & t2' & E).
    use_eq E. cbv [st_ locs2]. cbv beta iota. sx.
    rewrite <- img_layer_eq.
    specialize (IH (S j0) (prel ++ [(j0, img_layer {| l_height := h; l_coeffs := cs |})])%list (PyO.VInt (Z.of_nat j0)) f' c' i' e' v' t1' t2').
    rewrite map_app, HP in IH. cbn [map fst] in IH. rewrite <- seq_S in IH. specialize (IH eq_refl ltac:(lia)).
    destruct (all_ok (map Fm (map (fun k => (N.of_nat k + 1)%N) (seq (S j0) m)))) as [ls|e|k|why]; cbn [obind].
    + destruct IH as (l1 & l2 & l3 & l4 & l5 & l6 & l7 & l8 & E2). use_eq E2.
      exists l1, l2, l3, l4, l5, l6, l7, l8. cbn [map combine]. rewrite <- app_assoc. reflexivity.
    + destruct IH as (l' & E2). use_eq E2. exists l'. reflexivity.
    + destruct IH as (l' & E2). use_eq E2. exists l'. reflexivity.
    + exact I.
Qed.
End Loops.

Lemma all_ok_length {A} (l:list (outcome A)) : forall ls, all_ok l = Ok ls -> List.length ls = List.length l.
Proof.
  induction l as [|x r IH]; intros ls H; cbn [all_ok] in H; [injection H as <-; reflexivity|].
  destruct x as [y| | |]; cbn [obind] in H; try discriminate.
  destruct (all_ok r) as [t| | |]; cbn [obind] in H; try discriminate. injection H as <-. cbn [List.length]. now rewrite (IH t eq_refl).
Qed.
Lemma layers_img ls : forall s0,
  map sentI (combine (seq s0 (List.length ls)) (map img_layer ls))
  = map (fun jl => (PyO.VInt (Z.of_nat (fst jl)), img_layer (snd jl))) (combine (seq s0 (List.length ls)) ls).
Proof. induction ls as [|l r IH]; intro s0; [reflexivity|]. cbn [List.length seq map combine kent fst snd]. f_equal. apply IH. Qed.

Ltac at_meth := unfold run, srco_arr2_prog; rewrite ?link_skip by reflexivity; rewrite link_here.

Theorem src_parse_4076_201_eq a w :
  coeffs_ok T R = true -> count_not_str o "IDF035" -> attrs_small o -> (S (List.length (o_attrs o)) < wfuel)%nat ->
  modelled (parse_4076_201 T o) ->
  run_ "parse_4076_201" [VRef "msg"] a w = (img_4076 (parse_4076_201 T o), (a, tt)).
Proof.
  intros HK HS HA HW HM. destruct w. at_meth. enter srco_arr2_parse_4076_201. unfold parse_4076_201, getint, getattr in *.
  sx. rewrite ext_identity.
  destruct (obj_identity o) as [ident|e|k|why] eqn:EI; cbn [obind img_outcome] in *;
    [| sx; reflexivity | sx; reflexivity | exfalso; exact (HM why eq_refl)].
  sx. destruct (String.eqb ident "4076_201"); cbn [negb] in *; [|sx; reflexivity].
  sx. open_for. rewrite iter_range. sx.
  rewrite (ext_getattr "IDF035") by reflexivity.
  destruct (assoc "IDF035" (o_attrs o)) as [nlv|] eqn:EN; cbn [obind] in *; [|sx; reflexivity].
  destruct nlv as [nl|f|u]; [| exfalso; exact (HM _ eq_refl) | exfalso; exact (HS u EN)]. cbn [obind img_value] in *.
  destruct (1048576 <? nl) eqn:EB; [exfalso; exact (HM _ eq_refl)|]. apply Z.ltb_ge in EB.
  sx.
  change (map (fun lyr => do h <- match assoc ("IDF036_" ++ dd lyr) (o_attrs o) with Some v => Ok v | None => Foreign XAttribute end; _) (nrange1 (nl + 1)))
    with (map Fm (map (fun k => (N.of_nat k + 1)%N) (seq 0 (Z.to_nat (nl + 1))))) in *.
  pose proof (lyr_loop (link Ob W ext wfuel []) a HK HA HW (Z.to_nat (nl + 1)) 0%nat [] VUnbound VUnbound VUnbound VUnbound VUnbound VUnbound VUnbound VUnbound
                eq_refl ltac:(lia)) as L.
  destruct (all_ok (map Fm (map (fun k => (N.of_nat k + 1)%N) (seq 0 (Z.to_nat (nl + 1)))))) as [ls|e|k|why] eqn:EL; cbn [obind] in *.
  - destruct L as (l1 & l2 & l3 & l4 & l5 & l6 & l7 & l8 & E). use_eq E. cbv [st_ locs2]. cbv beta iota. sx.
    apply all_ok_length in EL. rewrite !map_length, seq_length in EL. rewrite <- EL.
    unfold img_4076, img_outcome, img_layers. cbn [app]. now rewrite layers_img.
  - destruct L as (l' & E). use_eq E. reflexivity.
  - destruct L as (l' & E). use_eq E. reflexivity.
  - exfalso; exact (HM _ eq_refl).
Qed.
End Arr2.

Goal True. idtac "PA:src_parse_4076_201_eq". Abort.
Print Assumptions src_parse_4076_201_eq.
