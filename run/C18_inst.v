(* C18 / C19 at the regenerated tables *)
From Coq Require Import NArith ZArith List String.
From PyRtcm Require Import Base.Bytes Model.Types Model.Message Model.Helpers Spec.Names Proofs.HelperProofs Properties.C19.
From PyRtcmGen Require Import Tables.
Import ListNotations. Open Scope string_scope.

Theorem C18_msm_keys_covered : msm_keys_covered T = true.
Proof. vm_compute. reflexivity. Qed.
Goal True. idtac "PA:C18_msm_keys_covered". Abort.
Print Assumptions C18_msm_keys_covered.

Theorem C18_coeff_table : t_coeffs T = [(0%Z, ("IDF039", "Cosine Coefficients")); (1%Z, ("IDF040", "Sine Coefficients"))] /\
  t_nharmc T = "_NHarmCoeffC" /\ t_nharms T = "_NHarmCoeffS".
Proof. vm_compute. repeat split; reflexivity. Qed.
Goal True. idtac "PA:C18_coeff_table". Abort.
Print Assumptions C18_coeff_table.

Theorem C19_desc_unambiguous : desc_unambiguous T = true.
Proof. vm_compute. reflexivity. Qed.
Goal True. idtac "PA:C19_desc_unambiguous". Abort.
Print Assumptions C19_desc_unambiguous.

Theorem C19_grouped_keys_have_no_underscore : grouped_labels_no_us T = true.
Proof. vm_compute. reflexivity. Qed.
Goal True. idtac "PA:C19_grouped_keys_have_no_underscore". Abort.
Print Assumptions C19_grouped_keys_have_no_underscore.

(* the theorem about the working tree's tables *)
Theorem C19_instance : forall d key idxs, find_field T key = Some d -> positive_idxs idxs ->
  datadesc T (render_name key idxs) = Ok (df_desc d).
Proof. exact (C19_datadesc T C19_desc_unambiguous). Qed.
Goal True. idtac "PA:C19_instance". Abort.
Print Assumptions C19_instance.
