(* Per-run source tie for the top of the constructor path of rtcmmessage.RTCMMessage:
     __init__  and  _do_attributes   (with _get_dict, _do_unknown, identity, __setattr__ re-proved for this program)
   as translated by tools/gen_src2.py `msgdec` into PyRtcmGen.SrcOMsgDec and interpreted by Src/PyO.v with recursive linking,
   against the hand-written model Model/Message.v (do_attributes, construct), for ALL tables T, payloads and options.
   Environment and store layout: Src/MsgDecEnv.v.

   The recursive walk (`_set_attribute` and below) is ASSUMED, as a specification of the call
       "_set_attribute" [label; layout dict; offset; []]
   ([walk_spec] / [walk_spec_model]; run/SrcMsgDecWalk_inst.v is to discharge it).  Parameters of that specification:
     good   : body -> Prop   the condition on a layout under which the walk can be followed (no label "IDF038", labels distinct at
                             every level, nesting depth within the call-depth budget, ...); this file uses ONE consequence only,
                             [good_nodup]: the labels of a good top-level layout are pairwise distinct
     strict : bool           true: where the model says "not modelled" the interpreter fails (RFail); false: nothing is claimed there
     ditem                   the model of one top-level step; the model's own is dec_item T ident lbl it [] (Section LinkedModel:
                             src_do_attributes_eq, src_construct_eq); any step with [ditem_frame] will do (Section Linked), and a
                             step that [refines] the model's gives a constructor that refines the model's (src_construct_refined)
   One fact is needed of the walk beyond the result and the store on success: after an EXCEPTION the attribute "_payload" is
   still in place -- the handler of _do_attributes evaluates self.identity on the store the exception left.

   Each method is first proved in an arbitrary method table whose callees meet their specifications (Sections Leaves, Mid, Top,
   Init), then for the class as linked by [rlink] with a call-depth budget (Sections Linked, LinkedModel). *)
From Coq Require Import ZArith NArith List String Bool Lia.
From Coq.Strings Require Import Byte.
From PyRtcm Require Import Base.Bytes Base.Dec Model.Types Model.Message.
From PyRtcm Require Import Proofs.DecodeWalk Proofs.DecodeExtend Proofs.ObjImmutable.
From PyRtcm Require Import Src.PyO Src.PyOLemmas Src.PyOReaderLemmas Src.PyOMsgLemmas Src.ReaderEnv Src.MsgDecEnv.
From PyRtcmGen Require Import SrcOMsgDec.
Import ListNotations.
Open Scope string_scope.
Open Scope Z_scope.

(* ---------- symbolic execution (the technique of run/SrcReader_inst.v, run/SrcMsg_inst.v) ---------- *)
Section ForEq.
  Variables (Ob W : Type).
  Variable ext : callsig -> list (val Ob) -> W -> res (val Ob) * W.
  Variable M : string -> option (mcall Ob W).
  Variable wfuel : nat.
  Lemma exec_for t it body (s:state Ob W) :
    PyO.exec Ob W ext M wfuel (SFor t it body) s =
      match iter_values Ob W ext M it s with
      | (ROk vs, s1) => floop Ob W (assign Ob W t) (PyO.exec_list Ob W ext M wfuel body) vs s1
      | (RExc c, s1) => (RExc c, s1) | (RFail f, s1) => (RFail f, s1)
      end.
  Proof. reflexivity. Qed.
End ForEq.

Ltac interp t :=
  eval cbv [PyO.exec PyO.eval PyO.eval_list PyO.assign target_expr ret lookup update
            truth binop_val int_binop unop_val eq_val cmp_val
            set_locals set_self set_world locals self world
            String.eqb Ascii.eqb Bool.eqb map existsb orb srco_msgdec_reserved] in t.
Ltac special e :=
  lazymatch e with
  | context [EIndex _ _] => idtac
  | context [ESelf _] => idtac
  | context [ECallB _ _] => idtac
  | context [ESlice _ _ _] => idtac
  end.
Ltac rw E := lazymatch type of E with ?l = ?r => change l with r end.
Ltac self_attr :=
  cbn [self];
  lazymatch goal with
  | |- context [lookup ?Ob ?x ?a] =>
      first [ match goal with H : lookup Ob x a = _ |- _ => rewrite H end
            | let t := constr:(lookup Ob x a) in
              let t' := eval cbv [lookup String.eqb Ascii.eqb Bool.eqb] in t in change t with t' ]
  end.
Ltac step_stmt :=
  match goal with
  | |- context [PyO.assign ?Ob ?W ?tg ?v (Build_state ?A ?B ?l ?sf ?w)] =>
      let t := constr:(PyO.assign Ob W tg v (Build_state A B l sf w)) in
      let t' := interp t in change t with t'
  | |- context [PyO.exec ?Ob ?W ?ext ?M ?wf ?st (Build_state ?A ?B ?l ?sf ?w)] =>
      is_var st; subst st
  | |- context [PyO.exec ?Ob ?W ?ext ?M ?wf ?st (Build_state ?A ?B ?l ?sf ?w)] =>
      let s := constr:(Build_state A B l sf w) in
      let t := constr:(PyO.exec Ob W ext M wf st s) in
      lazymatch st with
      | SIf ?c ?th ?el => rw (exec_if Ob W ext M wf c th el s)
      | STry ?b ?hs => rewrite (exec_try Ob W ext M wf b hs s)
      | SFor ?tg ?it ?b => rw (exec_for Ob W ext M wf tg it b s)
      | SWhile _ _ => fail
      | SAssign ?tg ?e => first [ special e; rw (exec_assign Ob W ext M wf tg e s) | let t' := interp t in change t with t' ]
      | SReturn ?e => first [ special e; rw (exec_return Ob W ext M wf e s) | let t' := interp t in change t with t' ]
      | SExpr ?e => first [ special e; rw (exec_expr Ob W ext M wf e s) | let t' := interp t in change t with t' ]
      | SRaise ?e => first [ special e; rw (exec_raise Ob W ext M wf e s) | let t' := interp t in change t with t' ]
      | _ => let t' := interp t in change t with t'
      end
  | |- context [eval_opt ?Ob ?W ?ext ?M ?o (Build_state ?A ?B ?l ?sf ?w)] =>
      let t := constr:(eval_opt Ob W ext M o (Build_state A B l sf w)) in
      let t1 := eval cbv [eval_opt] in t in
      let t' := interp t1 in change t with t'
  | |- context [PyO.eval_list ?Ob ?W ?ext ?M ?l (Build_state ?A ?B ?lc ?sf ?w)] =>
      let s := constr:(Build_state A B lc sf w) in
      lazymatch l with
      | [] => rw (eval_list_nil Ob W ext M s)
      | ?a :: ?r => rw (eval_list_cons Ob W ext M a r s)
      end
  | |- context [PyO.eval ?Ob ?W ?ext ?M ?e (Build_state ?A ?B ?l ?sf ?w)] =>
      let s := constr:(Build_state A B l sf w) in
      let t := constr:(PyO.eval Ob W ext M e s) in
      first
      [ special e;
        lazymatch e with
        | ESelf ?x => rw (eval_self Ob W ext M x s); self_attr
        | EIndex ?a ?i => rw (eval_index Ob W ext M a i s)
        | EBin ?o ?a ?b => rw (eval_bin Ob W ext M o a b s)
        | EAnd ?a ?b => rw (eval_and Ob W ext M a b s)
        | EOr ?a ?b => rw (eval_or Ob W ext M a b s)
        | ECmp ?a [(?o, ?b)] => rewrite (eval_cmp1 Ob W ext M a o b s)
        | ESlice ?x ?lo ?hi => rw (eval_slice Ob W ext M x lo hi s)
        | ECallB ?f ?args => rw (eval_callb Ob W ext M f args s)
        | ECallX ?c ?args => rw (eval_callx Ob W ext M c args s)
        | ESetattrSelf ?rs ?en ?ev => rw (eval_setattr_self Ob W ext M rs en ev s)
        | ESuperSetattr ?en ?ev => rw (eval_super_setattr Ob W ext M en ev s)
        | EExcNew ?c ?args => rw (eval_excnew Ob W ext M c args s)
        end
      | let t' := interp t in change t with t' ]
  end.
Ltac rd := cbv [PyO.exec_list set_world set_self set_locals]; cbv beta iota; cbn [truth cmp_last binop_val int_binop cmp_val eq_val world self locals];
  repeat match goal with
         | |- context [Zpos ?p <? 0] => change (Zpos p <? 0) with false; cbv beta iota
         | |- context [builtin_val ?Ob BLen [VBytes ?b]] =>
             change (builtin_val Ob BLen [VBytes b]) with (@ROk (val Ob) (VInt (Z.of_nat (List.length b)))); cbv beta iota
         | |- context [builtin_val ?Ob BFromBig [VBytes ?b]] =>
             change (builtin_val Ob BFromBig [VBytes b]) with (@ROk (val Ob) (VInt (Z.of_N (be b)))); cbv beta iota
         | |- context [builtin_val ?Ob BText ?l] =>
             change (builtin_val Ob BText l) with (@ROk (val Ob) VText); cbv beta iota
         | |- context [existsb (String.eqb ?n) srco_msgdec_reserved] =>
             let t := constr:(existsb (String.eqb n) srco_msgdec_reserved) in
             let t' := eval cbv [existsb String.eqb Ascii.eqb Bool.eqb orb srco_msgdec_reserved] in t in
             lazymatch t' with true => idtac | false => idtac end;
             change t with t'; cbv beta iota
         | |- context [PyO.setattr ?Ob ?n ?v ?a] =>
             lazymatch a with
             | nil => idtac
             | cons _ _ => idtac
             end;
             let t := constr:(PyO.setattr Ob n v a) in
             let t' := eval cbv [PyO.setattr String.eqb Ascii.eqb Bool.eqb] in t in change t with t'
         end.
Ltac lenlt :=
  match goal with
  | |- context [Z.of_nat ?n <? Zpos ?k] =>
      let k' := eval compute in (Pos.to_nat k) in
      change (Z.of_nat n <? Zpos k) with (Z.of_nat n <? Z.of_nat k'); rewrite (of_nat_ltb n k');
      cbn [List.length Nat.ltb Nat.leb]
  end.
Ltac sx := rd; repeat (step_stmt; rd).
Ltac idx n :=
  match goal with
  | |- context [index_bytes ?Ob ?l ?k] =>
      change (index_bytes Ob l k) with (index_bytes Ob l (Z.of_nat n));
      first [ rewrite index_nonneg by (cbn [List.length]; lia); cbn [nth]
            | rewrite index_oob by (cbn [List.length]; lia) ]
  end.
Ltac hide l := lazymatch l with ?a :: ?r => let x := fresh "stm" in set (x := a); hide r | _ => idtac end.
Ltac enter m :=
  cbv [call m m_params m_locals m_body bind_params map app];
  match goal with |- context [PyO.exec_list _ _ _ _ _ ?l _] => hide l end.

(* ---------- the model's outcomes as interpreter results ---------- *)
Definition dimg {A} (f:A -> val dob) (o:outcome A) : res (val dob) :=
  match o with
  | Ok a => ROk (f a)
  | Lib e => RExc (liberr_class e)
  | Foreign k => RExc (dec_exc_class k)
  | Unmodelled why => RFail (FUnmodelled why)
  end.
(* dict.get(k, None) on a table of layouts *)
Definition optb (o:option body) : val dob := match o with Some b => VOpq (DBody b) | None => VNone end.

(* every exception class is caught by `except Exception` *)
Lemma subclass_exception c : subclass c "Exception" = true.
Proof.
  unfold subclass, parent.
  repeat match goal with
         | |- context [if String.eqb c ?k then _ else _] =>
             let E := fresh "E" in destruct (String.eqb c k) eqn:E; [apply String.eqb_eq in E; subst c; reflexivity|]
         end.
  cbn. rewrite ?orb_true_r. reflexivity.
Qed.

(* ================= stores ================= *)
Lemma store_payload a o : store_rel a o -> lookup dob "_payload" a = Some (VBytes (o_payload o)).
Proof. intros [attrs [-> _]]. reflexivity. Qed.
Lemma store_immutable a o : store_rel a o -> lookup dob "_immutable" a = Some (VBool (o_immutable o)).
Proof. intros [attrs [-> _]]. reflexivity. Qed.

Definition attr_rel (kv:string * val dob) (kw:string * value) : Prop := fst kv = fst kw /\ val_rel (snd kv) (snd kw).

Lemma attrs_set k v v' attrs oa : val_rel v v' ->
  Forall2 attr_rel attrs oa -> Forall2 attr_rel (PyO.setattr dob k v attrs) (upd k v' oa).
Proof.
  intros R F. induction F as [|[k1 w1] [k2 w2] r r' [K V] F IH]; cbn [PyO.setattr upd].
  - constructor; [split; [reflexivity|exact R]|constructor].
  - cbn [fst snd] in K, V. subst k2. destruct (String.eqb k1 k).
    + constructor; [split; [reflexivity|exact R]|exact F].
    + constructor; [split; [reflexivity|exact V]|exact IH].
Qed.

Lemma store_set_unknown a o u : store_rel a o -> store_rel (PyO.setattr dob "_unknown" (VBool u) a) (with_unknown o u).
Proof. intros [attrs [-> F]]. exists attrs. split; [reflexivity|exact F]. Qed.
Lemma store_set_immutable a o u : store_rel a o -> store_rel (PyO.setattr dob "_immutable" (VBool u) a) (with_immutable o u).
Proof. intros [attrs [-> F]]. exists attrs. split; [reflexivity|exact F]. Qed.
Lemma store_set_df002 a o v v' : val_rel v v' -> store_rel a o ->
  store_rel (PyO.setattr dob "DF002" v a) (with_attrs o (upd "DF002" v' (o_attrs o))).
Proof.
  intros R [attrs [-> F]]. exists (PyO.setattr dob "DF002" v attrs). split; [reflexivity|].
  cbn [o_attrs with_attrs]. apply attrs_set; assumption.
Qed.

(* ================= model facts ================= *)
Lemma item_frame T ident lbl it idx s s1 : dec_item T ident lbl it idx s = Ok s1 -> same_frame (fst s) (fst s1).
Proof.
  intro E.
  apply (item_inv T ident (fun s' => same_frame (fst s) (fst s'))) with (lbl:=lbl) (it:=it) (idx:=idx) (s:=s); [| apply same_frame_refl | exact E].
  intros anam idx0 [o0 off0] [o2 off2] I E0. cbn [fst] in *.
  eapply same_frame_trans; [exact I|]. eapply set_single_frame; exact E0.
Qed.

Lemma assoc_in {A} k (v:A) pre r : NoDup (map fst (pre ++ (k, v) :: r)) -> assoc k (pre ++ (k, v) :: r) = Some v.
Proof.
  induction pre as [|[k' v'] pre IH]; intro ND; cbn [app assoc].
  - now rewrite String.eqb_refl.
  - cbn [app map fst] in ND. inversion ND as [|x xs NI ND']. subst.
    destruct (String.eqb k' k) eqn:E.
    + apply String.eqb_eq in E. subst k'. exfalso. apply NI. rewrite map_app. apply in_or_app. right. left. reflexivity.
    + apply IH, ND'.
Qed.

Section Dec.
Variable T : tables.
Variable wfuel : nat.
Notation ext := (msgdec_ext T).
Notation mtab := (string -> option (mcall dob W)).

(* ================= the leaves, as in run/SrcMsg_inst.v ================= *)
Section Leaves.
Variable MT : mtab.

Lemma identity_ok a p w :
  lookup dob "_payload" a = Some (VBytes p) ->
  call dob W ext MT wfuel "identity" srco_msgdec_identity [] a w = (dimg (@VStr dob) (identity p), (a, w)).
Proof.
  intro H. enter srco_msgdec_identity.
  destruct p as [|b0 [|b1 r]].
  - sx. idx 0%nat. sx. reflexivity.
  - sx. idx 0%nat. sx. idx 1%nat. sx. reflexivity.
  - sx. idx 0%nat. sx. idx 1%nat. sx. rewrite msgnum_Z. sx.
    change 4076 with (Z.of_N 4076). rewrite of_N_eqb_const. cbn [identity].
    destruct (N.eqb (msgnum b0 b1) 4076) eqn:E; sx.
    + destruct r as [|b2 r']; sx.
      * idx 1%nat. sx. idx 2%nat. sx. reflexivity.
      * idx 1%nat. sx. idx 2%nat. sx. rewrite subtype_Z. sx.
        rewrite strof_small by apply msgnum_lt. sx. rewrite fmtd_small by apply subtype_lt. sx.
        rewrite strof_str. sx. rewrite app_str_assoc. reflexivity.
    + rewrite strof_small by apply msgnum_lt. sx. reflexivity.
Qed.

Lemma setattr_true n v a w :
  lookup dob "_immutable" a = Some (VBool true) ->
  call dob W ext MT wfuel "__setattr__" srco_msgdec_setattr [VStr n; v] a w = (RExc "RTCMMessageError", (a, w)).
Proof. intro H. enter srco_msgdec_setattr. sx. reflexivity. Qed.

Lemma setattr_false n v a w :
  lookup dob "_immutable" a = Some (VBool false) -> v <> VUnbound ->
  call dob W ext MT wfuel "__setattr__" srco_msgdec_setattr [VStr n; v] a w = (ROk VNone, (PyO.setattr dob n v a, w)).
Proof. intros H Hv. enter srco_msgdec_setattr. sx. destruct v; try congruence; reflexivity. Qed.

Lemma ext_get k w : ext {| c_name := "RTCM_PAYLOADS_GET.get"; c_kw := [] |} [VStr k; VNone] w = (ROk (optb (assoc k (t_get T))), w).
Proof. destruct w. reflexivity. Qed.
Lemma ext_msm k w : ext {| c_name := "RTCM_PAYLOADS_GET_MSM.get"; c_kw := [] |} [VStr k; VNone] w = (ROk (optb (assoc k (t_msm T))), w).
Proof. destruct w. reflexivity. Qed.
Lemma ext_igs k w : ext {| c_name := "RTCM_PAYLOADS_GET_IGS.get"; c_kw := [] |} [VStr k; VNone] w = (ROk (optb (assoc k (t_igs T))), w).
Proof. destruct w. reflexivity. Qed.
Lemma ext_iter l w : ext {| c_name := "iter"; c_kw := [] |} [VOpq (DBody (BItems l))] w
  = (ROk (VList (map (fun kv : string * item => VStr (fst kv)) l)), tt).
Proof. reflexivity. Qed.
Lemma ext_iter_bad why w : ext {| c_name := "iter"; c_kw := [] |} [VOpq (DBody (BNotDict why))] w = (RFail (FUnmodelled why), tt).
Proof. reflexivity. Qed.
End Leaves.

(* what the callees inside the class do *)
Definition id_spec (g:mcall dob W) : Prop :=
  forall a p w, lookup dob "_payload" a = Some (VBytes p) -> g [] a w = (dimg (@VStr dob) (identity p), (a, w)).
Definition set_spec (g:mcall dob W) : Prop :=
  forall n v a w,
    (lookup dob "_immutable" a = Some (VBool true) -> g [VStr n; v] a w = (RExc "RTCMMessageError", (a, w))) /\
    (lookup dob "_immutable" a = Some (VBool false) -> v <> VUnbound -> g [VStr n; v] a w = (ROk VNone, (PyO.setattr dob n v a, w))).
Definition gd_spec (g:mcall dob W) : Prop :=
  forall a p w, lookup dob "_payload" a = Some (VBytes p) ->
    g [] a w = (dimg optb (do i <- identity p; Ok (get_dict T i)), (a, w)).
Definition unk_spec (g:mcall dob W) : Prop :=
  forall a p w, lookup dob "_payload" a = Some (VBytes p) -> lookup dob "_immutable" a = Some (VBool false) ->
    g [] a w = match identity p with
               | Ok ident => (ROk VNone, (PyO.setattr dob "_unknown" (VBool true) (PyO.setattr dob "DF002" (VStr ident) a), w))
               | other => (dimg (@VStr dob) other, (a, w))
               end.

Section Mid.
Variable MT : mtab.
Variables g_id g_set : mcall dob W.
Hypothesis H_id : MT "identity" = Some g_id.
Hypothesis G_id : id_spec g_id.
Hypothesis H_set : MT "__setattr__" = Some g_set.
Hypothesis G_set : set_spec g_set.

Lemma get_dict_ok a p w :
  lookup dob "_payload" a = Some (VBytes p) ->
  call dob W ext MT wfuel "_get_dict" srco_msgdec__get_dict [] a w
  = (dimg optb (do i <- identity p; Ok (get_dict T i)), (a, w)).
Proof.
  intro H. enter srco_msgdec__get_dict.
  unfold obind. destruct (identity p) as [ident|e|k|why] eqn:EI; cbn [dimg].
  2-4: sx; rewrite H_id, (G_id _ _ _ H), EI; reflexivity.
  unfold get_dict.
  sx. rewrite H_id, (G_id _ _ _ H), EI; cbn [dimg]; sx.
  destruct (String.leb "1070" ident); cbn [andb]; sx.
  1: destruct (String.leb ident "1229"); sx.
  1: { rewrite H_id, (G_id _ _ _ H), EI; cbn [dimg]; sx. rewrite ext_msm. reflexivity. }
  all: rewrite H_id, (G_id _ _ _ H), EI; cbn [dimg]; sx.
  all: change (slice_str ident None (Some 4)) with (slice_str ident None (Some (Z.of_nat 4))); rewrite slice_str_to.
  all: destruct (String.eqb (substring 0 4 ident) "4076"); sx.
  all: rewrite H_id, (G_id _ _ _ H), EI; cbn [dimg]; sx; rewrite ?ext_igs, ?ext_get; reflexivity.
Qed.

Lemma do_unknown_ok a p w :
  lookup dob "_payload" a = Some (VBytes p) ->
  lookup dob "_immutable" a = Some (VBool false) ->
  call dob W ext MT wfuel "_do_unknown" srco_msgdec__do_unknown [] a w
  = match identity p with
    | Ok ident => (ROk VNone, (PyO.setattr dob "_unknown" (VBool true) (PyO.setattr dob "DF002" (VStr ident) a), w))
    | other => (dimg (@VStr dob) other, (a, w))
    end.
Proof.
  intros H HI. enter srco_msgdec__do_unknown.
  sx. rewrite H_id, (G_id _ _ _ H).
  destruct (identity p) as [ident|e|k|why]; cbn [dimg]; sx; try reflexivity.
  rewrite H_set. destruct (G_set "DF002" (VStr ident) a w) as [_ G1]. rewrite (G1 HI) by discriminate. sx.
  rewrite H_set. destruct (G_set "_unknown" (VBool true) (PyO.setattr dob "DF002" (VStr ident) a) w) as [_ G2].
  rewrite G2; [|rewrite lookup_setattr_other by reflexivity; exact HI|discriminate]. sx. reflexivity.
Qed.
End Mid.


(* ================= the model over an abstract top-level walk step ================= *)
(* [ditem ident lbl it s]: what processing the entry (lbl, it) of the top-level layout does to (object, offset).  The model's own is
   [dec_item T ident lbl it []]; run/SrcMsgDecWalk_inst.v ties the source to a variant that answers "not modelled" more often
   (dec_item_s) -- the theorems below hold for any such step, and [refines] carries them to the model. *)
Section WModel.
Variable ditem : string -> string -> item -> st -> outcome st.
Fixpoint ditems (ident:string) (l:list (string*item)) (s:st) : outcome st :=
  match l with [] => Ok s | (lbl, it)::r => do s1 <- ditem ident lbl it s; ditems ident r s1 end.
Definition dbody (ident:string) (b:body) (s:st) : outcome st :=
  match b with BItems l => ditems ident l s | BNotDict w => Unmodelled w end.
(* Model.Message.do_attributes / construct with the walk replaced *)
Definition do_attributes_w (o:obj) : outcome obj :=
  let r :=
    do ident <- identity (o_payload o);
    match get_dict T ident with
    | None => do o1 <- Message.setattr o "DF002" (Types.VStr (codes ident)); Ok (with_unknown o1 true)
    | Some pdict => do s <- dbody ident pdict (o, 0%Z); Ok (fst s)
    end in
  match r with
  | Ok o' => Ok o'
  | Unmodelled w => Unmodelled w
  | Lib _ | Foreign _ =>
      match identity (o_payload o) with Ok _ => Lib EType | Lib e => Lib e | Foreign k => Foreign k | Unmodelled w => Unmodelled w end
  end.
Definition construct_w (payload:option bytes) (labelmsm:Z) : outcome obj :=
  match payload with
  | None => Lib EMessage
  | Some p =>
      if too_short p then Lib EMessage else
      do o <- do_attributes_w (obj0 p labelmsm);
      Ok (with_immutable o true)
  end.

(* the step never touches the flag and the payload *)
Definition ditem_frame : Prop :=
  forall ident lbl it s s1, ditem ident lbl it s = Ok s1 ->
    o_immutable (fst s1) = o_immutable (fst s) /\ o_payload (fst s1) = o_payload (fst s).
Lemma ditems_frame : ditem_frame -> forall ident l s s1, ditems ident l s = Ok s1 ->
  o_immutable (fst s1) = o_immutable (fst s) /\ o_payload (fst s1) = o_payload (fst s).
Proof.
  intros HF ident l. induction l as [|[lbl it] r IH]; intros s s1 E; cbn [ditems] in E.
  - apply ok_inj in E. subst s1. split; reflexivity.
  - apply obind_ok_inv in E. destruct E as [s' [E1 E2]].
    destruct (HF _ _ _ _ _ E1) as [A1 A2]. destruct (IH _ _ E2) as [B1 B2]. split; congruence.
Qed.
Lemma do_attributes_w_mutable : ditem_frame -> forall o o1, o_immutable o = false -> do_attributes_w o = Ok o1 -> o_immutable o1 = false.
Proof.
  intros HF o o1 HI E. unfold do_attributes_w in E.
  destruct (identity (o_payload o)) as [ident|e|k|w]; cbn [obind] in E; try discriminate.
  destruct (get_dict T ident) as [[l|w]|]; cbn [obind dbody] in E; try discriminate.
  - destruct (ditems ident l (o, 0)) as [s1|e|k|w] eqn:ED; cbn [obind] in E; try discriminate.
    apply ok_inj in E. subst o1. destruct (ditems_frame HF _ _ _ _ ED) as [A _]. cbn [fst] in A. congruence.
  - unfold Message.setattr in E. rewrite HI in E. cbn [obind] in E. apply ok_inj in E. subst o1. exact HI.
Qed.
End WModel.

(* r_s is the model's outcome r, or "not modelled" *)
Definition refines {A} (r_s r:outcome A) : Prop := match r_s with Unmodelled _ => True | _ => r = r_s end.

(* with the model's own step these are the model's functions *)
Notation model_item := (fun ident lbl it => dec_item T ident lbl it []).
Lemma ditems_model ident l s : ditems model_item ident l s = dec_items T ident [] l s.
Proof. revert s. induction l as [|[lbl it] r IH]; intro s; [reflexivity|]. cbn [ditems]. rewrite dec_items_cons. destruct (dec_item T ident lbl it [] s); cbn [obind]; auto. Qed.
Lemma do_attributes_w_model o : do_attributes_w model_item o = do_attributes T o.
Proof.
  unfold do_attributes_w, do_attributes.
  destruct (identity (o_payload o)) as [ident|e|k|w]; cbn [obind]; try reflexivity.
  destruct (get_dict T ident) as [[l|w]|]; cbn [dbody]; try reflexivity.
  rewrite ditems_model, dec_body_items. reflexivity.
Qed.
Lemma construct_w_model po l : construct_w model_item po l = construct T po l.
Proof. destruct po as [p|]; [|reflexivity]. cbn [construct_w construct]. destruct (too_short p); [reflexivity|]. rewrite do_attributes_w_model. reflexivity. Qed.
Lemma model_item_frame : ditem_frame model_item.
Proof. intros ident lbl it s s1 E. destruct (item_frame _ _ _ _ _ _ _ E) as [A [_ [B _]]]. split; assumption. Qed.

(* a step that refines the model's gives a constructor that refines the model's *)
Section Refines.
Variable ditem : string -> string -> item -> st -> outcome st.
Hypothesis ditem_refines : forall ident lbl it s, refines (ditem ident lbl it s) (dec_item T ident lbl it [] s).
Lemma ditems_refines ident l s : refines (ditems ditem ident l s) (dec_items T ident [] l s).
Proof.
  revert s. induction l as [|[lbl it] r IH]; intro s; [reflexivity|]. cbn [ditems]. rewrite dec_items_cons.
  pose proof (ditem_refines ident lbl it s) as R. destruct (ditem ident lbl it s) as [s1|e|k|w]; cbn [refines] in R; cbn [obind refines]; auto;
    rewrite R; cbn [obind]; auto.
Qed.
Lemma do_attributes_w_refines o : refines (do_attributes_w ditem o) (do_attributes T o).
Proof.
  unfold do_attributes_w, do_attributes.
  destruct (identity (o_payload o)) as [ident|e|k|w] eqn:EI; cbn [obind refines]; try reflexivity.
  destruct (get_dict T ident) as [[l|w]|]; cbn [dbody obind refines]; try reflexivity.
  - rewrite dec_body_items. pose proof (ditems_refines ident l (o, 0)) as R.
    destruct (ditems ditem ident l (o, 0)) as [s1|e|k|w]; cbn [refines] in R; cbn [obind refines]; auto; rewrite R; cbn [obind]; rewrite ?EI; reflexivity.
  - destruct (Message.setattr o "DF002" (Types.VStr (codes ident))) as [o1|e|k|w]; cbn [obind refines]; rewrite ?EI; reflexivity.
Qed.
Lemma construct_w_refines po l : refines (construct_w ditem po l) (construct T po l).
Proof.
  destruct po as [p|]; [|reflexivity]. cbn [construct_w construct]. destruct (too_short p); [reflexivity|]. fold (obj0 p l).
  pose proof (do_attributes_w_refines (obj0 p l)) as R.
  destruct (do_attributes_w ditem (obj0 p l)) as [o1|e|k|w]; cbn [refines] in R; cbn [obind refines]; auto; rewrite R; reflexivity.
Qed.
End Refines.


(* ================= _do_attributes ================= *)
Section Top.
Variable ditem : string -> string -> item -> st -> outcome st.
Hypothesis ditem_fr : ditem_frame ditem.
Variable good : body -> Prop.
Hypothesis good_nodup : forall l, good (BItems l) -> NoDup (map fst l).
(* strict: where the model says "not modelled" the interpreter fails (RFail); otherwise nothing is claimed for those runs *)
Variable strict : bool.

(* the specification of the walk assumed here: the call "_set_attribute" [label; dict; offset; []] is the step [ditem] (for the model
   itself: dec_item at the top level, index list empty); after an exception the payload attribute is still in place (the handler of _do_attributes reads it) *)
Definition walk_spec (g:mcall dob W) : Prop :=
  forall lbl l it offset a o ident,
    good (BItems l) -> assoc lbl l = Some it ->
    store_rel a o -> o_immutable o = false -> identity (o_payload o) = Ok ident ->
    let r := g [VStr lbl; VOpq (DBody (BItems l)); VInt offset; VList []] a tt in
    match ditem ident lbl it (o, offset) with
    | Ok (o', off') => exists a', r = (ROk (VTuple [VInt off'; VList []]), (a', tt)) /\ store_rel a' o'
    | Lib e => exists a', r = (RExc (liberr_class e), (a', tt)) /\ lookup dob "_payload" a' = Some (VBytes (o_payload o))
    | Foreign k => exists a', r = (RExc (dec_exc_class k), (a', tt)) /\ lookup dob "_payload" a' = Some (VBytes (o_payload o))
    | Unmodelled _ => if strict then exists f, fst r = RFail f else True
    end.

Variable MT : mtab.
Variables g_id g_gd g_unk g_walk : mcall dob W.
Hypothesis H_id : MT "identity" = Some g_id.
Hypothesis G_id : id_spec g_id.
Hypothesis H_gd : MT "_get_dict" = Some g_gd.
Hypothesis G_gd : gd_spec g_gd.
Hypothesis H_unk : MT "_do_unknown" = Some g_unk.
Hypothesis G_unk : unk_spec g_unk.
Hypothesis H_walk : MT "_set_attribute" = Some g_walk.
Hypothesis G_walk : walk_spec g_walk.

(* the locals of _do_attributes inside the loop *)
Definition da_locals (off:Z) (x:string) (l:list (string * item)) : env dob :=
  [("offset", VInt off); ("index", VList []); ("anam", VStr x); ("err", VUnbound); ("pdict", VOpq (DBody (BItems l)))].
Definition da_loop_body : list stmt :=
  [SAssign (TTuple [(TVar "offset"); (TVar "index")]) (ECallM "_set_attribute" [(EVar "anam"); (EVar "pdict"); (EVar "offset"); (EVar "index")])].
Notation da_state off x l a := {| locals := da_locals off x l; self := a; world := tt |}.
Notation da_floop := (floop dob W (assign dob W (TVar "anam")) (PyO.exec_list dob W ext MT wfuel da_loop_body)).

(* `for anam in pdict: offset, index = self._set_attribute(anam, pdict, offset, index)` = the model's walk over the items *)
Lemma da_loop_ok l ident p : good (BItems l) -> identity p = Ok ident ->
  forall r pre, l = (pre ++ r)%list ->
  forall off x a o, store_rel a o -> o_immutable o = false -> o_payload o = p ->
  let run := da_floop (map (fun kv : string * item => VStr (fst kv)) r) (da_state off x l a) in
  match ditems ditem ident r (o, off) with
  | Ok (o', off') => exists a' x', run = (ROk (CNext dob), da_state off' x' l a') /\ store_rel a' o'
  | Lib _ | Foreign _ => exists c a' x' off', run = (RExc c, da_state off' x' l a') /\ lookup dob "_payload" a' = Some (VBytes p)
  | Unmodelled _ => if strict then exists f s', run = (RFail f, s') else True
  end.
Proof.
  intros Hg EI r. induction r as [|[lbl it] r IH]; intros pre El off x a o SR HI HP run; subst run.
  - cbn [ditems]. exists a, x. split; [reflexivity|exact SR].
  - cbn [ditems map floop fst].
    assert (EA : assoc lbl l = Some it).
    { rewrite El. apply assoc_in. rewrite <- El. apply good_nodup, Hg. }
    assert (EI' : identity (o_payload o) = Ok ident) by (rewrite HP; exact EI).
    pose proof (G_walk lbl l it off a o ident Hg EA SR HI EI') as GW. cbv zeta in GW.
    unfold da_loop_body, da_locals. sx. rewrite H_walk.
    destruct (ditem ident lbl it (o, off)) as [[o1 off1]|e|k|why] eqn:ED; cbn [obind].
    + destruct GW as [a1 [GW SR1]]. rewrite GW. sx.
      pose proof (ditem_fr _ _ _ _ _ ED) as [F3 F1]. cbn [fst] in F1, F3.
      apply (IH (pre ++ [(lbl, it)])%list); [rewrite <- app_assoc; exact El|exact SR1|congruence|congruence].
    + destruct GW as [a1 [GW P1]]. rewrite GW. sx. exists (liberr_class e), a1, lbl, off. split; [reflexivity|]. rewrite <- HP. exact P1.
    + destruct GW as [a1 [GW P1]]. rewrite GW. sx. exists (dec_exc_class k), a1, lbl, off. split; [reflexivity|]. rewrite <- HP. exact P1.
    + destruct strict; [|exact I]. destruct GW as [f GW].
      destruct (g_walk [VStr lbl; VOpq (DBody (BItems l)); VInt off; VList []] a tt) as [r0 [a1 w1]]. cbn [fst] in GW. subst r0.
      sx. eexists _, _. reflexivity.
Qed.


Ltac use_loop L :=
  lazymatch type of L with
  | ?lhs = _ => match goal with |- context [floop dob W ?b ?c ?e ?f] => change (floop dob W b c e f) with lhs end
  end; rewrite L; unfold da_locals.

Definition da_result (o:obj) (r:res (val dob) * (env dob * W)) : Prop :=
  match do_attributes_w ditem o with
  | Ok o' => exists a', r = (ROk VNone, (a', tt)) /\ store_rel a' o'
  | Lib e => exists a', r = (RExc (liberr_class e), (a', tt))
  | Foreign k => exists a', r = (RExc (dec_exc_class k), (a', tt))
  | Unmodelled _ => if strict then exists f, fst r = RFail f else True
  end.

Lemma do_attributes_ok a o :
  store_rel a o -> o_immutable o = false ->
  (forall ident l, identity (o_payload o) = Ok ident -> get_dict T ident = Some (BItems l) -> good (BItems l)) ->
  da_result o (call dob W ext MT wfuel "_do_attributes" srco_msgdec__do_attributes [] a tt).
Proof.
  intros SR HI HG. unfold da_result.
  pose proof (store_payload _ _ SR) as HP. pose proof (store_immutable _ _ SR) as HM. rewrite HI in HM.
  set (p := o_payload o) in *.
  enter srco_msgdec__do_attributes.
  unfold do_attributes_w. fold p.
  destruct (identity_cases p) as [[ident EI]|EI]; rewrite EI; cbn [obind].
  2: { sx. rewrite H_gd, (G_gd _ _ _ HP), EI. cbn [obind dimg dec_exc_class pyexc_class]. sx.
       cbn [pick]. unfold matches. cbn [existsb]. rewrite subclass_exception. cbn [orb]. sx.
       rewrite H_id, (G_id _ _ _ HP), EI. cbn [dimg dec_exc_class pyexc_class]. sx. eexists. reflexivity. }
  sx. rewrite H_gd, (G_gd _ _ _ HP), EI. cbn [obind dimg].
  destruct (get_dict T ident) as [[l|why]|] eqn:EG; cbn [optb dbody]; sx.
  - (* a layout *)
    cbv [iter_values]. sx. rewrite ext_iter. sx.
    pose proof (da_loop_ok l ident p (HG _ _ EI EG) EI l [] eq_refl 0 "" a o SR HI eq_refl) as L. cbv zeta in L.
    destruct (ditems ditem ident l (o, 0)) as [[o1 off1]|e|k|w] eqn:ED; cbn [obind fst].
    + destruct L as [a1 [x1 [L SR1]]]. use_loop L. sx. exists a1. split; [reflexivity|exact SR1].
    + destruct L as [c [a1 [x1 [off1 [L P1]]]]]. use_loop L. sx.
      cbn [pick]. unfold matches. cbn [existsb]. rewrite subclass_exception. cbn [orb]. sx.
      rewrite H_id, (G_id _ _ _ P1), EI. cbn [dimg]. sx. eexists. reflexivity.
    + destruct L as [c [a1 [x1 [off1 [L P1]]]]]. use_loop L. sx.
      cbn [pick]. unfold matches. cbn [existsb]. rewrite subclass_exception. cbn [orb]. sx.
      rewrite H_id, (G_id _ _ _ P1), EI. cbn [dimg]. sx. eexists. reflexivity.
    + destruct strict; [|exact I]. destruct L as [f [s' L]]. use_loop L. sx. eexists. reflexivity.
  - (* not a dict *)
    cbv [iter_values]. sx. rewrite ext_iter_bad. sx. destruct strict; [|exact I]. eexists. reflexivity.
  - (* no layout: the stub *)
    rewrite H_unk, (G_unk _ _ _ HP HM), EI. sx.
    unfold Message.setattr. rewrite HI. cbn [obind].
    eexists. split; [reflexivity|]. apply store_set_unknown, store_set_df002; [constructor|exact SR].
Qed.

End Top.


(* ================= __init__ ================= *)
(* self as __init__ has set it up when it calls self._do_attributes(): the model's fresh object *)
Lemma store_rel_obj0 p l : store_rel (fixed_store (obj0 p l)) (obj0 p l).
Proof. exists []. split; [symmetry; apply app_nil_r|constructor]. Qed.

Section Init.
Variable MT : mtab.
Variables g_da g_set : mcall dob W.
Hypothesis H_da : MT "_do_attributes" = Some g_da.
Hypothesis H_set : MT "__setattr__" = Some g_set.
Hypothesis G_set : set_spec g_set.

Ltac do_set :=
  rewrite H_set;
  match goal with
  | |- context [g_set [VStr ?n; ?v] ?a ?w] => rewrite (proj2 (G_set n v a w)) by first [reflexivity | discriminate]
  end.

Ltac init_tail :=
  repeat (do_set; sx);
  rewrite H_da, (Z.mul_comm (Z.of_nat _) 8);
  unfold fixed_store, obj0; cbn [o_immutable o_payload o_payloadi o_labelmsm o_unknown o_satmap o_cellmap satmap_val cellmap_val];
  match goal with |- context [g_da [] ?st ?w] => destruct (g_da [] st w) as [[v|c|f] [a1 w1]] end;
  sx; [|reflexivity|reflexivity];
  rewrite H_set;
  match goal with |- context [g_set ?args ?a ?w] => destruct (g_set args a w) as [[v2|c2|f2] [a2 w2]] end;
  sx; reflexivity.

Lemma init_none l w :
  call dob W ext MT wfuel "__init__" srco_msgdec_init [VNone; VInt l] [] w
  = (RExc "RTCMMessageError", ([("_immutable", VBool false); ("_payload", VNone)], w)).
Proof.
  enter srco_msgdec_init.
  sx. do_set. sx. reflexivity.
Qed.

Lemma init_short p l w : too_short p = true ->
  call dob W ext MT wfuel "__init__" srco_msgdec_init [VBytes p; VInt l] [] w
  = (RExc "RTCMMessageError", ([("_immutable", VBool false); ("_payload", VBytes p)], w)).
Proof.
  intro Hs. enter srco_msgdec_init.
  destruct p as [|b0 [|b1 [|b2 r]]]; cbn [too_short] in Hs; try discriminate.
  - sx. do_set. sx. lenlt. sx. reflexivity.
  - sx. do_set. sx. lenlt. sx. reflexivity.
  - sx. do_set. sx. lenlt. sx. lenlt. sx. idx 0%nat. sx. idx 1%nat. sx.
    rewrite msgnum_Z. change 4076 with (Z.of_N 4076). rewrite of_N_eqb_const, Hs. sx. reflexivity.
Qed.

(* the general case: everything up to the call of _do_attributes is determined; then _do_attributes runs on the store of the
   model's fresh object, and `self._immutable = True` goes through __setattr__ on whatever store it left *)
Lemma init_ok p l w : too_short p = false ->
  call dob W ext MT wfuel "__init__" srco_msgdec_init [VBytes p; VInt l] [] w
  = let '(r, (a1, w1)) := g_da [] (fixed_store (obj0 p l)) w in
    match r with
    | ROk _ => let '(r2, (a2, w2)) := g_set [VStr "_immutable"; VBool true] a1 w1 in
               (match r2 with ROk _ => ROk VNone | RExc c => RExc c | RFail f => RFail f end, (a2, w2))
    | RExc c => (RExc c, (a1, w1))
    | RFail f => (RFail f, (a1, w1))
    end.
Proof.
  intro Hs. enter srco_msgdec_init.
  destruct p as [|b0 [|b1 [|b2 r]]]; cbn [too_short] in Hs; try discriminate.
  - sx. do_set. sx. lenlt. sx. lenlt. sx. idx 0%nat. sx. idx 1%nat. sx.
    rewrite msgnum_Z. change 4076 with (Z.of_N 4076). rewrite of_N_eqb_const, Hs. sx.
    init_tail.
  - sx. do_set. sx. lenlt. sx. lenlt. sx. init_tail.
Qed.
End Init.


(* ================= linking: the methods as they sit in the translated class (recursive linking, depth budget) ================= *)
Section Linked.
Variable ditem : string -> string -> item -> st -> outcome st.
Hypothesis ditem_fr : ditem_frame ditem.
Variable good : body -> Prop.
Hypothesis good_nodup : forall l, good (BItems l) -> NoDup (map fst l).
Variable strict : bool.
Notation RL := (rlink dob W ext wfuel srco_msgdec_prog).
Notation rrun_ := (rrun dob W ext wfuel srco_msgdec_prog).
Notation meth n m MT := (call dob W ext MT wfuel n m).

Lemma id_linked MT : id_spec (meth "identity" srco_msgdec_identity MT).
Proof. intros a p w H. apply identity_ok. exact H. Qed.
Lemma set_linked MT : set_spec (meth "__setattr__" srco_msgdec_setattr MT).
Proof. intros n v a w. split; [apply setattr_true|apply setattr_false]. Qed.

Lemma rl_id d : RL (S d) "identity" = Some (meth "identity" srco_msgdec_identity (RL d)).
Proof. reflexivity. Qed.
Lemma rl_set d : RL (S d) "__setattr__" = Some (meth "__setattr__" srco_msgdec_setattr (RL d)).
Proof. reflexivity. Qed.
Lemma rl_gd d : RL (S d) "_get_dict" = Some (meth "_get_dict" srco_msgdec__get_dict (RL d)).
Proof. reflexivity. Qed.
Lemma rl_unk d : RL (S d) "_do_unknown" = Some (meth "_do_unknown" srco_msgdec__do_unknown (RL d)).
Proof. reflexivity. Qed.
Lemma rl_walk d : RL (S d) "_set_attribute" = Some (meth "_set_attribute" srco_msgdec__set_attribute (RL d)).
Proof. reflexivity. Qed.
Lemma rl_da d : RL (S d) "_do_attributes" = Some (meth "_do_attributes" srco_msgdec__do_attributes (RL d)).
Proof. reflexivity. Qed.
Lemma rl_init d : RL (S d) "__init__" = Some (meth "__init__" srco_msgdec_init (RL d)).
Proof. reflexivity. Qed.

Lemma gd_linked d : gd_spec (meth "_get_dict" srco_msgdec__get_dict (RL (S d))).
Proof. intros a p w H. eapply get_dict_ok; [apply rl_id|apply id_linked|exact H]. Qed.
Lemma unk_linked d : unk_spec (meth "_do_unknown" srco_msgdec__do_unknown (RL (S d))).
Proof. intros a p w H HI. eapply do_unknown_ok; [apply rl_id|apply id_linked|apply rl_set|apply set_linked|exact H|exact HI]. Qed.

(* the four small methods, as run from outside *)
Theorem src_identity_eq d a p w :
  lookup dob "_payload" a = Some (VBytes p) ->
  rrun_ (S d) "identity" [] a w = (dimg (@VStr dob) (identity p), (a, w)).
Proof. intro H. unfold rrun. rewrite rl_id. apply identity_ok, H. Qed.
Theorem src_setattr_immutable d n v a w :
  lookup dob "_immutable" a = Some (VBool true) ->
  rrun_ (S d) "__setattr__" [VStr n; v] a w = (RExc "RTCMMessageError", (a, w)).
Proof. intro H. unfold rrun. rewrite rl_set. apply setattr_true, H. Qed.
Theorem src_setattr_mutable d n v a w :
  lookup dob "_immutable" a = Some (VBool false) -> v <> VUnbound ->
  rrun_ (S d) "__setattr__" [VStr n; v] a w = (ROk VNone, (PyO.setattr dob n v a, w)).
Proof. intros H Hv. unfold rrun. rewrite rl_set. apply setattr_false; assumption. Qed.
Theorem src_get_dict_eq d a p w :
  lookup dob "_payload" a = Some (VBytes p) ->
  rrun_ (S (S d)) "_get_dict" [] a w = (dimg optb (do i <- identity p; Ok (get_dict T i)), (a, w)).
Proof. intro H. unfold rrun. rewrite rl_gd. apply gd_linked, H. Qed.
Theorem src_do_unknown_eq d a p w :
  lookup dob "_payload" a = Some (VBytes p) -> lookup dob "_immutable" a = Some (VBool false) ->
  rrun_ (S (S d)) "_do_unknown" [] a w
  = match identity p with
    | Ok ident => (ROk VNone, (PyO.setattr dob "_unknown" (VBool true) (PyO.setattr dob "DF002" (VStr ident) a), w))
    | other => (dimg (@VStr dob) other, (a, w))
    end.
Proof. intros H HI. unfold rrun. rewrite rl_unk. apply unk_linked; assumption. Qed.

(* the walk as linked with call-depth budget d below it *)
Definition walk_linked (d:nat) : Prop :=
  walk_spec ditem good strict (meth "_set_attribute" srco_msgdec__set_attribute (RL d)).

(* (a) _do_attributes = the model's do_attributes *)
Theorem src_do_attributes_w_eq d a o :
  walk_linked (S d) ->
  store_rel a o -> o_immutable o = false ->
  (forall ident l, identity (o_payload o) = Ok ident -> get_dict T ident = Some (BItems l) -> good (BItems l)) ->
  da_result ditem strict o (rrun_ (S (S (S d))) "_do_attributes" [] a tt).
Proof.
  intros GW SR HI HG. unfold rrun. rewrite rl_da.
  eapply (do_attributes_ok ditem ditem_fr good good_nodup strict (RL (S (S d))));
    [apply rl_id|apply id_linked|apply rl_gd|apply gd_linked|apply rl_unk|apply unk_linked|apply rl_walk|exact GW|exact SR|exact HI|exact HG].
Qed.

(* (b) __init__ = the model's constructor, from the empty store *)
Definition payload_val (po:option bytes) : val dob := match po with Some p => VBytes p | None => VNone end.
Definition construct_result (po:option bytes) (l:Z) (r:res (val dob) * (env dob * W)) : Prop :=
  match construct_w ditem po l with
  | Ok o' => exists a', r = (ROk VNone, (a', tt)) /\ store_rel a' o' /\ o_immutable o' = true
  | Lib e => exists a', r = (RExc (liberr_class e), (a', tt))
  | Foreign k => exists a', r = (RExc (dec_exc_class k), (a', tt))
  | Unmodelled _ => if strict then exists f, fst r = RFail f else True
  end.

Theorem src_construct_w_eq d po l :
  walk_linked (S d) ->
  (forall p ident ly, po = Some p -> identity p = Ok ident -> get_dict T ident = Some (BItems ly) -> good (BItems ly)) ->
  construct_result po l (rrun_ (S (S (S (S d)))) "__init__" [payload_val po; VInt l] [] tt).
Proof.
  intros GW HG. unfold rrun, construct_result. rewrite rl_init.
  destruct po as [p|]; cbn [payload_val construct_w].
  2: { erewrite init_none; [|apply rl_set|apply set_linked]. eexists. reflexivity. }
  destruct (too_short p) eqn:Hs.
  { erewrite init_short; [|apply rl_set|apply set_linked|exact Hs]. eexists. reflexivity. }
  erewrite init_ok; [|apply rl_da|apply rl_set|apply set_linked|exact Hs].
  pose proof (src_do_attributes_w_eq d (fixed_store (obj0 p l)) (obj0 p l) GW (store_rel_obj0 p l) eq_refl) as DA.
  unfold rrun in DA. rewrite rl_da in DA. unfold da_result in DA.
  destruct (do_attributes_w ditem (obj0 p l)) as [o1|e|k|w] eqn:ED; cbn [obind].
  - destruct DA as [a1 [DA SR1]]. { intros ident ly. apply HG. reflexivity. }
    rewrite DA.
    pose proof (do_attributes_w_mutable ditem ditem_fr (obj0 p l) o1 eq_refl ED) as HI1.
    pose proof (store_immutable _ _ SR1) as HM. rewrite HI1 in HM.
    rewrite setattr_false by (exact HM || discriminate).
    eexists. split; [reflexivity|]. split; [apply store_set_immutable, SR1|reflexivity].
  - destruct DA as [a1 DA]. { intros ident ly. apply HG. reflexivity. } rewrite DA. eexists. reflexivity.
  - destruct DA as [a1 DA]. { intros ident ly. apply HG. reflexivity. } rewrite DA. eexists. reflexivity.
  - destruct strict; [|exact I]. destruct DA as [f DA]. { intros ident ly. apply HG. reflexivity. }
    destruct (meth "_do_attributes" srco_msgdec__do_attributes (RL (S (S d))) [] (fixed_store (obj0 p l)) tt) as [r0 [a1 w1]].
    cbn [fst] in DA. subst r0. eexists. reflexivity.
Qed.

(* the same with the budgets counted from outside: D for the constructor call, D - 3 >= 1 left for the walk *)
Corollary src_construct_w_eq_budget D po l :
  (4 <= D)%nat -> walk_linked (D - 3) ->
  (forall p ident ly, po = Some p -> identity p = Ok ident -> get_dict T ident = Some (BItems ly) -> good (BItems ly)) ->
  construct_result po l (rrun_ D "__init__" [payload_val po; VInt l] [] tt).
Proof.
  intros HD GW HG. destruct D as [|[|[|[|d]]]]; try lia.
  replace (S (S (S (S d))) - 3)%nat with (S d) in GW by lia. apply src_construct_w_eq; assumption.
Qed.

(* with a step that refines the model's (Unmodelled instead of some of the model's outcomes): the constructor so obtained refines
   the model's, and the source follows it *)
Corollary src_construct_refined d po l :
  (forall ident lbl it s, refines (ditem ident lbl it s) (dec_item T ident lbl it [] s)) ->
  walk_linked (S d) ->
  (forall p ident ly, po = Some p -> identity p = Ok ident -> get_dict T ident = Some (BItems ly) -> good (BItems ly)) ->
  refines (construct_w ditem po l) (construct T po l) /\
  construct_result po l (rrun_ (S (S (S (S d)))) "__init__" [payload_val po; VInt l] [] tt).
Proof. intros R GW HG. split; [apply construct_w_refines, R|apply src_construct_w_eq; assumption]. Qed.
End Linked.

(* ================= the same for the model's own walk: dec_item, do_attributes, construct ================= *)
Section LinkedModel.
Variable good : body -> Prop.
Hypothesis good_nodup : forall l, good (BItems l) -> NoDup (map fst l).
Variable strict : bool.
Notation RL := (rlink dob W ext wfuel srco_msgdec_prog).
Notation rrun_ := (rrun dob W ext wfuel srco_msgdec_prog).

(* the specification of "_set_attribute" assumed (to be discharged by run/SrcMsgDecWalk_inst.v), on the table with budget d *)
Definition walk_spec_model (d:nat) : Prop :=
  forall lbl l it offset a o ident,
    good (BItems l) -> assoc lbl l = Some it ->
    store_rel a o -> o_immutable o = false -> identity (o_payload o) = Ok ident ->
    let r := call dob W ext (RL d) wfuel "_set_attribute" srco_msgdec__set_attribute
               [VStr lbl; VOpq (DBody (BItems l)); VInt offset; VList []] a tt in
    match dec_item T ident lbl it [] (o, offset) with
    | Ok (o', off') => exists a', r = (ROk (VTuple [VInt off'; VList []]), (a', tt)) /\ store_rel a' o'
    | Lib e => exists a', r = (RExc (liberr_class e), (a', tt)) /\ lookup dob "_payload" a' = Some (VBytes (o_payload o))
    | Foreign k => exists a', r = (RExc (dec_exc_class k), (a', tt)) /\ lookup dob "_payload" a' = Some (VBytes (o_payload o))
    | Unmodelled _ => if strict then exists f, fst r = RFail f else True
    end.

(* (a) _do_attributes = do_attributes T o *)
Theorem src_do_attributes_eq d a o :
  walk_spec_model (S d) ->
  store_rel a o -> o_immutable o = false ->
  (forall ident l, identity (o_payload o) = Ok ident -> get_dict T ident = Some (BItems l) -> good (BItems l)) ->
  let r := rrun_ (S (S (S d))) "_do_attributes" [] a tt in
  match do_attributes T o with
  | Ok o' => exists a', r = (ROk VNone, (a', tt)) /\ store_rel a' o'
  | Lib e => exists a', r = (RExc (liberr_class e), (a', tt))
  | Foreign k => exists a', r = (RExc (dec_exc_class k), (a', tt))
  | Unmodelled _ => if strict then exists f, fst r = RFail f else True
  end.
Proof.
  intros GW SR HI HG r. subst r.
  pose proof (src_do_attributes_w_eq model_item model_item_frame good good_nodup strict d a o GW SR HI HG) as H.
  unfold da_result in H. rewrite do_attributes_w_model in H. exact H.
Qed.

(* (b) __init__ from the EMPTY store = construct T po l; on success the object is frozen *)
Theorem src_construct_eq d po l :
  walk_spec_model (S d) ->
  (forall p ident ly, po = Some p -> identity p = Ok ident -> get_dict T ident = Some (BItems ly) -> good (BItems ly)) ->
  let r := rrun_ (S (S (S (S d)))) "__init__" [payload_val po; VInt l] [] tt in
  match construct T po l with
  | Ok o' => exists a', r = (ROk VNone, (a', tt)) /\ store_rel a' o' /\ o_immutable o' = true
  | Lib e => exists a', r = (RExc (liberr_class e), (a', tt))
  | Foreign k => exists a', r = (RExc (dec_exc_class k), (a', tt))
  | Unmodelled _ => if strict then exists f, fst r = RFail f else True
  end.
Proof.
  intros GW HG r. subst r.
  pose proof (src_construct_w_eq model_item model_item_frame good good_nodup strict d po l GW HG) as H.
  unfold construct_result in H. rewrite construct_w_model in H. exact H.
Qed.
End LinkedModel.

End Dec.


Goal True. idtac "PA:src_identity_eq". Abort.
Print Assumptions src_identity_eq.
Goal True. idtac "PA:src_setattr_immutable". Abort.
Print Assumptions src_setattr_immutable.
Goal True. idtac "PA:src_setattr_mutable". Abort.
Print Assumptions src_setattr_mutable.
Goal True. idtac "PA:src_get_dict_eq". Abort.
Print Assumptions src_get_dict_eq.
Goal True. idtac "PA:src_do_unknown_eq". Abort.
Print Assumptions src_do_unknown_eq.
Goal True. idtac "PA:src_do_attributes_w_eq". Abort.
Print Assumptions src_do_attributes_w_eq.
Goal True. idtac "PA:src_construct_w_eq". Abort.
Print Assumptions src_construct_w_eq.
Goal True. idtac "PA:src_construct_w_eq_budget". Abort.
Print Assumptions src_construct_w_eq_budget.
Goal True. idtac "PA:src_construct_refined". Abort.
Print Assumptions src_construct_refined.
Goal True. idtac "PA:src_do_attributes_eq". Abort.
Print Assumptions src_do_attributes_eq.
Goal True. idtac "PA:src_construct_eq". Abort.
Print Assumptions src_construct_eq.
