(* Per-run: the premise of src_serialize_eq discharged on the working tree's tables -- the header constant the translator read from
   the source text of rtcmtypes_core.py is the one the table translator read from the runtime module. *)
From Coq Require Import ZArith NArith List String.
From Coq.Strings Require Import Byte.
From PyRtcm Require Import Base.Bytes Model.Types Model.Message Src.MiniPy.
From PyRtcmGen Require Import Src Tables Src_inst.

Theorem src_serialize_eq_T : forall p, run src_prog "serialize" (PBytes p) = img_bytes (serialize_payload T p).
Proof. intro p. apply src_serialize_eq. vm_compute. reflexivity. Qed.

Goal True. idtac "PA:src_serialize_eq_T". Abort.
Print Assumptions src_serialize_eq_T.
