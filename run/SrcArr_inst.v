(* Per-run source tie for the MSM array helper of rtcmhelpers (C18): the PyO interpretation (Src/PyO.v) of the CURRENT source text of
     parse_msm
   (translated by tools/gen_src2.py `arr` into PyRtcmGen.SrcOArr) equals the hand-written model Model/Helpers.v: parse_msm.

     src_parse_msm_eq :  forall T wfuel o a w,
        gnss_ok T srco_arr_reserved = true -> count_not_str o "NSat" -> count_not_str o "NCell" -> modelled (parse_msm T o) ->
        run Ob W (arr_ext T srco_arr_reserved o) wfuel srco_arr_prog "parse_msm" [VRef "msg"] a w = (img_msm (parse_msm T o), (a, tt))

   for ALL tables T and ALL objects o (no well-formedness of o beyond the two count hypotheses), any attribute store a (the function
   has no self) and any loop budget (there is no `while`).  The environment -- what msg.identity, msg.ismsm, msg.<name>, getattr / hasattr
   (msg, name), `k in RTCM_PAYLOADS_GET_MSM` and GNSSMAP[k] mean, answered from (T, o) -- and the image of the model's result as a Python
   value (None | (meta dict, [sat dicts], [cell dicts]); Foreign / Lib outcomes as the exception class) are Src/ArrEnv.v.
   Hypotheses:
     gnss_ok          no epoch attribute named in GNSSMAP is a name bound in class RTCMMessage or one of the eight fixed instance
                      attributes (decided on the regenerated tables in run/SrcArr_tables_inst.v); the names f"{attr}_{i:02d}" the loops ask
                      for are shown here not to be such names (names_ok, by computation on the key lists of the source text);
     count_not_str    NSat / NCell, when present, do not hold a str: `msg.NSat + 1` on a str is TypeError in CPython (the model: Foreign
                      XType) but "operand kind", unmodelled, in PyO (DESIGN 3.4 gap (ii));
     modelled         the model's answer is not Unmodelled (a float count; a count beyond 1048576): nothing is claimed there.
   The proof follows the text: the two `for i in range(1, n + 1)` loops (translated as iteration over tuple(k for k in range(1, n + 1)))
   by the invariant "the list built so far is the image of map (pick o keys) over the indices done", the inner `for attr in [...]`
   loops by the invariant "the dict built so far is the image of the flat_map over the keys done" (insertion order; the key lists of the
   source text must be duplicate-free and equal to the model's sat_keys / cell_keys, checked by conversion). *)
From Coq Require Import ZArith NArith List String Ascii Bool Lia.
From PyRtcm Require Import Base.Bytes Base.Dec Model.Types Model.Message Model.Helpers.
From PyRtcm Require Import Src.PyO Src.PyOLemmas Src.PyOReaderLemmas Src.PyOMsgLemmas Src.PyOHelpersLemmas Src.ReaderEnv Src.MsgDecEnv Src.PyOMsgDecLemmas Src.ArrEnv Src.PyOArrLemmas.
From PyRtcmGen Require Import SrcOArr.
Import ListNotations.
Open Scope string_scope.
Open Scope Z_scope.

Ltac interp t :=
  eval cbv [PyO.exec PyO.eval PyO.eval_list PyO.assign target_expr ret lookup update
            truth binop_val int_binop unop_val eq_val cmp_val mem_val dict_set setitem_k
            set_locals set_self set_world locals self world
            String.eqb Ascii.eqb Bool.eqb existsb orb negb app] in t.
Ltac rw E := lazymatch type of E with ?l = ?r => change l with r end.
Ltac whole t := let t' := interp t in lazymatch t' with (_, _) => change t with t' end.
Ltac step :=
  match goal with
  | |- context [PyO.assign ?Ob ?W ?tg ?v (Build_state ?A ?B ?l ?sf ?w)] =>
      let t := constr:(PyO.assign Ob W tg v (Build_state A B l sf w)) in
      let t' := interp t in change t with t'
  | |- context [setitem_k ?x ?v ?vk (Build_state ?A ?B ?l ?sf ?w)] =>
      let t := constr:(setitem_k x v vk (Build_state A B l sf w)) in whole t
  | |- context [PyO.exec ?Ob ?W ?ext ?M ?wf ?st (Build_state ?A ?B ?l ?sf ?w)] =>
      let s := constr:(Build_state A B l sf w) in
      let t := constr:(PyO.exec Ob W ext M wf st s) in
      lazymatch st with SFor _ _ _ => fail | _ => idtac end;
      lazymatch st with
      | SIf ?c ?th ?el => rw (exec_if_branch Ob W ext M wf c th el s)
      | _ =>
      first [ whole t |
      lazymatch st with
      | SAssign ?tg ?e => rw (exec_assign Ob W ext M wf tg e s)
      | SReturn ?e => rw (exec_return Ob W ext M wf e s)
      | SExpr ?e => rw (exec_expr Ob W ext M wf e s)
      | SSetItemLocal ?x ?k ?e => rw (exec_setitem_local ext M wf x k e s)
      end ]
      end
  | |- context [PyO.eval_list ?Ob ?W ?ext ?M ?l (Build_state ?A ?B ?lc ?sf ?w)] =>
      let s := constr:(Build_state A B lc sf w) in
      let t := constr:(PyO.eval_list Ob W ext M l s) in
      first [ whole t |
      lazymatch l with
      | [] => rw (eval_list_nil Ob W ext M s)
      | ?a :: ?r => rw (eval_list_cons Ob W ext M a r s)
      end ]
  | |- context [eval_opt ?Ob ?W ?ext ?M ?o (Build_state ?A ?B ?l ?sf ?w)] =>
      let t := constr:(eval_opt Ob W ext M o (Build_state A B l sf w)) in
      let t1 := eval cbv [eval_opt] in t in
      let t' := interp t1 in change t with t'
  | |- context [PyO.eval ?Ob ?W ?ext ?M ?e (Build_state ?A ?B ?l ?sf ?w)] =>
      let s := constr:(Build_state A B l sf w) in
      let t := constr:(PyO.eval Ob W ext M e s) in
      first [ whole t |
        lazymatch e with
        | EIndex ?a ?i => rw (eval_index Ob W ext M a i s)
        | EBin ?o ?a ?b => rw (eval_bin Ob W ext M o a b s)
        | EUn ?o ?a => rw (eval_un Ob W ext M o a s)
        | EOr ?a ?b => rw (eval_or Ob W ext M a b s)
        | ESlice ?x ?lo ?hi => rw (eval_slice Ob W ext M x lo hi s)
        | ECallB ?f ?args => rw (eval_callb Ob W ext M f args s)
        | ECallX ?c ?args => rw (eval_callx Ob W ext M c args s)
        | ETuple ?args => rw (eval_tuple Ob W ext M args s)
        | ETupleRange ?x ?lo ?hi ?b => rewrite (eval_tuplerange Ob W ext M x lo hi b s)
        end ]
  end.
Ltac spine :=
  repeat match goal with
  | |- context [branch ?Ob ?W ?ext ?M ?wf (ROk true) ?th ?el ?s] =>
      change (branch Ob W ext M wf (ROk true) th el s) with (PyO.exec_list Ob W ext M wf th s)
  | |- context [branch ?Ob ?W ?ext ?M ?wf (ROk false) ?th ?el ?s] =>
      change (branch Ob W ext M wf (ROk false) th el s) with (PyO.exec_list Ob W ext M wf el s)
  | |- context [branch ?Ob ?W ?ext ?M ?wf (RExc ?c) ?th ?el ?s] =>
      change (branch Ob W ext M wf (RExc c) th el s) with (@RExc (ctl Ob) c, s)
  | |- context [branch ?Ob ?W ?ext ?M ?wf (RFail ?f) ?th ?el ?s] =>
      change (branch Ob W ext M wf (RFail f) th el s) with (@RFail (ctl Ob) f, s)
  | |- context [PyO.exec_list ?Ob ?W ?ext ?M ?wf ?l (Build_state ?A ?B ?lc ?sf ?w)] =>
      let s := constr:(Build_state A B lc sf w) in
      lazymatch l with
      | [] => rw (exec_list_nil Ob W ext M wf s)
      (* by rewriting, not by conversion: checking the conversion would run the statements, loops included *)
      | [?a] => rewrite (exec_list_cons Ob W ext M wf a [] s)
      | ?a :: ?r => rewrite (exec_list_cons Ob W ext M wf a r s); let R := fresh "rest" in set (R := r)
      | _ => is_var l; subst l
      end
  end.
Ltac rd := cbv [set_world set_self set_locals]; cbv beta iota; cbn [truth cmp_last binop_val int_binop unop_val cmp_val eq_val world self locals negb andb orb]; repeat (progress spine; cbv beta iota);
  repeat match goal with
         | |- context [index_list ?Ob (?x :: ?r) 0] => change (index_list Ob (x :: r) 0) with (@ROk (val Ob) x); cbv beta iota
         | |- context [index_list ?Ob [?x; ?y] 1] => change (index_list Ob [x; y] 1) with (@ROk (val Ob) y); cbv beta iota
         end.
Ltac sx := rd; repeat (step; rd).
Ltac open_for :=
  match goal with
  | |- context [PyO.exec ?Ob ?W ?ext ?M ?wf (SFor ?tg ?it ?b) (Build_state ?A ?B ?l ?sf ?w)] =>
      rewrite (exec_for Ob W ext M wf tg it b (Build_state A B l sf w))
  end.
Ltac enter m := cbv [call m m_params m_locals m_body bind_params map app].

Section Arr.
Variable T : tables.
Variable wfuel : nat.
Variable o : obj.
Notation R := srco_arr_reserved.
Notation ext := (arr_ext T R o).
Notation run_ := (run Ob W ext wfuel srco_arr_prog).

Lemma ext_identity w :
  ext {| c_name := "RTCMMessage.identity"; c_kw := [] |} [VRef "msg"] w = (img_outcome (@PyO.VStr Ob) (obj_identity o), tt).
Proof. reflexivity. Qed.
Lemma ext_ismsm w :
  ext {| c_name := "RTCMMessage.ismsm"; c_kw := [] |} [VRef "msg"] w = (img_outcome (@VBool Ob) (obj_ismsm T o), tt).
Proof. reflexivity. Qed.
Lemma ext_getattr n w : hidden R n = false ->
  ext {| c_name := "getattr"; c_kw := [] |} [VRef "msg"; PyO.VStr n] w
  = (match assoc n (o_attrs o) with Some v => ROk (img_value v) | None => RExc "AttributeError" end, tt).
Proof. intro H. cbv [arr_ext c_name c_kw String.eqb Ascii.eqb Bool.eqb negb]. now rewrite H. Qed.
Lemma ext_hasattr n w : hidden R n = false ->
  ext {| c_name := "hasattr"; c_kw := [] |} [VRef "msg"; PyO.VStr n] w
  = (ROk (VBool (match assoc n (o_attrs o) with Some _ => true | None => false end)), tt).
Proof. intro H. cbv [arr_ext c_name c_kw String.eqb Ascii.eqb Bool.eqb negb]. now rewrite H. Qed.
Lemma ext_contains k w :
  ext {| c_name := "RTCM_PAYLOADS_GET_MSM.__contains__"; c_kw := [] |} [PyO.VStr k] w
  = (ROk (VBool (match assoc k (t_msm T) with Some _ => true | None => false end)), tt).
Proof. reflexivity. Qed.
Lemma ext_gnssmap k w :
  ext {| c_name := "GNSSMAP[]"; c_kw := [] |} [PyO.VStr k] w
  = (match assoc k (t_gnssmap T) with
     | Some (gnss, epochkey) => ROk (VTuple [PyO.VStr gnss; PyO.VStr epochkey])
     | None => RExc "KeyError" end, tt).
Proof. reflexivity. Qed.


(* ---------- the two nested loops, cut out of the translated text ---------- *)
Definition pm_body := Eval cbv [m_body srco_arr_parse_msm] in m_body srco_arr_parse_msm.
Definition for_body (s:stmt) : list stmt := match s with SFor _ _ b => b | _ => [] end.
Definition sat_for := Eval cbv [nth pm_body] in nth 10 pm_body SPass.
Definition cell_for := Eval cbv [nth pm_body] in nth 12 pm_body SPass.
Definition sat_inner := Eval cbv [nth for_body sat_for] in nth 1 (for_body sat_for) SPass.
Definition cell_inner := Eval cbv [nth for_body cell_for] in nth 1 (for_body cell_for) SPass.

(* the locals of parse_msm *)
Definition locs (meta gmap msmsats i sats attr msmcells cells : val Ob) : env Ob :=
  [("msg", VRef "msg"); ("meta", meta); ("gmap", gmap); ("msmsats", msmsats); ("i", i); ("sats", sats); ("attr", attr);
   ("msmcells", msmcells); ("cells", cells)].
Definition st_ (l:env Ob) (a:env Ob) : state Ob W := {| locals := l; self := a; world := tt |}.

(* the dict built for index k+1 *)
Definition pick_step (k:nat) (x:string) : list (string * val Ob) :=
  match assoc (x ++ "_" ++ dd (N.of_nat k + 1)) (o_attrs o) with Some v => [(x, img_value v)] | None => [] end.
Definition pick_img (keys:list string) (k:nat) : list (string * val Ob) := flat_map (pick_step k) keys.
Lemma pick_img_eq keys k : img_dict (Helpers.pick o keys (N.of_nat k + 1)) = VDict (map sent (pick_img keys k)).
Proof.
  rewrite img_dict_sent. do 2 f_equal. unfold Helpers.pick, pick_img. rewrite flat_map_map.
  apply flat_map_ext. intro x. unfold pick_step. destruct (assoc _ _); reflexivity.
Qed.

Definition names_ok (ks:list string) : bool := forallb (fun x => no_prefix (R ++ fixed_attr_names) (x ++ "_")) ks.

Fixpoint nodupb (l:list string) : bool := match l with [] => true | x :: r => negb (existsb (String.eqb x) r) && nodupb r end.
Lemma nodupb_NoDup l : nodupb l = true -> NoDup l.
Proof.
  induction l as [|x r IH]; [constructor|]. cbn [nodupb]. intro H. apply andb_true_iff in H. destruct H as [H1 H2].
  constructor; [|now apply IH]. intro HI. apply negb_true_iff in H1.
  assert (existsb (String.eqb x) r = true) by (apply existsb_exists; exists x; split; [exact HI|apply String.eqb_refl]). congruence.
Qed.

(* the dict of index k+1, and the loop state (list built so far, last dict, last key) after one more round *)
Definition D (keys:list string) (k:nat) : val Ob := VDict (map sent (pick_img keys k)).
Definition ostep (keys:list string) (lastkey:val Ob) (st:list (val Ob) * val Ob * val Ob) (k:nat) : list (val Ob) * val Ob * val Ob :=
  ((fst (fst st) ++ [D keys k])%list, D keys k, lastkey).
Lemma ostep_fold keys lk xs : forall st, fst (fst (fold_left (ostep keys lk) xs st)) = (fst (fst st) ++ map (D keys) xs)%list.
Proof. induction xs as [|x r IH]; intro st; cbn [fold_left map]; [now rewrite app_nil_r|]. rewrite IH. cbn [ostep fst]. now rewrite <- app_assoc. Qed.

Section Loops.
Variable M0 : string -> option (mcall Ob W).

Definition inner_inv (ks:list string) (acc:list (string * val Ob)) (rest:list string) : Prop :=
  NoDup rest /\ (forall x, In x rest -> ~ In x (map fst acc)) /\ (forall x, In x rest -> no_prefix (R ++ fixed_attr_names) (x ++ "_") = true).

Ltac inner_tac k Hk :=
  intros acc u1 x r [ND [NI NP]];
  assert (Hh : forall d, hidden R ((x ++ "_") ++ d) = false) by (intro d; apply hidden_no_prefix; apply NP; left; reflexivity);
  split;
  [ cbv [st_ locs for_body sat_inner cell_inner]; step; cbv beta iota; sx;
    change (builtin_val Ob BStrOf [PyO.VStr x]) with (@ROk (val Ob) (PyO.VStr x)); sx;
    rewrite (fmtd_index k Hk); sx; rewrite ext_hasattr by apply Hh; rewrite sapp_assoc;
    unfold pick_step; destruct (assoc (x ++ "_" ++ dd (N.of_nat k + 1)) (o_attrs o)) as [v|] eqn:EA;
    [ sx; change (builtin_val Ob BStrOf [PyO.VStr x]) with (@ROk (val Ob) (PyO.VStr x)); sx;
      rewrite (fmtd_index k Hk); sx; rewrite ext_getattr by apply Hh; rewrite sapp_assoc, EA; sx;
      unfold setitem_k; cbn [lookup locals String.eqb Ascii.eqb Bool.eqb];
      rewrite dict_set_str_fresh by (apply NI; left; reflexivity);
      cbv [set_locals locals self world update String.eqb Ascii.eqb Bool.eqb]; reflexivity
    | sx; rewrite app_nil_r; reflexivity ]
  | inversion ND as [|? ? NX ND']; subst; split; [exact ND'|]; split;
    [ intros y Hy; unfold pick_step; destruct (assoc _ (o_attrs o));
      [ rewrite map_app, in_app_iff; cbn [map fst In]; intros [H|[H|[]]];
        [ exact (NI y (or_intror Hy) H) | subst y; exact (NX Hy) ]
      | rewrite app_nil_r; exact (NI y (or_intror Hy)) ]
    | intros y Hy; apply NP; right; exact Hy ] ].

Lemma sat_inner_loop a meta gmap ms mc cells (k:nat) ks :
  Z.of_nat k <= 1048576 -> NoDup ks -> names_ok ks = true ->
  forall u, floop Ob W (assign Ob W (TVar "attr")) (exec_list Ob W ext M0 wfuel (for_body sat_inner)) (map (@PyO.VStr Ob) ks)
                  (st_ (locs meta gmap ms (PyO.VInt (1 + Z.of_nat k)) (VDict []) u mc cells) a)
   = (ROk (CNext Ob),
      st_ (locs meta gmap ms (PyO.VInt (1 + Z.of_nat k)) (VDict (map sent (pick_img ks k))) (fold_left (fun _ x => PyO.VStr x) ks u) mc cells) a).
Proof.
  intros Hk ND NP u.
  rewrite (floop_inv Ob W (list (string * val Ob)) string (@PyO.VStr Ob)
             (fun acc u => st_ (locs meta gmap ms (PyO.VInt (1 + Z.of_nat k)) (VDict (map sent acc)) u mc cells) a)
             (fun acc x => acc ++ pick_step k x)%list (inner_inv ks) _ _) with (a := []).
  - rewrite fold_flat. reflexivity.
  - clear ND NP; inner_tac k Hk.
  - split; [exact ND|]. split; [intros x _ []|]. intros x Hx. unfold names_ok in NP. rewrite forallb_forall in NP. now apply NP.
Qed.

Lemma cell_inner_loop a meta gmap ms mc sats (k:nat) ks :
  Z.of_nat k <= 1048576 -> NoDup ks -> names_ok ks = true ->
  forall u, floop Ob W (assign Ob W (TVar "attr")) (exec_list Ob W ext M0 wfuel (for_body cell_inner)) (map (@PyO.VStr Ob) ks)
                  (st_ (locs meta gmap ms (PyO.VInt (1 + Z.of_nat k)) sats u mc (VDict [])) a)
   = (ROk (CNext Ob),
      st_ (locs meta gmap ms (PyO.VInt (1 + Z.of_nat k)) sats (fold_left (fun _ x => PyO.VStr x) ks u) mc (VDict (map sent (pick_img ks k)))) a).
Proof.
  intros Hk ND NP u.
  rewrite (floop_inv Ob W (list (string * val Ob)) string (@PyO.VStr Ob)
             (fun acc u => st_ (locs meta gmap ms (PyO.VInt (1 + Z.of_nat k)) sats u mc (VDict (map sent acc))) a)
             (fun acc x => acc ++ pick_step k x)%list (inner_inv ks) _ _) with (a := []).
  - rewrite fold_flat. reflexivity.
  - clear ND NP; inner_tac k Hk.
  - split; [exact ND|]. split; [intros x _ []|]. intros x Hx. unfold names_ok in NP. rewrite forallb_forall in NP. now apply NP.
Qed.

Ltac outer_tac inner keys :=
  intros st u k r HI; inversion HI as [|? ? Hk HI']; subst; split; [|exact HI'];
  destruct st as [[acc sv] av]; cbv [st_ locs for_body sat_for cell_for fst snd]; step; cbv beta iota; sx;
  open_for; cbv [iter_values]; sx;
  match goal with |- context [floop _ _ _ _ ?l _] => change l with (map (@PyO.VStr Ob) keys) end;
  match goal with |- context [floop ?O ?W0 ?bd ?bo ?l {| locals := [_; ("meta", ?meta); ("gmap", ?gmap); ("msmsats", ?ms); _; ("sats", ?sa); ("attr", ?at_); ("msmcells", ?mc); ("cells", ?ce)]; self := ?a; world := tt |}] =>
    change (floop O W0 bd bo l {| locals := [("msg", VRef "msg"); ("meta", meta); ("gmap", gmap); ("msmsats", ms); ("i", PyO.VInt (1 + Z.of_nat k)); ("sats", sa); ("attr", at_); ("msmcells", mc); ("cells", ce)]; self := a; world := tt |})
      with (floop O W0 bd (exec_list Ob W ext M0 wfuel (for_body inner)) l (st_ (locs meta gmap ms (PyO.VInt (1 + Z.of_nat k)) sa at_ mc ce) a))
  end.

Lemma sat_outer_loop a meta gmap mc cells xs : Forall (fun k => Z.of_nat k <= 1048576) xs ->
  forall st u, floop Ob W (assign Ob W (TVar "i")) (exec_list Ob W ext M0 wfuel (for_body sat_for)) (map (fun k => PyO.VInt (1 + Z.of_nat k)) xs)
                     (st_ (locs meta gmap (VList (fst (fst st))) u (snd (fst st)) (snd st) mc cells) a)
   = (ROk (CNext Ob),
      let st' := fold_left (ostep sat_keys (PyO.VStr "ExtSatInfo")) xs st in
      st_ (locs meta gmap (VList (fst (fst st'))) (fold_left (fun _ k => PyO.VInt (1 + Z.of_nat k)) xs u) (snd (fst st')) (snd st') mc cells) a).
Proof.
  intros HF st u.
  apply (floop_inv Ob W (list (val Ob) * val Ob * val Ob) nat (fun k => PyO.VInt (1 + Z.of_nat k))
           (fun st u => st_ (locs meta gmap (VList (fst (fst st))) u (snd (fst st)) (snd st) mc cells) a)
           (ostep sat_keys (PyO.VStr "ExtSatInfo")) (fun _ rest => Forall (fun k => Z.of_nat k <= 1048576) rest)); [|exact HF].
  clear. outer_tac sat_inner sat_keys.
  rewrite (sat_inner_loop a meta gmap (VList acc) mc cells k sat_keys Hk) by (first [apply nodupb_NoDup|idtac]; vm_compute; reflexivity).
  cbv [st_ locs]. sx. reflexivity.
Qed.

Lemma cell_outer_loop a meta gmap ms sats xs : Forall (fun k => Z.of_nat k <= 1048576) xs ->
  forall st u, floop Ob W (assign Ob W (TVar "i")) (exec_list Ob W ext M0 wfuel (for_body cell_for)) (map (fun k => PyO.VInt (1 + Z.of_nat k)) xs)
                     (st_ (locs meta gmap ms u sats (snd st) (VList (fst (fst st))) (snd (fst st))) a)
   = (ROk (CNext Ob),
      let st' := fold_left (ostep cell_keys (PyO.VStr "DF420")) xs st in
      st_ (locs meta gmap ms (fold_left (fun _ k => PyO.VInt (1 + Z.of_nat k)) xs u) sats (snd st') (VList (fst (fst st'))) (snd (fst st'))) a).
Proof.
  intros HF st u.
  apply (floop_inv Ob W (list (val Ob) * val Ob * val Ob) nat (fun k => PyO.VInt (1 + Z.of_nat k))
           (fun st u => st_ (locs meta gmap ms u sats (snd st) (VList (fst (fst st))) (snd (fst st))) a)
           (ostep cell_keys (PyO.VStr "DF420")) (fun _ rest => Forall (fun k => Z.of_nat k <= 1048576) rest)); [|exact HF].
  clear. outer_tac cell_inner cell_keys.
  rewrite (cell_inner_loop a meta gmap ms (VList acc) sats k cell_keys Hk) by (first [apply nodupb_NoDup|idtac]; vm_compute; reflexivity).
  cbv [st_ locs]. sx. reflexivity.
Qed.
End Loops.

Ltac at_meth := unfold run, srco_arr_prog; rewrite ?link_skip by reflexivity; rewrite link_here.

Theorem src_parse_msm_eq a w :
  gnss_ok T R = true -> count_not_str o "NSat" -> count_not_str o "NCell" -> modelled (parse_msm T o) ->
  run_ "parse_msm" [VRef "msg"] a w = (img_msm (parse_msm T o), (a, tt)).
Proof.
  intros HG HS HC HM. destruct w. at_meth. enter srco_arr_parse_msm. unfold parse_msm, getint, getattr in *.
  sx. rewrite ext_ismsm. unfold obj_ismsm.
  destruct (obj_identity o) as [ident|e|k|why] eqn:EI; cbn [obind img_outcome] in *;
    [| sx; reflexivity | sx; reflexivity | exfalso; exact (HM why eq_refl)].
  sx. destruct (ismsm_of T ident); cbn [negb] in *; [|sx; reflexivity].
  sx. rewrite ext_identity, EI. cbn [img_outcome]. sx. rewrite ext_contains.
  destruct (assoc ident (t_msm T)) as [bd|]; [|sx; reflexivity].
  sx. rewrite ext_identity, EI. cbn [img_outcome]. sx.
  change 3 with (Z.of_nat 3). rewrite slice_str_0_to. sx. rewrite ext_gnssmap.
  destruct (assoc (substring 0 3 ident) (t_gnssmap T)) as [[gnss ek]|] eqn:EG; [|sx; reflexivity].
  pose proof (gnss_ok_hidden T R _ _ _ HG EG) as Hek.
  sx. rewrite ext_identity, EI. cbn [img_outcome]. sx.
  rewrite (ext_getattr "DF003") by reflexivity.
  destruct (assoc "DF003" (o_attrs o)) as [station|]; [|sx; reflexivity]. cbn [obind] in *.
  sx. rewrite (ext_getattr ek) by exact Hek.
  destruct (assoc ek (o_attrs o)) as [epoch|]; [|sx; reflexivity]. cbn [obind] in *.
  sx. rewrite (ext_getattr "NSat") by reflexivity.
  destruct (assoc "NSat" (o_attrs o)) as [nsatv|] eqn:ES; [|sx; reflexivity]. cbn [obind] in *.
  sx. rewrite (ext_getattr "NCell") by reflexivity.
  destruct (assoc "NCell" (o_attrs o)) as [ncellv|] eqn:EC; [|sx; reflexivity]. cbn [obind] in *.
  destruct nsatv as [nsat|f|u]; [| exfalso; exact (HM _ eq_refl) | exfalso; exact (HS u ES)]. cbn [obind] in *.
  destruct ncellv as [ncell|f|u]; [| exfalso; exact (HM _ eq_refl) | exfalso; exact (HC u EC)]. cbn [obind] in *.
  destruct ((1048576 <? nsat) || (1048576 <? ncell)) eqn:EB; [exfalso; exact (HM _ eq_refl)|].
  apply orb_false_iff in EB. destruct EB as [B1 B2]. apply Z.ltb_ge in B1, B2.
  sx. open_for. cbv [iter_values]. sx.
  rewrite (ext_getattr "NSat") by reflexivity. rewrite ES. cbn [img_value]. sx.
  rewrite tr_go_id. cbn [rev app]. cbv beta iota.
  rewrite map_map. replace (nsat + 1 - 1) with nsat by lia.
  set (xs := seq 0 (Z.to_nat nsat)).
  assert (HF1 : Forall (fun k => Z.of_nat k <= 1048576) xs) by (apply Forall_forall; intros k Hk; apply in_seq in Hk; lia).
  match goal with |- context [floop ?O ?W0 ?bd ?bo (map ?f xs) {| locals := [_; ("meta", ?meta); ("gmap", ?gmap); _; ("i", ?u); _; _; _; _]; self := a; world := tt |}] =>
    change (floop O W0 bd bo (map f xs) {| locals := [("msg", VRef "msg"); ("meta", meta); ("gmap", gmap); ("msmsats", VList []); ("i", u); ("sats", VUnbound); ("attr", VUnbound); ("msmcells", VUnbound); ("cells", VUnbound)]; self := a; world := tt |})
      with (let st := (@nil (val Ob), @VUnbound dob, @VUnbound dob) in
            floop O W0 bd (exec_list Ob W ext (link Ob W ext wfuel []) wfuel (for_body sat_for)) (map (fun k => PyO.VInt (1 + Z.of_nat k)) xs)
              (st_ (locs meta gmap (VList (fst (fst st))) u (snd (fst st)) (snd st) VUnbound VUnbound) a))
  end.
  cbv zeta. rewrite sat_outer_loop by exact HF1. cbv zeta.
  match goal with |- context [fold_left (ostep sat_keys ?lk) xs ?st0] =>
    pose proof (ostep_fold sat_keys lk xs st0) as F1; destruct (fold_left (ostep sat_keys lk) xs st0) as [[acc1 sv1] av1] end.
  cbn [fst snd app] in F1. subst acc1. cbv [st_ locs fst snd]. sx.
  open_for. cbv [iter_values]. sx.
  rewrite (ext_getattr "NCell") by reflexivity. rewrite EC. cbn [img_value]. sx.
  rewrite tr_go_id. cbn [rev app]. cbv beta iota.
  rewrite map_map. replace (ncell + 1 - 1) with ncell by lia.
  set (ys := seq 0 (Z.to_nat ncell)).
  assert (HF2 : Forall (fun k => Z.of_nat k <= 1048576) ys) by (apply Forall_forall; intros k Hk; apply in_seq in Hk; lia).
  match goal with |- context [floop ?O ?W0 ?bd ?bo (map ?f ys) {| locals := [_; ("meta", ?meta); ("gmap", ?gmap); ("msmsats", ?ms); ("i", ?u); ("sats", ?sa); ("attr", ?at_); _; _]; self := a; world := tt |}] =>
    change (floop O W0 bd bo (map f ys) {| locals := [("msg", VRef "msg"); ("meta", meta); ("gmap", gmap); ("msmsats", ms); ("i", u); ("sats", sa); ("attr", at_); ("msmcells", VList []); ("cells", VUnbound)]; self := a; world := tt |})
      with (let st := (@nil (val Ob), @VUnbound dob, at_) in
            floop O W0 bd (exec_list Ob W ext (link Ob W ext wfuel []) wfuel (for_body cell_for)) (map (fun k => PyO.VInt (1 + Z.of_nat k)) ys)
              (st_ (locs meta gmap ms u sa (snd st) (VList (fst (fst st))) (snd (fst st))) a))
  end.
  cbv zeta. rewrite cell_outer_loop by exact HF2. cbv zeta.
  match goal with |- context [fold_left (ostep cell_keys ?lk) ys ?st0] =>
    pose proof (ostep_fold cell_keys lk ys st0) as F2; destruct (fold_left (ostep cell_keys lk) ys st0) as [[acc2 sv2] av2] end.
  cbn [fst snd app] in F2. subst acc2. cbv [st_ locs fst snd]. sx.
  unfold img_msm, img_outcome, img_msm_out. cbn [m_meta m_sats m_cells]. unfold img_dict at 1. cbn [map fst snd].
  rewrite !img_value_codes. cbn [img_value].
  unfold nrange1. rewrite !map_map. fold xs ys.
  assert (E : forall keys k, img_dict (Helpers.pick o keys (N.of_nat k + 1)) = D keys k) by (intros; apply pick_img_eq).
  rewrite (map_ext _ _ (E sat_keys)), (map_ext _ _ (E cell_keys)). reflexivity.
Qed.
End Arr.

Goal True. idtac "PA:src_parse_msm_eq". Abort.
Print Assumptions src_parse_msm_eq.
