(* C06 / C03 at the regenerated tables *)
From Coq Require Import NArith ZArith List String.
From PyRtcm Require Import Base.Bytes Model.Types Model.Message Spec.Layouts Proofs.DecodeWalk Proofs.DecodeExtend Properties.C06.
From PyRtcmGen Require Import Tables.
Import ListNotations. Open Scope Z_scope.

Theorem C06_label_fields_zero_width : label_zero_width T = true.
Proof. vm_compute. reflexivity. Qed.
Goal True. idtac "PA:C06_label_fields_zero_width". Abort.
Print Assumptions C06_label_fields_zero_width.

Theorem C06_layouts_wellformed : layout_problems T = [].
Proof. vm_compute. reflexivity. Qed.
Goal True. idtac "PA:C06_layouts_wellformed". Abort.
Print Assumptions C06_layouts_wellformed.

(* the theorem about the working tree's tables: no decode of these tables reads past the payload, truncations are rejected *)
Theorem C06_instance : forall p lbl o t, decode_run T p lbl = Ok (o, t) ->
  0 <= t <= 8 * Z.of_nat (List.length p) /\
  forall n, 8 * Z.of_nat n < t -> too_short (firstn n p) = false ->
    match construct T (Some (firstn n p)) lbl with Lib e => e = EType | Unmodelled _ => True | _ => False end.
Proof.
  intros p lbl o t H. split.
  - exact (C06_decode_in_bounds T p lbl o t C06_label_fields_zero_width H).
  - exact (C06_truncation_rejected T p lbl o t C06_label_fields_zero_width H).
Qed.
Goal True. idtac "PA:C06_instance". Abort.
Print Assumptions C06_instance.
