(* C15 / C07 at the regenerated tables *)
From Coq Require Import NArith ZArith List String.
From Coq.Strings Require Import Byte.
From PyRtcm Require Import Base.Bytes Base.Dec Model.Types Model.Message Model.Reader Spec.Frame Proofs.ObjProofs.
From PyRtcmGen Require Import Tables.
Import ListNotations. Open Scope string_scope.

Theorem C15_header_constant : t_rtcm_hdr T = [xd3].
Proof. vm_compute. reflexivity. Qed.
Goal True. idtac "PA:C15_header_constant". Abort.
Print Assumptions C15_header_constant.

(* the string-range dispatch reaches every entry of the three layout tables; no identity is in two tables *)
Theorem C15_routing_ok : routing_ok T = true.
Proof. vm_compute. reflexivity. Qed.
Goal True. idtac "PA:C15_routing_ok". Abort.
Print Assumptions C15_routing_ok.

(* MSM flag: true on every implemented MSM number (all keys of the MSM table, which cover MSM1-7 of the seven
   constellations), false for every number outside 1070-1229 and for every 4076 sub-type *)
Definition msm_implemented : list string :=
  flat_map (fun c => map (fun l => c ++ l) ["1";"2";"3";"4";"5";"6";"7"]) ["107";"108";"109";"110";"111";"112";"113"].
Theorem C15_ismsm_ok : ismsm_ok T msm_implemented = true.
Proof. vm_compute. reflexivity. Qed.
Goal True. idtac "PA:C15_ismsm_ok". Abort.
Print Assumptions C15_ismsm_ok.

(* every layout starts with the 12-bit message number field; IGS layouts continue with a 3-bit version and the 8-bit sub-type *)
Theorem C15_first_field_ok : first_field_ok T = true.
Proof. vm_compute. reflexivity. Qed.
Goal True. idtac "PA:C15_first_field_ok". Abort.
Print Assumptions C15_first_field_ok.
