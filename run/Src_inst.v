(* Per-run source tie for the CRC kernels: the MiniPy interpretation of the CURRENT source text of
   rtcmhelpers.calc_crc24q / crc2bytes / len2bytes (translated by tools/gen_src.py into PyRtcmGen.Src) equals the
   hand-written model (Model/Crc.v) for EVERY argument.  Together with Properties/C08 (model = GF(2) remainder) this
   carries the CRC theorems to the source text itself, not to a sample of its behaviour. *)
From Coq Require Import ZArith NArith List String Lia.
From Coq.Strings Require Import Byte.
From PyRtcm Require Import Base.Bytes Model.Crc Src.MiniPy Src.MiniPyLemmas.
From PyRtcmGen Require Import Src.
Import ListNotations.
Open Scope string_scope.
Open Scope Z_scope.

Definition C0 : calls := fun _ => None.

(* the shape of calc_crc24q's frame: parameter, then locals in order of first assignment *)
Definition st (m:bytes) (c:N) (o u:pval) : env :=
  [("message", PBytes m); ("poly", PInt 25578747); ("crc", PInt (Z.of_N c)); ("octet", o); ("_", u)].

Ltac run := cbv -[Z.shiftl Z.shiftr Z.lxor Z.land Z.lor Z.of_N Z.eqb N.shiftl N.lxor N.land N.eqb bN bitstep octet_step
                    fold_left to_bytes Z.to_N Z.of_nat List.length calc_crc24q crc_reg].

Definition inner_body := [SAug "crc" OShl (EInt 1); SIf (EBin OAnd (EVar "crc") (EInt 16777216)) [SAug "crc" OXor (EVar "poly")] []].

Lemma inner_ok m c o u v :
  exec_list C0 inner_body (update "_" v (st m c o u)) = POk (FNext (st m (bitstep c) o v)).
Proof.
  run. change 1 with (Z.of_N 1). rewrite of_N_shiftl.
  change 16777216 with (Z.of_N 16777216). rewrite of_N_land, of_N_eqb0.
  unfold bitstep. cbv zeta. change (Z.of_N 1) with 1.
  destruct (N.eqb (N.land (N.shiftl c 1) 16777216) 0); [reflexivity|].
  change 25578747 with (Z.of_N poly) at 2. rewrite of_N_lxor. reflexivity.
Qed.

Definition outer_body := [SAug "crc" OXor (EBin OShl (EVar "octet") (EInt 16)); SFor "_" (IRange (EInt 8)) inner_body].

Lemma outer_ok m c o u b :
  exec_list C0 outer_body (update "octet" (PInt (Z.of_N (bN b))) (st m c o u)) =
  POk (FNext (st m (octet_step c b) (PInt (Z.of_N (bN b))) (PInt 7))).
Proof.
  unfold outer_body. rewrite exec_list_cons, exec_aug.
  replace (eval C0 (EBin OXor (EVar "crc") (EBin OShl (EVar "octet") (EInt 16))) (update "octet" (PInt (Z.of_N (bN b))) (st m c o u)))
    with (@POk pval (PInt (Z.of_N (N.lxor c (N.shiftl (bN b) 16))))).
  2:{ run. change 16 with (Z.of_N 16). now rewrite of_N_shiftl, of_N_lxor. }
  change (update "crc" (PInt (Z.of_N (N.lxor c (N.shiftl (bN b) 16)))) (update "octet" (PInt (Z.of_N (bN b))) (st m c o u)))
    with (st m (N.lxor c (N.shiftl (bN b) 16)) (PInt (Z.of_N (bN b))) u).
  rewrite exec_list_cons, exec_for.
  change (iter_values C0 (IRange (EInt 8)) _) with (@POk (list pval) (map (fun i => PInt (Z.of_nat i)) (seq 0 8))).
  cbv iota beta.
  rewrite (loop_shape N (fun c' u' => st m c' (PInt (Z.of_N (bN b))) u') (fun c' _ => bitstep c')).
  2:{ intros a u0 v. apply inner_ok. }
  rewrite exec_list_nil. rewrite fold_const. reflexivity.
Qed.

Theorem src_calc_crc24q_eq_model : forall m,
  call C0 src_calc_crc24q (PBytes m) = POk (PInt (Z.of_N (calc_crc24q m))).
Proof.
  intro m. unfold call.
  change (f_body src_calc_crc24q) with
    [SAssign "poly" (EInt 25578747); SAssign "crc" (EInt 0); SFor "octet" (IBytes (EVar "message")) outer_body;
     SReturn (EBin OAnd (EVar "crc") (EInt 16777215))].
  change ((f_param src_calc_crc24q, PBytes m) :: map (fun x => (x, PUnbound)) (f_locals src_calc_crc24q))
    with [("message", PBytes m); ("poly", PUnbound); ("crc", PUnbound); ("octet", PUnbound); ("_", PUnbound)].
  rewrite exec_list_cons, exec_assign. cbn [eval]. cbv iota beta.
  rewrite exec_list_cons, exec_assign. cbn [eval]. cbv iota beta.
  change (update "crc" (PInt 0) (update "poly" (PInt 25578747) _)) with (st m 0 PUnbound PUnbound).
  rewrite exec_list_cons, exec_for.
  change (iter_values C0 (IBytes (EVar "message")) (st m 0 PUnbound PUnbound))
    with (@POk (list pval) (map (fun x => PInt (Z.of_N (bN x))) m)).
  cbv iota beta.
  assert (L : forall l c o u, exists o' u',
     loop (exec_list C0 outer_body) "octet" (map (fun x => PInt (Z.of_N (bN x))) l) (st m c o u)
     = POk (FNext (st m (fold_left octet_step l c) o' u'))).
  { induction l as [|b r IH]; intros c o u.
    - exists o, u. reflexivity.
    - cbn [map loop fold_left].
      change (update "octet" (PInt (Z.of_N (bN b))) (st m c o u)) with (update "octet" (PInt (Z.of_N (bN b))) (st m c o u)).
      rewrite outer_ok. apply IH. }
  destruct (L m 0%N PUnbound PUnbound) as (o' & u' & ->).
  rewrite exec_list_cons, exec_return.
  replace (eval C0 (EBin OAnd (EVar "crc") (EInt 16777215)) (st m (fold_left octet_step m 0%N) o' u'))
    with (@POk pval (PInt (Z.of_N (calc_crc24q m)))).
  - reflexivity.
  - run. change 16777215 with (Z.of_N 16777215). rewrite of_N_land. reflexivity.
Qed.

(* linking: crc2bytes calls calc_crc24q; OverflowError of int.to_bytes = None of the model *)
Definition opt_res (o:option bytes) : pres pval := match o with Some b => POk (PBytes b) | None => PErr PyOverflow end.

Theorem src_calc_eq : forall m, run src_prog "calc_crc24q" (PBytes m) = POk (PInt (Z.of_N (calc_crc24q m))).
Proof. intro m. exact (src_calc_crc24q_eq_model m). Qed.

Theorem src_crc2bytes_eq : forall m, run src_prog "crc2bytes" (PBytes m) = opt_res (crc2bytes m).
Proof.
  intro m. unfold run.
  change (link src_prog "crc2bytes") with (Some (call (link [("calc_crc24q", src_calc_crc24q)]) src_crc2bytes)).
  cbv iota beta. unfold call.
  change (f_body src_crc2bytes) with [SReturn (EToBytesBig (ECall "calc_crc24q" (EVar "message")) 3)].
  change ((f_param src_crc2bytes, PBytes m) :: map (fun x => (x, PUnbound)) (f_locals src_crc2bytes)) with [("message", PBytes m)].
  rewrite exec_list_cons, exec_return.
  cbn [eval]. change (link [("calc_crc24q", src_calc_crc24q)] "calc_crc24q") with (Some (call C0 src_calc_crc24q)).
  cbv iota beta. change (lookup "message" [("message", PBytes m)]) with (Some (PBytes m)). cbv iota beta.
  rewrite src_calc_crc24q_eq_model. cbv iota beta.
  replace (Z.of_N (calc_crc24q m) <? 0) with false by (symmetry; apply Z.ltb_ge; lia).
  change (3 <? 0) with false. cbn [orb]. rewrite N2Z.id. change (Z.to_nat 3) with 3%nat.
  unfold crc2bytes. destruct (to_bytes 3 (calc_crc24q m)); reflexivity.
Qed.

Theorem src_len2bytes_eq : forall p, run src_prog "len2bytes" (PBytes p) = opt_res (len2bytes p).
Proof.
  intro p. unfold run.
  change (link src_prog "len2bytes") with (Some (call (link (tl src_prog)) src_len2bytes)).
  cbv iota beta. unfold call.
  change (f_body src_len2bytes) with [SReturn (EToBytesBig (ELen (EVar "payload")) 2)].
  change ((f_param src_len2bytes, PBytes p) :: map (fun x => (x, PUnbound)) (f_locals src_len2bytes)) with [("payload", PBytes p)].
  rewrite exec_list_cons, exec_return.
  cbn [eval]. change (lookup "payload" [("payload", PBytes p)]) with (Some (PBytes p)). cbv iota beta.
  replace (Z.of_nat (List.length p) <? 0) with false by (symmetry; apply Z.ltb_ge; lia).
  change (2 <? 0) with false. cbn [orb]. change (Z.to_nat 2) with 2%nat.
  unfold len2bytes. rewrite <- nat_N_Z, N2Z.id.
  destruct (to_bytes 2 (N.of_nat (List.length p))); reflexivity.
Qed.

Goal True. idtac "PA:src_calc_eq". Abort.
Print Assumptions src_calc_eq.
Goal True. idtac "PA:src_crc2bytes_eq". Abort.
Print Assumptions src_crc2bytes_eq.
Goal True. idtac "PA:src_len2bytes_eq". Abort.
Print Assumptions src_len2bytes_eq.
