(* Per-run source tie: the MiniPy interpretation of the CURRENT source text of
     rtcmhelpers.calc_crc24q / crc2bytes / len2bytes   and   RTCMMessage.serialize / RTCMMessage.identity
   (translated by tools/gen_src.py into PyRtcmGen.Src) equals the hand-written model (Model/Crc.v, Model/Message.v) for
   EVERY argument.  Together with Properties/C08 (model = GF(2) remainder) this carries the CRC theorems to the source
   text itself, not to a sample of its behaviour; src_serialize_eq / src_identity_eq do the same for the framing of a
   payload and for the identity string (a method is a function of the value of self._payload, see Src/MiniPy.v). *)
From Coq Require Import ZArith NArith List String Lia.
From Coq.Strings Require Import Byte.
From PyRtcm Require Import Base.Bytes Base.Dec Model.Types Model.Crc Model.Message Src.MiniPy Src.MiniPyLemmas.
From PyRtcm Require Import Proofs.ObjIdentity.
From PyRtcmGen Require Import Src.
Import ListNotations.
Open Scope string_scope.
Open Scope Z_scope.

(* the shape of calc_crc24q's frame: parameter, then locals in order of first assignment *)
Definition st (m:bytes) (c:N) (o u:pval) : env :=
  [("message", PBytes m); ("poly", PInt 25578747); ("crc", PInt (Z.of_N c)); ("octet", o); ("_", u)].

Ltac run := cbv -[Z.shiftl Z.shiftr Z.lxor Z.land Z.lor Z.of_N Z.eqb N.shiftl N.lxor N.land N.eqb bN bitstep octet_step
                    fold_left to_bytes Z.to_N Z.of_nat List.length calc_crc24q crc_reg].
(* environment bookkeeping: only closed strings are compared *)
Ltac names := cbv [lookup update String.eqb Ascii.eqb Bool.eqb].
(* [run src_prog f] = [call <the functions after f> src_f] *)
Ltac at_func := unfold run, src_prog; rewrite ?link_skip by reflexivity; rewrite link_here.

Definition inner_body := [SAug "crc" OShl (EInt 1); SIf (EBin OAnd (EVar "crc") (EInt 16777216)) [SAug "crc" OXor (EVar "poly")] []].
Definition outer_body := [SAug "crc" OXor (EBin OShl (EVar "octet") (EInt 16)); SFor "_" (IRange (EInt 8)) inner_body].

Section Calc.
  Variable C : calls.      (* calc_crc24q calls nothing: any call environment *)

  Lemma inner_ok m c o u v :
    exec_list C inner_body (update "_" v (st m c o u)) = POk (FNext (st m (bitstep c) o v)).
  Proof.
    run. change 1 with (Z.of_N 1). rewrite of_N_shiftl.
    change 16777216 with (Z.of_N 16777216). rewrite of_N_land, of_N_eqb0.
    unfold bitstep. cbv zeta. change (Z.of_N 1) with 1.
    destruct (N.eqb (N.land (N.shiftl c 1) 16777216) 0); [reflexivity|].
    change 25578747 with (Z.of_N poly) at 2. rewrite of_N_lxor. reflexivity.
  Qed.

  Lemma outer_ok m c o u b :
    exec_list C outer_body (update "octet" (PInt (Z.of_N (bN b))) (st m c o u)) =
    POk (FNext (st m (octet_step c b) (PInt (Z.of_N (bN b))) (PInt 7))).
  Proof.
    unfold outer_body. rewrite exec_list_cons, exec_aug.
    replace (eval C (EBin OXor (EVar "crc") (EBin OShl (EVar "octet") (EInt 16))) (update "octet" (PInt (Z.of_N (bN b))) (st m c o u)))
      with (@POk pval (PInt (Z.of_N (N.lxor c (N.shiftl (bN b) 16))))).
    2:{ run. change 16 with (Z.of_N 16). now rewrite of_N_shiftl, of_N_lxor. }
    change (update "crc" (PInt (Z.of_N (N.lxor c (N.shiftl (bN b) 16)))) (update "octet" (PInt (Z.of_N (bN b))) (st m c o u)))
      with (st m (N.lxor c (N.shiftl (bN b) 16)) (PInt (Z.of_N (bN b))) u).
    rewrite exec_list_cons, exec_for.
    change (iter_values C (IRange (EInt 8)) _) with (@POk (list pval) (map (fun i => PInt (Z.of_nat i)) (seq 0 8))).
    cbv iota beta.
    rewrite (loop_shape N (fun c' u' => st m c' (PInt (Z.of_N (bN b))) u') (fun c' _ => bitstep c')).
    2:{ intros a u0 v. apply inner_ok. }
    rewrite exec_list_nil. rewrite fold_const. reflexivity.
  Qed.

  Theorem src_calc_crc24q_eq_model : forall m,
    call C src_calc_crc24q (PBytes m) = POk (PInt (Z.of_N (calc_crc24q m))).
  Proof.
    intro m. unfold call.
    change (f_body src_calc_crc24q) with
      [SAssign "poly" (EInt 25578747); SAssign "crc" (EInt 0); SFor "octet" (IBytes (EVar "message")) outer_body;
       SReturn (EBin OAnd (EVar "crc") (EInt 16777215))].
    change ((f_param src_calc_crc24q, PBytes m) :: map (fun x => (x, PUnbound)) (f_locals src_calc_crc24q))
      with [("message", PBytes m); ("poly", PUnbound); ("crc", PUnbound); ("octet", PUnbound); ("_", PUnbound)].
    rewrite exec_list_cons, exec_assign. cbn [eval]. cbv iota beta.
    rewrite exec_list_cons, exec_assign. cbn [eval]. cbv iota beta.
    change (update "crc" (PInt 0) (update "poly" (PInt 25578747) _)) with (st m 0 PUnbound PUnbound).
    rewrite exec_list_cons, exec_for.
    change (iter_values C (IBytes (EVar "message")) (st m 0 PUnbound PUnbound))
      with (@POk (list pval) (map (fun x => PInt (Z.of_N (bN x))) m)).
    cbv iota beta.
    assert (L : forall l c o u, exists o' u',
       loop (exec_list C outer_body) "octet" (map (fun x => PInt (Z.of_N (bN x))) l) (st m c o u)
       = POk (FNext (st m (fold_left octet_step l c) o' u'))).
    { induction l as [|b r IH]; intros c o u.
      - exists o, u. reflexivity.
      - cbn [map loop fold_left]. rewrite outer_ok. apply IH. }
    destruct (L m 0%N PUnbound PUnbound) as (o' & u' & ->).
    rewrite exec_list_cons, exec_return.
    replace (eval C (EBin OAnd (EVar "crc") (EInt 16777215)) (st m (fold_left octet_step m 0%N) o' u'))
      with (@POk pval (PInt (Z.of_N (calc_crc24q m)))).
    - reflexivity.
    - run. change 16777215 with (Z.of_N 16777215). rewrite of_N_land. reflexivity.
  Qed.
End Calc.

(* OverflowError of int.to_bytes = None of the model *)
Definition opt_res (o:option bytes) : pres pval := match o with Some b => POk (PBytes b) | None => PErr PyOverflow end.

(* crc2bytes in any call environment whose "calc_crc24q" is the model's *)
Lemma crc2bytes_body C g m :
  C "calc_crc24q" = Some g -> (forall x, g (PBytes x) = POk (PInt (Z.of_N (calc_crc24q x)))) ->
  call C src_crc2bytes (PBytes m) = opt_res (crc2bytes m).
Proof.
  intros HC HG. unfold call.
  change (f_body src_crc2bytes) with [SReturn (EToBytesBig (ECall "calc_crc24q" (EVar "message")) 3)].
  change ((f_param src_crc2bytes, PBytes m) :: map (fun x => (x, PUnbound)) (f_locals src_crc2bytes)) with [("message", PBytes m)].
  rewrite exec_list_cons, exec_return.
  cbn [eval]. rewrite HC.
  change (lookup "message" [("message", PBytes m)]) with (Some (PBytes m)). cbv iota beta.
  rewrite HG. cbv iota beta.
  replace (Z.of_N (calc_crc24q m) <? 0) with false by (symmetry; apply Z.ltb_ge; lia).
  change (3 <? 0) with false. cbn [orb]. rewrite N2Z.id. change (Z.to_nat 3) with 3%nat.
  unfold crc2bytes. destruct (to_bytes 3 (calc_crc24q m)); reflexivity.
Qed.

(* len2bytes calls nothing *)
Lemma len2bytes_body C p : call C src_len2bytes (PBytes p) = opt_res (len2bytes p).
Proof.
  unfold call.
  change (f_body src_len2bytes) with [SReturn (EToBytesBig (ELen (EVar "payload")) 2)].
  change ((f_param src_len2bytes, PBytes p) :: map (fun x => (x, PUnbound)) (f_locals src_len2bytes)) with [("payload", PBytes p)].
  rewrite exec_list_cons, exec_return.
  cbn [eval]. change (lookup "payload" [("payload", PBytes p)]) with (Some (PBytes p)). cbv iota beta.
  replace (Z.of_nat (List.length p) <? 0) with false by (symmetry; apply Z.ltb_ge; lia).
  change (2 <? 0) with false. cbn [orb]. change (Z.to_nat 2) with 2%nat.
  unfold len2bytes. rewrite <- nat_N_Z, N2Z.id.
  destruct (to_bytes 2 (N.of_nat (List.length p))); reflexivity.
Qed.

Theorem src_calc_eq : forall m, run src_prog "calc_crc24q" (PBytes m) = POk (PInt (Z.of_N (calc_crc24q m))).
Proof. intro m. at_func. apply src_calc_crc24q_eq_model. Qed.

Theorem src_crc2bytes_eq : forall m, run src_prog "crc2bytes" (PBytes m) = opt_res (crc2bytes m).
Proof.
  intro m. at_func. eapply crc2bytes_body.
  - rewrite link_here. reflexivity.
  - intro x. apply src_calc_crc24q_eq_model.
Qed.

Theorem src_len2bytes_eq : forall p, run src_prog "len2bytes" (PBytes p) = opt_res (len2bytes p).
Proof. intro p. at_func. apply len2bytes_body. Qed.

(* ================= RTCMMessage.serialize / RTCMMessage.identity ================= *)
(* image of the model's outcomes among MiniPy results; the models of these two methods only produce Ok, Foreign XOverflow
   (int.to_bytes) and Foreign XIndex (payload too short); anything else has no MiniPy counterpart *)
Definition img_exc {A} (o:outcome A) (ok:A -> pval) : pres pval :=
  match o with
  | Ok a => POk (ok a)
  | Foreign XOverflow => PErr PyOverflow
  | Foreign XIndex => PErr PyIndex
  | _ => PErr (PyUnmodelled "outcome without a MiniPy image")
  end.
Definition img_bytes (o:outcome bytes) : pres pval := img_exc o PBytes.
Definition img_str (o:outcome string) : pres pval := img_exc o PStr.

(* ---- serialize, in any call environment whose len2bytes / crc2bytes are the model's ---- *)
Section Serialize.
  Variable C : calls.
  Variables g1 g2 : pval -> pres pval.
  Hypothesis C1 : C "len2bytes" = Some g1.
  Hypothesis C2 : C "crc2bytes" = Some g2.
  Hypothesis G1 : forall p, g1 (PBytes p) = opt_res (len2bytes p).
  Hypothesis G2 : forall p, g2 (PBytes p) = opt_res (crc2bytes p).

  Lemma serialize_body T p : t_rtcm_hdr T = src_const_RTCM_HDR ->
    call C src_serialize (PBytes p) = img_bytes (serialize_payload T p).
  Proof.
    intro HT. unfold call, serialize_payload. rewrite HT.
    cbv [src_serialize f_body f_param f_locals map].
    (* size = len2bytes(self._payload) *)
    rewrite exec_list_cons, exec_assign, eval_call, C1, eval_var. names. rewrite G1.
    destruct (len2bytes p) as [size|]; [|reflexivity]. cbv [opt_res]. names.
    (* message = RTCM_HDR + size + self._payload *)
    rewrite exec_list_cons, exec_assign, !eval_bin, eval_bytes, !eval_var. names. cbv [bind2 binop_val].
    (* crc = crc2bytes(message) *)
    rewrite exec_list_cons, exec_assign, eval_call, C2, eval_var. names. rewrite G2.
    rewrite <- app_assoc.
    destruct (crc2bytes _) as [c|]; [|reflexivity]. cbv [opt_res]. names.
    (* return message + crc *)
    rewrite exec_list_cons, exec_return, eval_bin, !eval_var. names. reflexivity.
  Qed.
End Serialize.

Theorem src_serialize_eq : forall T p, t_rtcm_hdr T = src_const_RTCM_HDR ->
  run src_prog "serialize" (PBytes p) = img_bytes (serialize_payload T p).
Proof.
  intros T p HT. at_func.
  eapply serialize_body; try exact HT.
  - rewrite ?link_skip by reflexivity. rewrite link_here. reflexivity.
  - rewrite ?link_skip by reflexivity. rewrite link_here. reflexivity.
  - intro q. apply len2bytes_body.
  - intro q. eapply crc2bytes_body.
    + rewrite ?link_skip by reflexivity. rewrite link_here. reflexivity.
    + intro x. apply src_calc_crc24q_eq_model.
Qed.

(* ---- identity (calls nothing) ---- *)
Lemma mid_Z b0 b1 : Z.lor (Z.shiftl (Z.of_N (bN b0)) 4) (Z.shiftr (Z.of_N (bN b1)) 4) = Z.of_N (msgnum b0 b1).
Proof.
  unfold msgnum. change 4 with (Z.of_N 4). now rewrite of_N_shiftl, of_N_shiftr, of_N_lor.
Qed.
Lemma sub_Z b1 b2 :
  Z.lor (Z.shiftl (Z.land (Z.of_N (bN b1)) 1) 7) (Z.shiftr (Z.of_N (bN b2)) 1) = Z.of_N (subtype b1 b2).
Proof.
  unfold subtype. change 1 with (Z.of_N 1). change 7 with (Z.of_N 7).
  now rewrite of_N_land, of_N_shiftl, of_N_shiftr, of_N_lor.
Qed.

Ltac run_id := cbv -[Z.shiftl Z.shiftr Z.lor Z.land Z.of_N Z.eqb N.eqb bN msgnum subtype str_int fmt03d_int str_of_N ddd append].

Section Identity.
  Variable C : calls.

  Lemma identity_body p : call C src_identity (PBytes p) = img_str (identity p).
  Proof.
    destruct p as [|b0 [|b1 [|b2 rest]]].
    - reflexivity.
    - reflexivity.
    - run_id. rewrite !mid_Z. change 4076 with (Z.of_N 4076). rewrite of_N_eqb.
      destruct (N.eqb (msgnum b0 b1) 4076); [reflexivity|].
      run_id. rewrite str_int_of_N by apply msgnum_lt. reflexivity.
    - run_id. rewrite !mid_Z, !sub_Z. change 4076 with (Z.of_N 4076). rewrite of_N_eqb.
      destruct (N.eqb (msgnum b0 b1) 4076).
      + run_id. rewrite str_int_of_N by apply msgnum_lt.
        rewrite fmt03d_int_of_N by (pose proof (subtype_lt b1 b2); lia). reflexivity.
      + run_id. rewrite str_int_of_N by apply msgnum_lt. reflexivity.
  Qed.
End Identity.

Theorem src_identity_eq : forall p, run src_prog "identity" (PBytes p) = img_str (identity p).
Proof. intro p. at_func. apply identity_body. Qed.

Goal True. idtac "PA:src_calc_eq". Abort.
Print Assumptions src_calc_eq.
Goal True. idtac "PA:src_crc2bytes_eq". Abort.
Print Assumptions src_crc2bytes_eq.
Goal True. idtac "PA:src_len2bytes_eq". Abort.
Print Assumptions src_len2bytes_eq.
Goal True. idtac "PA:src_serialize_eq". Abort.
Print Assumptions src_serialize_eq.
Goal True. idtac "PA:src_identity_eq". Abort.
Print Assumptions src_identity_eq.
