(* C09 at the regenerated tables: the working tree's PRN / signal tables are the pinned RTCM 10403.3 ones *)
From Coq Require Import NArith ZArith List String Bool.
From PyRtcm Require Import Base.Bytes Model.Types Model.Message Spec.MsmMasks Spec.Pinned Spec.Layouts Proofs.MsmProofs.
From PyRtcmGen Require Import Tables.
Import ListNotations. Open Scope string_scope. Open Scope bool_scope.

Theorem C09_prnsig_tables_match_pins : prnsig_matches (t_prnsig T) = true.
Proof. vm_compute. reflexivity. Qed.
Goal True. idtac "PA:C09_prnsig_tables_match_pins". Abort.
Print Assumptions C09_prnsig_tables_match_pins.

Theorem C09_label_fields : label_fields_zero_width (t_fields T) = true /\ t_na T = "N/A" /\
  t_nsat T = "NSat" /\ t_nsig T = "NSig" /\ t_ncell T = "NCell".
Proof. vm_compute. repeat split; reflexivity. Qed.
Goal True. idtac "PA:C09_label_fields". Abort.
Print Assumptions C09_label_fields.

(* mask fields have the widths the standard gives them and are unscaled bit fields, in every MSM layout in this order *)
Definition mask_fields_ok : bool :=
  match find_field T "DF394", find_field T "DF395", find_field T "DF396" with
  | Some a, Some b, Some c =>
      (df_bits a =? 64)%Z && (df_bits b =? 32)%Z && res_is_unit (df_res a) && res_is_unit (df_res b) && res_is_unit (df_res c) &&
      match df_ty a, df_ty b, df_ty c with TBIT, TBIT, TBITX => true | _, _, _ => false end
  | _, _, _ => false
  end &&
  forallb (fun '(ident, b) => is_subseq ["DF394"; "DF395"; "DF396"] (keys_body b) &&
                              match assoc (substring 0 3 ident) (t_prnsig T) with Some _ => true | None => false end) (t_msm T).
Theorem C09_mask_fields : mask_fields_ok = true.
Proof. vm_compute. reflexivity. Qed.
Goal True. idtac "PA:C09_mask_fields". Abort.
Print Assumptions C09_mask_fields.

(* the derived label fields sit where the masks put them: PRN only inside groups repeated NSat times, CELLPRN / CELLSIG only
   inside groups repeated NCell times, each MSM layout has all three, and no label field occurs outside the MSM layouts *)
Fixpoint label_places_item (cnt:option string) (lbl:string) (it:item) : bool :=
  match it with
  | IField _ =>
      match find_field T lbl with
      | Some fd => match df_ty fd with
                   | TPRN => match cnt with Some c => String.eqb c (t_nsat T) | None => false end
                   | TCPR | TCSG => match cnt with Some c => String.eqb c (t_ncell T) | None => false end
                   | _ => true
                   end
      | None => true
      end
  | IGroup (CNamed k) b => label_places_body (Some k) b
  | IGroup _ b => label_places_body None b
  | IOpt _ _ b => label_places_body cnt b
  | IBad _ => false
  end
with label_places_body (cnt:option string) (b:body) : bool :=
  match b with
  | BNotDict _ => false
  | BItems l => (fix go (l:list (string*item)) : bool := match l with [] => true | (lbl,it)::r => label_places_item cnt lbl it && go r end) l
  end.
Definition is_label_key (k:string) : bool :=
  match find_field T k with Some fd => match df_ty fd with TPRN | TCPR | TCSG => true | _ => false end | None => false end.
Definition label_groups_ok : bool :=
  forallb (fun '(ident, b) => label_places_body None b &&
                              existsb (fun k => match find_field T k with Some fd => match df_ty fd with TPRN => true | _ => false end | None => false end) (keys_body b) &&
                              existsb (fun k => match find_field T k with Some fd => match df_ty fd with TCPR => true | _ => false end | None => false end) (keys_body b) &&
                              existsb (fun k => match find_field T k with Some fd => match df_ty fd with TCSG => true | _ => false end | None => false end) (keys_body b)) (t_msm T) &&
  forallb (fun '(ident, b) => negb (existsb is_label_key (keys_body b))) (t_get T ++ t_igs T).
Theorem C09_label_groups : label_groups_ok = true.
Proof. vm_compute. reflexivity. Qed.
Goal True. idtac "PA:C09_label_groups". Abort.
Print Assumptions C09_label_groups.
