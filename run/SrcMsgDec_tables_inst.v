(* Per-run: the composed source tie of the constructor path of RTCMMessage (run/SrcMsgDec_inst.v) at the REGENERATED tables
   (PyRtcmGen.Tables.T, dumped from the working tree by tools/gen_tables.py): the table conditions are decided by computation,
   and the composed theorems are restated with no table hypothesis left.

   Decided here (vm_compute):
     src_msgdec_tables_ok     tables_ok T: the names NA / NSAT / NSIG / NCELL of the source text are the tables', and all data fields pass fd_ok
     src_msgdec_layouts_ok    every layout of RTCM_PAYLOADS_GET / _GET_MSM / _GET_IGS except that of 4076_201 passes layout_ok (walk_ok ..)
                              and nests at most 4 deep (so a call-depth budget of 10 is enough for every message).
                              4076_201 does not pass: its layout has the label "IDF038" (the harmonic coefficient counts are computed
                              with true division, which PyO does not model) -- run/SrcMsgDec_diag_inst.v shows that it is the only one
                              and that this is the only part of walk_ok it fails.
     src_msgdec_guard_ok      the conditions of Src/PyOMsgDecGuard.v (under which the guard of the guarded field step is never met and
                              no repeat count is a str) hold of the tables and of every layout but that of 4076_201
   FINAL COROLLARY (no table hypotheses; `msg_ident po <> Some "4076_201"` is all that is asked of the message):
     src_construct_eq_tables        __init__ [payload; labelmsm] from the empty store, budget D >= 10  =  construct T po l
                                    (Ok -> returns None, store_rel, frozen; Lib / Foreign -> raises that class; Unmodelled -> nothing)
   and the intermediate forms (they do not use src_msgdec_guard_ok):
     src_construct_guarded_tables   .. = construct_g T po l (the guarded constructor);  construct_g_refines_tables: it refines construct
     src_construct_model_tables     .. = construct T po l  wherever construct_g T po l is not "not modelled" (followed T po l = true)
   Instances on real messages: run/SrcMsgDec_diag_inst.v (kept apart: they depend on the content of particular layouts). *)
From Coq Require Import NArith ZArith List String Bool Lia.
From Coq.Strings Require Import Byte.
From PyRtcm Require Import Base.Bytes Model.Types Model.Message Src.PyO Src.ReaderEnv Src.MsgDecEnv Src.PyOMsgDecLemmas Src.PyOMsgDecGuard.
From PyRtcmGen Require Import Tables SrcOMsgDec SrcMsgDec_inst.
Import ListNotations.
Open Scope string_scope.

(* the one message type that is not covered *)
Definition excluded : list string := ["4076_201"].

Theorem src_msgdec_tables_ok : tables_ok T = true.
Proof. vm_compute. reflexivity. Qed.

Theorem src_msgdec_layouts_ok : layouts_ok T excluded 4 = true.
Proof. vm_compute. reflexivity. Qed.

Lemma not_excluded_iff po : msg_ident po <> Some "4076_201" -> not_excluded excluded po = true.
Proof.
  unfold not_excluded, excluded. destruct (msg_ident po) as [ident|]; [|reflexivity].
  intro H. cbn [existsb]. rewrite orb_false_r. apply negb_true_iff, String.eqb_neq. congruence.
Qed.

(* ================= the composed theorems at the real tables ================= *)
Theorem src_construct_guarded_tables : forall wfuel D po l,
  (10 <= D)%nat -> msg_ident po <> Some "4076_201" ->
  let r := rrun dob W (msgdec_ext T) wfuel srco_msgdec_prog D "__init__" [payload_arg po; VInt l] [] tt in
  match construct_g T po l with
  | Ok o' => exists a', r = (ROk VNone, (a', tt)) /\ store_rel a' o' /\ o_immutable o' = true
  | Lib e => exists a', r = (RExc (liberr_class e), (a', tt))
  | Foreign k => exists a', r = (RExc (dec_exc_class k), (a', tt))
  | Unmodelled _ => True
  end.
Proof.
  intros wfuel D po l HD HN.
  apply (src_construct_guarded_all T wfuel excluded 4 D po l src_msgdec_tables_ok src_msgdec_layouts_ok); [lia|apply not_excluded_iff, HN].
Qed.

Theorem src_construct_model_tables : forall wfuel D po l,
  (10 <= D)%nat -> msg_ident po <> Some "4076_201" -> followed T po l = true ->
  let r := rrun dob W (msgdec_ext T) wfuel srco_msgdec_prog D "__init__" [payload_arg po; VInt l] [] tt in
  match construct T po l with
  | Ok o' => exists a', r = (ROk VNone, (a', tt)) /\ store_rel a' o' /\ o_immutable o' = true
  | Lib e => exists a', r = (RExc (liberr_class e), (a', tt))
  | Foreign k => exists a', r = (RExc (dec_exc_class k), (a', tt))
  | Unmodelled _ => False
  end.
Proof.
  intros wfuel D po l HD HN HF.
  apply (src_construct_model_all T wfuel excluded 4 D po l src_msgdec_tables_ok src_msgdec_layouts_ok); [lia|apply not_excluded_iff, HN|exact HF].
Qed.

(* ================= the guard is never met at the real tables: the source against the model's constructor ================= *)
(* the repeat-count keys ("+n" stripped) of all layouts but the excluded one *)
Definition cks : list string :=
  Eval vm_compute in
  nodup string_dec (flat_map (fun kv => if existsb (String.eqb (fst kv)) excluded then [] else count_keys_body (snd kv)) (all_layouts T)).
(* Src/PyOMsgDecGuard.v: no STR field key / NSAT / NSIG / DF394-6 / count key contains "_"; every field named like one of the latter is
   an int field with resolution 0 or 1; NSAT / NSIG / NCELL are not STR field keys; and in every layout but 4076_201: the count keys are
   in cks, no label IDF038, no label DF396 inside a repeated group *)
Theorem src_msgdec_guard_ok : layouts_guard_ok T excluded cks = true.
Proof. vm_compute. reflexivity. Qed.

(* THE FINAL COROLLARY.  RTCMMessage(payload, labelmsm), as the current source text reads (translated, interpreted by PyO from the
   empty attribute store, call-depth budget D >= 10, any while-budget), against Model.Message.construct at the real tables, for every
   payload (None included) and label option, except messages of type 4076_201:
     construct = Ok o'      -> __init__ returns None; the attribute store is o' (store_rel); o' is frozen
     construct = Lib e      -> raises liberr_class e   (RTCMMessageError / RTCMTypeError ...)
     construct = Foreign k  -> raises dec_exc_class k
     construct = Unmodelled -> nothing claimed (the model itself has no answer: float used as an integer, repeat count > 2^20, ...) *)
Theorem src_construct_eq_tables : forall wfuel D po l,
  (10 <= D)%nat -> msg_ident po <> Some "4076_201" ->
  let r := rrun dob W (msgdec_ext T) wfuel srco_msgdec_prog D "__init__" [payload_arg po; VInt l] [] tt in
  match construct T po l with
  | Ok o' => exists a', r = (ROk VNone, (a', tt)) /\ store_rel a' o' /\ o_immutable o' = true
  | Lib e => exists a', r = (RExc (liberr_class e), (a', tt))
  | Foreign k => exists a', r = (RExc (dec_exc_class k), (a', tt))
  | Unmodelled _ => True
  end.
Proof.
  intros wfuel D po l HD HN.
  apply (src_construct_eq_all T wfuel excluded cks 4 D po l src_msgdec_tables_ok src_msgdec_layouts_ok src_msgdec_guard_ok);
    [lia|apply not_excluded_iff, HN].
Qed.

(* and the refinement, at the real tables: what construct_g answers is what the model's constructor answers *)
Theorem construct_g_refines_tables : forall po l, refines (construct_g T po l) (construct T po l).
Proof. intros po l. apply construct_g_refines. Qed.

Goal True. idtac "PA:src_msgdec_tables_ok". Abort.
Print Assumptions src_msgdec_tables_ok.
Goal True. idtac "PA:src_msgdec_layouts_ok". Abort.
Print Assumptions src_msgdec_layouts_ok.
Goal True. idtac "PA:construct_g_refines_tables". Abort.
Print Assumptions construct_g_refines_tables.
Goal True. idtac "PA:src_construct_guarded_tables". Abort.
Print Assumptions src_construct_guarded_tables.
Goal True. idtac "PA:src_construct_model_tables". Abort.
Print Assumptions src_construct_model_tables.
Goal True. idtac "PA:src_msgdec_guard_ok". Abort.
Print Assumptions src_msgdec_guard_ok.
Goal True. idtac "PA:src_construct_eq_tables". Abort.
Print Assumptions src_construct_eq_tables.
