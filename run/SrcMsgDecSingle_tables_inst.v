(* Per-run: the source tie of RTCMMessage._getsatcellmaps / _set_attribute_single meets the regenerated tables: the constants named in
   the SOURCE TEXT (NA, NSAT, NSIG, NCELL as rtcmtypes_core.py binds them, read by tools/gen_src2.py) are the ones in the working
   tree's tables, and every data field of the working tree's tables passes fd_ok (resolution a number; no unknown type name that
   collides with one the source knows), so the closed theorems of run/SrcMsgDecSingle_inst.v hold at the real tables without table
   hypotheses. *)
From Coq Require Import NArith ZArith List String.
From PyRtcm Require Import Base.Bytes Model.Types Model.Message Src.PyO Src.MsgDecEnv Src.PyOMsgDecLemmas.
From PyRtcmGen Require Import Tables SrcOMsgDec SrcMsgDecSingle_inst.
Import ListNotations.

Theorem src_msgdec_constants :
  t_na T = srco_const_NA /\ t_nsat T = srco_const_NSAT /\ t_nsig T = srco_const_NSIG /\ t_ncell T = srco_const_NCELL.
Proof. vm_compute. repeat split; reflexivity. Qed.
Theorem src_msgdec_fields_ok : forallb fd_ok (t_fields T) = true.
Proof. vm_compute. reflexivity. Qed.

Theorem src_set_attribute_single_guarded_tables : forall wfuel d a o ident anam index offset,
  anam <> "IDF038" -> name_ok srco_msgdec_reserved anam = true -> Forall (fun i => (i < 10 ^ 4300)%Z) index ->
  store_rel a o -> o_immutable o = false -> identity (o_payload o) = Ok ident ->
  agree_ns (o_payload o) single_post (set_single_guarded T ident anam index (o, offset))
    (call dob W (msgdec_ext T) (rlink dob W (msgdec_ext T) wfuel srco_msgdec_prog (S (S d))) wfuel "_set_attribute_single"
       srco_msgdec__set_attribute_single [VStr anam; VInt offset; VList (map (@VInt dob) index)] a tt).
Proof.
  intros. destruct src_msgdec_constants as (C1 & C2 & C3 & C4).
  apply src_set_attribute_single_guarded; try assumption. exact src_msgdec_fields_ok.
Qed.

Goal True. idtac "PA:src_msgdec_constants". Abort.
Print Assumptions src_msgdec_constants.
Goal True. idtac "PA:src_msgdec_fields_ok". Abort.
Print Assumptions src_msgdec_fields_ok.
Goal True. idtac "PA:src_set_attribute_single_guarded_tables". Abort.
Print Assumptions src_set_attribute_single_guarded_tables.
