(* Per-run: the source tie of rtcmhelpers.parse_msm meets the regenerated tables: no epoch attribute named in the working tree's GNSSMAP
   is a name bound in class RTCMMessage (as read from the current text) or a fixed instance attribute, so the current text of
   parse_msm, interpreted in the environment built from the real tables and any message object o, is Model.Helpers.parse_msm T o. *)
From Coq Require Import NArith ZArith List String.
From PyRtcm Require Import Base.Bytes Model.Types Model.Message Model.Helpers Src.PyO Src.ArrEnv.
From PyRtcmGen Require Import Tables SrcOArr SrcArr_inst.
Import ListNotations.

Theorem src_arr_gnss_ok : gnss_ok T srco_arr_reserved = true.
Proof. vm_compute. reflexivity. Qed.

Theorem src_parse_msm_eq_tables : forall wfuel o a w,
  count_not_str o "NSat" -> count_not_str o "NCell" -> modelled (parse_msm T o) ->
  run Ob W (arr_ext T srco_arr_reserved o) wfuel srco_arr_prog "parse_msm" [VRef "msg"] a w = (img_msm (parse_msm T o), (a, tt)).
Proof. intros wfuel o a w. apply src_parse_msm_eq. exact src_arr_gnss_ok. Qed.

Goal True. idtac "PA:src_arr_gnss_ok". Abort.
Print Assumptions src_arr_gnss_ok.
Goal True. idtac "PA:src_parse_msm_eq_tables". Abort.
Print Assumptions src_parse_msm_eq_tables.
