From Coq Require Import List String ZArith.
From PyRtcm Require Import Model.Types Model.Message Spec.Layouts Spec.PinnedLengths.
From PyRtcmGen Require Import Tables.
Eval vm_compute in (layout_problems T).
Eval vm_compute in (length_mismatches T).
Eval vm_compute in (sibling_failures T).
