(* Per-run: the source tie of the reader meets the regenerated tables.
   (1) the framing constants named in the SOURCE TEXT (UBX_HDR, NMEA_HDR, VALCKSUM, ERR_RAISE, ERR_LOG as rtcmtypes_core.py binds
       them, read by tools/gen_src2.py) are the ones in the working tree's tables (Tables.v, read from the runtime objects);
   (2) the real constructor never raises EOFError (consequence of C04_construct_no_foreign), which is the one hypothesis of the
       source theorems;
   (3) hence the CURRENT text of RTCMReader.read, interpreted over a file with ANY fault schedule and the real constructor, is the
       model's read() -- the very term the C01 / C02 / C04 / C05 / C17 theorems and the correspondence check are about
       (run_reads / iterate are its iteration). *)
From Coq Require Import NArith ZArith List String Lia.
From Coq.Strings Require Import Byte.
From PyRtcm Require Import Base.Bytes Model.Types Model.Message Model.Reader Src.PyO Src.ReaderEnv Corr.Obs Proofs.DecodeWalk.
From PyRtcmGen Require Import Tables SrcOReader SrcReader_inst.
Import ListNotations.

Theorem src_reader_constants :
  t_nmea_hdr T = srco_const_NMEA_HDR /\ t_ubx_hdr T = srco_const_UBX_HDR /\ t_valcksum T = srco_const_VALCKSUM /\
  t_err_raise T = srco_const_ERR_RAISE /\ t_err_log T = srco_const_ERR_LOG.
Proof. vm_compute. repeat split; reflexivity. Qed.

Lemma ctor_no_eof : no_eof obj (ctor T).
Proof.
  intros p l H. pose proof (construct_no_foreign T (Some p) l) as N. unfold ctor in H. rewrite H in N. exact N.
Qed.

Theorem src_read_eq_tables : forall St (ops:stream_ops St) c h fuel wfuel st log0 hlog o st',
  read ops (ctor T) (t_nmea_hdr T) (t_ubx_hdr T) (t_valcksum T) (t_err_raise T) (t_err_log T) c fuel st = (hlog, o, st') ->
  o <> ROutOfFuel -> (fuel < wfuel)%nat ->
  run obj (W St) (reader_ext St obj ops (ctor T)) wfuel srco_reader_prog "read" [] (reader_self obj c h) (st, log0)
    = (image obj o, (reader_self obj c h, (st', (log0 ++ hlog)%list))).
Proof.
  intros St ops c h fuel wfuel st log0 hlog o st' HR HO Hlt.
  destruct src_reader_constants as (E1 & E2 & E3 & E4 & E5).
  rewrite E1, E2, E3, E4, E5 in HR.
  eapply src_read_eq_any_budget; eauto. exact ctor_no_eof.
Qed.

Goal True. idtac "PA:src_reader_constants". Abort.
Print Assumptions src_reader_constants.
Goal True. idtac "PA:src_read_eq_tables". Abort.
Print Assumptions src_read_eq_tables.
