(* Per-run source tie for three module-level functions of rtcmhelpers: the PyO interpretation (Src/PyO.v) of the CURRENT source
   text of
     att2idx / att2name / datadesc
   (translated by tools/gen_src2.py `helpers` into PyRtcmGen.SrcOHelpers) equals the hand-written model (Model/Helpers.v: att2idx,
   att2name, datadesc) for ALL strings, ALL tables T, and any attribute store / world (they are functions: `self` is not used).
   The environment (what `k in RTCM_DATA_FIELDS` and RTCM_DATA_FIELDS[k] mean; how the model's results read as interpreter
   results) is Src/HelpersEnv.v; the generic lemmas (split_char = split_us, rsplit1_char = rsplit1_aux, the tuple comprehension)
   are Src/PyOHelpersLemmas.v. *)
From Coq Require Import ZArith NArith List String Ascii Bool Lia.
From PyRtcm Require Import Base.Bytes Base.Dec Model.Types Model.Message Model.Helpers.
From PyRtcm Require Import Src.PyO Src.PyOLemmas Src.PyOReaderLemmas Src.PyOHelpersLemmas Src.ReaderEnv Src.HelpersEnv.
From PyRtcmGen Require Import SrcOHelpers.
Import ListNotations.
Open Scope string_scope.
Open Scope Z_scope.

(* ---------- symbolic execution (the technique of run/SrcReader_inst.v / run/SrcMsg_inst.v) ---------- *)
Ltac interp t :=
  eval cbv [PyO.exec PyO.eval PyO.eval_list PyO.assign target_expr ret lookup update
            truth unop_val eq_val cmp_val
            set_locals set_self set_world locals self world
            String.eqb Ascii.eqb Bool.eqb negb] in t.
(* builtins, subscripts, comprehensions, questions to the environment: their result is not known by computation, so an
   expression containing one is opened node by node until it is exposed *)
Ltac special e :=
  lazymatch e with
  | context [EIndex _ _] => idtac
  | context [ECallB _ _] => idtac
  | context [ECallX _ _] => idtac
  | context [ETupleRange _ _ _ _] => idtac
  end.
(* the unfolding equations hold by computation: use them as conversions *)
Ltac rw E := lazymatch type of E with ?l = ?r => change l with r end.
Ltac step_stmt :=
  match goal with
  | |- context [PyO.assign ?Ob ?W ?tg ?v (Build_state ?A ?B ?l ?sf ?w)] =>
      let t := constr:(PyO.assign Ob W tg v (Build_state A B l sf w)) in
      let t' := interp t in change t with t'
  | |- context [PyO.exec ?Ob ?W ?ext ?M ?wf ?st (Build_state ?A ?B ?l ?sf ?w)] =>
      let s := constr:(Build_state A B l sf w) in
      let t := constr:(PyO.exec Ob W ext M wf st s) in
      lazymatch st with
      | SIf ?c ?th ?el => rw (exec_if Ob W ext M wf c th el s)
      | STry ?b ?hs => rewrite (exec_try Ob W ext M wf b hs s)
      | SWhile _ _ => fail
      | SAssign ?tg ?e => first [ special e; rw (exec_assign Ob W ext M wf tg e s) | let t' := interp t in change t with t' ]
      | SReturn ?e => first [ special e; rw (exec_return Ob W ext M wf e s) | let t' := interp t in change t with t' ]
      | _ => let t' := interp t in change t with t'
      end
  | |- context [PyO.eval_list ?Ob ?W ?ext ?M ?l (Build_state ?A ?B ?lc ?sf ?w)] =>
      let s := constr:(Build_state A B lc sf w) in
      lazymatch l with
      | [] => rw (eval_list_nil Ob W ext M s)
      | ?a :: ?r => rw (eval_list_cons Ob W ext M a r s)
      end
  | |- context [PyO.eval ?Ob ?W ?ext ?M ?e (Build_state ?A ?B ?l ?sf ?w)] =>
      let s := constr:(Build_state A B l sf w) in
      let t := constr:(PyO.eval Ob W ext M e s) in
      first
      [ special e;
        lazymatch e with
        | EIndex ?a ?i => rw (eval_index Ob W ext M a i s)
        | EAnd ?a ?b => rw (eval_and Ob W ext M a b s)
        | EUn ?o ?a => rw (eval_un Ob W ext M o a s)
        | ECmp ?a [(?o, ?b)] => rewrite (eval_cmp1 Ob W ext M a o b s)
        | ECallB ?f ?args => rw (eval_callb Ob W ext M f args s)
        | ECallX ?c ?args => rw (eval_callx Ob W ext M c args s)
        | ETupleRange ?x ?lo ?hi ?b => rewrite (eval_tuplerange Ob W ext M x lo hi b s)
        end
      | let t' := interp t in change t with t' ]
  end.
Ltac rd := cbv [PyO.exec_list set_world set_self set_locals]; cbv beta iota;
  cbn [truth cmp_last cmp_val eq_val unop_val negb world self locals builtin_val].
Ltac sx := rd; repeat (step_stmt; rd).
(* len(x) == k, k < len(x) on literals *)
Ltac zc :=
  match goal with
  | |- context [Z.of_nat ?n =? ?k] =>
      let b := eval vm_compute in (Z.of_nat n =? k) in
      lazymatch b with true => idtac | false => idtac end; change (Z.of_nat n =? k) with b
  | |- context [?k <? Z.of_nat ?n] =>
      let b := eval vm_compute in (k <? Z.of_nat n) in
      lazymatch b with true => idtac | false => idtac end; change (k <? Z.of_nat n) with b
  end.

Section Helpers.
Variable T : tables.
Variable wfuel : nat.
Notation ext := (helpers_ext T).
Notation run_ := (run Ob W ext wfuel srco_helpers_prog).

Ltac at_meth := unfold run, srco_helpers_prog; rewrite ?link_skip by reflexivity; rewrite link_here.
Ltac enter m := cbv [call m m_params m_locals m_body bind_params map app].

(* ================= 1. att2name ================= *)
Theorem src_att2name_eq s a w :
  run_ "att2name" [VStr s] a w = (ROk (VStr (att2name s)), (a, w)).
Proof.
  at_meth. enter srco_helpers_att2name. sx.
  unfold att2name. rewrite <- split_char_split_us. pose proof (split_char_nonnil "_" s) as N.
  destruct (split_char "_" s) as [|h tl]; [congruence|]. reflexivity.
Qed.

(* ================= 2. att2idx ================= *)
Theorem src_att2idx_eq s a w :
  run_ "att2idx" [VStr s] a w = (img_idx (att2idx s), (a, w)).
Proof.
  at_meth. enter srco_helpers_att2idx. unfold att2idx. rewrite <- split_char_split_us.
  sx. rewrite map_length.
  generalize (split_char "_" s) as l. intro l.
  destruct l as [|x [|y [|z r]]].
  - (* impossible for split, but the two sides agree anyway: 0 *)
    cbn [List.length]. zc. sx. zc. sx. reflexivity.
  - cbn [List.length]. zc. sx. zc. sx. reflexivity.
  - (* one group level: int(att[1]) *)
    cbn [List.length]. zc. sx.
    change (index_list Ob (map VStr [x; y]) 1) with (@ROk (val Ob) (VStr y)). sx.
    (* ValueError is caught: 0 *)
    destruct (py_int y) as [n| |]; sx; reflexivity.
  - (* nested group levels: tuple(int(att[i]) for i in range(1, ln)) *)
    set (l := x :: y :: z :: r).
    assert (E2 : (Z.of_nat (List.length l) =? 2) = false) by (apply Z.eqb_neq; cbn [List.length l]; lia).
    assert (G2 : (2 <? Z.of_nat (List.length l)) = true) by (apply Z.ltb_lt; cbn [List.length l]; lia).
    rewrite E2. sx. rewrite G2. sx.
    replace (Z.to_nat (Z.of_nat (List.length l) - 1)) with (List.length (y :: z :: r)) by (cbn [List.length l]; lia).
    rewrite range_from_1.
    rewrite (tr_go_ints Ob W ext _ "i" "att" l) with (rest := y :: z :: r) by reflexivity.
    destruct (ints (y :: z :: r)) as [[t|]|]; sx; reflexivity.
Qed.

(* ================= 3. datadesc ================= *)
Lemma ext_contains k w :
  ext {| c_name := "RTCM_DATA_FIELDS.__contains__"; c_kw := [] |} [VStr k] w
  = (ROk (VBool (match find_field T k with Some _ => true | None => false end)), w).
Proof. reflexivity. Qed.
Lemma ext_field k w :
  ext {| c_name := "RTCM_DATA_FIELDS[]"; c_kw := [] |} [VStr k] w
  = (match find_field T k with Some fd => ROk (field_tuple fd) | None => RExc "KeyError" end, w).
Proof. reflexivity. Qed.

(* what `call` makes of the outcome of a method body *)
Definition finish (p:res (ctl Ob) * state Ob W) : res (val Ob) * (env Ob * W) :=
  match p with
  | (ROk (CRet _ v), s1) => (ROk v, (self Ob W s1, world Ob W s1))
  | (ROk (CNext _), s1) => (ROk VNone, (self Ob W s1, world Ob W s1))
  | (ROk (CBreak _ | CCont _), s1) => (RFail (FUnmodelled "break/continue outside a loop"), (self Ob W s1, world Ob W s1))
  | (RExc c, s1) => (RExc c, (self Ob W s1, world Ob W s1))
  | (RFail f, s1) => (RFail f, (self Ob W s1, world Ob W s1))
  end.

(* the statements of datadesc after `key = datafield` *)
Definition dd_cond : expr :=
  match srco_helpers_datadesc.(m_body) with _ :: SWhile c _ :: _ => c | _ => ENone end.
Definition dd_body : list stmt :=
  match srco_helpers_datadesc.(m_body) with _ :: SWhile _ b :: _ => b | _ => [] end.
Definition dd_rest : list stmt :=
  match srco_helpers_datadesc.(m_body) with _ :: SWhile _ _ :: r => r | _ => [] end.
Definition dd_state (s key:string) (a:env Ob) (w:W) : state Ob W :=
  {| locals := [("datafield", VStr s); ("key", VStr key); ("_", VUnbound); ("desc", VUnbound)]; self := a; world := w |}.

(* no method is called: any method table *)
Section Loop.
Variable M0 : string -> option (mcall Ob W).

(* the loop and what follows it, with loop budget k and the model's fuel both beyond the length of the key *)
Lemma dd_loop_ok s a w : forall k fuel key,
  (String.length key < k)%nat -> (String.length key < fuel)%nat ->
  finish (match wloop Ob W (eval Ob W ext M0 dd_cond) (PyO.exec_list Ob W ext M0 wfuel dd_body) k (dd_state s key a w) with
          | (ROk (CNext _), s1) => PyO.exec_list Ob W ext M0 wfuel dd_rest s1
          | other => other end)
  = (img_desc (datadesc_loop T fuel key), (a, w)).
Proof.
  induction k as [|k IH]; intros fuel key Hk Hf; [lia|].
  destruct fuel as [|f]; [lia|].
  rewrite wloop_S. unfold dd_state at 1. cbv [dd_cond dd_body dd_rest srco_helpers_datadesc m_body].
  cbn [datadesc_loop].
  sx. rewrite ext_contains.
  destruct (find_field T key) as [fd|] eqn:EF.
  - (* key in RTCM_DATA_FIELDS: the loop ends *)
    sx. rewrite ext_field, EF. unfold field_tuple. sx. reflexivity.
  - sx. rewrite contains_us_rsplit.
    pose proof (rsplit1_char_aux key) as ER.
    destruct (rsplit1_aux key) as [h|] eqn:EA.
    + (* strip the last "_suffix" and go round again *)
      sx. destruct (rsplit1_char "_" key) as [[h' tl]|]; cbn [option_map fst] in ER; [|discriminate].
      injection ER as ->.
      change (index_list Ob [VStr h; VStr tl] 0) with (@ROk (val Ob) (VStr h)). sx.
      pose proof (rsplit1_aux_shorter key h EA) as Hl.
      apply (IH f h); lia.
    + (* no "_" left: RTCM_DATA_FIELDS[key] raises KeyError *)
      sx. rewrite ext_field, EF. sx. reflexivity.
Qed.

Lemma datadesc_ok s a w :
  (String.length s < wfuel)%nat ->
  call Ob W ext M0 wfuel "datadesc" srco_helpers_datadesc [VStr s] a w = (img_desc (datadesc T s), (a, w)).
Proof.
  intro Hw.
  change (call Ob W ext M0 wfuel "datadesc" srco_helpers_datadesc [VStr s] a w)
    with (finish (PyO.exec_list Ob W ext M0 wfuel (m_body srco_helpers_datadesc)
                    {| locals := [("datafield", VStr s); ("key", VUnbound); ("_", VUnbound); ("desc", VUnbound)]; self := a; world := w |})).
  change (m_body srco_helpers_datadesc)
    with (SAssign (TVar "key") (EVar "datafield") :: SWhile dd_cond dd_body :: dd_rest).
  rewrite exec_list_cons. step_stmt. cbv beta iota.
  rewrite exec_list_cons, exec_while.
  unfold datadesc. apply (dd_loop_ok s a w wfuel (S (String.length s)) s); lia.
Qed.
End Loop.

(* the interpreter's loop budget must exceed the length of the string (at most one round per character, plus the last test of
   the condition); the model's own fuel is S (length s) *)
Theorem src_datadesc_eq s a w :
  (String.length s < wfuel)%nat ->
  run_ "datadesc" [VStr s] a w = (img_desc (datadesc T s), (a, w)).
Proof. intro Hw. at_meth. apply datadesc_ok. exact Hw. Qed.
End Helpers.

Goal True. idtac "PA:src_att2name_eq". Abort.
Print Assumptions src_att2name_eq.
Goal True. idtac "PA:src_att2idx_eq". Abort.
Print Assumptions src_att2idx_eq.
Goal True. idtac "PA:src_datadesc_eq". Abort.
Print Assumptions src_datadesc_eq.
