(* C10 — table obligations decided by the kernel on the tables of the working tree as they are now. *)
From Coq Require Import List String ZArith.
From PyRtcm Require Import Model.Types Model.Message Spec.Layouts Spec.PinnedLengths.
From PyRtcmGen Require Import Tables.
Import ListNotations.

(* every layout: all field keys defined, no malformed node, counts / conditions refer to unscaled integer fields decoded
   earlier at a sufficient nesting depth, label fields of width 0 inside groups, signed widths >= 1, text fields 8 unscaled bits *)
Theorem C10_layouts_wellformed : layout_problems T = [].
Proof. vm_compute. reflexivity. Qed.
Goal True. idtac "PA:C10_layouts_wellformed". Abort.
Print Assumptions C10_layouts_wellformed.

(* every identity with a pinned length occupies exactly that polynomial of its repeat counts *)
Theorem C10_lengths_match_pins : length_mismatches T = [].
Proof. vm_compute. reflexivity. Qed.
Goal True. idtac "PA:C10_lengths_match_pins". Abort.
Print Assumptions C10_lengths_match_pins.

(* composite / extended / parallel families *)
Theorem C10_siblings : sibling_failures T = [].
Proof. vm_compute. reflexivity. Qed.
Goal True. idtac "PA:C10_siblings". Abort.
Print Assumptions C10_siblings.

Theorem C10_counts : (100 <= List.length (sibling_checks T))%nat /\ (140 <= List.length (all_layouts T))%nat.
Proof. vm_compute. split; repeat constructor. Qed.
Goal True. idtac "PA:C10_counts". Abort.
Print Assumptions C10_counts.
