(* C01, instantiated at the regenerated tables: the reader exactly as the correspondence check evaluates it
   (obs_reader_file / obs_reader_sock in Corr/Obs.v) satisfies the generic theorems.  Fails to compile if a
   framing constant of the working tree (VALCKSUM, ERR_RAISE, ERR_LOG) differs from the one the proofs are about. *)
From Coq Require Import NArith ZArith List.
From Coq.Strings Require Import Byte.
From PyRtcm Require Import Base.Bytes Model.Types Model.Message Model.Reader Model.Socket Spec.StreamLaw Spec.Frame Proofs.ReaderProofs Corr.Obs Properties.C01.
From PyRtcmGen Require Import Tables.
Import ListNotations.

Theorem C01_constants : t_valcksum T = 1%Z /\ t_err_raise T = 2%Z /\ t_err_log T = 1%Z /\ t_rtcm_hdr T = [xd3].
Proof. vm_compute. repeat split; reflexivity. Qed.
Goal True. idtac "PA:C01_constants". Abort.
Print Assumptions C01_constants.

Theorem C01_file_instance : forall c fuel k s evs s',
  Z.land (validate c) 1 <> 0%Z -> parsed c = true ->
  run_reads file_ops (ctor T) (t_nmea_hdr T) (t_ubx_hdr T) (t_valcksum T) (t_err_raise T) (t_err_log T) c fuel k s = (evs, s') ->
  exists gaps tail, length gaps = length (Frame.yields evs) /\
    rest s = interleave gaps (map fst (Frame.yields evs)) ++ tail ++ rest s' /\
    Forall (parsed_ok (ctor T) c) (Frame.yields evs).
Proof. exact (C01_run_reads_sound file_ops rest C01_file_stream_lawful (ctor T) (t_nmea_hdr T) (t_ubx_hdr T)). Qed.
Goal True. idtac "PA:C01_file_instance". Abort.
Print Assumptions C01_file_instance.

Theorem C01_socket_instance : forall chunked dz c fuel k s evs s',
  Z.land (validate c) 1 <> 0%Z -> parsed c = true ->
  run_reads (sock_ops chunked dz) (ctor T) (t_nmea_hdr T) (t_ubx_hdr T) (t_valcksum T) (t_err_raise T) (t_err_log T) c fuel k s = (evs, s') ->
  exists gaps tail, length gaps = length (Frame.yields evs) /\
    Proofs.ChunkReadProofs.cpending chunked dz s = interleave gaps (map fst (Frame.yields evs)) ++ tail ++ Proofs.ChunkReadProofs.cpending chunked dz s' /\
    Forall (parsed_ok (ctor T) c) (Frame.yields evs).
Proof. exact (fun chunked dz => C01_run_reads_sound (sock_ops chunked dz) _ (C01_socket_stream_lawful chunked dz) (ctor T) (t_nmea_hdr T) (t_ubx_hdr T)). Qed.
Goal True. idtac "PA:C01_socket_instance". Abort.
Print Assumptions C01_socket_instance.
