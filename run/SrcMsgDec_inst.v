(* Per-run source tie for the WHOLE constructor path of rtcmmessage.RTCMMessage:
     RTCMMessage(payload, labelmsm)  =  __init__ -> _do_attributes -> _set_attribute -> _set_attribute_group / _optional -> ... ->
                                        _set_attribute_single -> _getsatcellmaps
   as translated by tools/gen_src2.py `msgdec` into PyRtcmGen.SrcOMsgDec and interpreted by Src/PyO.v with recursive linking
   (rrun .. srco_msgdec_prog D "__init__"), against the hand-written model Model/Message.v (construct), for ALL tables T, payloads
   (None included) and label options.  Environment and store layout: Src/MsgDecEnv.v.

   This file only COMPOSES the three per-run ties
     run/SrcMsgDecSingle_inst.v   _getsatcellmaps, _set_attribute_single  = getsatcellmaps, set_single        (guarded form)
     run/SrcMsgDecWalk_inst.v     _set_attribute / _group / _optional      = dec_item_s / dec_body_s over an abstract field step
     run/SrcMsgDecTop_inst.v      _do_attributes, __init__                 = do_attributes_w / construct_w over an abstract walk step
   no method body is executed here.

   WHAT IS PROVED.
   (4) src_construct_eq -- THE COMPOSED THEOREM.  Under DECIDABLE conditions on the tables and on the layout of the message
       (tables_ok T, layout_cond T po, guard_cond T cks po) and with a call-depth budget D >= depth_needed T po,
         r := rrun dob W (msgdec_ext T) wfuel srco_msgdec_prog D "__init__" [payload_arg po; VInt l] [] tt      (EMPTY store)
         construct T po l = Ok o'      -> exists a', r = (ROk VNone, (a', tt)) /\ store_rel a' o' /\ o_immutable o' = true
                          = Lib e      -> exists a', r = (RExc (liberr_class e), (a', tt))
                          = Foreign k  -> exists a', r = (RExc (dec_exc_class k), (a', tt))
                          = Unmodelled -> nothing claimed
       construct is Model.Message.construct itself, the constructor the theorems C03 / C04 / C06 / C09 are about.
   It is obtained in three steps, each a theorem of its own (the first two need fewer conditions and stay usable where guard_cond fails):
   (1) construct_g T po l  -- "the guarded constructor": Model.Message.construct with
         - the field step set_single replaced by set_single_guarded T ident (Src/PyOMsgDecLemmas.v): set_single where the test
           single_pre holds of (label, index, object, offset), "not modelled" elsewhere.  single_pre is a test on the RUNNING object:
           a STR field finds its attribute absent or a str; at DF396 the attributes NSAT / NSIG are absent or ints, and the object
           handed to _getsatcellmaps has no str among DF394 / DF395 / DF396 and reads DF396 as an int if the masks select no cell;
         - a str-valued repeat count "not modelled" (dec_item_s; PyO has no range() of a non-int, CPython raises TypeError).
       construct_g_refines:  every outcome of construct_g other than "not modelled" IS the outcome of construct T po l.
   (2) src_construct_guarded: under tables_ok T, layout_cond T po and the budget, the run r is construct_g T po l (as in (4), with
       construct_g for construct).  (3) src_construct_model reads (1) and (2) together: if construct_g T po l is not "not modelled"
       (followed T po l = true, a computable test on the payload) the run has the outcome of construct T po l.
   (3') construct_g_eq: under guard_cond T cks po the guard is never met -- construct_g T po l = construct T po l
       (Src/PyOMsgDecGuard.v: a typing invariant of the attributes set so far is kept by the walk and implies single_pre; it also
       makes every repeat count an int).  (2) and (3') give (4).

   THE HYPOTHESES that remain (all boolean, decided per run in run/SrcMsgDec_tables_inst.v):
     tables_ok T        the four names NA / NSAT / NSIG / NCELL of the source text are T's, and every data field passes fd_ok
                        (resolution a number; an unknown type name is not one the source knows)
     layout_cond T po   the layout b of THIS message (get_dict T ident; none -> no condition) passes
                        walk_ok srco_msgdec_reserved (name_ok srco_msgdec_reserved) b:
                        no label "IDF038" at any level (true division, not in PyO: excludes exactly message 4076_201), no duplicate
                        labels in a dict, count / condition keys not a prefix of a fixed attribute or of a name bound in the class,
                        no label that IS a fixed attribute or a name bound in the class
     guard_cond T cks po  (only for (3') and (4); cks: any list of strings, meant: the repeat-count keys of the layouts)
                        gt_ok T cks: no STR field key, none of NSAT / NSIG / DF394 / DF395 / DF396 and no key in cks contains "_"; every
                        data field whose key is one of those five or starts with a key in cks is an int field (not CHA / STR / PRN / CPR /
                        CSG, resolution 0 or 1); NSAT / NSIG / NCELL are not STR field keys;
                        g_body cks false b for the layout b of THIS message: the count key of every group is in cks, no label "IDF038",
                        no label "DF396" inside a repeated group
     depth_needed T po <= D
                        call-depth budget: 3 (__init__, _do_attributes, _set_attribute at the top) + 2 per nesting level + 3
                        (_set_attribute_single, _getsatcellmaps, identity / __setattr__ below it)
   wfuel (the `while` budget) is arbitrary: the path has no while loop.
   The same for every message of the tables at once (layouts_ok, layouts_guard_ok, with a list excl of excluded identities):
   src_construct_guarded_all, src_construct_model_all, src_construct_eq_all. *)
From Coq Require Import ZArith NArith List String Bool Lia.
From PyRtcm Require Import Base.Bytes Model.Types Model.Message.
From PyRtcm Require Import Proofs.DecodeWalk.
From PyRtcm Require Import Src.PyO Src.ReaderEnv Src.MsgDecEnv Src.PyOMsgDecLemmas Src.PyOMsgDecGuard.
From PyRtcm Require Src.PyOMsgDecWalkLemmas.
From PyRtcmGen Require Import SrcOMsgDec.
From PyRtcmGen Require SrcMsgDecSingle_inst SrcMsgDecWalk_inst SrcMsgDecTop_inst.
Import ListNotations.
Open Scope string_scope.

Module WL := PyRtcm.Src.PyOMsgDecWalkLemmas.
Module S1 := PyRtcmGen.SrcMsgDecSingle_inst.
Module S2 := PyRtcmGen.SrcMsgDecWalk_inst.
Module S3 := PyRtcmGen.SrcMsgDecTop_inst.

(* ================= the conditions, as booleans ================= *)
Notation nm_ok := (name_ok srco_msgdec_reserved).

(* the module constants the source text names are the ones of the tables; every data field is one the source can be followed on *)
Definition consts_ok (T:tables) : bool :=
  String.eqb (t_na T) srco_const_NA && String.eqb (t_nsat T) srco_const_NSAT &&
  String.eqb (t_nsig T) srco_const_NSIG && String.eqb (t_ncell T) srco_const_NCELL.
Definition tables_ok (T:tables) : bool := consts_ok T && forallb fd_ok (t_fields T).

(* a layout the walk can be followed on *)
Definition layout_ok (b:body) : bool := WL.walk_ok srco_msgdec_reserved nm_ok b.

(* the layout of the message in a payload, if it has one *)
Definition msg_layout (T:tables) (po:option bytes) : option body :=
  match po with
  | Some p => match identity p with Ok ident => get_dict T ident | _ => None end
  | None => None
  end.
Definition layout_cond (T:tables) (po:option bytes) : bool :=
  match msg_layout T po with Some b => layout_ok b | None => true end.
(* call depth: __init__ > _do_attributes > _set_attribute [> _set_attribute_group / _optional > _set_attribute]* >
   _set_attribute_single > _getsatcellmaps > identity / __setattr__ *)
Definition depth_needed (T:tables) (po:option bytes) : nat :=
  6 + match msg_layout T po with Some b => WL.body_depth b | None => 0 end.

Lemma consts_ok_eqs T : consts_ok T = true ->
  t_na T = srco_const_NA /\ t_nsat T = srco_const_NSAT /\ t_nsig T = srco_const_NSIG /\ t_ncell T = srco_const_NCELL.
Proof.
  unfold consts_ok. intro H. repeat (apply andb_true_iff in H; destruct H as [H ?]).
  repeat split; apply String.eqb_eq; assumption.
Qed.

(* the first argument of the constructor call: the payload bytes, or None *)
Definition payload_arg (po:option bytes) : val dob := match po with Some p => VBytes p | None => VNone end.

(* ================= the guarded constructor ================= *)
Section Compose.
Variable T : tables.

(* the field step the source of _set_attribute_single is tied to *)
Definition leaf_g (ident:string) : string -> list Z -> st -> outcome st := set_single_guarded T ident.
(* one entry of the top-level layout (index list empty) *)
Definition ditem_g (ident lbl:string) (it:item) (s:st) : outcome st := WL.dec_item_s (leaf_g ident) lbl it [] s.
(* Model.Message.construct over that step (S3.construct_w: construct with the walk step a parameter; S3.construct_w_model: with
   the model's own step it IS construct) *)
Definition construct_g (po:option bytes) (l:Z) : outcome obj := S3.construct_w T ditem_g po l.

(* r_s is r, or "not modelled" *)
Definition refines {A} (r_s r:outcome A) : Prop := match r_s with Unmodelled _ => True | _ => r = r_s end.

Lemma leaf_g_refines ident anam index s : WL.refines (leaf_g ident anam index s) (set_single T ident anam index s).
Proof.
  unfold leaf_g, WL.refines. pose proof (set_single_guarded_refines T ident anam index s) as H.
  destruct (set_single_guarded T ident anam index s); auto.
Qed.
Lemma ditem_g_refines ident lbl it s : S3.refines (ditem_g ident lbl it s) (dec_item T ident lbl it [] s).
Proof. exact (WL.dec_item_refines T ident (leaf_g ident) (leaf_g_refines ident) it lbl [] s). Qed.

(* (1) the guarded constructor refines the model's constructor *)
Theorem construct_g_refines po l : refines (construct_g po l) (construct T po l).
Proof. exact (S3.construct_w_refines T ditem_g ditem_g_refines po l). Qed.

(* the same, spelled out *)
Corollary construct_g_ok po l o : construct_g po l = Ok o -> construct T po l = Ok o.
Proof. intro E. pose proof (construct_g_refines po l) as R. rewrite E in R. exact R. Qed.
Corollary construct_g_lib po l e : construct_g po l = Lib e -> construct T po l = Lib e.
Proof. intro E. pose proof (construct_g_refines po l) as R. rewrite E in R. exact R. Qed.
Corollary construct_g_foreign po l k : construct_g po l = Foreign k -> construct T po l = Foreign k.
Proof. intro E. pose proof (construct_g_refines po l) as R. rewrite E in R. exact R. Qed.

(* the step leaves the flag and the payload alone (what S3 asks of a walk step) *)
Lemma ditem_g_frame : S3.ditem_frame ditem_g.
Proof.
  intros ident lbl it s s1 E. pose proof (ditem_g_refines ident lbl it s) as R. rewrite E in R. cbn in R.
  exact (S3.model_item_frame T ident lbl it s s1 R).
Qed.

(* ================= the composition ================= *)
Variable wfuel : nat.
Notation ext := (msgdec_ext T).
Notation RL := (rlink dob W ext wfuel srco_msgdec_prog).

(* D1 -> D2: _set_attribute_single as linked meets the walk's single_spec for the guarded step, with two levels of calls below it *)
Lemma single_linked ident d : tables_ok T = true -> (2 <= d)%nat ->
  WL.single_spec ident (leaf_g ident) nm_ok
    (call dob W ext (RL d) wfuel "_set_attribute_single" srco_msgdec__set_attribute_single).
Proof.
  intros HT Hd. unfold tables_ok in HT. apply andb_true_iff in HT. destruct HT as [HC HF].
  destruct (consts_ok_eqs T HC) as (C1 & C2 & C3 & C4).
  destruct d as [|[|d]]; try lia.
  intros anam index offset a o NH N1 HB SR HI HID.
  exact (S1.src_set_attribute_single_guarded T wfuel C1 C2 C3 C4 d a o ident anam index offset HF NH N1 HB SR HI HID).
Qed.

(* the layouts the walk is followed on with budget d below the top-level _set_attribute *)
Definition good (d:nat) (b:body) : Prop := layout_ok b = true /\ (2 + 1 + WL.body_depth b <= d)%nat.
Lemma good_nodup d l : good d (BItems l) -> NoDup (map fst l).
Proof. intros [H _]. exact (proj1 (WL.walk_ok_items _ _ _ H)). Qed.

(* D2 -> D3: the top-level call of _set_attribute meets walk_spec (non-strict) for the guarded step *)
Lemma walk_linked_g d : tables_ok T = true -> S3.walk_linked T wfuel ditem_g (good d) false d.
Proof.
  intro HT. unfold S3.walk_linked, S3.walk_spec.
  intros lbl l it offset a o ident HG HL SR HI HID.
  exact (S2.src_set_attribute_top T wfuel leaf_g nm_ok 2 d leaf_g_refines (fun ident d' Hd' => single_linked ident d' HT Hd')
           lbl l it offset a o ident HG HL SR HI HID).
Qed.

(* (2) __init__ from the EMPTY store is the guarded constructor *)
Theorem src_construct_guarded D po l :
  tables_ok T = true -> layout_cond T po = true -> (depth_needed T po <= D)%nat ->
  let r := rrun dob W ext wfuel srco_msgdec_prog D "__init__" [payload_arg po; VInt l] [] tt in
  match construct_g po l with
  | Ok o' => exists a', r = (ROk VNone, (a', tt)) /\ store_rel a' o' /\ o_immutable o' = true
  | Lib e => exists a', r = (RExc (liberr_class e), (a', tt))
  | Foreign k => exists a', r = (RExc (dec_exc_class k), (a', tt))
  | Unmodelled _ => True
  end.
Proof.
  intros HT HL HD r. subst r.
  assert (H4 : (4 <= D)%nat) by (unfold depth_needed in HD; lia).
  pose proof (S3.src_construct_w_eq_budget T wfuel ditem_g ditem_g_frame (good (D - 3)) (good_nodup (D - 3)) false D po l H4
                (walk_linked_g (D - 3) HT)) as H.
  unfold S3.construct_result in H. apply H. clear H.
  intros p ident ly Epo EI EG. subst po.
  unfold layout_cond, depth_needed, msg_layout in HL, HD. rewrite EI, EG in HL, HD.
  split; [exact HL|lia].
Qed.

(* (3) the two together, against the model: where the guarded constructor has an answer, the run has the MODEL's outcome *)
Definition followed (po:option bytes) (l:Z) : bool := match construct_g po l with Unmodelled _ => false | _ => true end.

Theorem src_construct_model D po l :
  tables_ok T = true -> layout_cond T po = true -> (depth_needed T po <= D)%nat ->
  followed po l = true ->
  let r := rrun dob W ext wfuel srco_msgdec_prog D "__init__" [payload_arg po; VInt l] [] tt in
  match construct T po l with
  | Ok o' => exists a', r = (ROk VNone, (a', tt)) /\ store_rel a' o' /\ o_immutable o' = true
  | Lib e => exists a', r = (RExc (liberr_class e), (a', tt))
  | Foreign k => exists a', r = (RExc (dec_exc_class k), (a', tt))
  | Unmodelled _ => False
  end.
Proof.
  intros HT HL HD HF r. subst r.
  pose proof (src_construct_guarded D po l HT HL HD) as H. cbv zeta in H.
  pose proof (construct_g_refines po l) as R. unfold followed in HF.
  destruct (construct_g po l) as [o'|e|k|w]; cbn [refines] in R; try discriminate; rewrite R; exact H.
Qed.

(* no payload, or one too short to carry a message number: RTCMMessageError, whatever the tables (no condition is left) *)
Corollary src_construct_none D l : tables_ok T = true -> (6 <= D)%nat ->
  exists a', rrun dob W ext wfuel srco_msgdec_prog D "__init__" [VNone; VInt l] [] tt = (RExc "RTCMMessageError", (a', tt)).
Proof. intros HT HD. exact (src_construct_guarded D None l HT eq_refl HD). Qed.
End Compose.

(* ================= the guard is never met: the source against the model's constructor itself ================= *)
(* Src/PyOMsgDecGuard.v: under decidable conditions on the tables (gt_ok T cks; cks = the repeat-count keys of the layouts considered)
   and on the layout (g_body cks false b), the test single_pre holds at every field the walk reaches and no repeat count is a str:
   the guarded constructor IS the model's constructor. *)
Definition guard_cond (T:tables) (cks:list string) (po:option bytes) : bool :=
  gt_ok T cks && match msg_layout T po with Some b => g_body cks false b | None => true end.

Lemma ditems_g_eq T ident l s : S3.ditems (ditem_g T) ident l s = WL.dec_items_s (leaf_g T ident) [] l s.
Proof.
  revert s. induction l as [|[lbl it] r IH]; intro s; [reflexivity|]. cbn [S3.ditems WL.dec_items_s]. unfold ditem_g at 1.
  destruct (WL.dec_item_s (leaf_g T ident) lbl it [] s); cbn [obind]; auto.
Qed.

Theorem construct_g_eq T cks po l : guard_cond T cks po = true -> construct_g T po l = construct T po l.
Proof.
  intro HG. unfold guard_cond in HG. apply andb_true_iff in HG. destruct HG as [GT GL].
  unfold construct_g. destruct po as [p|]; [|reflexivity]. cbn [S3.construct_w construct]. destruct (too_short p); [reflexivity|].
  assert (E : S3.do_attributes_w T (ditem_g T) (obj0 p l) = do_attributes T (obj0 p l)).
  { unfold S3.do_attributes_w, do_attributes. cbn [o_payload obj0]. unfold msg_layout in GL.
    destruct (identity p) as [ident|e|k|w]; cbn [obind]; try reflexivity.
    destruct (get_dict T ident) as [[ly|w]|]; cbn [S3.dbody]; try reflexivity.
    rewrite ditems_g_eq, <- WL.dec_body_items_s. unfold leaf_g.
    rewrite (guarded_body_eq T cks GT ident (BItems ly) _ 0%Z GL) by (apply Inv_nil; reflexivity). reflexivity. }
  rewrite E. reflexivity.
Qed.

(* (4) THE COMPOSED THEOREM: __init__ from the empty store is the model's constructor.  Nothing is claimed only where the MODEL
   itself says "not modelled" (a float used as an integer or as a condition, a repeat count beyond max_count, ... -- see
   Model/Message.v). *)
Theorem src_construct_eq T wfuel cks D po l :
  tables_ok T = true -> layout_cond T po = true -> guard_cond T cks po = true -> (depth_needed T po <= D)%nat ->
  let r := rrun dob W (msgdec_ext T) wfuel srco_msgdec_prog D "__init__" [payload_arg po; VInt l] [] tt in
  match construct T po l with
  | Ok o' => exists a', r = (ROk VNone, (a', tt)) /\ store_rel a' o' /\ o_immutable o' = true
  | Lib e => exists a', r = (RExc (liberr_class e), (a', tt))
  | Foreign k => exists a', r = (RExc (dec_exc_class k), (a', tt))
  | Unmodelled _ => True
  end.
Proof.
  intros HT HL HG HD. pose proof (src_construct_guarded T wfuel D po l HT HL HD) as H.
  rewrite (construct_g_eq T cks po l HG) in H. exact H.
Qed.

(* ================= the conditions for every layout of the tables at once ================= *)
(* every layout of the three tables, except those of the identities in excl, passes layout_ok and nests at most maxd deep *)
Definition all_layouts (T:tables) : list (string * body) := (t_get T ++ t_msm T ++ t_igs T)%list.
Definition layouts_ok (T:tables) (excl:list string) (maxd:nat) : bool :=
  forallb (fun kv => existsb (String.eqb (fst kv)) excl || (layout_ok (snd kv) && (WL.body_depth (snd kv) <=? maxd)%nat))
          (all_layouts T).
(* the identity of the message in a payload, if it has one *)
Definition msg_ident (po:option bytes) : option string :=
  match po with Some p => match identity p with Ok ident => Some ident | _ => None end | None => None end.
Definition not_excluded (excl:list string) (po:option bytes) : bool :=
  match msg_ident po with Some ident => negb (existsb (String.eqb ident) excl) | None => true end.

Lemma assoc_In {A} k (l:list (string*A)) v : assoc k l = Some v -> In (k, v) l.
Proof.
  induction l as [|[k' v'] r IH]; cbn [assoc]; [discriminate|].
  destruct (String.eqb k' k) eqn:E; intro H.
  - apply String.eqb_eq in E. inversion H. subst. left. reflexivity.
  - right. apply IH, H.
Qed.
Lemma get_dict_In T ident b : get_dict T ident = Some b -> In (ident, b) (all_layouts T).
Proof.
  unfold get_dict, all_layouts. intro H. apply in_or_app.
  destruct (_ && _); [right; apply in_or_app; left; apply assoc_In, H|].
  destruct (String.eqb _ _); [right; apply in_or_app; right; apply assoc_In, H|left; apply assoc_In, H].
Qed.
Lemma layouts_ok_msg T excl maxd po : layouts_ok T excl maxd = true -> not_excluded excl po = true ->
  layout_cond T po = true /\ (depth_needed T po <= 6 + maxd)%nat.
Proof.
  intros HL HN. unfold layout_cond, depth_needed, not_excluded, msg_ident, msg_layout in *.
  destruct po as [p|]; [|split; [reflexivity|lia]].
  destruct (identity p) as [ident|e|k|w]; try (split; [reflexivity|lia]).
  destruct (get_dict T ident) as [b|] eqn:EG; [|split; [reflexivity|lia]].
  unfold layouts_ok in HL. rewrite forallb_forall in HL. specialize (HL _ (get_dict_In T ident b EG)). cbn [fst snd] in HL.
  apply negb_true_iff in HN. rewrite HN in HL. cbn [orb] in HL. apply andb_true_iff in HL. destruct HL as [H1 H2].
  apply Nat.leb_le in H2. split; [exact H1|lia].
Qed.

(* (2') and (3') with the conditions on the tables as a whole: any message whose identity is not excluded *)
Theorem src_construct_guarded_all T wfuel excl maxd D po l :
  tables_ok T = true -> layouts_ok T excl maxd = true -> (6 + maxd <= D)%nat -> not_excluded excl po = true ->
  let r := rrun dob W (msgdec_ext T) wfuel srco_msgdec_prog D "__init__" [payload_arg po; VInt l] [] tt in
  match construct_g T po l with
  | Ok o' => exists a', r = (ROk VNone, (a', tt)) /\ store_rel a' o' /\ o_immutable o' = true
  | Lib e => exists a', r = (RExc (liberr_class e), (a', tt))
  | Foreign k => exists a', r = (RExc (dec_exc_class k), (a', tt))
  | Unmodelled _ => True
  end.
Proof.
  intros HT HL HD HN. destruct (layouts_ok_msg T excl maxd po HL HN) as [H1 H2].
  apply src_construct_guarded; [exact HT|exact H1|lia].
Qed.
Theorem src_construct_model_all T wfuel excl maxd D po l :
  tables_ok T = true -> layouts_ok T excl maxd = true -> (6 + maxd <= D)%nat -> not_excluded excl po = true ->
  followed T po l = true ->
  let r := rrun dob W (msgdec_ext T) wfuel srco_msgdec_prog D "__init__" [payload_arg po; VInt l] [] tt in
  match construct T po l with
  | Ok o' => exists a', r = (ROk VNone, (a', tt)) /\ store_rel a' o' /\ o_immutable o' = true
  | Lib e => exists a', r = (RExc (liberr_class e), (a', tt))
  | Foreign k => exists a', r = (RExc (dec_exc_class k), (a', tt))
  | Unmodelled _ => False
  end.
Proof.
  intros HT HL HD HN HF. destruct (layouts_ok_msg T excl maxd po HL HN) as [H1 H2].
  apply src_construct_model; [exact HT|exact H1|lia|exact HF].
Qed.

(* the guard conditions for every layout of the tables at once *)
Definition layouts_guard_ok (T:tables) (excl cks:list string) : bool :=
  gt_ok T cks && forallb (fun kv => existsb (String.eqb (fst kv)) excl || g_body cks false (snd kv)) (all_layouts T).
Lemma layouts_guard_msg T excl cks po : layouts_guard_ok T excl cks = true -> not_excluded excl po = true -> guard_cond T cks po = true.
Proof.
  unfold layouts_guard_ok, guard_cond. intros HL HN. apply andb_true_iff in HL. destruct HL as [H1 H2]. rewrite H1. cbn [andb].
  unfold not_excluded, msg_ident, msg_layout in *.
  destruct po as [p|]; [|reflexivity]. destruct (identity p) as [ident|e|k|w]; try reflexivity.
  destruct (get_dict T ident) as [b|] eqn:EG; [|reflexivity].
  rewrite forallb_forall in H2. specialize (H2 _ (get_dict_In T ident b EG)). cbn [fst snd] in H2.
  apply negb_true_iff in HN. rewrite HN in H2. exact H2.
Qed.
Theorem src_construct_eq_all T wfuel excl cks maxd D po l :
  tables_ok T = true -> layouts_ok T excl maxd = true -> layouts_guard_ok T excl cks = true ->
  (6 + maxd <= D)%nat -> not_excluded excl po = true ->
  let r := rrun dob W (msgdec_ext T) wfuel srco_msgdec_prog D "__init__" [payload_arg po; VInt l] [] tt in
  match construct T po l with
  | Ok o' => exists a', r = (ROk VNone, (a', tt)) /\ store_rel a' o' /\ o_immutable o' = true
  | Lib e => exists a', r = (RExc (liberr_class e), (a', tt))
  | Foreign k => exists a', r = (RExc (dec_exc_class k), (a', tt))
  | Unmodelled _ => True
  end.
Proof.
  intros HT HL HG HD HN. destruct (layouts_ok_msg T excl maxd po HL HN) as [H1 H2].
  apply (src_construct_eq T wfuel cks); [exact HT|exact H1|exact (layouts_guard_msg T excl cks po HG HN)|lia].
Qed.

Goal True. idtac "PA:construct_g_refines". Abort.
Print Assumptions construct_g_refines.
Goal True. idtac "PA:construct_g_eq". Abort.
Print Assumptions construct_g_eq.
(* each of the following walks the whole symbolic execution of the three files: ~13 s apiece.  src_construct_guarded_all and
   src_construct_model_all (corollaries of the second and third) are printed where they are used, in run/SrcMsgDec_tables_inst.v *)
Goal True. idtac "PA:src_construct_guarded". Abort.
Print Assumptions src_construct_guarded.
Goal True. idtac "PA:src_construct_model". Abort.
Print Assumptions src_construct_model.
Goal True. idtac "PA:src_construct_eq". Abort.
Print Assumptions src_construct_eq.
Goal True. idtac "PA:src_construct_eq_all". Abort.
Print Assumptions src_construct_eq_all.
