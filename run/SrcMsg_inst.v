(* Per-run source tie for the small methods of rtcmmessage.RTCMMessage: the PyO interpretation (Src/PyO.v) of the CURRENT
   source text of
     RTCMMessage.__init__ / __setattr__ / identity / payload / ismsm / _get_dict / _do_unknown / serialize
   (translated by tools/gen_src2.py into PyRtcmGen.SrcOMsg) equals the hand-written model (Model/Message.v: identity,
   too_short, get_dict, ismsm_of, serialize_payload, the immutability flag) for ALL tables T, payloads and attribute
   stores.  The environment (what RTCM_MSGIDS[...], RTCM_PAYLOADS_GET*.get, len2bytes, crc2bytes mean; how the model's
   outcomes read as interpreter results; the store __init__ hands to _do_attributes) is Src/MsgEnv.v.
   Each method is first proved in an arbitrary method table whose callees meet their specification (id_spec, set_spec),
   then for the class as linked (srco_msg_prog).  `_do_attributes` is not translated: the constructor is proved in a
   table where it is an ARBITRARY method g. *)
From Coq Require Import ZArith NArith List String Bool Lia.
From Coq.Strings Require Import Byte.
From PyRtcm Require Import Base.Bytes Base.Dec Model.Types Model.Crc Model.Message.
From PyRtcm Require Import Src.PyO Src.PyOLemmas Src.PyOReaderLemmas Src.PyOMsgLemmas Src.ReaderEnv Src.MsgEnv.
From PyRtcmGen Require Import SrcOMsg.
Import ListNotations.
Open Scope string_scope.
Open Scope Z_scope.

(* ---------- symbolic execution (the technique of run/SrcReader_inst.v) ---------- *)
Ltac interp t :=
  eval cbv [PyO.exec PyO.eval PyO.eval_list PyO.assign target_expr ret lookup update
            truth binop_val int_binop unop_val eq_val cmp_val
            set_locals set_self set_world locals self world
            String.eqb Ascii.eqb Bool.eqb map existsb orb srco_msg_reserved] in t.
(* attributes of an abstract self, subscripts, int -> str conversions: their result is not known by computation, so an
   expression containing one is opened node by node until it is exposed *)
Ltac special e :=
  lazymatch e with
  | context [EIndex _ _] => idtac
  | context [ESelf _] => idtac
  | context [ECallB _ _] => idtac
  | context [ESlice _ _ _] => idtac
  end.
(* the unfolding equations hold by computation: use them as conversions *)
Ltac rw E := lazymatch type of E with ?l = ?r => change l with r end.
Ltac self_attr :=
  cbn [self];
  lazymatch goal with
  | |- context [lookup ?Ob ?x ?a] =>
      first [ match goal with H : lookup Ob x a = _ |- _ => rewrite H end
            | let t := constr:(lookup Ob x a) in
              let t' := eval cbv [lookup String.eqb Ascii.eqb Bool.eqb] in t in change t with t' ]
  end.
Ltac step_stmt :=
  match goal with
  | |- context [PyO.assign ?Ob ?W ?tg ?v (Build_state ?A ?B ?l ?sf ?w)] =>
      let t := constr:(PyO.assign Ob W tg v (Build_state A B l sf w)) in
      let t' := interp t in change t with t'
  | |- context [PyO.exec ?Ob ?W ?ext ?M ?wf ?st (Build_state ?A ?B ?l ?sf ?w)] =>
      is_var st; subst st
  | |- context [PyO.exec ?Ob ?W ?ext ?M ?wf ?st (Build_state ?A ?B ?l ?sf ?w)] =>
      let s := constr:(Build_state A B l sf w) in
      let t := constr:(PyO.exec Ob W ext M wf st s) in
      lazymatch st with
      | SIf ?c ?th ?el => rw (exec_if Ob W ext M wf c th el s)
      | STry ?b ?hs => rewrite (exec_try Ob W ext M wf b hs s)
      | SWhile _ _ => fail
      | SAssign ?tg ?e => first [ special e; rw (exec_assign Ob W ext M wf tg e s) | let t' := interp t in change t with t' ]
      | SReturn ?e => first [ special e; rw (exec_return Ob W ext M wf e s) | let t' := interp t in change t with t' ]
      | SExpr ?e => first [ special e; rw (exec_expr Ob W ext M wf e s) | let t' := interp t in change t with t' ]
      | SRaise ?e => first [ special e; rw (exec_raise Ob W ext M wf e s) | let t' := interp t in change t with t' ]
      | _ => let t' := interp t in change t with t'
      end
  | |- context [eval_opt ?Ob ?W ?ext ?M ?o (Build_state ?A ?B ?l ?sf ?w)] =>
      let t := constr:(eval_opt Ob W ext M o (Build_state A B l sf w)) in
      let t1 := eval cbv [eval_opt] in t in
      let t' := interp t1 in change t with t'
  | |- context [PyO.eval_list ?Ob ?W ?ext ?M ?l (Build_state ?A ?B ?lc ?sf ?w)] =>
      let s := constr:(Build_state A B lc sf w) in
      lazymatch l with
      | [] => rw (eval_list_nil Ob W ext M s)
      | ?a :: ?r => rw (eval_list_cons Ob W ext M a r s)
      end
  | |- context [PyO.eval ?Ob ?W ?ext ?M ?e (Build_state ?A ?B ?l ?sf ?w)] =>
      let s := constr:(Build_state A B l sf w) in
      let t := constr:(PyO.eval Ob W ext M e s) in
      first
      [ special e;
        lazymatch e with
        | ESelf ?x => rw (eval_self Ob W ext M x s); self_attr
        | EIndex ?a ?i => rw (eval_index Ob W ext M a i s)
        | EBin ?o ?a ?b => rw (eval_bin Ob W ext M o a b s)
        | EAnd ?a ?b => rw (eval_and Ob W ext M a b s)
        | EOr ?a ?b => rw (eval_or Ob W ext M a b s)
        | ECmp ?a [(?o, ?b)] => rewrite (eval_cmp1 Ob W ext M a o b s)
        | ESlice ?x ?lo ?hi => rw (eval_slice Ob W ext M x lo hi s)
        | ECallB ?f ?args => rw (eval_callb Ob W ext M f args s)
        | ECallX ?c ?args => rw (eval_callx Ob W ext M c args s)
        | ESetattrSelf ?rs ?en ?ev => rw (eval_setattr_self Ob W ext M rs en ev s)
        | ESuperSetattr ?en ?ev => rw (eval_super_setattr Ob W ext M en ev s)
        | EExcNew ?c ?args => rw (eval_excnew Ob W ext M c args s)
        end
      | let t' := interp t in change t with t' ]
  end.
Ltac rd := cbv [PyO.exec_list set_world set_self set_locals]; cbv beta iota; cbn [truth cmp_last binop_val int_binop cmp_val eq_val world self locals];
  repeat match goal with
         | |- context [Zpos ?p <? 0] => change (Zpos p <? 0) with false; cbv beta iota
         | |- context [builtin_val ?Ob BLen [VBytes ?b]] =>
             change (builtin_val Ob BLen [VBytes b]) with (@ROk (val Ob) (VInt (Z.of_nat (List.length b)))); cbv beta iota
         | |- context [builtin_val ?Ob BFromBig [VBytes ?b]] =>
             change (builtin_val Ob BFromBig [VBytes b]) with (@ROk (val Ob) (VInt (Z.of_N (be b)))); cbv beta iota
         | |- context [builtin_val ?Ob BText ?l] =>
             change (builtin_val Ob BText l) with (@ROk (val Ob) VText); cbv beta iota
         | |- context [existsb (String.eqb ?n) srco_msg_reserved] =>
             let t := constr:(existsb (String.eqb n) srco_msg_reserved) in
             let t' := eval cbv [existsb String.eqb Ascii.eqb Bool.eqb orb srco_msg_reserved] in t in
             lazymatch t' with true => idtac | false => idtac end;
             change t with t'; cbv beta iota
         | |- context [setattr ?Ob ?n ?v ?a] =>
             lazymatch a with
             | nil => idtac
             | cons _ _ => idtac
             end;
             let t := constr:(setattr Ob n v a) in
             let t' := eval cbv [setattr String.eqb Ascii.eqb Bool.eqb] in t in change t with t'
         end.
(* len(x) < k for a literal k *)
Ltac lenlt :=
  match goal with
  | |- context [Z.of_nat ?n <? Zpos ?k] =>
      let k' := eval compute in (Pos.to_nat k) in
      change (Z.of_nat n <? Zpos k) with (Z.of_nat n <? Z.of_nat k'); rewrite (of_nat_ltb n k');
      cbn [List.length Nat.ltb Nat.leb]
  end.
Ltac sx := rd; repeat (step_stmt; rd).
Ltac idx n :=
  match goal with
  | |- context [index_bytes ?Ob ?l ?k] =>
      change (index_bytes Ob l k) with (index_bytes Ob l (Z.of_nat n));
      first [ rewrite index_nonneg by (cbn [List.length]; lia); cbn [nth]
            | rewrite index_oob by (cbn [List.length]; lia) ]
  end.
(* entering a method; the statements are named and opened only when their turn comes (keeps the goal small) *)
Ltac hide l := lazymatch l with ?a :: ?r => let x := fresh "stm" in set (x := a); hide r | _ => idtac end.
Ltac enter m :=
  cbv [call m m_params m_locals m_body bind_params map app];
  match goal with |- context [PyO.exec_list _ _ _ _ _ ?l _] => hide l end.

Section Msg.
Variable T : tables.
Variable wfuel : nat.
Notation ext := (msg_ext T).
Notation mtab := (string -> option (mcall Ob W)).

Section Leaves.
Variable MT : mtab.

Lemma identity_ok a p w :
  lookup Ob "_payload" a = Some (VBytes p) ->
  call Ob W ext MT wfuel "identity" srco_msg_identity [] a w = (img_str (identity p), (a, w)).
Proof.
  intro H. enter srco_msg_identity.
  destruct p as [|b0 [|b1 r]].
  - sx. idx 0%nat. sx. reflexivity.
  - sx. idx 0%nat. sx. idx 1%nat. sx. reflexivity.
  - sx. idx 0%nat. sx. idx 1%nat. sx. rewrite msgnum_Z. sx.
    change 4076 with (Z.of_N 4076). rewrite of_N_eqb_const. cbn [identity].
    destruct (N.eqb (msgnum b0 b1) 4076) eqn:E; sx.
    + destruct r as [|b2 r']; sx.
      * idx 1%nat. sx. idx 2%nat. sx. reflexivity.
      * idx 1%nat. sx. idx 2%nat. sx. rewrite subtype_Z. sx.
        rewrite strof_small by apply msgnum_lt. sx. rewrite fmtd_small by apply subtype_lt. sx.
        rewrite strof_str. sx. rewrite app_str_assoc. reflexivity.
    + rewrite strof_small by apply msgnum_lt. sx. reflexivity.
Qed.

Lemma payload_ok a v w :
  lookup Ob "_payload" a = Some v ->
  call Ob W ext MT wfuel "payload" srco_msg_payload [] a w = (ROk v, (a, w)).
Proof. intro H. enter srco_msg_payload. sx. reflexivity. Qed.

Lemma setattr_true n v a w :
  lookup Ob "_immutable" a = Some (VBool true) ->
  call Ob W ext MT wfuel "__setattr__" srco_msg_setattr [VStr n; v] a w = (RExc "RTCMMessageError", (a, w)).
Proof. intro H. enter srco_msg_setattr. sx. reflexivity. Qed.

Lemma setattr_false n v a w :
  lookup Ob "_immutable" a = Some (VBool false) -> v <> VUnbound ->
  call Ob W ext MT wfuel "__setattr__" srco_msg_setattr [VStr n; v] a w = (ROk VNone, (setattr Ob n v a, w)).
Proof. intros H Hv. enter srco_msg_setattr. sx. destruct v; try congruence; reflexivity. Qed.

Lemma ext_msgids k w :
  ext {| c_name := "RTCM_MSGIDS[]"; c_kw := [] |} [VStr k] w =
  (match assoc k (t_msgids T) with Some d => ROk (VStr d) | None => RExc "KeyError" end, w).
Proof. reflexivity. Qed.
Lemma ext_get k w : ext {| c_name := "RTCM_PAYLOADS_GET.get"; c_kw := [] |} [VStr k; VNone] w = (ROk (optv (assoc k (t_get T))), w).
Proof. reflexivity. Qed.
Lemma ext_msm k w : ext {| c_name := "RTCM_PAYLOADS_GET_MSM.get"; c_kw := [] |} [VStr k; VNone] w = (ROk (optv (assoc k (t_msm T))), w).
Proof. reflexivity. Qed.
Lemma ext_igs k w : ext {| c_name := "RTCM_PAYLOADS_GET_IGS.get"; c_kw := [] |} [VStr k; VNone] w = (ROk (optv (assoc k (t_igs T))), w).
Proof. reflexivity. Qed.
Lemma ext_len2bytes p w : ext {| c_name := "len2bytes"; c_kw := [] |} [VBytes p] w = (to_bytes_res (len2bytes p), w).
Proof. reflexivity. Qed.
Lemma ext_crc2bytes m w : ext {| c_name := "crc2bytes"; c_kw := [] |} [VBytes m] w = (to_bytes_res (crc2bytes m), w).
Proof. reflexivity. Qed.

Lemma serialize_ok a p w :
  t_rtcm_hdr T = srco_const_RTCM_HDR ->
  lookup Ob "_payload" a = Some (VBytes p) ->
  call Ob W ext MT wfuel "serialize" srco_msg_serialize [] a w = (img_bytes (serialize_payload T p), (a, w)).
Proof.
  intros Hh H. enter srco_msg_serialize. unfold serialize_payload. rewrite Hh.
  sx. rewrite ext_len2bytes. destruct (len2bytes p) as [size|]; cbn [to_bytes_res]; sx; [|reflexivity].
  rewrite ext_crc2bytes, <- app_assoc. destruct (crc2bytes _) as [c|]; cbn [to_bytes_res]; sx; reflexivity.
Qed.

End Leaves.

(* what the callees inside the class do *)
Definition id_spec (g:mcall Ob W) : Prop :=
  forall a p w, lookup Ob "_payload" a = Some (VBytes p) -> g [] a w = (img_str (identity p), (a, w)).
Definition set_spec (g:mcall Ob W) : Prop :=
  forall n v a w,
    (lookup Ob "_immutable" a = Some (VBool true) -> g [VStr n; v] a w = (RExc "RTCMMessageError", (a, w))) /\
    (lookup Ob "_immutable" a = Some (VBool false) -> v <> VUnbound -> g [VStr n; v] a w = (ROk VNone, (setattr Ob n v a, w))).

Section Mid.
Variable MT : mtab.
Variables g_id g_set : mcall Ob W.
Hypothesis H_id : MT "identity" = Some g_id.
Hypothesis G_id : id_spec g_id.
Hypothesis H_set : MT "__setattr__" = Some g_set.
Hypothesis G_set : set_spec g_set.

Lemma get_dict_ok a p w :
  lookup Ob "_payload" a = Some (VBytes p) ->
  call Ob W ext MT wfuel "_get_dict" srco_msg__get_dict [] a w
  = (img_dict (do i <- identity p; Ok (get_dict T i)), (a, w)).
Proof.
  intro H. enter srco_msg__get_dict.
  unfold obind. destruct (identity p) as [ident|e|k|why] eqn:EI; cbn [img_dict img_of].
  2-4: sx; rewrite H_id, (G_id _ _ _ H), EI; reflexivity.
  unfold get_dict.
  sx. rewrite H_id, (G_id _ _ _ H), EI; cbn [img_str img_of]; sx.
  destruct (String.leb "1070" ident); cbn [andb]; sx.
  1: destruct (String.leb ident "1229"); sx.
  1: { rewrite H_id, (G_id _ _ _ H), EI; cbn [img_str img_of]; sx. rewrite ext_msm. reflexivity. }
  all: rewrite H_id, (G_id _ _ _ H), EI; cbn [img_str img_of]; sx.
  all: change (slice_str ident None (Some 4)) with (slice_str ident None (Some (Z.of_nat 4))); rewrite slice_str_to.
  all: destruct (String.eqb (substring 0 4 ident) "4076"); sx.
  all: rewrite H_id, (G_id _ _ _ H), EI; cbn [img_str img_of]; sx; rewrite ?ext_igs, ?ext_get; reflexivity.
Qed.

(* identity fails with IndexError only, which `except KeyError` does not catch *)
Lemma ismsm_ok a p w :
  lookup Ob "_payload" a = Some (VBytes p) ->
  call Ob W ext MT wfuel "ismsm" srco_msg_ismsm [] a w
  = (img_bool (do i <- identity p; Ok (ismsm_of T i)), (a, w)).
Proof.
  intro H. enter srco_msg_ismsm.
  sx. rewrite H_id, (G_id _ _ _ H).
  unfold obind. destruct (identity_cases p) as [[ident EI]|EI]; rewrite EI; cbn [img_str img_of img_bool]; sx.
  - rewrite ext_msgids. unfold ismsm_of. destruct (assoc ident (t_msgids T)) as [d|]; sx.
    + rewrite str_contains_contains. destruct (contains "MSM" d); reflexivity.
    + cbn [pick]. change (matches "KeyError" ["KeyError"]) with true. sx. reflexivity.
  - cbn [pyexc_class pick]. change (matches "IndexError" ["KeyError"]) with false. sx. reflexivity.
Qed.

Lemma do_unknown_ok a p w :
  lookup Ob "_payload" a = Some (VBytes p) ->
  lookup Ob "_immutable" a = Some (VBool false) ->
  call Ob W ext MT wfuel "_do_unknown" srco_msg__do_unknown [] a w
  = match identity p with
    | Ok ident => (ROk VNone, (setattr Ob "_unknown" (VBool true) (setattr Ob "DF002" (VStr ident) a), w))
    | other => (img_str other, (a, w))
    end.
Proof.
  intros H HI. enter srco_msg__do_unknown.
  sx. rewrite H_id, (G_id _ _ _ H).
  destruct (identity p) as [ident|e|k|why]; cbn [img_str img_of]; sx; try reflexivity.
  rewrite H_set. destruct (G_set "DF002" (VStr ident) a w) as [_ G1]. rewrite (G1 HI) by discriminate. sx.
  rewrite H_set. destruct (G_set "_unknown" (VBool true) (setattr Ob "DF002" (VStr ident) a) w) as [_ G2].
  rewrite G2; [|rewrite lookup_setattr_other by reflexivity; exact HI|discriminate]. sx. reflexivity.
Qed.
End Mid.

(* ================= __init__ ================= *)
Section Init.
Variable MT : mtab.
Variables g_da g_set : mcall Ob W.
Hypothesis H_da : MT "_do_attributes" = Some g_da.
Hypothesis H_set : MT "__setattr__" = Some g_set.
Hypothesis G_set : set_spec g_set.

Ltac do_set :=
  rewrite H_set;
  match goal with
  | |- context [g_set [VStr ?n; ?v] ?a ?w] => rewrite (proj2 (G_set n v a w)) by first [reflexivity | discriminate]
  end.

Ltac init_tail :=
  repeat (do_set; sx);
  rewrite H_da, (Z.mul_comm (Z.of_nat _) 8); unfold init_store;
  match goal with |- context [g_da [] ?st ?w] => destruct (g_da [] st w) as [[v|c|f] [a1 w1]] end;
  sx; [|reflexivity|reflexivity];
  rewrite H_set;
  match goal with |- context [g_set ?args ?a ?w] => destruct (g_set args a w) as [[v2|c2|f2] [a2 w2]] end;
  sx; reflexivity.

Lemma init_none l w :
  call Ob W ext MT wfuel "__init__" srco_msg_init [VNone; VInt l] [] w
  = (RExc "RTCMMessageError", ([("_immutable", VBool false); ("_payload", VNone)], w)).
Proof.
  enter srco_msg_init.
  sx. do_set. sx. reflexivity.
Qed.

Lemma init_short p l w : too_short p = true ->
  call Ob W ext MT wfuel "__init__" srco_msg_init [VBytes p; VInt l] [] w
  = (RExc "RTCMMessageError", ([("_immutable", VBool false); ("_payload", VBytes p)], w)).
Proof.
  intro Hs. enter srco_msg_init.
  destruct p as [|b0 [|b1 [|b2 r]]]; cbn [too_short] in Hs; try discriminate.
  - sx. do_set. sx. lenlt. sx. reflexivity.
  - sx. do_set. sx. lenlt. sx. reflexivity.
  - sx. do_set. sx. lenlt. sx. lenlt. sx. idx 0%nat. sx. idx 1%nat. sx.
    rewrite msgnum_Z. change 4076 with (Z.of_N 4076). rewrite of_N_eqb_const, Hs. sx. reflexivity.
Qed.

(* the general case: everything up to the call of _do_attributes is determined; then _do_attributes (arbitrary) runs on
   init_store, and `self._immutable = True` goes through __setattr__ on whatever store it left *)
Lemma init_ok p l w : too_short p = false ->
  call Ob W ext MT wfuel "__init__" srco_msg_init [VBytes p; VInt l] [] w
  = let '(r, (a1, w1)) := g_da [] (init_store p l) w in
    match r with
    | ROk _ => let '(r2, (a2, w2)) := g_set [VStr "_immutable"; VBool true] a1 w1 in
               (match r2 with ROk _ => ROk VNone | RExc c => RExc c | RFail f => RFail f end, (a2, w2))
    | RExc c => (RExc c, (a1, w1))
    | RFail f => (RFail f, (a1, w1))
    end.
Proof.
  intro Hs. enter srco_msg_init.
  destruct p as [|b0 [|b1 [|b2 r]]]; cbn [too_short] in Hs; try discriminate.
  - sx. do_set. sx. lenlt. sx. lenlt. sx. idx 0%nat. sx. idx 1%nat. sx.
    rewrite msgnum_Z. change 4076 with (Z.of_N 4076). rewrite of_N_eqb_const, Hs. sx.
    init_tail.
  - sx. do_set. sx. lenlt. sx. lenlt. sx. init_tail.
Qed.
End Init.

(* ================= the C14 mechanism at statement level ================= *)
(* in any method table where "__setattr__" is the translated method: an attribute assignment on a frozen object *)
Lemma setattr_stmt_immutable (MT MT' : mtab) en ev (s s1 s2 : state Ob W) n v :
  MT "__setattr__" = Some (call Ob W ext MT' wfuel "__setattr__" srco_msg_setattr) ->
  eval Ob W ext MT en s = (ROk (VStr n), s1) ->
  eval Ob W ext MT ev s1 = (ROk v, s2) ->
  existsb (String.eqb n) srco_msg_reserved = false ->
  lookup Ob "_immutable" (self Ob W s2) = Some (VBool true) ->
  eval Ob W ext MT (ESetattrSelf srco_msg_reserved en ev) s = (RExc "RTCMMessageError", s2).
Proof.
  intros HM E1 E2 Hr Hi. rewrite eval_setattr_self, E1, E2, Hr, HM, setattr_true by exact Hi.
  destruct s2; reflexivity.
Qed.
(* ... and on an object under construction *)
Lemma setattr_stmt_mutable (MT MT' : mtab) en ev (s s1 s2 : state Ob W) n v :
  MT "__setattr__" = Some (call Ob W ext MT' wfuel "__setattr__" srco_msg_setattr) ->
  eval Ob W ext MT en s = (ROk (VStr n), s1) ->
  eval Ob W ext MT ev s1 = (ROk v, s2) -> v <> VUnbound ->
  existsb (String.eqb n) srco_msg_reserved = false ->
  lookup Ob "_immutable" (self Ob W s2) = Some (VBool false) ->
  eval Ob W ext MT (ESetattrSelf srco_msg_reserved en ev) s
  = (ROk VNone, {| locals := locals Ob W s2; self := setattr Ob n v (self Ob W s2); world := world Ob W s2 |}).
Proof.
  intros HM E1 E2 Hv Hr Hi. rewrite eval_setattr_self, E1, E2, Hr, HM, setattr_false by assumption.
  reflexivity.
Qed.
End Msg.

(* ================= linking: the methods as they sit in the translated class ================= *)
Section Linked.
Variable T : tables.
Variable wfuel : nat.
Notation ext := (msg_ext T).
Notation prog_M := (link Ob W ext wfuel srco_msg_prog).
Notation run_ := (run Ob W ext wfuel srco_msg_prog).

Ltac at_meth := unfold run, srco_msg_prog; rewrite ?link_skip by reflexivity; rewrite link_here.
Ltac find_meth := rewrite ?link_skip by reflexivity; rewrite link_here; reflexivity.

Lemma id_linked MT : id_spec (call Ob W ext MT wfuel "identity" srco_msg_identity).
Proof. intros a p w H. apply identity_ok. exact H. Qed.
Lemma set_linked MT : set_spec (call Ob W ext MT wfuel "__setattr__" srco_msg_setattr).
Proof. intros n v a w. split; [apply setattr_true|apply setattr_false]. Qed.

(* 1. identity *)
Theorem src_identity_eq a p w :
  lookup Ob "_payload" a = Some (VBytes p) ->
  run_ "identity" [] a w = (img_str (identity p), (a, w)).
Proof. intro H. at_meth. apply identity_ok. exact H. Qed.

Theorem src_payload_eq a v w :
  lookup Ob "_payload" a = Some v ->
  run_ "payload" [] a w = (ROk v, (a, w)).
Proof. intro H. at_meth. apply payload_ok. exact H. Qed.

(* 2. __setattr__ *)
Theorem src_setattr_immutable n v a w :
  lookup Ob "_immutable" a = Some (VBool true) ->
  run_ "__setattr__" [VStr n; v] a w = (RExc "RTCMMessageError", (a, w)).
Proof. intro H. at_meth. apply setattr_true. exact H. Qed.

(* (names bound in the class body are excluded: PyO's ESuperSetattr is a plain store, whereas object.__setattr__ refuses
   to overwrite a property; ESetattrSelf never passes such a name on) *)
Theorem src_setattr_mutable n v a w :
  lookup Ob "_immutable" a = Some (VBool false) -> v <> VUnbound ->
  existsb (String.eqb n) srco_msg_reserved = false ->
  run_ "__setattr__" [VStr n; v] a w = (ROk VNone, (setattr Ob n v a, w)).
Proof. intros H Hv _. at_meth. apply setattr_false; assumption. Qed.

Corollary src_setattr_stmt_immutable en ev (s s1 s2 : state Ob W) n v :
  eval Ob W ext prog_M en s = (ROk (VStr n), s1) ->
  eval Ob W ext prog_M ev s1 = (ROk v, s2) ->
  existsb (String.eqb n) srco_msg_reserved = false ->
  lookup Ob "_immutable" (self Ob W s2) = Some (VBool true) ->
  eval Ob W ext prog_M (ESetattrSelf srco_msg_reserved en ev) s = (RExc "RTCMMessageError", s2).
Proof. apply setattr_stmt_immutable with (wfuel := wfuel) (MT' := link Ob W ext wfuel []). unfold srco_msg_prog. find_meth. Qed.

(* 3. _get_dict *)
Theorem src_get_dict_eq a p w :
  lookup Ob "_payload" a = Some (VBytes p) ->
  run_ "_get_dict" [] a w = (img_dict (do i <- identity p; Ok (get_dict T i)), (a, w)).
Proof. intro H. at_meth. eapply get_dict_ok; [find_meth|apply id_linked|exact H]. Qed.

(* 4. ismsm *)
Theorem src_ismsm_eq a p w :
  lookup Ob "_payload" a = Some (VBytes p) ->
  run_ "ismsm" [] a w = (img_bool (do i <- identity p; Ok (ismsm_of T i)), (a, w)).
Proof. intro H. at_meth. eapply ismsm_ok; [find_meth|apply id_linked|exact H]. Qed.

(* 5. _do_unknown *)
Theorem src_do_unknown_eq a p w :
  lookup Ob "_payload" a = Some (VBytes p) ->
  lookup Ob "_immutable" a = Some (VBool false) ->
  run_ "_do_unknown" [] a w
  = match identity p with
    | Ok ident => (ROk VNone, (setattr Ob "_unknown" (VBool true) (setattr Ob "DF002" (VStr ident) a), w))
    | other => (img_str other, (a, w))
    end.
Proof. intros H HI. at_meth. eapply do_unknown_ok; [find_meth|apply id_linked|find_meth|apply set_linked|exact H|exact HI]. Qed.

(* 6. serialize *)
Theorem src_serialize_eq a p w :
  t_rtcm_hdr T = srco_const_RTCM_HDR ->
  lookup Ob "_payload" a = Some (VBytes p) ->
  run_ "serialize" [] a w = (img_bytes (serialize_payload T p), (a, w)).
Proof. intros Hh H. at_meth. apply serialize_ok; assumption. Qed.

(* 7. __init__: the class as linked, except that "_do_attributes" (not translated) is an arbitrary method g *)
Definition init_tab (g:mcall Ob W) : string -> option (mcall Ob W) :=
  fun m => if String.eqb m "_do_attributes" then Some g else prog_M m.
Notation init_ g := (call Ob W ext (init_tab g) wfuel "__init__" srco_msg_init).

Lemma init_tab_set g : init_tab g "__setattr__" = Some (call Ob W ext (link Ob W ext wfuel []) wfuel "__setattr__" srco_msg_setattr).
Proof. unfold init_tab, srco_msg_prog. cbn [String.eqb Ascii.eqb Bool.eqb]. find_meth. Qed.

(* the right-hand sides do not mention g: whatever _do_attributes would do, it is not reached *)
Theorem src_init_none g l :
  init_ g [VNone; VInt l] [] tt = (RExc "RTCMMessageError", ([("_immutable", VBool false); ("_payload", VNone)], tt)).
Proof. eapply init_none; [apply init_tab_set|apply set_linked]. Qed.

Theorem src_init_short g p l : too_short p = true ->
  init_ g [VBytes p; VInt l] [] tt = (RExc "RTCMMessageError", ([("_immutable", VBool false); ("_payload", VBytes p)], tt)).
Proof. intro H. eapply init_short; [apply init_tab_set|apply set_linked|exact H]. Qed.

(* the same two rejections in the model's constructor *)
Corollary src_init_rejects_as_model g (po:option bytes) l :
  match po with None => True | Some p => too_short p = true end ->
  fst (init_ g [match po with None => VNone | Some p => VBytes p end; VInt l] [] tt)
  = img_of (fun _ => VNone) (construct T po l).
Proof.
  destruct po as [p|]; intro H; cbn [construct].
  - rewrite src_init_short by exact H. rewrite H. reflexivity.
  - rewrite src_init_none. reflexivity.
Qed.

(* otherwise g is called once, on init_store p l; its exception propagates; if it returns with the object still
   mutable, the constructor freezes the object and returns None *)
Theorem src_init_run g p l r a1 w1 : too_short p = false ->
  g [] (init_store p l) tt = (r, (a1, w1)) ->
  match r with
  | ROk _ => lookup Ob "_immutable" a1 = Some (VBool false) ->
             init_ g [VBytes p; VInt l] [] tt = (ROk VNone, (setattr Ob "_immutable" (VBool true) a1, w1))
  | RExc c => init_ g [VBytes p; VInt l] [] tt = (RExc c, (a1, w1))
  | RFail f => init_ g [VBytes p; VInt l] [] tt = (RFail f, (a1, w1))
  end.
Proof.
  intros Hs Hg.
  pose proof (init_ok T wfuel (init_tab g) g _ eq_refl (init_tab_set g) (set_linked _) p l tt Hs) as E.
  rewrite Hg in E. destruct r as [v|c|f]; [intro Hi|exact E|exact E].
  rewrite E, setattr_false by (exact Hi || discriminate). reflexivity.
Qed.

(* if g returns with the object already frozen, the last assignment of the constructor raises *)
Theorem src_init_frozen g p l v a1 w1 : too_short p = false ->
  g [] (init_store p l) tt = (ROk v, (a1, w1)) ->
  lookup Ob "_immutable" a1 = Some (VBool true) ->
  init_ g [VBytes p; VInt l] [] tt = (RExc "RTCMMessageError", (a1, w1)).
Proof.
  intros Hs Hg Hi.
  pose proof (init_ok T wfuel (init_tab g) g _ eq_refl (init_tab_set g) (set_linked _) p l tt Hs) as E.
  rewrite Hg in E. rewrite E, setattr_true by exact Hi. reflexivity.
Qed.
End Linked.


Goal True. idtac "PA:src_identity_eq". Abort.
Print Assumptions src_identity_eq.
Goal True. idtac "PA:src_payload_eq". Abort.
Print Assumptions src_payload_eq.
Goal True. idtac "PA:src_setattr_immutable". Abort.
Print Assumptions src_setattr_immutable.
Goal True. idtac "PA:src_setattr_mutable". Abort.
Print Assumptions src_setattr_mutable.
Goal True. idtac "PA:src_setattr_stmt_immutable". Abort.
Print Assumptions src_setattr_stmt_immutable.
Goal True. idtac "PA:setattr_stmt_immutable". Abort.
Print Assumptions setattr_stmt_immutable.
Goal True. idtac "PA:src_get_dict_eq". Abort.
Print Assumptions src_get_dict_eq.
Goal True. idtac "PA:src_ismsm_eq". Abort.
Print Assumptions src_ismsm_eq.
Goal True. idtac "PA:src_do_unknown_eq". Abort.
Print Assumptions src_do_unknown_eq.
Goal True. idtac "PA:src_serialize_eq". Abort.
Print Assumptions src_serialize_eq.
Goal True. idtac "PA:src_init_none". Abort.
Print Assumptions src_init_none.
Goal True. idtac "PA:src_init_short". Abort.
Print Assumptions src_init_short.
Goal True. idtac "PA:src_init_rejects_as_model". Abort.
Print Assumptions src_init_rejects_as_model.
Goal True. idtac "PA:src_init_run". Abort.
Print Assumptions src_init_run.
Goal True. idtac "PA:src_init_frozen". Abort.
Print Assumptions src_init_frozen.
