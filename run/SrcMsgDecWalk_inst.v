(* Per-run source tie for the recursive walk of the message decoder: the PyO interpretation (Src/PyO.v, recursive linking) of the
   CURRENT source text of
     RTCMMessage._set_attribute / _set_attribute_group / _set_attribute_optional   (and the loop of _do_attributes)
   (translated by tools/gen_src2.py `msgdec` into PyRtcmGen.SrcOMsgDec) equals the model's dec_item / dec_body (Model/Message.v:
   group_size, suffix_first, split_plus, rep) for ALL tables, layouts, payloads, attribute stores, offsets and index lists,
   ASSUMING the specification of _set_attribute_single (single_spec; run/SrcMsgDecSingle_inst.v).
   Environment and store layout: Src/MsgDecEnv.v.  Specifications, conditions on a layout, the three loops and the induction over
   the layout with the call-depth budget: Src/PyOMsgDecWalkLemmas.v.  Here: symbolic execution of the three methods, each in an
   ARBITRARY method table whose callees meet their specifications (set_attribute_ok, set_attribute_group_ok,
   set_attribute_optional_ok), then the class as linked by rlink.

   Main theorems (Section Linked; ident, leaf, name_ok, c1 arbitrary):
     src_set_attribute_spec / src_set_attribute_eq : rrun .. (S d) "_set_attribute" [lbl; dict; offset; index] = image of
                                  dec_item_s leaf lbl it index (o, offset)      (index list returned UNCHANGED, store_rel kept)
     src_body_loop_eq           : the `for anam in pdict` statement of _do_attributes = dec_body_s
     src_set_attribute_model    : the same against the model's own dec_item (leaf = set_single)
   Hypotheses: walk_ok reserved name_ok (BItems l) (no label "IDF038", no duplicate labels at any level, the names read with getattr are
   not prefixes of a fixed attribute / a name bound in the class, name_ok on every label -- whatever single_spec asks of a label);
   call depth d >= c1 + 1 + body_depth (c1 = what _set_attribute_single needs below it; body_depth = 2 per nesting level);
   index entries < 10^4300 (the int -> str limit; the walk itself only appends 1..max_count); no while loop (wfuel arbitrary).
   Outcomes: Ok -> ROk and store_rel; Lib / Foreign -> RExc of the class, "_payload" still in the store; Unmodelled -> nothing claimed
   (beyond max_count the source simply goes on; a float condition is compared by PyO).  dec_item_s = dec_item except that a
   str-valued repeat count is Unmodelled (PyO has no range() of a non-int: RFail, CPython: TypeError). *)
From Coq Require Import ZArith NArith List String Bool Lia.
From Coq.Strings Require Import Byte.
From PyRtcm Require Import Base.Bytes Base.Dec Model.Types Model.Message.
From PyRtcm Require Import Src.PyO Src.PyOLemmas Src.PyOReaderLemmas Src.PyOMsgLemmas Src.ReaderEnv Src.MsgDecEnv Src.PyOMsgDecWalkLemmas.
From PyRtcm Require Import Proofs.DecodeExtend.
From PyRtcmGen Require Import SrcOMsgDec.
Import ListNotations.
Open Scope string_scope.
Open Scope Z_scope.

(* ---------- symbolic execution (the technique of run/SrcReader_inst.v, run/SrcMsg_inst.v) ---------- *)
Ltac interp t :=
  eval cbv [PyO.exec PyO.eval PyO.eval_list PyO.assign target_expr ret lookup update
            truth binop_val int_binop unop_val
            set_locals set_self set_world locals self world
            String.eqb Ascii.eqb Bool.eqb] in t.
(* nodes whose result is not known by computation: an expression containing one is opened node by node *)
Ltac special e :=
  lazymatch e with
  | context [EIndex _ _] => idtac
  | context [ECallB _ _] => idtac
  | context [ECallM _ _] => idtac
  | context [ECmp _ _] => idtac
  | context [EGetattrSelf _ _ _] => idtac
  end.
Ltac rw E := lazymatch type of E with ?l = ?r => change l with r end.
Ltac step_stmt :=
  match goal with
  | |- context [PyO.assign ?Ob ?W ?tg ?v (Build_state ?A ?B ?l ?sf ?w)] =>
      let t := constr:(PyO.assign Ob W tg v (Build_state A B l sf w)) in
      let t' := interp t in change t with t'
  | |- context [PyO.exec ?Ob ?W ?ext ?M ?wf ?st (Build_state ?A ?B ?l ?sf ?w)] =>
      let s := constr:(Build_state A B l sf w) in
      let t := constr:(PyO.exec Ob W ext M wf st s) in
      lazymatch st with
      | SIf ?c ?th ?el => rw (exec_if Ob W ext M wf c th el s)
      | SFor _ _ _ => fail
      | SWhile _ _ => fail
      | SAssign ?tg ?e => first [ special e; rw (exec_assign Ob W ext M wf tg e s) | let t' := interp t in change t with t' ]
      | SReturn ?e => first [ special e; rw (exec_return Ob W ext M wf e s) | let t' := interp t in change t with t' ]
      | SExpr ?e => first [ special e; rw (exec_expr Ob W ext M wf e s) | let t' := interp t in change t with t' ]
      | SAug _ _ ?e => first [ special e; fail 1 | let t' := interp t in change t with t' ]
      | _ => let t' := interp t in change t with t'
      end
  | |- context [PyO.eval_list ?Ob ?W ?ext ?M ?l (Build_state ?A ?B ?lc ?sf ?w)] =>
      let s := constr:(Build_state A B lc sf w) in
      lazymatch l with
      | [] => rw (eval_list_nil Ob W ext M s)
      | ?a :: ?r => rw (eval_list_cons Ob W ext M a r s)
      end
  | |- context [PyO.eval ?Ob ?W ?ext ?M ?e (Build_state ?A ?B ?l ?sf ?w)] =>
      let s := constr:(Build_state A B l sf w) in
      let t := constr:(PyO.eval Ob W ext M e s) in
      first
      [ special e;
        lazymatch e with
        | EIndex ?a ?i => rw (eval_index Ob W ext M a i s)
        | EBin ?o ?a ?b => rw (eval_bin Ob W ext M o a b s)
        | ECmp ?a [(?o, ?b)] => rewrite (eval_cmp1 Ob W ext M a o b s)
        | ECallB ?f ?args => rw (eval_callb Ob W ext M f args s)
        | ECallM ?m ?args => rw (eval_callm Ob W ext M m args s)
        | EGetattrSelf ?rs ?en ?ed => rw (eval_getattr_self Ob W ext M rs en ed s)
        end
      | let t' := interp t in change t with t' ]
  end.
Ltac rd := cbv [PyO.exec_list set_world set_self set_locals]; cbv beta iota;
  cbn [truth cmp_last binop_val int_binop cmp_val eq_val world self locals builtin_val].
Ltac sx := rd; repeat (step_stmt; rd).
(* the same with facts rewritten as soon as they are exposed (so that no branch on an unknown is entered) *)
Tactic Notation "sxh" tactic3(tac) := rd; tac; repeat (step_stmt; rd; tac).
Ltac enter m := cbv [call m m_params m_locals m_body bind_params]; cbn [map app].

(* ---------- pieces of the translated methods ---------- *)
(* the body of the three loops over the keys of a dict, written out (x = anamg / anam, dx = gdict / pdict): the proofs below fail
   if the translated loops are anything else *)
Definition keys_body_of (x dx:string) : list stmt :=
  [SAssign (TTuple [TVar "offset"; TVar "index"]) (ECallM "_set_attribute" [EVar x; EVar dx; EVar "offset"; EVar "index"])].
Notation keys_body := (keys_body_of "anamg" "gdict").
(* the loop of _do_attributes *)
Definition top_loop : stmt :=
  Eval cbv [m_body srco_msgdec__do_attributes] in
  match m_body srco_msgdec__do_attributes with [_; _; _; STry [_; _; s] _] => s | _ => SPass end.
(* the method from `index.append(0)` on; the locals at that point *)
Definition group_rest : list stmt :=
  Eval cbv [skipn m_body srco_msgdec__set_attribute_group] in skipn 2 (m_body srco_msgdec__set_attribute_group).
Definition gframe (b:body) (va vanam vn vg:val dob) (vo vi v1 vx:val dob) : env dob :=
  [("adef", va); ("offset", vo); ("index", vi); ("anam", vanam); ("gdict", VOpq (DBody b)); ("gsiz", vg); ("i", v1);
   ("nestlevel", vn); ("anamg", vx)].
Definition rep_body : list stmt :=
  Eval cbv [group_rest] in match group_rest with [_; SFor _ _ body; _; _] => body | _ => [] end.
(* `anam += f"_{index[i]:02d}"` *)
Definition suffix_body : list stmt :=
  Eval cbv [m_body srco_msgdec__set_attribute_group] in
  match m_body srco_msgdec__set_attribute_group with
  | _ :: SIf _ _ (SIf _ (_ :: SFor _ _ body :: _) _ :: _) :: _ => body
  | _ => []
  end.

(* the callee (group / optional) has done the work: pass its result on *)
Ltac via_callee G :=
  match type of G with
  | out_rel _ _ _ ?out _ =>
      let o1 := fresh "o1" in let off1 := fresh "off1" in let e := fresh "e" in let xk := fresh "xk" in let w := fresh "w" in
      destruct out as [[o1 off1]|e|xk|w]; cbn [out_rel] in G |- *; [| | |exact I];
      [ destruct G as [v [a' [E [Ev Hinv']]]]; rewrite E; cbn [snd fst] in Ev, Hinv'; subst v; sx;
        eexists _, a'; split; [reflexivity|]; split; [reflexivity|exact Hinv']
      | destruct G as [a' [E K]]; rewrite E; sx; exists a'; split; [reflexivity|exact K]
      | destruct G as [a' [E K]]; rewrite E; sx; exists a'; split; [reflexivity|exact K] ]
  end.

(* `for anamg in gdict:` -- ask the environment for the keys *)
Ltac for_keys b :=
  match goal with
  | |- context [PyO.exec ?Ob ?W ?ext ?M ?wf (SFor ?t ?it ?body) ?s] =>
      rw (exec_for Ob W ext M wf t it body s); cbv [iter_values]; step_stmt; cbv beta iota
  end.

(* the loop is done (KL: its result against the model): the rest of the method *)
Ltac use_loop KL :=
  cbn [set_world locals self world];
  match type of KL with
  | sout_rel _ _ _ ?fl =>
      match goal with |- context [floop ?a ?b ?c ?d ?e ?f] => change (floop a b c d e f) with fl end;
      let rf := fresh "rf" in let sf := fresh "sf" in destruct fl as [rf [lf af []]]
  end.
Ltac after_loop KL :=
  use_loop KL;
  match type of KL with
  | sout_rel _ _ ?out _ =>
      let o1 := fresh "o1" in let off1 := fresh "off1" in let e := fresh "e" in let xk := fresh "xk" in let w := fresh "w" in
      destruct out as [[o1 off1]|e|xk|w]; cbn [sout_rel out_rel fst snd self] in KL |- *; [| | |exact I];
      [ let vx := fresh "vx" in let a' := fresh "a'" in let E := fresh "E" in let Hinv' := fresh "Hinv'" in
        destruct KL as [KL [vx [a' [E Hinv']]]]; subst; inversion E; subst; sx;
        eexists _, a'; split; [reflexivity|]; split; [reflexivity|exact Hinv']
      | destruct KL as [KL K]; subst; sx; eexists; split; [reflexivity|exact K]
      | destruct KL as [KL K]; subst; sx; eexists; split; [reflexivity|exact K] ]
  end.

(* the rest of _set_attribute_group is done (KL: its result against the model) *)
Ltac via_rest KL :=
  match type of KL with
  | sret_rel _ _ ?out ?t =>
      match goal with |- context [?f group_rest ?s] => change (f group_rest s) with t end;
      let rf := fresh "rf" in let lf := fresh "lf" in let af := fresh "af" in
      destruct t as [rf [lf af []]];
      let o1 := fresh "o1" in let off1 := fresh "off1" in let e := fresh "e" in let xk := fresh "xk" in let w := fresh "w" in
      destruct out as [[o1 off1]|e|xk|w]; cbn [sret_rel out_rel fst snd self world] in KL |- *; [| | |exact I];
      [ let v := fresh "v" in let Ev := fresh "Ev" in
        destruct KL as [v [KL Ev]]; subst rf; exists v, af; split; [reflexivity|exact Ev]
      | destruct KL as [KL K]; subst rf; exists af; split; [reflexivity|exact K]
      | destruct KL as [KL K]; subst rf; exists af; split; [reflexivity|exact K] ]
  end.

Section Walk.
Variable T : tables.
Variable wfuel : nat.
Notation ext := (msgdec_ext T).
Notation mtab := (string -> option (mcall dob W)).

(* the environment on the questions the walk asks *)
Lemma ext_subscript l k w :
  ext {| c_name := "[]"; c_kw := [] |} [VOpq (DBody (BItems l)); VStr k] w
  = (match assoc k l with Some it => item_val it | None => RExc "KeyError" end, tt).
Proof. reflexivity. Qed.
Lemma ext_iter l w :
  ext {| c_name := "iter"; c_kw := [] |} [VOpq (DBody (BItems l))] w = (ROk (VList (map (fun kv => VStr (fst kv)) l)), tt).
Proof. reflexivity. Qed.
Lemma ext_iter_bad why w : ext {| c_name := "iter"; c_kw := [] |} [VOpq (DBody (BNotDict why))] w = (RFail (FUnmodelled why), tt).
Proof. reflexivity. Qed.

(* one round of such a loop, in any locals H that hold offset, index, the dict and the loop variable *)
Definition keys_frame_of (x dx:string) (l:list (string*item)) (H:val dob -> val dob -> val dob -> env dob) : Prop :=
  forall vo vi vx,
    lookup dob x (H vo vi vx) = Some vx /\ lookup dob "offset" (H vo vi vx) = Some vo /\ lookup dob "index" (H vo vi vx) = Some vi /\
    lookup dob dx (H vo vi vx) = Some (VOpq (DBody (BItems l))) /\
    forall vo' vi', update dob "index" vi' (update dob "offset" vo' (H vo vi vx)) = H vo' vi' vx.
Notation keys_frame := (keys_frame_of "anamg" "gdict").
Lemma keys_step_of x dx (MT:mtab) g_a l H : MT "_set_attribute" = Some g_a -> keys_frame_of x dx l H ->
  forall k off idx a r a',
  g_a [VStr k; VOpq (DBody (BItems l)); VInt off; vidx idx] a tt = (r, (a', tt)) ->
  let s := {| locals := H (VInt off) (vidx idx) (VStr k); self := a; world := tt |} in
  match r with
  | ROk (VTuple [vo'; vi']) => exec_list dob W ext MT wfuel (keys_body_of x dx) s = (ROk (CNext dob), {| locals := H vo' vi' (VStr k); self := a'; world := tt |})
  | ROk _ => True
  | RExc c => fst (exec_list dob W ext MT wfuel (keys_body_of x dx) s) = RExc c /\ self dob W (snd (exec_list dob W ext MT wfuel (keys_body_of x dx) s)) = a'
  | RFail _ => True
  end.
Proof.
  intros Ha HF k off idx a r a' Eg s.
  destruct (HF (VInt off) (vidx idx) (VStr k)) as [L1 [L2 [L3 [L4 U]]]].
  assert (E : exec_list dob W ext MT wfuel (keys_body_of x dx) s =
              match r with
              | ROk v => match assign dob W (TTuple [TVar "offset"; TVar "index"]) v {| locals := locals dob W s; self := a'; world := tt |} with
                         | (ROk _, s2) => (ROk (CNext dob), s2) | (RExc c, s2) => (RExc c, s2) | (RFail f, s2) => (RFail f, s2) end
              | RExc c => (RExc c, {| locals := locals dob W s; self := a'; world := tt |})
              | RFail f => (RFail f, {| locals := locals dob W s; self := a'; world := tt |})
              end).
  { unfold keys_body_of. rewrite exec_list_cons, exec_assign, eval_callm.
    subst s. rewrite eval_list_cons, eval_var. cbn [locals]. rewrite L1. cbv beta iota.
    rewrite eval_list_cons, eval_var. cbn [locals]. rewrite L4. cbv beta iota.
    rewrite eval_list_cons, eval_var. cbn [locals]. rewrite L2. cbv beta iota.
    rewrite eval_list_cons, eval_var. cbn [locals]. rewrite L3. cbv beta iota.
    rewrite eval_list_nil. cbn [locals self world]. rewrite Ha, Eg.
    destruct r as [v|c|f]; try reflexivity.
    destruct (assign dob W _ v _) as [[u|c|f] s2]; reflexivity. }
  destruct r as [v|c|f]; [|rewrite E; split; reflexivity|exact I].
  destruct v; try exact I. destruct l0 as [|vo' [|vi' [|]]]; try exact I.
  rewrite E. subst s. cbn [locals]. rewrite assign_pair. cbn [locals self world]. rewrite U. reflexivity.
Qed.

Definition keys_step := keys_step_of "anamg" "gdict".

Section Methods.
Variable ident : string.
Variable leaf : string -> list Z -> st -> outcome st.
Variable name_ok : string -> bool.
Hypothesis leaf_frame : forall anam index o off o' off',
  leaf anam index (o, off) = Ok (o', off') -> o_payload o' = o_payload o /\ o_immutable o' = o_immutable o.

(* ================= _set_attribute ================= *)
Lemma set_attribute_ok (MT:mtab) g_s g_g g_o lbl l it :
  MT "_set_attribute_single" = Some g_s -> single_spec ident leaf name_ok g_s ->
  MT "_set_attribute_group" = Some g_g -> MT "_set_attribute_optional" = Some g_o ->
  assoc lbl l = Some it -> lbl <> "IDF038" -> name_ok lbl = true ->
  (forall c b, it = IGroup c b -> adef_spec ident leaf g_g it) ->
  (forall k con b, it = IOpt k con b -> adef_spec ident leaf g_o it) ->
  item_spec ident leaf (call dob W ext MT wfuel "_set_attribute" srco_msgdec__set_attribute) lbl l it.
Proof.
  intros Hs Gs Hg Ho Hl H038 Hn Gg Go p index offset a o Hid Hi Hinv.
  enter srco_msgdec__set_attribute.
  sx. rewrite ext_subscript, Hl.
  destruct it as [key|c b|k con b|w].
  - (* a field *)
    cbn [item_val]. sx. rewrite Hs.
    destruct Hinv as [Hsr [Him Hp]].
    pose proof (Gs lbl index offset a o H038 Hn Hi Hsr Him (eq_trans (f_equal identity Hp) Hid)) as S.
    change (dec_item_s leaf lbl (IField key) index (o, offset)) with (leaf lbl index (o, offset)).
    destruct (leaf lbl index (o, offset)) as [[o1 off1]|e|k|w] eqn:EL; cbn [out_rel] in S |- *; [| | |exact I].
    + destruct S as [v [a' [E [Ev Hsr']]]]. rewrite E. cbn [snd fst] in Ev, Hsr'. subst v. sx.
      destruct (leaf_frame _ _ _ _ _ _ EL) as [F1 F2].
      eexists _, a'. split; [reflexivity|]. split; [reflexivity|]. cbn [fst]. split; [exact Hsr'|]. split; congruence.
    + destruct S as [a' [E K]]. rewrite E. sx. exists a'. rewrite <- Hp. split; [reflexivity|exact K].
    + destruct S as [a' [E K]]. rewrite E. sx. exists a'. rewrite <- Hp. split; [reflexivity|exact K].
  - (* a repeating group *)
    pose proof (Gg c b eq_refl) as G.
    change (dec_item_s leaf lbl (IGroup c b) index (o, offset)) with (dec_item_s leaf "" (IGroup c b) index (o, offset)).
    destruct c as [n|key|w]; [| |exact I]; cbn [item_val]; sx; rewrite Hg.
    + specialize (G _ p index offset a o eq_refl Hid Hi Hinv). via_callee G.
    + specialize (G _ p index offset a o eq_refl Hid Hi Hinv). via_callee G.
  - (* a conditional group *)
    pose proof (Go k con b eq_refl) as G.
    change (dec_item_s leaf lbl (IOpt k con b) index (o, offset)) with (dec_item_s leaf "" (IOpt k con b) index (o, offset)).
    cbn [item_val]; sx; rewrite Ho.
    specialize (G _ p index offset a o eq_refl Hid Hi Hinv). via_callee G.
  - exact I.
Qed.
(* ================= _set_attribute_optional ================= *)
Lemma set_attribute_optional_ok (MT:mtab) g_a k con b :
  MT "_set_attribute" = Some g_a ->
  key_ok srco_msgdec_reserved k = true ->
  (forall l, b = BItems l -> forall lbl it, In (lbl, it) l -> item_spec ident leaf g_a lbl l it) ->
  adef_spec ident leaf (call dob W ext MT wfuel "_set_attribute_optional" srco_msgdec__set_attribute_optional) (IOpt k con b).
Proof.
  intros Ha Hk Gsub adef p index offset a o Ev Hid Hi Hinv.
  cbn [item_val] in Ev. inversion Ev. subst adef. clear Ev.
  enter srco_msgdec__set_attribute_optional.
  sx. rewrite (key_ok_reserved0 _ _ Hk).
  destruct Hinv as [Hsr [Him Hp]].
  pose proof (store_rel_lookup a o k Hsr (key_ok_fixed0 _ _ Hk)) as L.
  rewrite dec_item_s_opt. cbn [fst]. unfold getattr.
  destruct (assoc k (o_attrs o)) as [v|]; cbn [obind].
  2:{ rewrite L. sx. exists a. split; [reflexivity|]. rewrite <- Hp. apply store_rel_kept, Hsr. }
  destruct L as [pv [L V]]. rewrite L. sx.
  destruct V as [z|f|t|u]; cbn [eq_val]; [| exact I | sx; eexists _, a; repeat split; assumption | sx; eexists _, a; repeat split; assumption ].
  destruct (z =? con); sx; [|eexists _, a; repeat split; assumption].
  for_keys b. destruct b as [l|why]; [rewrite ext_iter|rewrite ext_iter_bad; exact I]. cbv beta iota. cbn [set_world].
  set (H := fun vo vi vx : val dob =>
              [("adef", VTuple [VTuple [VStr k; VInt con]; VOpq (DBody (BItems l))]); ("offset", vo); ("index", vi);
               ("gdict", VOpq (DBody (BItems l))); ("anam", VStr k); ("con", VInt con); ("anamg", vx)]).
  assert (HF : keys_frame l H) by (intros vo vi vx; repeat split).
  pose proof (keys_loop ident leaf p Hid g_a l H "anamg" _ (fun _ _ _ _ => eq_refl) (keys_step MT g_a l H Ha HF)
                l (Gsub l eq_refl) index offset a o VUnbound Hi (conj Hsr (conj Him Hp))) as KL.
  subst H. cbv beta in KL. rewrite dec_body_items_s. after_loop KL.
Qed.
(* ================= _set_attribute_group ================= *)

Lemma rep_step (MT:mtab) g_a b va vanam vn n p index :
  MT "_set_attribute" = Some g_a ->
  (forall l, b = BItems l -> forall lbl it, In (lbl, it) l -> item_spec ident leaf g_a lbl l it) ->
  identity p = Ok ident -> idx_ok index -> n <= max_count ->
  forall k jprev offset a o vx, (k < Z.to_nat n)%nat -> inv p a o ->
  sout_rel p (fun y s' => exists vx' a', s' = {| locals := gframe b va vanam vn (VInt n) (VInt (snd y)) (vidx (index ++ [Z.of_nat k + 1])%list) (VInt (Z.of_nat k)) vx';
                                                  self := a'; world := tt |} /\ inv p a' (fst y))
    (dec_body_s leaf b (index ++ [Z.of_nat k + 1])%list (o, offset))
    (exec_list dob W ext MT wfuel rep_body
       {| locals := gframe b va vanam vn (VInt n) (VInt offset) (vidx (index ++ [jprev])%list) (VInt (Z.of_nat k)) vx; self := a; world := tt |}).
Proof.
  intros Ha Gsub Hid Hi Hn k jprev offset a o vx Hk Hinv.
  unfold rep_body, gframe. sx.
  change (- (1)) with (-1). rewrite list_pos_idx_last, set_nth_idx_last. sx.
  assert (Hi' : idx_ok (index ++ [Z.of_nat k + 1])%list) by (apply idx_ok_snoc; [exact Hi|lia]).
  for_keys b. destruct b as [l|why]; [rewrite ext_iter|rewrite ext_iter_bad; exact I]. cbv beta iota. cbn [set_world].
  set (H := fun vo vi vx : val dob =>
              [("adef", va); ("offset", vo); ("index", vi); ("anam", vanam); ("gdict", VOpq (DBody (BItems l))); ("gsiz", VInt n);
               ("i", VInt (Z.of_nat k)); ("nestlevel", vn); ("anamg", vx)]).
  assert (HF : keys_frame l H) by (intros vo vi vx0; repeat split).
  pose proof (keys_loop ident leaf p Hid g_a l H "anamg" _ (fun _ _ _ _ => eq_refl) (keys_step MT g_a l H Ha HF)
                l (Gsub l eq_refl) _ offset a o vx Hi' Hinv) as KL.
  subst H. cbv beta in KL. rewrite dec_body_items_s.
  use_loop KL.
  destruct (dec_items_s leaf (index ++ [Z.of_nat k + 1])%list l (o, offset)) as [[o1 off1]|e|xk|w];
    cbn [sout_rel fst snd self] in KL |- *; [| | |exact I].
  - destruct KL as [KL [vx' [a' [E Hinv']]]]. subst. inversion E. subst. split; [reflexivity|]. exists vx', a'. split; [reflexivity|exact Hinv'].
  - destruct KL as [KL K]. subst. split; [reflexivity|exact K].
  - destruct KL as [KL K]. subst. split; [reflexivity|exact K].
Qed.
Lemma group_rest_ok (MT:mtab) g_a b va vanam vn vi0 n p index offset a o :
  MT "_set_attribute" = Some g_a ->
  (forall l, b = BItems l -> forall lbl it, In (lbl, it) l -> item_spec ident leaf g_a lbl l it) ->
  identity p = Ok ident -> idx_ok index -> inv p a o -> n <= max_count ->
  sret_rel p (walk_img p index) (rep (dec_body_s leaf b) index (Z.to_nat n) 1 (o, offset))
    (exec_list dob W ext MT wfuel group_rest
       {| locals := gframe b va vanam vn (VInt n) (VInt offset) (vidx index) vi0 VUnbound; self := a; world := tt |}).
Proof.
  intros Ha Gsub Hid Hi Hinv Hn.
  unfold group_rest, gframe. sx. rewrite map_snoc.
  match goal with
  | |- context [PyO.exec ?Ob ?W ?ext ?M ?wf (SFor ?t ?it ?body) ?s] =>
      rw (exec_for Ob W ext M wf t it body s); rw (iter_range Ob W ext M (EVar "gsiz") s); step_stmt; cbv beta iota
  end.
  pose proof (rep_loop p (dec_body_s leaf b) index (gframe b va vanam vn (VInt n)) "i" _ (Z.to_nat n) (fun _ _ _ _ _ => eq_refl)
                (rep_step MT g_a b va vanam vn n p index Ha Gsub Hid Hi Hn) (Z.to_nat n) 0%nat 0 offset a o vi0 VUnbound
                (Nat.le_refl _) Hinv) as KL.
  unfold gframe in KL. change (Z.of_nat 0 + 1) with 1 in KL.
  use_loop KL.
  destruct (rep (dec_body_s leaf b) index (Z.to_nat n) 1 (o, offset)) as [[o1 off1]|e|xk|w];
    cbn [sout_rel sret_rel fst snd self] in KL |- *; [| | |exact I].
  - destruct KL as [KL [j' [vi' [vx' [a' [E Hinv']]]]]]. unfold rep_img in E. subst. inversion E. subst. sx.
    rewrite rev_idx_last. sx. rewrite rev_involutive.
    eexists. split; [reflexivity|]. split; [reflexivity|exact Hinv'].
  - destruct KL as [KL K]. subst. split; [reflexivity|exact K].
  - destruct KL as [KL K]. subst. split; [reflexivity|exact K].
Qed.
(* `anam += f"_{index[i]:02d}"` *)
Lemma suffix_step (MT:mtab) b va0 nl offset index a : idx_ok index ->
  forall s j,
  let s0 := {| locals := gframe b va0 (VStr s) (VStr nl) VUnbound (VInt offset) (vidx index) (VInt (Z.of_nat j)) VUnbound; self := a; world := tt |} in
  match nth_error index j with
  | None => exec_list dob W ext MT wfuel suffix_body s0 = (RExc "IndexError", s0)
  | Some z => if z <? 0 then True
              else exec_list dob W ext MT wfuel suffix_body s0 =
                   (ROk (CNext dob), {| locals := gframe b va0 (VStr (s ++ idx_suffix z)) (VStr nl) VUnbound (VInt offset) (vidx index) (VInt (Z.of_nat j)) VUnbound;
                                        self := a; world := tt |})
  end.
Proof.
  intros Hi s j s0. subst s0. unfold suffix_body, gframe.
  match goal with
  | |- context [PyO.exec_list ?Ob ?W ?ext ?M ?wf [SAug (TVar ?x) ?o ?e] ?s] =>
      change (PyO.exec_list Ob W ext M wf [SAug (TVar x) o e] s)
        with (match PyO.exec Ob W ext M wf (SAug (TVar x) o e) s with (ROk (CNext _), s1) => (ROk (CNext Ob), s1) | other => other end);
      rw (exec_aug Ob W ext M wf x o e s)
  end.
  sx. rewrite index_list_nat.
  destruct (nth_error index j) as [z|] eqn:En; [|reflexivity].
  destruct (z <? 0) eqn:Ez; [exact I|].
  rewrite fmtd_guard by (try apply Z.ltb_ge, Ez; eapply idx_ok_nth; eassumption).
  sx. reflexivity.
Qed.
(* from `gsiz = getattr(self, anam)` on, anam = nm (facts Hres, Hfix about nm, Hc' about the "+" test) *)
Ltac named_tail nm Hinv Hfix Hres Hc' Hkept Ha Gsub Hid Hi MT g_a b p index offset a o :=
  let Hsr := fresh "Hsr" in let Him := fresh "Him" in let Hp := fresh "Hp" in let L := fresh "L" in
  let E35 := fresh "E35" in let Em := fresh "Em" in let KL := fresh "KL" in
  destruct Hinv as [Hsr [Him Hp]];
  pose proof (store_rel_lookup a o nm Hsr Hfix) as L;
  unfold getint_s, getattr;
  destruct (assoc nm (o_attrs o)) as [v|]; cbn [obind];
  [ let pv := fresh "pv" in let V := fresh "V" in
    destruct L as [pv [L V]]; destruct V as [g|f|t|u]; cbn [obind]; [ | exact I | exact I | exact I]
  | sxh (rewrite ?Hc', ?Hres, ?L); exists a; split; [reflexivity|exact Hkept] ];
  destruct (String.eqb nm "IDF035") eqn:E35;
  sxh (rewrite ?Hc', ?Hres, ?L, ?E35);
  (match goal with |- context [max_count <? ?n] => destruct (max_count <? n) eqn:Em; [exact I|]; apply Z.ltb_ge in Em end);
  match goal with
  | |- context [?f group_rest {| locals := [("adef", ?va); ("offset", _); ("index", _); ("anam", ?vanam); ("gdict", _); ("gsiz", VInt ?n);
                                            ("i", ?vi); ("nestlevel", ?vn); ("anamg", _)]; self := _; world := _ |}] =>
      pose proof (group_rest_ok MT g_a b va vanam vn vi n p index offset a o Ha Gsub Hid Hi (conj Hsr (conj Him Hp)) Em) as KL
  end;
  unfold gframe in KL; via_rest KL.

Lemma set_attribute_group_ok (MT:mtab) g_a c b :
  MT "_set_attribute" = Some g_a ->
  ent_keys_ok srco_msgdec_reserved (IGroup c b) = true ->
  (forall l, b = BItems l -> forall lbl it, In (lbl, it) l -> item_spec ident leaf g_a lbl l it) ->
  adef_spec ident leaf (call dob W ext MT wfuel "_set_attribute_group" srco_msgdec__set_attribute_group) (IGroup c b).
Proof.
  intros Ha Hk Gsub adef p index offset a o Ev Hid Hi Hinv.
  assert (Hkept : kept p a) by (destruct Hinv as [Hsr [_ Hp]]; rewrite <- Hp; apply store_rel_kept, Hsr).
  rewrite dec_item_s_group. cbn [fst].
  enter srco_msgdec__set_attribute_group.
  match goal with
  | |- context [PyO.exec_list ?Ob ?W ?ext ?M ?wf (?s1 :: ?s2 :: ?r) ?s] =>
      change (PyO.exec_list Ob W ext M wf (s1 :: s2 :: r) s) with (PyO.exec_list Ob W ext M wf ([s1; s2] ++ group_rest) s);
      rewrite (exec_list_app Ob W ext M wf [s1; s2] group_rest s)
  end.
  destruct c as [n|key|w]; cbn [item_val] in Ev; inversion Ev; subst adef; clear Ev.
  - (* fixed number of repeats *)
    cbn [group_size_s obind]. sx.
    destruct (max_count <? n) eqn:Em; [exact I|]. apply Z.ltb_ge in Em.
    pose proof (group_rest_ok MT g_a b (VTuple [VInt n; VOpq (DBody b)]) (VInt n) VUnbound VUnbound n p index offset a o Ha Gsub Hid Hi Hinv Em) as KL.
    unfold gframe in KL. via_rest KL.
  - (* number of repeats in a named attribute *)
    cbn [ent_keys_ok] in Hk. unfold group_size_s.
    destruct (split_plus key) as [k0 [nl|]] eqn:ES; cbn [fst] in Hk.
    + (* "KEY+n" *)
      destruct (split_plus_some _ _ _ ES) as [Hc Hsp].
      assert (Hc' : str_contains "+" key = true) by exact Hc.
      destruct (contains "+" nl) eqn:Hc2.
      * (* more than one "+": too many values to unpack *)
        destruct (split_char_plus _ Hc2) as [x [y [q Hq]]]. rewrite Hq in Hsp.
        cbn [obind].
        sxh (rewrite ?Hc', ?Hsp; cbn [map]).
        exists a. split; [reflexivity|exact Hkept].
      * rewrite (split_char_noplus _ Hc2) in Hsp.
        destruct (N_of_str nl) as [n0|] eqn:EN; [|exact I].
        sxh (rewrite ?Hc', ?Hsp; cbn [map]).
        match goal with
        | |- context [PyO.exec ?Ob ?W ?ext ?M ?wf (SFor ?t (ItRange ?e) ?body) ?s] =>
            rw (exec_for Ob W ext M wf t (ItRange e) body s); rw (iter_range Ob W ext M e s)
        end.
        sxh (rewrite ?EN). rewrite <- (N_nat_Z n0), Nat2Z.id.
        pose proof (suffix_loop p index a Hkept
                      (fun va vi => gframe b (VTuple [VStr key; VOpq (DBody b)]) va (VStr nl) VUnbound (VInt offset) (vidx index) vi VUnbound)
                      "i" (exec_list dob W ext MT wfuel suffix_body) (fun _ _ _ => eq_refl)
                      (suffix_step MT b _ nl offset index a Hi) (N.to_nat n0) 0%nat k0 VUnbound) as KL.
        cbv beta in KL. unfold gframe in KL. cbn [skipn] in KL.
        use_loop KL.
        destruct (suffix_first (N.to_nat n0) index k0) as [s'|e|xk|w] eqn:ESF; cbn [sout_rel obind fst snd self] in KL |- *; [| | |exact I].
        2,3: destruct KL as [KL K]; subst; sx; eexists; split; [reflexivity|exact K].
        destruct KL as [KL [vi' E]]. subst. inversion E. subst. clear E.
        destruct (suffix_first_app _ _ _ _ ESF) as [sfx Es]. subst s'.
        pose proof (key_ok_reserved _ _ sfx Hk) as Hres. pose proof (proj2 (key_ok_spec _ _ sfx Hk)) as Hfix.
        named_tail (k0 ++ sfx) Hinv Hfix Hres Hc' Hkept Ha Gsub Hid Hi MT g_a b p index offset a o.
    + (* the attribute name as it stands *)
      destruct (split_plus_none _ _ ES) as [Hc Hk0]. subst k0.
      assert (Hc' : str_contains "+" key = false) by exact Hc.
      pose proof (key_ok_reserved0 _ _ Hk) as Hres. pose proof (key_ok_fixed0 _ _ Hk) as Hfix.
      cbn [obind].
      named_tail key Hinv Hfix Hres Hc' Hkept Ha Gsub Hid Hi MT g_a b p index offset a o.
Qed.
End Methods.

(* ================= the class as linked (recursive linking, call-depth budget d) ================= *)
Notation prog_M d := (rlink dob W ext wfuel srco_msgdec_prog d).
Notation set_attribute_ d := (call dob W ext (prog_M d) wfuel "_set_attribute" srco_msgdec__set_attribute).

Lemma rrun_set_attribute d : rrun dob W ext wfuel srco_msgdec_prog (S d) "_set_attribute" = set_attribute_ d.
Proof. reflexivity. Qed.

Section Linked.
Variable ident : string.
Variable leaf : string -> list Z -> st -> outcome st.
Variable name_ok : string -> bool.
(* the field step of the model, possibly cut down to "not modelled" (see Src/PyOMsgDecWalkLemmas.v, section 1) *)
Hypothesis leaf_refines : forall anam index s, refines (leaf anam index s) (set_single T ident anam index s).
(* _set_attribute_single as linked meets its specification when it has c1 levels of calls below it *)
Variable c1 : nat.
Hypothesis single_ok : forall d, (c1 <= d)%nat ->
  single_spec ident leaf name_ok (call dob W ext (prog_M d) wfuel "_set_attribute_single" srco_msgdec__set_attribute_single).

Lemma leaf_frame anam index o off o' off' :
  leaf anam index (o, off) = Ok (o', off') -> o_payload o' = o_payload o /\ o_immutable o' = o_immutable o.
Proof.
  intro E. pose proof (leaf_refines anam index (o, off)) as R. rewrite E in R. cbn [refines] in R.
  destruct (set_single_frame _ _ _ _ _ _ _ _ R) as [F1 [_ [F2 _]]]. split; assumption.
Qed.

(* 1. _set_attribute on an entry of a layout dict, in terms of the specification *)
Theorem src_set_attribute_spec d l lbl it :
  walk_ok srco_msgdec_reserved name_ok (BItems l) = true -> assoc lbl l = Some it ->
  (c1 + 1 + body_depth (BItems l) <= d)%nat ->
  item_spec ident leaf (set_attribute_ d) lbl l it.
Proof.
  intros Hok Hl Hd.
  apply (walk_item_ok T wfuel srco_msgdec_reserved ident leaf name_ok
           srco_msgdec__set_attribute srco_msgdec__set_attribute_group srco_msgdec__set_attribute_optional
           (set_attribute_ok ident leaf name_ok leaf_frame)
           (set_attribute_group_ok ident leaf)
           (set_attribute_optional_ok ident leaf)
           (fun d => prog_M d) (c1 + 1)%nat); try assumption; try lia; try (intro; reflexivity).
  intros d0 Hd0. destruct d0 as [|d0']; [lia|]. eexists. split; [reflexivity|]. apply single_ok. lia.
Qed.

(* 2. the same, spelled out: for every index list, offset, store and object *)
Theorem src_set_attribute_eq d l lbl it index offset a o :
  walk_ok srco_msgdec_reserved name_ok (BItems l) = true -> assoc lbl l = Some it ->
  (c1 + 1 + body_depth (BItems l) <= d)%nat ->
  idx_ok index -> store_rel a o -> o_immutable o = false -> identity (o_payload o) = Ok ident ->
  let r := rrun dob W ext wfuel srco_msgdec_prog (S d) "_set_attribute" [VStr lbl; VOpq (DBody (BItems l)); VInt offset; vidx index] a tt in
  match dec_item_s leaf lbl it index (o, offset) with
  | Ok (o', off') => exists a', r = (ROk (VTuple [VInt off'; vidx index]), (a', tt)) /\ store_rel a' o'
  | Lib e => exists a', r = (RExc (liberr_class e), (a', tt)) /\ lookup dob "_payload" a' = Some (VBytes (o_payload o))
  | Foreign k => exists a', r = (RExc (dec_exc_class k), (a', tt)) /\ lookup dob "_payload" a' = Some (VBytes (o_payload o))
  | Unmodelled _ => True
  end.
Proof.
  intros Hok Hl Hd Hi Hsr Him Hid r. subst r. rewrite rrun_set_attribute.
  pose proof (src_set_attribute_spec d l lbl it Hok Hl Hd (o_payload o) index offset a o Hid Hi (conj Hsr (conj Him eq_refl))) as S.
  destruct (dec_item_s leaf lbl it index (o, offset)) as [[o' off']|e|k|w]; cbn [out_rel] in S; [| exact S | exact S | exact I].
  destruct S as [v [a' [E [Ev [Hsr' _]]]]]. cbn [fst snd] in *. subst v. exists a'. split; assumption.
Qed.

(* 3. the loop of _do_attributes, `for anam in pdict: offset, index = self._set_attribute(anam, pdict, offset, index)`, is dec_body *)
Theorem src_body_loop_eq d l index offset a o vanam verr :
  walk_ok srco_msgdec_reserved name_ok (BItems l) = true ->
  (c1 + 1 + body_depth (BItems l) <= d)%nat ->
  idx_ok index -> store_rel a o -> o_immutable o = false -> identity (o_payload o) = Ok ident ->
  let lcl := fun vo vx : val dob => [("offset", vo); ("index", vidx index); ("anam", vx); ("err", verr); ("pdict", VOpq (DBody (BItems l)))] in
  let r := exec dob W ext (prog_M (S d)) wfuel top_loop {| locals := lcl (VInt offset) vanam; self := a; world := tt |} in
  match dec_body_s leaf (BItems l) index (o, offset) with
  | Ok (o', off') => exists vx a', r = (ROk (CNext dob), {| locals := lcl (VInt off') vx; self := a'; world := tt |}) /\ store_rel a' o'
  | Lib e => fst r = RExc (liberr_class e) /\ lookup dob "_payload" (self dob W (snd r)) = Some (VBytes (o_payload o))
  | Foreign k => fst r = RExc (dec_exc_class k) /\ lookup dob "_payload" (self dob W (snd r)) = Some (VBytes (o_payload o))
  | Unmodelled _ => True
  end.
Proof.
  intros Hok Hd Hi Hsr Him Hid lcl r. subst r lcl. unfold top_loop.
  for_keys l. rewrite ext_iter. cbv beta iota. cbn [set_world].
  set (H := fun vo vi vx : val dob => [("offset", vo); ("index", vi); ("anam", vx); ("err", verr); ("pdict", VOpq (DBody (BItems l)))]).
  assert (HF : keys_frame_of "anam" "pdict" l H) by (intros vo vi vx0; repeat split).
  assert (Gsub : forall lbl it, In (lbl, it) l -> item_spec ident leaf (set_attribute_ d) lbl l it).
  { intros lbl it I. apply src_set_attribute_spec; [exact Hok| |exact Hd].
    apply assoc_in_nodup; [exact (proj1 (walk_ok_items _ _ _ Hok))|exact I]. }
  pose proof (keys_loop ident leaf (o_payload o) Hid (set_attribute_ d) l H "anam" _ (fun _ _ _ _ => eq_refl)
                (keys_step_of "anam" "pdict" (prog_M (S d)) (set_attribute_ d) l H eq_refl HF)
                l Gsub index offset a o vanam Hi (conj Hsr (conj Him eq_refl))) as KL.
  subst H. cbv beta in KL. rewrite dec_body_items_s.
  match type of KL with
  | sout_rel _ _ _ ?fl =>
      match goal with |- context [floop ?a ?b ?c ?d ?e ?f] => change (floop a b c d e f) with fl end; destruct fl as [rf sf]
  end.
  destruct (dec_items_s leaf index l (o, offset)) as [[o' off']|e|k|w]; cbn [sout_rel fst snd] in KL |- *; [| exact KL | exact KL | exact I].
  destruct KL as [KL [vx [a' [E [Hsr' _]]]]]. subst. exists vx, a'. split; [reflexivity|exact Hsr'].
Qed.
End Linked.

(* 4. against the model's own dec_item (leaf = set_single): equal, except that where the model says TypeError the interpreter may
   have met `range()` of a str-valued repeat count (dec_item_s: "not modelled") *)
Theorem src_set_attribute_model ident name_ok c1 d l lbl it index offset a o :
  (forall d, (c1 <= d)%nat ->
     single_spec ident (set_single T ident) name_ok (call dob W ext (prog_M d) wfuel "_set_attribute_single" srco_msgdec__set_attribute_single)) ->
  walk_ok srco_msgdec_reserved name_ok (BItems l) = true -> assoc lbl l = Some it ->
  (c1 + 1 + body_depth (BItems l) <= d)%nat ->
  idx_ok index -> store_rel a o -> o_immutable o = false -> identity (o_payload o) = Ok ident ->
  let r := rrun dob W ext wfuel srco_msgdec_prog (S d) "_set_attribute" [VStr lbl; VOpq (DBody (BItems l)); VInt offset; vidx index] a tt in
  match dec_item T ident lbl it index (o, offset) with
  | Ok (o', off') => exists a', r = (ROk (VTuple [VInt off'; vidx index]), (a', tt)) /\ store_rel a' o'
  | Lib e => exists a', r = (RExc (liberr_class e), (a', tt)) /\ lookup dob "_payload" a' = Some (VBytes (o_payload o))
  | Foreign k => (exists a', r = (RExc (dec_exc_class k), (a', tt)) /\ lookup dob "_payload" a' = Some (VBytes (o_payload o)))
                 \/ (k = XType /\ exists w, dec_item_s (set_single T ident) lbl it index (o, offset) = Unmodelled w)
  | Unmodelled _ => True
  end.
Proof.
  intros Hs Hok Hl Hd Hi Hsr Him Hid r.
  pose proof (src_set_attribute_eq ident (set_single T ident) name_ok (fun _ _ _ => refines_refl _) c1 Hs d l lbl it index offset a o
                Hok Hl Hd Hi Hsr Him Hid) as S.
  cbv zeta in S. fold r in S.
  destruct (dec_item_coarsens T ident it lbl index (o, offset)) as [C|[C [w Cw]]].
  - rewrite C. destruct (dec_item_s (set_single T ident) lbl it index (o, offset)) as [[o' off']|e|k|w]; try exact S; [left; exact S].
  - rewrite C. right. split; [reflexivity|]. exists w. exact Cw.
Qed.

(* 5. the shape run/SrcMsgDecTop_inst.v assumes (walk_spec, strict = false): the top-level call, with the empty index list, for every
   identity; good (BItems l) := walk_ok .. (BItems l) = true /\ c1 + 1 + body_depth (BItems l) <= d *)
Theorem src_set_attribute_top (leaf_of : string -> string -> list Z -> st -> outcome st) name_ok c1 d :
  (forall ident anam index s, refines (leaf_of ident anam index s) (set_single T ident anam index s)) ->
  (forall ident d', (c1 <= d')%nat ->
     single_spec ident (leaf_of ident) name_ok (call dob W ext (prog_M d') wfuel "_set_attribute_single" srco_msgdec__set_attribute_single)) ->
  forall lbl l it offset a o ident,
    walk_ok srco_msgdec_reserved name_ok (BItems l) = true /\ (c1 + 1 + body_depth (BItems l) <= d)%nat ->
    assoc lbl l = Some it -> store_rel a o -> o_immutable o = false -> identity (o_payload o) = Ok ident ->
    let r := set_attribute_ d [VStr lbl; VOpq (DBody (BItems l)); VInt offset; VList []] a tt in
    match dec_item_s (leaf_of ident) lbl it [] (o, offset) with
    | Ok (o', off') => exists a', r = (ROk (VTuple [VInt off'; VList []]), (a', tt)) /\ store_rel a' o'
    | Lib e => exists a', r = (RExc (liberr_class e), (a', tt)) /\ lookup dob "_payload" a' = Some (VBytes (o_payload o))
    | Foreign k => exists a', r = (RExc (dec_exc_class k), (a', tt)) /\ lookup dob "_payload" a' = Some (VBytes (o_payload o))
    | Unmodelled _ => True
    end.
Proof.
  intros Hr Hs lbl l it offset a o ident [Hok Hd] Hl Hsr Him Hid.
  exact (src_set_attribute_eq ident (leaf_of ident) name_ok (Hr ident) c1 (Hs ident) d l lbl it [] offset a o Hok Hl Hd (Forall_nil _) Hsr Him Hid).
Qed.
End Walk.

Goal True. idtac "PA:src_set_attribute_spec". Abort.
Print Assumptions src_set_attribute_spec.
Goal True. idtac "PA:src_set_attribute_eq". Abort.
Print Assumptions src_set_attribute_eq.
Goal True. idtac "PA:src_body_loop_eq". Abort.
Print Assumptions src_body_loop_eq.
Goal True. idtac "PA:src_set_attribute_model". Abort.
Print Assumptions src_set_attribute_model.
Goal True. idtac "PA:src_set_attribute_top". Abort.
Print Assumptions src_set_attribute_top.
