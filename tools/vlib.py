"""Shared plumbing for the /verif checks: Coq term encoding, canonical observable serialisation
(the mirror image of coq/Corr/CaseLib.v), running coqc, evidence and replay files."""
import concurrent.futures
import hashlib
import json
import os
import re
import shutil
import subprocess
import sys
import tempfile
import time

VERIF = os.path.dirname(os.path.dirname(os.path.abspath(__file__)))
REPO = os.environ.get("VERIF_REPO", "/repo")
OUT = os.environ.get("VERIF_OUT", VERIF)      # evidence/ and work/replays/ go here (selftest runs several trees in parallel)
COQDIR = os.path.join(VERIF, "coq")
PY = "/venv/bin/python"
NCPU = int(os.environ.get("VERIF_JOBS", "16"))


# ---------------------------------------------------------------- Coq literals
def blob(b):
    """bytes -> Coq term of type CaseLib.blob (uint63_scope must be open)"""
    b = bytes(b)
    words = []
    for i in range(0, len(b), 7):
        w = b[i:i + 7].ljust(7, b"\0")
        words.append(str(int.from_bytes(w, "big")))
    return "(%d%%nat, [%s])" % (len(b), ";".join(words))


def zlit(i):
    return "(%d)%%Z" % i


def natlit(i):
    return "%d%%nat" % i


def floatlit(f):
    return "(%s)%%float" % f.hex()


def floatlist(fs):
    return "[%s]" % ";".join(floatlit(f) for f in fs)


def coqstr(s):
    assert all(32 <= ord(c) < 127 for c in s), s
    return '"%s"%%string' % s.replace('"', '""')


# ---------------------------------------------------------------- canonical serialisation (== CaseLib.v)
def ser_n(k, n):
    return (n % (256 ** k)).to_bytes(k, "big")


def ser_bytes(b):
    return ser_n(3, len(b)) + bytes(b)


def ser_str(s):
    return ser_bytes(s.encode("utf-8"))


def ser_Z(z):
    m = abs(z)
    mb = m.to_bytes((m.bit_length() + 7) // 8, "big") if m else b""
    return (b"\x01" if z < 0 else b"\x00") + ser_n(2, len(mb)) + mb


def ser_value(v, floats):
    if isinstance(v, bool):
        return b"\x00" + ser_Z(int(v))
    if isinstance(v, int):
        return b"\x00" + ser_Z(v)
    if isinstance(v, float):
        floats.append(v)
        return b"\x01"
    if isinstance(v, str):
        return b"\x02" + ser_n(2, len(v)) + b"".join(ser_n(3, ord(c)) for c in v)
    # anything else (None, bytes, a tuple ...) is not a value the decoder may produce: a tag the model never produces, so that the
    # case shows up as a disagreement with its input instead of crashing the driver
    return b"\xfe" + ser_n(2, len(type(v).__name__)) + type(v).__name__.encode()


def ser_attrs(items, floats):
    out = ser_n(2, len(items))
    for k, v in items:
        out += ser_str(k) + ser_value(v, floats)
    return out


def exc_tag(e):
    from pyrtcm.exceptions import RTCMMessageError, RTCMParseError, RTCMStreamError, RTCMTypeError
    if isinstance(e, RTCMMessageError):
        return 1
    if isinstance(e, RTCMParseError):
        return 2
    if isinstance(e, RTCMStreamError):
        return 3
    if isinstance(e, RTCMTypeError):
        return 4
    return 5


TAGNAME = {0: "Ok", 1: "RTCMMessageError", 2: "RTCMParseError", 3: "RTCMStreamError", 4: "RTCMTypeError", 5: "FOREIGN", 9: "UNMODELLED"}


# ---------------------------------------------------------------- per-call watchdog (non-termination is a finding, not a hang)
class WatchdogTimeout(BaseException):
    """BaseException on purpose: the library's `except Exception` must not swallow it"""


class watchdog:
    hits = 0

    def __init__(self, seconds=20):
        self.seconds = seconds

    def __enter__(self):
        import signal

        def handler(signum, frame):
            watchdog.hits += 1
            raise WatchdogTimeout("call did not finish within %ds" % self.seconds)
        self._old = signal.signal(signal.SIGALRM, handler)
        # once three calls in this process have run into their limit, non-termination is established (and reported by the caller):
        # later calls get one second each, so that a code change which never terminates does not cost hours of watchdog time
        signal.setitimer(signal.ITIMER_REAL, self.seconds if watchdog.hits < 3 else min(self.seconds, 1))
        return self

    def __exit__(self, *a):
        import signal
        signal.setitimer(signal.ITIMER_REAL, 0)
        signal.signal(signal.SIGALRM, self._old)
        return False


# ---------------------------------------------------------------- implementation import guard
def import_impl():
    import pyrtcm
    src = os.path.realpath(os.path.join(REPO, "src"))
    if not os.path.realpath(pyrtcm.__file__).startswith(src + os.sep):
        raise SystemExit("pyrtcm imported from %s, expected under %s" % (pyrtcm.__file__, src))
    return pyrtcm


def impl_env():
    e = dict(os.environ)
    e["PYTHONPATH"] = os.path.join(REPO, "src") + os.pathsep + os.path.join(VERIF, "tools") + os.pathsep + os.path.join(VERIF, "corr")
    e["PYTHONHASHSEED"] = "0"
    e["PYTHONDONTWRITEBYTECODE"] = "1"
    if os.path.exists(os.path.join(REPO, "src", "pyrtcm")):
        e["PYRTCM_VERIF"] = "1"
    return e


# ---------------------------------------------------------------- coqc
def coq_args(work):
    return ["-R", COQDIR, "PyRtcm", "-R", work, "PyRtcmGen", "-w", "-notation-overridden,-deprecated-hint-without-locality,-deprecated-instance-without-locality"]


def _big_stack():
    """coqc reads long case literals recursively: lift the stack limit of the child to the hard limit (no effect on results)"""
    try:
        import resource
        soft, hard = resource.getrlimit(resource.RLIMIT_STACK)
        resource.setrlimit(resource.RLIMIT_STACK, (hard, hard))
    except Exception:  # noqa
        pass


def coqc(path, work, timeout=600):
    """compile one file; returns (ok, stdout+stderr, seconds)"""
    t0 = time.time()
    try:
        p = subprocess.run(["timeout", str(timeout), "coqc"] + coq_args(work) + [path], cwd=work,
                           capture_output=True, text=True, timeout=timeout + 30, preexec_fn=_big_stack)
        return p.returncode == 0, p.stdout + p.stderr, time.time() - t0
    except subprocess.TimeoutExpired:
        return False, "TIMEOUT after %ds" % timeout, time.time() - t0


def coqc_many(paths, work, timeout=600, jobs=None):
    jobs = jobs or NCPU
    res = {}
    with concurrent.futures.ThreadPoolExecutor(max_workers=jobs) as ex:
        futs = {ex.submit(coqc, p, work, timeout): p for p in paths}
        for f in concurrent.futures.as_completed(futs):
            res[futs[f]] = f.result()
    return res


def parse_nat_list(out):
    """extract the list printed by `Eval vm_compute in (... : list nat)`; None if not found"""
    m = re.search(r"=\s*(\[.*?\]|nil)\s*:\s*list nat", out, re.S)
    if not m:
        return None
    return [int(x) for x in re.findall(r"\d+", m.group(1))]


def ensure_generic_built():
    """the generic development is built by setup_cmd; rebuild (bin/setup) if any listed .v is newer than its .vo or a .vo is missing"""
    stale = not os.path.exists(os.path.join(COQDIR, "Makefile"))
    try:
        files = [l.strip() for l in open(os.path.join(COQDIR, "FILES")) if l.strip() and not l.startswith("#")]
    except OSError:
        files = []
        stale = True
    newest_vo = 0.0
    for f in files:
        v = os.path.join(COQDIR, f)
        vo = v[:-2] + ".vo"
        if not os.path.exists(vo) or os.path.getmtime(vo) < os.path.getmtime(v):
            stale = True
            break
    if stale:
        r = subprocess.run(["timeout", "3000", os.path.join(VERIF, "bin", "setup")], capture_output=True, text=True)
        if r.returncode != 0:
            return False, r.stdout[-3000:] + r.stderr[-3000:]
    return True, ""


def gen_tables(work):
    """translate the working tree's tables -> work/Tables.v, compile, and VALIDATE the translation: the canonical dump of the
    value the kernel read must hash like the dump tools/table_digest.py computes from the runtime objects (cached by content)"""
    out = os.path.join(work, "Tables.v")
    dig = os.path.join(work, "TablesDigest.v")
    p = subprocess.run([PY, os.path.join(VERIF, "tools", "gen_tables.py"), out], env=impl_env(), capture_output=True, text=True, timeout=120)
    if p.returncode != 0:
        return False, "translator failed: " + p.stdout[-2000:] + p.stderr[-2000:]
    p2 = subprocess.run([PY, os.path.join(VERIF, "tools", "table_digest.py"), dig], env=impl_env(), capture_output=True, text=True, timeout=120)
    if p2.returncode != 0:
        return False, "table digest failed: " + p2.stdout[-2000:] + p2.stderr[-2000:]
    h = hashlib.sha256(open(out, "rb").read() + open(dig, "rb").read()).hexdigest()
    deps = [os.path.join(COQDIR, "Model", "Types.vo"), os.path.join(COQDIR, "Corr", "TableDump.vo")]
    dh = hashlib.sha256(b"".join(open(d, "rb").read() for d in deps if os.path.exists(d))).hexdigest()[:16]
    cache = os.path.join(VERIF, "work", "tables-cache", h[:32] + "-" + dh)
    if os.path.exists(os.path.join(cache, "Tables.vo")) and os.path.exists(os.path.join(cache, "digest.ok")):
        shutil.copy(os.path.join(cache, "Tables.vo"), os.path.join(work, "Tables.vo"))
        return True, "tables %s (cached, translation validated)" % h[:12]
    ok, log, secs = coqc(out, work, 300)
    if not ok:
        return False, "Tables.v does not compile:\n" + log[-3000:]
    ok2, log2, secs2 = coqc(dig, work, 600)
    if not ok2:
        return False, "translation validation failed: the value Coq read from Tables.v does not dump like pyrtcm's runtime tables\n" + log2[-2000:]
    try:
        os.makedirs(cache, exist_ok=True)
        tmp = tempfile.mkdtemp(dir=os.path.dirname(cache))
        shutil.copy(os.path.join(work, "Tables.vo"), os.path.join(tmp, "Tables.vo"))
        os.replace(os.path.join(tmp, "Tables.vo"), os.path.join(cache, "Tables.vo"))
        open(os.path.join(cache, "digest.ok"), "w").write(p2.stdout)
        shutil.rmtree(tmp, ignore_errors=True)
    except OSError:
        pass
    return True, "tables %s (%.1fs + validation %.1fs)" % (h[:12], secs, secs2)


# ---------------------------------------------------------------- evidence / replay
def write_json(path, obj):
    os.makedirs(os.path.dirname(path), exist_ok=True)
    tmp = path + ".tmp%d" % os.getpid()
    with open(tmp, "w") as f:
        json.dump(obj, f, indent=1, sort_keys=False, default=str)
    os.replace(tmp, path)


def known_findings():
    out = []
    p = os.path.join(VERIF, "KNOWN_FINDINGS")
    if os.path.exists(p):
        for line in open(p):
            line = line.strip()
            m = re.match(r"finding:\s+property=(\S+)\s+key=(\S+)\s+(.*)", line)
            if m:
                out.append({"property": m.group(1), "key": m.group(2), "what": m.group(3)})
    return out
