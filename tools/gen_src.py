#!/venv/bin/python
"""Source translator (fail-closed): the CURRENT text of pyrtcm's integer kernels and of RTCMMessage.serialize / .identity
-> MiniPy abstract syntax (coq/Src/MiniPy.v).

usage: gen_src.py OUT.v            (reads $VERIF_REPO/src/pyrtcm/{rtcmhelpers,rtcmmessage,rtcmtypes_core}.py; default /repo)

Every construct outside the subset below makes the translator refuse (exit 2, message on stderr): the per-run equivalence
theorems in run/Src_inst.v then cannot be stated and the check falls back to the sampled correspondence (and switches its
drivers to the thorough corpus).  Nothing is guessed.

Subset: def f(<one positional parameter>) with an optional docstring; `x = e`, `x op= e`, `for x in <name>:`,
`for x in range(e):`, `if e: .. else: ..`, `return e`; e ::= int literal | bytes literal | local name | e op e (+ - * << >> & | ^) |
len(e) | e.to_bytes(<int literal>, "big") | g(e) for another translated function g | e[e] | e == e | str(e) |
f"..." made of literal text, {e} and {e:03d}.

Methods (class RTCMMessage in rtcmmessage.py): `def f(self)` (identity: with the single decorator @property) becomes a MiniPy
function of the VALUE of self._payload: every occurrence of `self` in the body must be exactly the attribute read
`self._payload`; it is emitted as the variable "self._payload" (no Python identifier contains a dot, so it cannot clash).
Free names a method may use: len2bytes / crc2bytes (must be imported, unaliased, by one top-level
`from pyrtcm.rtcmhelpers import ...` and bound nowhere else in the module) and RTCM_HDR (same, from pyrtcm.rtcmtypes_core; its
value is read from the SOURCE TEXT of rtcmtypes_core.py, where it must be bound exactly once, by a top-level
`RTCM_HDR = b"..."`), and the builtins len / range / str / property (must not be bound at module level).  `global` declarations
of any of these names anywhere in the module, star imports, a decorated / keyworded class, a second binding of the method's
name, of `_payload` or of `__getattribute__` in the class body make the translator refuse."""
import ast
import os
import sys

FUNCS = ["calc_crc24q", "crc2bytes", "len2bytes"]      # dependency order (callee first)
METHODS = ["serialize", "identity"]                    # of class RTCMMessage; may call FUNCS
CLASS = "RTCMMessage"
PAYLOAD = "_payload"                                   # the only attribute of self a method may read
HELPER_MODULE = "pyrtcm.rtcmhelpers"
CONST_MODULE = "pyrtcm.rtcmtypes_core"
CONSTS = ["RTCM_HDR"]                                  # module constants (bytes literals) a method may name
BUILTINS = ["len", "range", "str", "property"]         # builtins the translation gives a meaning to
BINOPS = {ast.Add: "OAdd", ast.Sub: "OSub", ast.Mult: "OMul", ast.LShift: "OShl", ast.RShift: "OShr",
          ast.BitAnd: "OAnd", ast.BitOr: "OOr", ast.BitXor: "OXor"}


class Unsupported(Exception):
    pass


def cstr(s):
    if not all(32 <= ord(c) < 127 and c != '"' for c in s):
        raise Unsupported("name %r" % s)
    return '"%s"' % s


def zlit(i):
    return "(%d)" % i


def byteslit(b):
    return "[" + "; ".join("Coq.Init.Byte.x%02x" % c for c in b) + "]"


class Fn:
    def __init__(self, node, known, method=False, consts=None, decorators=()):
        self.node = node
        self.known = known
        self.consts = consts or {}          # name -> Coq term of type list byte
        a = node.args
        if (len(a.args) != 1 or a.posonlyargs or a.kwonlyargs or a.vararg or a.kwarg or a.defaults or a.kw_defaults
                or isinstance(node, ast.AsyncFunctionDef)):
            raise Unsupported("%s: signature" % node.name)
        if [ast.dump(d) for d in node.decorator_list] != [ast.dump(ast.Name(id=d, ctx=ast.Load())) for d in decorators]:
            raise Unsupported("%s: decorators" % node.name)
        self.selfname = None
        self.param = a.args[0].arg
        if method:
            self.selfname = a.args[0].arg
            self.param = "self.%s" % PAYLOAD    # not an identifier: cannot clash with a local
            self.check_self()
        self.locals = []
        body = list(node.body)
        if body and isinstance(body[0], ast.Expr) and isinstance(body[0].value, ast.Constant) and isinstance(body[0].value.value, str):
            body = body[1:]
        self.collect(body)
        self.body = self.stmts(body)

    def collect(self, body):
        for s in body:
            for n in ast.walk(s):
                if isinstance(n, (ast.Global, ast.Nonlocal, ast.Lambda, ast.FunctionDef, ast.ClassDef, ast.NamedExpr, ast.ListComp,
                                  ast.GeneratorExp, ast.SetComp, ast.DictComp, ast.Try, ast.With, ast.While, ast.Delete, ast.Import,
                                  ast.ImportFrom, ast.Yield, ast.YieldFrom, ast.Await, ast.Match)):
                    raise Unsupported("%s: %s" % (self.node.name, type(n).__name__))
                if isinstance(n, ast.Name) and isinstance(n.ctx, ast.Store) and n.id != self.param and n.id not in self.locals:
                    self.locals.append(n.id)

    def check_self(self):
        """every occurrence of the method's first parameter is the object of the attribute READ self._payload"""
        ok = set()
        for n in ast.walk(self.node):
            if (isinstance(n, ast.Attribute) and isinstance(n.ctx, ast.Load) and n.attr == PAYLOAD
                    and isinstance(n.value, ast.Name) and n.value.id == self.selfname and isinstance(n.value.ctx, ast.Load)):
                ok.add(id(n.value))
        for n in ast.walk(self.node):
            if isinstance(n, ast.Name) and n.id == self.selfname and id(n) not in ok:
                raise Unsupported("%s: use of %s other than reading %s.%s (line %d)"
                                  % (self.node.name, self.selfname, self.selfname, PAYLOAD, n.lineno))
            if isinstance(n, ast.arg) and n is not self.node.args.args[0] and n.arg == self.selfname:
                raise Unsupported("%s: %s rebound" % (self.node.name, self.selfname))

    def bound(self, n):
        return n == self.param or n == self.selfname or n in self.locals

    def name(self, n):
        if n != self.selfname and (n == self.param or n in self.locals):
            return cstr(n)
        raise Unsupported("%s: free name %s" % (self.node.name, n))

    def expr(self, e):
        if isinstance(e, ast.Constant) and isinstance(e.value, int) and not isinstance(e.value, bool):
            return "(EInt %s)" % zlit(e.value)
        if isinstance(e, ast.Constant) and isinstance(e.value, bytes):
            return "(EBytes %s)" % byteslit(e.value)
        if (self.selfname is not None and isinstance(e, ast.Attribute) and isinstance(e.ctx, ast.Load) and e.attr == PAYLOAD
                and isinstance(e.value, ast.Name) and e.value.id == self.selfname):
            return "(EVar %s)" % cstr(self.param)
        if isinstance(e, ast.Name) and isinstance(e.ctx, ast.Load) and e.id in self.consts and not self.bound(e.id):
            return "(EBytes %s)" % self.consts[e.id]
        if isinstance(e, ast.Name) and isinstance(e.ctx, ast.Load):
            return "(EVar %s)" % self.name(e.id)
        if isinstance(e, ast.Subscript) and isinstance(e.ctx, ast.Load) and not isinstance(e.slice, (ast.Slice, ast.Tuple)):
            return "(EIndex %s %s)" % (self.expr(e.value), self.expr(e.slice))
        if isinstance(e, ast.Compare) and len(e.ops) == 1 and isinstance(e.ops[0], ast.Eq) and len(e.comparators) == 1:
            return "(ECmpEq %s %s)" % (self.expr(e.left), self.expr(e.comparators[0]))
        if isinstance(e, ast.JoinedStr):
            return self.fstring(e)
        if isinstance(e, ast.BinOp) and type(e.op) in BINOPS:
            return "(EBin %s %s %s)" % (BINOPS[type(e.op)], self.expr(e.left), self.expr(e.right))
        if isinstance(e, ast.Call) and not e.keywords:
            f = e.func
            if isinstance(f, ast.Name) and f.id == "len" and len(e.args) == 1 and not self.bound("len"):
                return "(ELen %s)" % self.expr(e.args[0])
            if isinstance(f, ast.Name) and f.id == "str" and len(e.args) == 1 and not self.bound("str"):
                return "(EStrOf %s)" % self.expr(e.args[0])
            if isinstance(f, ast.Name) and f.id in self.known and len(e.args) == 1 and not self.bound(f.id):
                return "(ECall %s %s)" % (cstr(f.id), self.expr(e.args[0]))
            if (isinstance(f, ast.Attribute) and f.attr == "to_bytes" and len(e.args) == 2
                    and isinstance(e.args[0], ast.Constant) and isinstance(e.args[0].value, int) and not isinstance(e.args[0].value, bool)
                    and isinstance(e.args[1], ast.Constant) and e.args[1].value == "big"):
                return "(EToBytesBig %s %s)" % (self.expr(f.value), zlit(e.args[0].value))
        raise Unsupported("%s: expression %s" % (self.node.name, ast.dump(e)[:120]))

    def fstring(self, e):
        """f"..." : literal text, {e} (no conversion, no spec) and {e:03d}; joined left to right"""
        parts = []
        for v in e.values:
            if isinstance(v, ast.Constant) and isinstance(v.value, str):
                parts.append("(EStrLit %s)" % cstr(v.value))
            elif isinstance(v, ast.FormattedValue) and v.conversion == -1 and v.format_spec is None:
                parts.append("(EStrOf %s)" % self.expr(v.value))
            elif (isinstance(v, ast.FormattedValue) and v.conversion == -1 and isinstance(v.format_spec, ast.JoinedStr)
                  and len(v.format_spec.values) == 1 and isinstance(v.format_spec.values[0], ast.Constant)
                  and v.format_spec.values[0].value == "03d"):
                parts.append("(EFmt03d %s)" % self.expr(v.value))
            else:
                raise Unsupported("%s: f-string piece %s" % (self.node.name, ast.dump(v)[:120]))
        if not parts:
            return '(EStrLit "")'
        out = parts[-1]
        for p in reversed(parts[:-1]):
            out = "(EStrCat %s %s)" % (p, out)
        return out

    def stmts(self, body):
        return "[" + "; ".join(self.stmt(s) for s in body) + "]"

    def stmt(self, s):
        if isinstance(s, ast.Assign) and len(s.targets) == 1 and isinstance(s.targets[0], ast.Name):
            return "SAssign %s %s" % (self.name(s.targets[0].id), self.expr(s.value))
        if isinstance(s, ast.AugAssign) and isinstance(s.target, ast.Name) and type(s.op) in BINOPS:
            return "SAug %s %s %s" % (self.name(s.target.id), BINOPS[type(s.op)], self.expr(s.value))
        if isinstance(s, ast.For) and isinstance(s.target, ast.Name) and not s.orelse:
            it = s.iter
            if (isinstance(it, ast.Call) and isinstance(it.func, ast.Name) and it.func.id == "range" and len(it.args) == 1
                    and not it.keywords and not self.bound("range")):
                i = "(IRange %s)" % self.expr(it.args[0])
            elif isinstance(it, ast.Name):
                i = "(IBytes %s)" % self.expr(it)
            else:
                raise Unsupported("%s: loop over %s" % (self.node.name, ast.dump(it)[:80]))
            return "SFor %s %s %s" % (self.name(s.target.id), i, self.stmts(s.body))
        if isinstance(s, ast.If):
            return "SIf %s %s %s" % (self.expr(s.test), self.stmts(s.body), self.stmts(s.orelse))
        if isinstance(s, ast.Return) and s.value is not None:
            return "SReturn %s" % self.expr(s.value)
        raise Unsupported("%s: statement %s" % (self.node.name, type(s).__name__))

    def coq(self):
        return "{| f_param := %s; f_locals := [%s]; f_body := %s |}" % (cstr(self.param), "; ".join(cstr(x) for x in self.locals), self.body)


def scope_bindings(body, what):
    """name -> number of binding occurrences in the statements `body` of one scope (module or class body): assignment /
    for / with / except / walrus / del targets, imports, def and class names; nested function and class BODIES are other scopes
    and are not entered (their decorators, defaults and bases are).  Star imports are refused."""
    count = {}

    def bind(n):
        count[n] = count.get(n, 0) + 1

    def visit(n):
        if isinstance(n, (ast.FunctionDef, ast.AsyncFunctionDef, ast.ClassDef)):
            bind(n.name)
            for d in n.decorator_list:
                visit(d)
            if isinstance(n, ast.ClassDef):
                for d in list(n.bases) + [k.value for k in n.keywords]:
                    visit(d)
            else:
                for d in list(n.args.defaults) + [d for d in n.args.kw_defaults if d is not None]:
                    visit(d)
            return
        if isinstance(n, ast.Lambda):
            return
        if isinstance(n, (ast.Import, ast.ImportFrom)):
            for a in n.names:
                if a.name == "*":
                    raise Unsupported("%s: star import" % what)
                bind(a.asname or a.name.split(".")[0])
            return
        if isinstance(n, ast.Name) and isinstance(n.ctx, (ast.Store, ast.Del)):
            bind(n.id)
        if isinstance(n, ast.ExceptHandler) and n.name:
            bind(n.name)
        if isinstance(n, (ast.MatchAs, ast.MatchStar)) and n.name:
            bind(n.name)
        if isinstance(n, ast.MatchMapping) and n.rest:
            bind(n.rest)
        for c in ast.iter_child_nodes(n):
            visit(c)

    for s in body:
        visit(s)
    return count


def declared_global(tree):
    return {x for n in ast.walk(tree) if isinstance(n, (ast.Global, ast.Nonlocal)) for x in n.names}


def imported_once(tree, binds, name, module, what):
    """`name` is bound exactly once at module level, by a top-level `from <module> import ..., name, ...` without alias"""
    hits = [n for n in tree.body if isinstance(n, ast.ImportFrom) and n.module == module and n.level == 0
            and any(a.name == name and a.asname is None for a in n.names)]
    if len(hits) != 1 or binds.get(name, 0) != 1:
        raise Unsupported("%s: %s is not bound exactly once, by a top-level `from %s import %s`" % (what, name, module, name))


def read_consts(repo):
    """values of the module constants, from the source text of rtcmtypes_core.py"""
    path = os.path.join(repo, "src", "pyrtcm", "rtcmtypes_core.py")
    tree = ast.parse(open(path).read())
    binds = scope_bindings(tree.body, path)
    glob = declared_global(tree)
    vals = {}
    for c in CONSTS:
        hits = [n for n in tree.body if isinstance(n, ast.Assign) and len(n.targets) == 1 and isinstance(n.targets[0], ast.Name)
                and n.targets[0].id == c]
        if len(hits) != 1 or binds.get(c, 0) != 1 or c in glob:
            raise Unsupported("%s: %s is not bound exactly once, by a top-level assignment" % (path, c))
        v = hits[0].value
        if not (isinstance(v, ast.Constant) and isinstance(v.value, bytes)):
            raise Unsupported("%s: %s is not a bytes literal" % (path, c))
        vals[c] = v.value
    return vals


def read_methods(repo, known, constvals):
    """the FunctionDef nodes of METHODS in class RTCMMessage, after checking how their free names are bound"""
    path = os.path.join(repo, "src", "pyrtcm", "rtcmmessage.py")
    tree = ast.parse(open(path).read())
    binds = scope_bindings(tree.body, path)
    glob = declared_global(tree)
    for f in known:
        imported_once(tree, binds, f, HELPER_MODULE, path)
    for c in constvals:
        imported_once(tree, binds, c, CONST_MODULE, path)
    for b in BUILTINS:
        if binds.get(b, 0) != 0:
            raise Unsupported("%s: builtin %s rebound at module level" % (path, b))
    for n in list(known) + list(constvals) + BUILTINS + [CLASS]:
        if n in glob:
            raise Unsupported("%s: %s declared global/nonlocal in some function" % (path, n))
    classes = [n for n in tree.body if isinstance(n, ast.ClassDef) and n.name == CLASS]
    if len(classes) != 1 or binds.get(CLASS, 0) != 1:
        raise Unsupported("%s: class %s is not bound exactly once, by a top-level class statement" % (path, CLASS))
    cls = classes[0]
    if cls.decorator_list or cls.keywords:
        raise Unsupported("%s: class %s is decorated or has keywords" % (path, CLASS))
    cbinds = scope_bindings(cls.body, path)
    for n in (PAYLOAD, "__getattribute__"):
        if cbinds.get(n, 0) != 0:
            raise Unsupported("%s: %s bound in the body of class %s" % (path, n, CLASS))
    nodes = {}
    for m in METHODS:
        hits = [n for n in cls.body if isinstance(n, ast.FunctionDef) and n.name == m]
        if len(hits) != 1 or cbinds.get(m, 0) != 1:
            raise Unsupported("%s: %s.%s is not bound exactly once, by a def directly in the class body" % (path, CLASS, m))
        nodes[m] = hits[0]
    return nodes


def main():
    repo = os.environ.get("VERIF_REPO", "/repo")
    path = os.path.join(repo, "src", "pyrtcm", "rtcmhelpers.py")
    tree = ast.parse(open(path).read())
    defs = {}
    for n in tree.body:
        if isinstance(n, (ast.FunctionDef, ast.AsyncFunctionDef)):
            if n.name in defs:
                raise Unsupported("%s defined twice" % n.name)
            defs[n.name] = n
        elif isinstance(n, ast.Assign):     # a later module-level rebinding of a kernel's name would bypass the def
            for t in n.targets:
                for m in ast.walk(t):
                    if isinstance(m, ast.Name) and m.id in FUNCS:
                        raise Unsupported("%s rebound at module level" % m.id)
    hbinds = scope_bindings(tree.body, path)
    hglob = declared_global(tree)
    for f in FUNCS:
        if hbinds.get(f, 0) != 1 or f in hglob:
            raise Unsupported("%s: %s is not bound exactly once at module level" % (path, f))
    for b in BUILTINS:
        if hbinds.get(b, 0) != 0 or b in hglob:
            raise Unsupported("%s: builtin %s rebound at module level" % (path, b))
    out = ["(* GENERATED by tools/gen_src.py from %s (and rtcmmessage.py, rtcmtypes_core.py beside it) -- do not edit *)" % path,
           "From Coq Require Import ZArith List String.", "From PyRtcm Require Import Src.MiniPy.",
           "Import ListNotations.", "Open Scope string_scope.", "Open Scope Z_scope.", ""]
    known = []
    for f in FUNCS:
        if f not in defs:
            raise Unsupported("%s not found" % f)
        fn = Fn(defs[f], known)
        out.append("Definition src_%s : func :=\n  %s." % (f, fn.coq()))
        known.append(f)
    # ---- methods of RTCMMessage
    constvals = read_consts(repo)
    mknown = [f for f in ("len2bytes", "crc2bytes") if f in known]
    nodes = read_methods(repo, mknown, constvals)
    out.append("(* module constants, from the source text of %s.py *)" % CONST_MODULE)
    consts = {}
    for c in CONSTS:
        out.append("Definition src_const_%s : list Coq.Init.Byte.byte := %s." % (c, byteslit(constvals[c])))
        consts[c] = "src_const_%s" % c
    for m in METHODS:
        fn = Fn(nodes[m], mknown, method=True, consts=consts, decorators=(["property"] if m == "identity" else []))
        out.append("Definition src_%s : func :=\n  %s." % (m, fn.coq()))
    out.append("(* callee later in the list, see MiniPy.link *)")
    out.append("Definition src_prog : list (string * func) := [%s]."
               % "; ".join('("%s", src_%s)' % (f, f) for f in list(reversed(METHODS)) + list(reversed(FUNCS))))
    open(sys.argv[1], "w").write("\n".join(out) + "\n")
    print("translated", ", ".join(FUNCS + METHODS))


if __name__ == "__main__":
    try:
        main()
    except (Unsupported, SyntaxError, OSError) as e:
        sys.stderr.write("gen_src: unsupported: %s\n" % e)
        sys.exit(2)
