#!/venv/bin/python
"""Source translator (fail-closed): the CURRENT text of pyrtcm's integer kernels -> MiniPy abstract syntax (coq/Src/MiniPy.v).

usage: gen_src.py OUT.v            (reads $VERIF_REPO/src/pyrtcm/rtcmhelpers.py; default /repo)

Every construct outside the subset below makes the translator refuse (exit 2, message on stderr): the per-run equivalence
theorems in run/Src_inst.v then cannot be stated and the check falls back to the sampled correspondence (and switches its
drivers to the thorough corpus).  Nothing is guessed.

Subset: def f(<one positional parameter>) with an optional docstring; `x = e`, `x op= e`, `for x in <name>:`,
`for x in range(e):`, `if e: .. else: ..`, `return e`; e ::= int literal | local name | e op e (+ - * << >> & | ^) |
len(e) | e.to_bytes(<int literal>, "big") | g(e) for another translated function g."""
import ast
import os
import sys

FUNCS = ["calc_crc24q", "crc2bytes", "len2bytes"]      # dependency order (callee first)
BINOPS = {ast.Add: "OAdd", ast.Sub: "OSub", ast.Mult: "OMul", ast.LShift: "OShl", ast.RShift: "OShr",
          ast.BitAnd: "OAnd", ast.BitOr: "OOr", ast.BitXor: "OXor"}


class Unsupported(Exception):
    pass


def cstr(s):
    if not all(32 <= ord(c) < 127 and c != '"' for c in s):
        raise Unsupported("name %r" % s)
    return '"%s"' % s


def zlit(i):
    return "(%d)" % i


class Fn:
    def __init__(self, node, known):
        self.node = node
        self.known = known
        a = node.args
        if (len(a.args) != 1 or a.posonlyargs or a.kwonlyargs or a.vararg or a.kwarg or a.defaults or a.kw_defaults
                or node.decorator_list or isinstance(node, ast.AsyncFunctionDef)):
            raise Unsupported("%s: signature" % node.name)
        self.param = a.args[0].arg
        self.locals = []
        body = list(node.body)
        if body and isinstance(body[0], ast.Expr) and isinstance(body[0].value, ast.Constant) and isinstance(body[0].value.value, str):
            body = body[1:]
        self.collect(body)
        self.body = self.stmts(body)

    def collect(self, body):
        for s in body:
            for n in ast.walk(s):
                if isinstance(n, (ast.Global, ast.Nonlocal, ast.Lambda, ast.FunctionDef, ast.ClassDef, ast.NamedExpr, ast.ListComp,
                                  ast.GeneratorExp, ast.SetComp, ast.DictComp, ast.Try, ast.With, ast.While, ast.Delete, ast.Import,
                                  ast.ImportFrom, ast.Yield, ast.YieldFrom, ast.Await, ast.Match)):
                    raise Unsupported("%s: %s" % (self.node.name, type(n).__name__))
                if isinstance(n, ast.Name) and isinstance(n.ctx, ast.Store) and n.id != self.param and n.id not in self.locals:
                    self.locals.append(n.id)

    def name(self, n):
        if n == self.param or n in self.locals:
            return cstr(n)
        raise Unsupported("%s: free name %s" % (self.node.name, n))

    def expr(self, e):
        if isinstance(e, ast.Constant) and isinstance(e.value, int) and not isinstance(e.value, bool):
            return "(EInt %s)" % zlit(e.value)
        if isinstance(e, ast.Name) and isinstance(e.ctx, ast.Load):
            return "(EVar %s)" % self.name(e.id)
        if isinstance(e, ast.BinOp) and type(e.op) in BINOPS:
            return "(EBin %s %s %s)" % (BINOPS[type(e.op)], self.expr(e.left), self.expr(e.right))
        if isinstance(e, ast.Call) and not e.keywords:
            f = e.func
            if isinstance(f, ast.Name) and f.id == "len" and len(e.args) == 1 and "len" not in self.locals and self.param != "len":
                return "(ELen %s)" % self.expr(e.args[0])
            if isinstance(f, ast.Name) and f.id in self.known and len(e.args) == 1 and f.id not in self.locals and f.id != self.param:
                return "(ECall %s %s)" % (cstr(f.id), self.expr(e.args[0]))
            if (isinstance(f, ast.Attribute) and f.attr == "to_bytes" and len(e.args) == 2
                    and isinstance(e.args[0], ast.Constant) and isinstance(e.args[0].value, int) and not isinstance(e.args[0].value, bool)
                    and isinstance(e.args[1], ast.Constant) and e.args[1].value == "big"):
                return "(EToBytesBig %s %s)" % (self.expr(f.value), zlit(e.args[0].value))
        raise Unsupported("%s: expression %s" % (self.node.name, ast.dump(e)[:120]))

    def stmts(self, body):
        return "[" + "; ".join(self.stmt(s) for s in body) + "]"

    def stmt(self, s):
        if isinstance(s, ast.Assign) and len(s.targets) == 1 and isinstance(s.targets[0], ast.Name):
            return "SAssign %s %s" % (self.name(s.targets[0].id), self.expr(s.value))
        if isinstance(s, ast.AugAssign) and isinstance(s.target, ast.Name) and type(s.op) in BINOPS:
            return "SAug %s %s %s" % (self.name(s.target.id), BINOPS[type(s.op)], self.expr(s.value))
        if isinstance(s, ast.For) and isinstance(s.target, ast.Name) and not s.orelse:
            it = s.iter
            if (isinstance(it, ast.Call) and isinstance(it.func, ast.Name) and it.func.id == "range" and len(it.args) == 1
                    and not it.keywords and "range" not in self.locals and self.param != "range"):
                i = "(IRange %s)" % self.expr(it.args[0])
            elif isinstance(it, ast.Name):
                i = "(IBytes %s)" % self.expr(it)
            else:
                raise Unsupported("%s: loop over %s" % (self.node.name, ast.dump(it)[:80]))
            return "SFor %s %s %s" % (self.name(s.target.id), i, self.stmts(s.body))
        if isinstance(s, ast.If):
            return "SIf %s %s %s" % (self.expr(s.test), self.stmts(s.body), self.stmts(s.orelse))
        if isinstance(s, ast.Return) and s.value is not None:
            return "SReturn %s" % self.expr(s.value)
        raise Unsupported("%s: statement %s" % (self.node.name, type(s).__name__))

    def coq(self):
        return "{| f_param := %s; f_locals := [%s]; f_body := %s |}" % (cstr(self.param), "; ".join(cstr(x) for x in self.locals), self.body)


def main():
    repo = os.environ.get("VERIF_REPO", "/repo")
    path = os.path.join(repo, "src", "pyrtcm", "rtcmhelpers.py")
    tree = ast.parse(open(path).read())
    defs = {}
    for n in tree.body:
        if isinstance(n, (ast.FunctionDef, ast.AsyncFunctionDef)):
            if n.name in defs:
                raise Unsupported("%s defined twice" % n.name)
            defs[n.name] = n
        elif isinstance(n, ast.Assign):     # a later module-level rebinding of a kernel's name would bypass the def
            for t in n.targets:
                for m in ast.walk(t):
                    if isinstance(m, ast.Name) and m.id in FUNCS:
                        raise Unsupported("%s rebound at module level" % m.id)
    out = ["(* GENERATED by tools/gen_src.py from %s -- do not edit *)" % path,
           "From Coq Require Import ZArith List String.", "From PyRtcm Require Import Src.MiniPy.",
           "Import ListNotations.", "Open Scope string_scope.", "Open Scope Z_scope.", ""]
    known = []
    for f in FUNCS:
        if f not in defs:
            raise Unsupported("%s not found" % f)
        fn = Fn(defs[f], known)
        out.append("Definition src_%s : func :=\n  %s." % (f, fn.coq()))
        known.append(f)
    out.append("(* callee later in the list, see MiniPy.link *)")
    out.append("Definition src_prog : list (string * func) := [%s]." % "; ".join('("%s", src_%s)' % (f, f) for f in reversed(FUNCS)))
    open(sys.argv[1], "w").write("\n".join(out) + "\n")
    print("translated", ", ".join(FUNCS))


if __name__ == "__main__":
    try:
        main()
    except Unsupported as e:
        sys.stderr.write("gen_src: unsupported: %s\n" % e)
        sys.exit(2)
