#!/venv/bin/python
"""Source translator (fail-closed) for pyrtcm's two stream classes: the CURRENT text of
     socketwrapper.SocketWrapper.{__init__, _recv, read, readline, dechunk}
     rtcmreader.RTCMReader.{__init__, __next__, read, _parse_ubx, _parse_nmea, _parse_rtcm3, _read_bytes, _read_line, _do_error, parse}
-> PyO abstract syntax (coq/Src/PyO.v).

usage: gen_src2.py OUT.v           (reads $VERIF_REPO/src/pyrtcm/*.py; default /repo)

Nothing is guessed: every construct outside the subset, every name whose binding the translator cannot establish from the
source text, makes it refuse (exit 2, reason on stderr).  The per-run equivalence theorems (run/SrcSock_inst.v,
run/SrcReader_inst.v) then cannot be stated; the check records `source_tie: not-established` and relies on the sampled
correspondence with the thorough corpus.

How names are resolved (all checked on the text):
  * parameters and every name assigned anywhere in the function are locals (Python's rule);
  * `self` may only occur as  self.<attr>  (load / store),  self.<method>(...)  for a method of the same class, or
    self.<attr>.<meth>(...) / self.<attr>(...)  (a call on an object of the environment held in an attribute);
  * module constants: imported once, unaliased, from pyrtcm.rtcmtypes_core, where each is bound exactly once by a top-level
    assignment of an int / bytes literal or a list of bytes literals; MAX_WBITS from zlib is 15;
  * exception classes: builtins (not rebound in the module), the four library classes imported once from pyrtcm.exceptions
    (where each must be `class X(Exception)`), zlib.error imported as zlibError;
  * callees of the environment: calc_crc24q (pyrtcm.rtcmhelpers), RTCMMessage (pyrtcm.rtcmmessage), decompress (zlib),
    getLogger (logging), BytesIO (io) -- each imported once, unaliased unless listed, and bound nowhere else;
  * builtins given a meaning: len, bytes, bytearray, min (two ints), int (only as int(x, 16) and int.from_bytes(x, "little", signed=False)).
The class must be a plain `class C:` whose body holds only a docstring and function definitions (no class attributes, no bases,
no __getattr__/__getattribute__/__setattr__), and each translated method must be defined exactly once in it."""
import ast
import os
import sys

sys.path.insert(0, os.path.dirname(os.path.abspath(__file__)))
from gen_src import Unsupported, scope_bindings, declared_global, imported_once, cstr, zlit, byteslit  # noqa: E402

BINOPS = {ast.Add: "OAdd", ast.Sub: "OSub", ast.Mult: "OMul", ast.LShift: "OShl", ast.RShift: "OShr",
          ast.BitAnd: "OAnd", ast.BitOr: "OOr", ast.BitXor: "OXor", ast.Div: "ODiv"}
CMPOPS = {ast.Eq: "CEq", ast.NotEq: "CNe", ast.Lt: "CLt", ast.LtE: "CLe", ast.Gt: "CGt", ast.GtE: "CGe",
          ast.In: "CIn", ast.NotIn: "CNotIn", ast.Is: "CIs", ast.IsNot: "CIsNot"}
UNOPS = {ast.Not: "UNot", ast.Invert: "UInv", ast.USub: "UNeg"}
BUILTIN_EXC = ["EOFError", "OSError", "TimeoutError", "ValueError", "IndexError", "KeyError", "TypeError", "AttributeError",
               "OverflowError", "StopIteration", "Exception"]
LIB_EXC = ["RTCMMessageError", "RTCMParseError", "RTCMStreamError", "RTCMTypeError"]
BUILTINS = ["len", "bytes", "bytearray", "int", "str", "min", "isinstance", "getattr", "setattr", "super", "staticmethod", "property",
            "chr", "bin", "range", "tuple", "Exception", "hasattr"]
CONST_MODULE = "pyrtcm.rtcmtypes_core"

SPEC = {
    "sock": {
        "file": "socketwrapper.py", "cls": "SocketWrapper",
        "methods": ["__init__", "_recv", "read", "readline", "dechunk"],
        "static": [],
        # name -> (module, imported name)
        "ext": {"decompress": ("zlib", "decompress"), "getLogger": ("logging", "getLogger"), "BytesIO": ("io", "BytesIO")},
        "exc_alias": {"zlibError": ("zlib", "error", "zlib.error")},
        "zconsts": {"MAX_WBITS": 15},
    },
    "reader": {
        "file": "rtcmreader.py", "cls": "RTCMReader",
        "methods": ["__init__", "__next__", "read", "_parse_ubx", "_parse_nmea", "_parse_rtcm3", "_read_bytes", "_read_line", "_do_error", "parse"],
        "static": ["parse"],
        "ext": {"calc_crc24q": ("pyrtcm.rtcmhelpers", "calc_crc24q"), "RTCMMessage": ("pyrtcm.rtcmmessage", "RTCMMessage"),
                "getLogger": ("logging", "getLogger"), "socket": ("socket", "socket"), "SocketWrapper": ("pyrtcm.socketwrapper", "SocketWrapper")},
        "exc_alias": {},
        "zconsts": {},
    },
    "msg": {
        "file": "rtcmmessage.py", "cls": "RTCMMessage",
        "methods": ["__init__", "_get_dict", "_do_unknown", "identity", "payload", "ismsm", "serialize", "__setattr__"],
        "static": [],
        "props": ["identity", "payload", "ismsm"],
        "abstract": ["_do_attributes"],          # called but not translated: the theorems take its behaviour as a parameter
        "setattr_mode": True,                     # the class overrides __setattr__: every attribute assignment is a call of it
        "ext": {"crc2bytes": ("pyrtcm.rtcmhelpers", "crc2bytes"), "len2bytes": ("pyrtcm.rtcmhelpers", "len2bytes")},
        # read-only module tables, by the module that must bind them: X[k] and X.get(k, d) are questions to the environment
        "tables": {"RTCM_MSGIDS": "pyrtcm.rtcmtypes_core", "RTCM_PAYLOADS_GET": "pyrtcm.rtcmtypes_get",
                   "RTCM_PAYLOADS_GET_MSM": "pyrtcm.rtcmtypes_get_msm", "RTCM_PAYLOADS_GET_IGS": "pyrtcm.rtcmtypes_get_igs"},
        "exc_alias": {},
        "zconsts": {},
    },
    # module-level functions of rtcmhelpers (no class, no self): the attribute-name helpers of C19
    "helpers": {
        "file": "rtcmhelpers.py", "cls": None,
        "methods": ["att2idx", "att2name", "datadesc"],
        "static": ["att2idx", "att2name", "datadesc"],
        "functions": True,
        "ext": {},
        "tables": {"RTCM_DATA_FIELDS": "pyrtcm.rtcmtypes_core"},
        "exc_alias": {},
        "zconsts": {},
    },
    # the array helper of rtcmhelpers (C18): a module-level function over a message object of the ENVIRONMENT -- its first parameter
    # `msg` may only occur as msg.<attr>, getattr(msg, e), hasattr(msg, e); each is a question to the environment (Src/ArrEnv.v)
    "arr": {
        "file": "rtcmhelpers.py", "cls": None,
        "methods": ["parse_msm"],
        "static": ["parse_msm"],
        "functions": True,
        "lists": True,                             # list / dict displays are real lists / dicts (value semantics, see alias_discipline)
        "range2": True,                            # for x in range(a, b)
        "objparam": 0,                             # which parameter is the message object
        "objclass": ("rtcmmessage.py", "RTCMMessage"),
        "objprops": ["identity", "ismsm"],         # must be properties of that class; every other msg.<x> must NOT be bound in the class
        "ext": {},
        "tables": {"RTCM_PAYLOADS_GET_MSM": "pyrtcm.rtcmtypes_get_msm", "GNSSMAP": "pyrtcm.rtcmtypes_core"},
        "exc_alias": {},
        "zconsts": {},
    },
    # the other array helper (4076_201 harmonic coefficients): its own key, so that a rewrite of one helper does not take the other's tie away
    "arr2": {
        "file": "rtcmhelpers.py", "cls": None,
        "methods": ["parse_4076_201"],
        "static": ["parse_4076_201"],
        "functions": True,
        "lists": True,
        "nested": True,                            # x[k1][k2] = v and x[k1][k2].append(v) on a local x, see Meth.nested_store
        "objparam": 0,
        "objclass": ("rtcmmessage.py", "RTCMMessage"),
        "objprops": ["identity"],
        "ext": {},
        "tables": {"COEFFS": "pyrtcm.rtcmtypes_core"},
        "exc_alias": {},
        "zconsts": {},
    },
    # the whole constructor path of RTCMMessage incl. the recursive table-driven decoder: every method may call every method
    # (PyO.rlink, with a call-depth budget); emitted under its own names beside the non-recursive program above
    "msgdec": {
        "file": "rtcmmessage.py", "cls": "RTCMMessage",
        "methods": ["__init__", "_do_attributes", "_set_attribute", "_set_attribute_optional", "_set_attribute_group", "_set_attribute_single",
                    "_getsatcellmaps", "_get_dict", "_do_unknown", "identity", "__setattr__"],
        "static": [],
        "props": ["identity"],
        "abstract": [],
        "setattr_mode": True,
        "recursive": True,
        "ext": {},
        "tables": {"RTCM_PAYLOADS_GET": "pyrtcm.rtcmtypes_get", "RTCM_PAYLOADS_GET_MSM": "pyrtcm.rtcmtypes_get_msm",
                   "RTCM_PAYLOADS_GET_IGS": "pyrtcm.rtcmtypes_get_igs", "RTCM_DATA_FIELDS": "pyrtcm.rtcmtypes_core", "PRNSIGMAP": "pyrtcm.rtcmtables"},
        "exc_alias": {},
        "zconsts": {},
    },
}


def coqlist(xs):
    return "[" + "; ".join(xs) + "]"


def optexpr(x):
    return "None" if x is None else "(Some %s)" % x


class Ctx:
    """what the module text establishes about global names"""

    def __init__(self, repo, spec):
        self.spec = spec
        self.path = os.path.join(repo, "src", "pyrtcm", spec["file"])
        self.tree = ast.parse(open(self.path).read())
        self.binds = scope_bindings(self.tree.body, self.path)
        self.glob = declared_global(self.tree)
        self.modname = "pyrtcm." + spec["file"][:-3]
        # ---- constants
        cpath = os.path.join(repo, "src", "pyrtcm", "rtcmtypes_core.py")
        ctree = ast.parse(open(cpath).read())
        cbinds = scope_bindings(ctree.body, cpath)
        cglob = declared_global(ctree)
        self.consts = {}          # name -> ("int", v) | ("bytes", v) | ("byteslist", [v])
        for n in self.tree.body:
            if isinstance(n, ast.ImportFrom) and n.module == CONST_MODULE and n.level == 0:
                for a in n.names:
                    if a.asname is not None:
                        continue
                    c = a.name
                    hits = [m for m in ctree.body if isinstance(m, ast.Assign) and len(m.targets) == 1
                            and isinstance(m.targets[0], ast.Name) and m.targets[0].id == c]
                    if len(hits) != 1 or cbinds.get(c, 0) != 1 or c in cglob:
                        continue
                    if self.binds.get(c, 0) != 1 or c in self.glob:
                        continue
                    v = hits[0].value
                    if isinstance(v, ast.Constant) and isinstance(v.value, int) and not isinstance(v.value, bool):
                        self.consts[c] = ("int", v.value)
                    elif isinstance(v, ast.Constant) and isinstance(v.value, bytes):
                        self.consts[c] = ("bytes", v.value)
                    elif isinstance(v, ast.Constant) and isinstance(v.value, str) and all(32 <= ord(ch) < 127 and ch != '"' for ch in v.value):
                        self.consts[c] = ("str", v.value)
                    elif isinstance(v, (ast.List, ast.Tuple)) and all(isinstance(e, ast.Constant) and isinstance(e.value, bytes) for e in v.elts):
                        self.consts[c] = ("byteslist", [e.value for e in v.elts])
        for c, val in spec["zconsts"].items():
            try:
                imported_once(self.tree, self.binds, c, "zlib", self.path)
                if c not in self.glob:
                    self.consts[c] = ("int", val)
            except Unsupported:
                pass
        # ---- exception classes: source name -> canonical class name
        self.exc = {}
        for b in BUILTIN_EXC:
            if self.binds.get(b, 0) == 0 and b not in self.glob:
                self.exc[b] = b
        epath = os.path.join(repo, "src", "pyrtcm", "exceptions.py")
        etree = ast.parse(open(epath).read())
        ebinds = scope_bindings(etree.body, epath)
        for c in LIB_EXC:
            try:
                imported_once(self.tree, self.binds, c, "pyrtcm.exceptions", self.path)
            except Unsupported:
                continue
            hits = [m for m in etree.body if isinstance(m, ast.ClassDef) and m.name == c]
            if (len(hits) == 1 and ebinds.get(c, 0) == 1 and not hits[0].decorator_list and not hits[0].keywords
                    and len(hits[0].bases) == 1 and isinstance(hits[0].bases[0], ast.Name) and hits[0].bases[0].id == "Exception"
                    and ebinds.get("Exception", 0) == 0 and c not in self.glob):
                self.exc[c] = c
        for alias, (mod, name, canon) in spec["exc_alias"].items():
            hits = [n for n in self.tree.body if isinstance(n, ast.ImportFrom) and n.module == mod and n.level == 0
                    and any(a.name == name and a.asname == alias for a in n.names)]
            if len(hits) == 1 and self.binds.get(alias, 0) == 1 and alias not in self.glob:
                self.exc[alias] = canon
        # ---- callees of the environment
        self.ext = {}
        for f, (mod, name) in spec["ext"].items():
            try:
                imported_once(self.tree, self.binds, f, mod, self.path)
                if f not in self.glob:
                    self.ext[f] = name
            except Unsupported:
                pass
        self.tables = {}
        for t, mod in spec.get("tables", {}).items():
            try:
                imported_once(self.tree, self.binds, t, mod, self.path)
                if t not in self.glob:
                    self.tables[t] = t
            except Unsupported:
                pass
        self.builtins = [b for b in BUILTINS if self.binds.get(b, 0) == 0 and b not in self.glob]
        self.obj_reserved = None
        if spec.get("objclass"):
            # the class of the message object handed to the functions: the names bound in its body (methods, properties); the ones
            # listed as "objprops" must be plain properties defined once
            ofile, ocls = spec["objclass"]
            opath = os.path.join(repo, "src", "pyrtcm", ofile)
            otree = ast.parse(open(opath).read())
            ocl = [n for n in otree.body if isinstance(n, ast.ClassDef) and n.name == ocls]
            if len(ocl) != 1 or scope_bindings(otree.body, opath).get(ocls, 0) != 1 or ocl[0].bases or ocl[0].keywords or ocl[0].decorator_list:
                raise Unsupported("%s: class %s is not a plain class bound exactly once" % (opath, ocls))
            ocb = scope_bindings(ocl[0].body, opath)
            for n in ("__getattr__", "__getattribute__", "__delattr__", "__slots__"):
                if ocb.get(n, 0) != 0:
                    raise Unsupported("%s: %s defined in class %s" % (opath, n, ocls))
            for pn in spec["objprops"]:
                hits = [n for n in ocl[0].body if isinstance(n, ast.FunctionDef) and n.name == pn]
                if (len(hits) != 1 or ocb.get(pn, 0) != 1 or ocb.get("property", 0) != 0
                        or [ast.dump(d) for d in hits[0].decorator_list] != [ast.dump(ast.Name(id="property", ctx=ast.Load()))]):
                    raise Unsupported("%s: %s.%s is not a property defined exactly once" % (opath, ocls, pn))
            self.obj_reserved = sorted(ocb)
        if spec.get("functions"):
            # module-level functions: each bound exactly once, by a top-level def without decorators; nothing else binds the name
            self.setattr_mode = False
            self.reserved = []
            self.defs = {}
            for n in self.tree.body:
                if isinstance(n, ast.FunctionDef):
                    self.defs[n.name] = n if (self.binds.get(n.name, 0) == 1 and n.name not in self.glob and not n.decorator_list) else None
            for n in ast.walk(self.tree):
                if isinstance(n, ast.Call) and isinstance(n.func, ast.Name) and n.func.id in ("exec", "eval", "globals", "vars"):
                    raise Unsupported("%s: call of %s (line %d)" % (self.path, n.func.id, n.lineno))
            return
        # ---- the class
        cname = spec["cls"]
        classes = [n for n in self.tree.body if isinstance(n, ast.ClassDef) and n.name == cname]
        if len(classes) != 1 or self.binds.get(cname, 0) != 1 or cname in self.glob:
            raise Unsupported("%s: class %s is not bound exactly once, by a top-level class statement" % (self.path, cname))
        cls = classes[0]
        if cls.decorator_list or cls.keywords or cls.bases:
            raise Unsupported("%s: class %s has decorators, keywords or bases" % (self.path, cname))
        body = list(cls.body)
        if body and isinstance(body[0], ast.Expr) and isinstance(body[0].value, ast.Constant) and isinstance(body[0].value.value, str):
            body = body[1:]
        for n in body:
            if not isinstance(n, ast.FunctionDef):
                raise Unsupported("%s: class %s body holds something other than method definitions (line %d)" % (self.path, cname, n.lineno))
        cb = scope_bindings(cls.body, self.path)
        self.setattr_mode = bool(spec.get("setattr_mode"))
        for n in ("__getattr__", "__getattribute__", "__setattr__", "__delattr__", "__slots__"):
            if cb.get(n, 0) != 0 and not (n == "__setattr__" and self.setattr_mode):
                raise Unsupported("%s: %s defined in class %s" % (self.path, n, cname))
        if self.setattr_mode and cb.get("__setattr__", 0) != 1:
            raise Unsupported("%s: class %s is expected to define __setattr__ exactly once" % (self.path, cname))
        self.reserved = sorted(cb)          # every name bound in the class body
        self.defs = {}
        for n in body:
            if cb.get(n.name, 0) != 1:
                # a name defined twice (property setter, overload) -- only a problem if it is one we translate or call
                self.defs[n.name] = None
            else:
                self.defs[n.name] = n
        # nothing outside the class may assign attributes of the class (C.m = ...) : look for any `<cname>.<x> = ` store
        for n in ast.walk(self.tree):
            if (isinstance(n, ast.Attribute) and isinstance(n.ctx, (ast.Store, ast.Del)) and isinstance(n.value, ast.Name)
                    and n.value.id == cname):
                raise Unsupported("%s: attribute of class %s assigned (line %d)" % (self.path, cname, n.lineno))
        for n in ast.walk(self.tree):
            if isinstance(n, ast.Call) and isinstance(n.func, ast.Name) and n.func.id in ("setattr", "delattr", "exec", "eval", "globals", "vars"):
                if (n.func.id == "setattr" and self.setattr_mode and n.args and isinstance(n.args[0], ast.Name) and n.args[0].id == "self"):
                    continue          # setattr(self, ..) in a class whose __setattr__ is translated: an ordinary attribute assignment
                raise Unsupported("%s: call of %s (line %d)" % (self.path, n.func.id, n.lineno))


class Meth:
    def __init__(self, ctx, name):
        self.ctx = ctx
        self.name = name
        node = ctx.defs.get(name)
        if node is None:
            raise Unsupported("%s.%s is not defined exactly once in the class body" % (ctx.spec["cls"], name))
        self.node = node
        self.static = name in ctx.spec["static"]
        self.isprop = name in ctx.spec.get("props", [])
        want = ["staticmethod"] if (self.static and not ctx.spec.get("functions")) else (["property"] if self.isprop else [])
        if self.isprop and "property" not in ctx.builtins:
            raise Unsupported("%s: property rebound" % name)
        if [ast.dump(d) for d in node.decorator_list] != [ast.dump(ast.Name(id=d, ctx=ast.Load())) for d in want]:
            raise Unsupported("%s: decorators" % name)
        if self.static and not ctx.spec.get("functions") and "staticmethod" not in ctx.builtins:
            raise Unsupported("%s: staticmethod rebound" % name)
        a = node.args
        if a.posonlyargs or a.kwonlyargs or a.vararg or a.kwarg:
            raise Unsupported("%s: signature" % name)
        names = [x.arg for x in a.args]
        if self.static:
            self.selfname = None
            self.params = names
        else:
            if not names:
                raise Unsupported("%s: no self" % name)
            self.selfname = names[0]
            self.params = names[1:]
        if len(set(names)) != len(names):
            raise Unsupported("%s: duplicate parameter" % name)
        self.objname = None
        if ctx.spec.get("objparam") is not None:
            if len(self.params) <= ctx.spec["objparam"]:
                raise Unsupported("%s: no message-object parameter" % name)
            self.objname = self.params[ctx.spec["objparam"]]
        nd = len(a.defaults)
        self.defaults = {}
        for p, d in zip(names[len(names) - nd:], a.defaults):
            self.defaults[p] = d                 # translated in the CALLER's position, must be a constant expression
        self.locals = []
        self.mutated = set()             # locals holding a list that is mutated in place (append / pop / item assignment)
        self.nested = set()              # ... of which: mutated through two subscripts (x[k1][k2] = v, x[k1][k2].append(v))
        body = list(node.body)
        if body and isinstance(body[0], ast.Expr) and isinstance(body[0].value, ast.Constant) and isinstance(body[0].value.value, str):
            body = body[1:]
        self.collect(body)
        self.calls = set()
        self.callsites = []
        self.body = self.stmts(body)

    # ---- scoping
    def collect(self, body):
        for s in body:
            for n in ast.walk(s):
                if isinstance(n, (ast.Global, ast.Nonlocal, ast.Lambda, ast.FunctionDef, ast.AsyncFunctionDef, ast.ClassDef, ast.NamedExpr,
                                  ast.ListComp, ast.SetComp, ast.DictComp, ast.With, ast.AsyncWith, ast.Delete,
                                  ast.Import, ast.ImportFrom, ast.Yield, ast.YieldFrom, ast.Await, ast.Match, ast.AsyncFor,
                                  ast.Starred, ast.Assert, ast.AnnAssign)):
                    raise Unsupported("%s: %s (line %d)" % (self.name, type(n).__name__, getattr(n, "lineno", 0)))
                if isinstance(n, ast.GeneratorExp) and not self.ctx.spec.get("functions"):
                    raise Unsupported("%s: generator expression (line %d)" % (self.name, getattr(n, "lineno", 0)))
                if isinstance(n, ast.Name) and isinstance(n.ctx, ast.Store) and n.id not in self.params and n.id not in self.locals:
                    if any(isinstance(g, ast.GeneratorExp) and any(c.target is n for c in g.generators) for g in ast.walk(s)):
                        continue          # the target of a comprehension lives in the comprehension's own scope
                    if n.id == self.selfname:
                        raise Unsupported("%s: self rebound" % self.name)
                    self.locals.append(n.id)
                if isinstance(n, ast.ExceptHandler) and n.name and n.name not in self.params and n.name not in self.locals:
                    if n.name == self.selfname:
                        raise Unsupported("%s: self rebound" % self.name)
                    self.locals.append(n.name)

    def is_local(self, n):
        return n in self.params or n in self.locals

    def is_self(self, e):
        return self.selfname is not None and isinstance(e, ast.Name) and e.id == self.selfname and isinstance(e.ctx, ast.Load)

    def is_obj(self, e):
        return self.objname is not None and isinstance(e, ast.Name) and e.id == self.objname and isinstance(e.ctx, ast.Load)

    def objx(self, callee, args):
        return "(ECallX {| c_name := %s; c_kw := [] |} %s)" % (cstr(callee), coqlist(["(EVar %s)" % cstr(self.objname)] + args))

    # ---- expressions
    def const(self, name):
        kind, v = self.ctx.consts[name]
        if kind == "int":
            return "(EInt srco_const_%s)" % name
        if kind == "bytes":
            return "(EBytes srco_const_%s)" % name
        if kind == "str":
            return "(EStr srco_const_%s)" % name
        return "(ETuple (map EBytes srco_const_%s))" % name

    def exprs(self, es):
        return coqlist([self.expr(e) for e in es])

    def expr(self, e):
        U = lambda why: Unsupported("%s: %s (line %d): %s" % (self.name, why, getattr(e, "lineno", 0), ast.dump(e)[:100]))
        if isinstance(e, ast.Constant):
            v = e.value
            if v is None:
                return "ENone"
            if isinstance(v, bool):
                return "(EBool %s)" % ("true" if v else "false")
            if isinstance(v, int):
                return "(EInt %s)" % zlit(v)
            if isinstance(v, bytes):
                return "(EBytes %s)" % byteslit(v)
            if isinstance(v, str):
                return "(EStr %s)" % cstr(v)
            raise U("constant")
        if isinstance(e, ast.Attribute) and isinstance(e.ctx, ast.Load) and self.is_obj(e.value):
            # an attribute of the message object: a property of its class, or getattr(msg, "<name>") for a name the class does not bind
            if e.attr in self.ctx.spec["objprops"]:
                return self.objx(self.ctx.spec["objclass"][1] + "." + e.attr, [])
            if e.attr in self.ctx.obj_reserved:
                raise U("attribute %s of the message object is bound in its class" % e.attr)
            return self.objx("getattr", ["(EStr %s)" % cstr(e.attr)])
        if self.is_obj(e):
            raise U("the message object used as a value")
        if isinstance(e, ast.Name) and isinstance(e.ctx, ast.Load):
            if e.id == self.selfname:
                raise U("bare self")
            if self.is_local(e.id):
                return "(EVar %s)" % cstr(e.id)
            if e.id in self.ctx.consts:
                return self.const(e.id)
            if e.id == "__name__" and self.ctx.binds.get("__name__", 0) == 0:
                return "(EStr %s)" % cstr(self.ctx.modname)
            raise U("free name %s" % e.id)
        if isinstance(e, ast.Attribute) and isinstance(e.ctx, ast.Load) and self.is_self(e.value):
            if e.attr in self.ctx.spec.get("props", []) and e.attr in self.ctx.spec["methods"]:
                self.calls.add(e.attr)                      # a property: reading it calls the method
                return "(ECallM %s [])" % cstr(e.attr)
            if e.attr in self.ctx.defs:
                raise U("method %s used as a value" % e.attr)
            return "(ESelf %s)" % cstr(e.attr)
        if isinstance(e, ast.IfExp):
            return "(EIf %s %s %s)" % (self.expr(e.test), self.expr(e.body), self.expr(e.orelse))
        if isinstance(e, ast.List) and isinstance(e.ctx, ast.Load) and (self.ctx.spec.get("recursive") or self.ctx.spec.get("lists")):
            return "(EListLit %s)" % self.exprs(e.elts)           # a real list (may be mutated); tuples stay ETuple
        if isinstance(e, ast.Dict) and not e.keys and (self.ctx.spec.get("recursive") or self.ctx.spec.get("lists")):
            return "EDictEmpty"
        if isinstance(e, (ast.Tuple, ast.List)) and isinstance(e.ctx, ast.Load):
            return "(ETuple %s)" % self.exprs(e.elts)
        if isinstance(e, ast.UnaryOp) and type(e.op) in UNOPS:
            return "(EUn %s %s)" % (UNOPS[type(e.op)], self.expr(e.operand))
        if isinstance(e, ast.BinOp) and type(e.op) in BINOPS:
            return "(EBin %s %s %s)" % (BINOPS[type(e.op)], self.expr(e.left), self.expr(e.right))
        if isinstance(e, ast.BoolOp):
            con = "EAnd" if isinstance(e.op, ast.And) else "EOr"
            out = self.expr(e.values[-1])
            for v in reversed(e.values[:-1]):
                out = "(%s %s %s)" % (con, self.expr(v), out)
            return out
        if (isinstance(e, ast.Compare) and len(e.ops) == 1 and isinstance(e.ops[0], (ast.In, ast.NotIn)) and isinstance(e.comparators[0], ast.Name)
                and e.comparators[0].id in self.ctx.tables and not self.is_local(e.comparators[0].id)):
            # k in TABLE / k not in TABLE: a question to the environment
            q = "(ECallX {| c_name := %s; c_kw := [] |} [%s])" % (cstr(e.comparators[0].id + ".__contains__"), self.expr(e.left))
            return q if isinstance(e.ops[0], ast.In) else "(EUn UNot %s)" % q
        if isinstance(e, ast.Compare):
            rest = []
            for o, c in zip(e.ops, e.comparators):
                if type(o) not in CMPOPS:
                    raise U("comparison operator")
                rest.append("(%s, %s)" % (CMPOPS[type(o)], self.expr(c)))
            return "(ECmp %s %s)" % (self.expr(e.left), coqlist(rest))
        if isinstance(e, ast.Subscript) and isinstance(e.ctx, ast.Load):
            sl = e.slice
            if isinstance(sl, ast.Slice):
                if sl.step is not None:
                    raise U("slice step")
                lo = self.expr(sl.lower) if sl.lower is not None else None
                hi = self.expr(sl.upper) if sl.upper is not None else None
                return "(ESlice %s %s %s)" % (self.expr(e.value), optexpr(lo), optexpr(hi))
            if isinstance(sl, ast.Tuple):
                raise U("tuple subscript")
            if isinstance(e.value, ast.Name) and e.value.id in self.ctx.tables and not self.is_local(e.value.id):
                return "(ECallX {| c_name := %s; c_kw := [] |} [%s])" % (cstr(e.value.id + "[]"), self.expr(sl))
            return "(EIndex %s %s)" % (self.expr(e.value), self.expr(sl))
        if isinstance(e, ast.JoinedStr) and not getattr(self, "_text_ctx", False):
            # an f-string whose VALUE matters: literal text, {e} and {e:0Nd}, joined left to right
            parts = []
            for v in e.values:
                if isinstance(v, ast.Constant) and isinstance(v.value, str):
                    parts.append("(EStr %s)" % cstr(v.value))
                elif isinstance(v, ast.FormattedValue) and v.conversion == -1 and v.format_spec is None:
                    parts.append("(ECallB BStrOf [%s])" % self.expr(v.value))
                elif (isinstance(v, ast.FormattedValue) and v.conversion == -1 and isinstance(v.format_spec, ast.JoinedStr)
                      and len(v.format_spec.values) == 1 and isinstance(v.format_spec.values[0], ast.Constant)
                      and v.format_spec.values[0].value in ("02d", "03d")):
                    parts.append("(ECallB (BFmtD %d) [%s])" % (int(v.format_spec.values[0].value[1]), self.expr(v.value)))
                else:
                    raise U("f-string piece")
            if not parts:
                return '(EStr "")'
            out = parts[0]
            for q in parts[1:]:
                out = "(EBin OAdd %s %s)" % (out, q)
            return out
        if isinstance(e, ast.JoinedStr):
            parts = []
            for v in e.values:
                if isinstance(v, ast.Constant) and isinstance(v.value, str):
                    continue
                if isinstance(v, ast.FormattedValue) and v.format_spec is None:
                    parts.append(self.expr(v.value))
                else:
                    raise U("f-string piece")
            return "(ECallB BText %s)" % coqlist(parts)
        if isinstance(e, ast.Call):
            return self.call(e, U)
        raise U("expression")

    def call(self, e, U):
        f = e.func
        for k in e.keywords:
            if k.arg is None:
                raise U("** argument")
        kws = [(k.arg, k.value) for k in e.keywords]
        # ---- builtins
        if isinstance(f, ast.Name) and not self.is_local(f.id):
            if f.id == "len" and "len" in self.ctx.builtins and len(e.args) == 1 and not kws:
                return "(ECallB BLen [%s])" % self.expr(e.args[0])
            if f.id in ("bytes", "bytearray") and f.id in self.ctx.builtins and len(e.args) == 1 and not kws:
                return "(ECallB BBytes [%s])" % self.expr(e.args[0])
            if f.id in ("bytes", "bytearray") and f.id in self.ctx.builtins and not e.args and not kws:
                return "(EBytes [])"
            if (f.id == "int" and "int" in self.ctx.builtins and len(e.args) == 2 and not kws
                    and isinstance(e.args[1], ast.Constant) and e.args[1].value == 16 and not isinstance(e.args[1].value, bool)):
                return "(ECallB BInt16 [%s])" % self.expr(e.args[0])
            if (f.id == "isinstance" and "isinstance" in self.ctx.builtins and len(e.args) == 2 and not kws and isinstance(e.args[1], ast.Name)
                    and e.args[1].id in self.ctx.ext and not self.is_local(e.args[1].id)):
                # a question to the environment: isinstance(x, <imported class>)
                return "(ECallX {| c_name := \"isinstance\"; c_kw := [%s] |} [%s])" % (cstr(self.ctx.ext[e.args[1].id]), self.expr(e.args[0]))
            if f.id == "min" and "min" in self.ctx.builtins and len(e.args) == 2 and not kws:
                return "(ECallB BMin [%s; %s])" % (self.expr(e.args[0]), self.expr(e.args[1]))
            if f.id == "BytesIO" and f.id in self.ctx.ext and len(e.args) == 1 and not kws:
                return "(ECallB BBytesIO [%s])" % self.expr(e.args[0])
            if f.id in self.ctx.exc:
                if kws:
                    raise U("keyword argument of an exception")
                self._text_ctx = True            # the arguments of an exception are message text: evaluated, value not modelled
                try:
                    return "(EExcNew %s %s)" % (cstr(self.ctx.exc[f.id]), self.exprs(e.args))
                finally:
                    self._text_ctx = False
            if (f.id == "tuple" and "tuple" in self.ctx.builtins and len(e.args) == 1 and not kws and isinstance(e.args[0], ast.GeneratorExp)):
                g = e.args[0]
                if (len(g.generators) == 1 and not g.generators[0].ifs and not g.generators[0].is_async and isinstance(g.generators[0].target, ast.Name)
                        and isinstance(g.generators[0].iter, ast.Call) and isinstance(g.generators[0].iter.func, ast.Name)
                        and g.generators[0].iter.func.id == "range" and "range" in self.ctx.builtins and not self.is_local("range")
                        and len(g.generators[0].iter.args) == 2 and not g.generators[0].iter.keywords):
                    x = g.generators[0].target.id
                    lo, hi = (self.expr(a) for a in g.generators[0].iter.args)      # evaluated in the enclosing scope
                    saved = list(self.locals)
                    if x not in self.locals and x not in self.params:
                        self.locals.append(x)                                       # only so that the body may name it
                        body = self.expr(g.elt)
                        self.locals = saved
                    else:
                        body = self.expr(g.elt)
                    return "(ETupleRange %s %s %s %s)" % (cstr(x), lo, hi, body)
                raise U("generator expression")
            if f.id == "int" and "int" in self.ctx.builtins and len(e.args) == 1 and not kws and self.ctx.spec.get("functions"):
                return "(ECallB BIntPy [%s])" % self.expr(e.args[0])
            if f.id == "chr" and "chr" in self.ctx.builtins and len(e.args) == 1 and not kws:
                return "(ECallB BChr [%s])" % self.expr(e.args[0])
            if f.id == "int" and "int" in self.ctx.builtins and len(e.args) == 1 and not kws and self.ctx.spec.get("recursive"):
                return "(ECallB BIntStr [%s])" % self.expr(e.args[0])
            if (f.id == "isinstance" and "isinstance" in self.ctx.builtins and len(e.args) == 2 and not kws and isinstance(e.args[1], ast.Name)
                    and e.args[1].id in ("tuple", "int") and e.args[1].id in self.ctx.builtins and not self.is_local(e.args[1].id)):
                return "(ECallB %s [%s])" % ("BIsTuple" if e.args[1].id == "tuple" else "BIsInt", self.expr(e.args[0]))
            if f.id == "str" and "str" in self.ctx.builtins and len(e.args) == 1 and not kws:
                return "(ECallB BStrOf [%s])" % self.expr(e.args[0])
            if (f.id in ("getattr", "hasattr") and f.id in self.ctx.builtins and len(e.args) == 2 and not kws and self.is_obj(e.args[0])):
                return self.objx(f.id, [self.expr(e.args[1])])
            if (f.id == "getattr" and "getattr" in self.ctx.builtins and len(e.args) in (2, 3) and not kws and self.is_self(e.args[0])
                    and self.ctx.setattr_mode):
                d = "(Some %s)" % self.expr(e.args[2]) if len(e.args) == 3 else "None"
                return "(EGetattrSelf %s %s %s)" % (self.ctx.reserved_term, self.expr(e.args[1]), d)
            if (f.id == "setattr" and "setattr" in self.ctx.builtins and len(e.args) == 3 and not kws and self.is_self(e.args[0])
                    and self.ctx.setattr_mode):
                return "(ESetattrSelf %s %s %s)" % (self.ctx.reserved_term, self.expr(e.args[1]), self.expr(e.args[2]))
            if f.id in self.ctx.ext and f.id != "BytesIO":
                sig = "{| c_name := %s; c_kw := %s |}" % (cstr(self.ctx.ext[f.id]), coqlist([cstr(k) for k, _ in kws]))
                return "(ECallX %s %s)" % (sig, self.exprs(list(e.args) + [v for _, v in kws]))
            raise U("call of %s" % f.id)
        if isinstance(f, ast.Attribute):
            # super().__setattr__(name, value): object's own __setattr__ (the class has no bases)
            if (f.attr == "__setattr__" and isinstance(f.value, ast.Call) and isinstance(f.value.func, ast.Name) and f.value.func.id == "super"
                    and not f.value.args and not f.value.keywords and "super" in self.ctx.builtins and not self.is_local("super")
                    and self.ctx.setattr_mode and len(e.args) == 2 and not kws and self.selfname is not None):
                return "(ESuperSetattr %s %s)" % (self.expr(e.args[0]), self.expr(e.args[1]))
            # TABLE.get(k, d)
            if (f.attr == "get" and isinstance(f.value, ast.Name) and f.value.id in self.ctx.tables and not self.is_local(f.value.id)
                    and len(e.args) == 2 and not kws):
                return "(ECallX {| c_name := %s; c_kw := [] |} %s)" % (cstr(f.value.id + ".get"), self.exprs(e.args))
            # TABLE.values(): a question to the environment
            if (f.attr == "values" and isinstance(f.value, ast.Name) and f.value.id in self.ctx.tables and not self.is_local(f.value.id)
                    and not e.args and not kws and self.ctx.spec.get("nested")):
                return "(ECallX {| c_name := %s; c_kw := [] |} [])" % cstr(f.value.id + ".values")
            # int.from_bytes(x, "big")
            if (isinstance(f.value, ast.Name) and f.value.id == "int" and not self.is_local("int") and "int" in self.ctx.builtins
                    and f.attr == "from_bytes" and len(e.args) == 2 and isinstance(e.args[1], ast.Constant) and e.args[1].value == "big" and not kws):
                return "(ECallB BFromBig [%s])" % self.expr(e.args[0])
            # int.from_bytes(x, "little", signed=False)
            if (isinstance(f.value, ast.Name) and f.value.id == "int" and not self.is_local("int") and "int" in self.ctx.builtins
                    and f.attr == "from_bytes" and len(e.args) == 2 and isinstance(e.args[1], ast.Constant) and e.args[1].value == "little"
                    and len(kws) == 1 and kws[0][0] == "signed" and isinstance(kws[0][1], ast.Constant) and kws[0][1].value is False):
                return "(ECallB BFromLittle [%s])" % self.expr(e.args[0])
            # self.m(...)
            if self.is_self(f.value) and f.attr in self.ctx.defs:
                return self.mcall(f.attr, e.args, kws, U)
            # self.attr(...)  : a callable of the environment held in an attribute
            if self.is_self(f.value):
                if kws:
                    raise U("keyword argument to an environment callable")
                return "(ECallRef (ESelf %s) \"\" %s)" % (cstr(f.attr), self.exprs(e.args))
            # self.attr.meth(...)
            if isinstance(f.value, ast.Attribute) and self.is_self(f.value.value) and isinstance(f.value.ctx, ast.Load):
                if f.value.attr in self.ctx.defs:
                    raise U("method of a method")
                if kws:
                    raise U("keyword argument to an environment method")
                self._text_ctx = True            # arguments of a logger call are message text
                try:
                    return "(ECallRef (ESelf %s) %s %s)" % (cstr(f.value.attr), cstr(f.attr), self.exprs(e.args))
                finally:
                    self._text_ctx = False
            # bin(x).count("1")
            if (f.attr == "count" and len(e.args) == 1 and not kws and isinstance(e.args[0], ast.Constant) and e.args[0].value == "1"
                    and isinstance(f.value, ast.Call) and isinstance(f.value.func, ast.Name) and f.value.func.id == "bin" and "bin" in self.ctx.builtins
                    and not self.is_local("bin") and len(f.value.args) == 1 and not f.value.keywords):
                return "(ECallB BPopcount [%s])" % self.expr(f.value.args[0])
            if (self.ctx.spec.get("functions") and f.attr == "rsplit" and len(e.args) == 2 and not kws and isinstance(e.args[0], ast.Constant)
                    and isinstance(e.args[0].value, str) and len(e.args[0].value) == 1 and isinstance(e.args[1], ast.Constant) and e.args[1].value == 1
                    and not isinstance(e.args[1].value, bool)):
                return "(ECallB BRsplit1 [%s; EStr %s])" % (self.expr(f.value), cstr(e.args[0].value))
            if self.ctx.spec.get("recursive") or self.ctx.spec.get("functions"):
                # x.split("<one character>")
                if (f.attr == "split" and len(e.args) == 1 and not kws and isinstance(e.args[0], ast.Constant) and isinstance(e.args[0].value, str)
                        and len(e.args[0].value) == 1):
                    return "(ECallB BSplit [%s; EStr %s])" % (self.expr(f.value), cstr(e.args[0].value))
                # <local list>.append(v) / .pop()
                if isinstance(f.value, ast.Name) and self.is_local(f.value.id) and not kws:
                    if f.attr == "append" and len(e.args) == 1:
                        self.mutated.add(f.value.id)
                        return "(EListAppend %s %s)" % (cstr(f.value.id), self.expr(e.args[0]))
                    if f.attr == "pop" and not e.args:
                        self.mutated.add(f.value.id)
                        return "(EListPop %s)" % cstr(f.value.id)
                # <dict>.get(k, d) on a local / attribute value (tables of the environment were handled above)
                if f.attr == "get" and len(e.args) == 2 and not kws and isinstance(f.value, (ast.Name, ast.Attribute)):
                    return "(EMethGet %s %s %s)" % (self.expr(f.value), self.expr(e.args[0]), self.expr(e.args[1]))
            # <local>.readline() / <local>.read(n) / <expr>.strip()
            if isinstance(f.value, ast.Name) and self.is_local(f.value.id) and not kws:
                if f.attr == "readline" and not e.args:
                    return "(EBioReadline %s)" % cstr(f.value.id)
                if f.attr == "read" and len(e.args) == 1:
                    return "(EBioRead %s %s)" % (cstr(f.value.id), self.expr(e.args[0]))
            if f.attr == "strip" and not e.args and not kws:
                return "(ECallB BStrip [%s])" % self.expr(f.value)
        raise U("call")

    def mcall(self, m, args, kws, U):
        callee = self.ctx.defs.get(m)
        if callee is not None and m in self.ctx.spec.get("abstract", []) and not args and not kws:
            return "(ECallM %s [])" % cstr(m)      # not linked: its behaviour is a parameter of the theorems
        if callee is None or m not in self.ctx.spec["methods"]:
            raise U("call of a method that is not translated: %s" % m)
        if m in self.ctx.spec.get("props", []):
            raise U("call of a property")
        static = m in self.ctx.spec["static"]
        a = callee.args
        if a.posonlyargs or a.kwonlyargs or a.vararg or a.kwarg:
            raise U("callee signature")
        pnames = [x.arg for x in a.args]
        if not static:
            pnames = pnames[1:]
        nd = len(a.defaults)
        allnames = [x.arg for x in a.args]
        defaults = dict(zip(allnames[len(allnames) - nd:], a.defaults))
        if len(args) > len(pnames):
            raise U("too many arguments")
        slots = [None] * len(pnames)
        for i, v in enumerate(args):
            slots[i] = ("arg", v)
        last = len(args) - 1
        for k, v in kws:
            if k not in pnames:
                raise U("unknown keyword %s" % k)
            i = pnames.index(k)
            if slots[i] is not None:
                raise U("argument given twice")
            if i < last:
                raise U("keyword arguments out of parameter order (evaluation order would differ)")
            last = i
            slots[i] = ("arg", v)
        out = []
        for i, p in enumerate(pnames):
            if slots[i] is None:
                if p not in defaults:
                    raise U("missing argument %s" % p)
                d = defaults[p]
                # a default is evaluated at definition time: accept constants only
                if isinstance(d, ast.Constant) and (d.value is None or isinstance(d.value, (int, bytes))):
                    out.append(Meth.expr(self, d))
                elif isinstance(d, ast.Name) and d.id in self.ctx.consts:
                    out.append(self.const(d.id))
                else:
                    raise U("default of %s is not a constant" % p)
            else:
                out.append(self.expr(slots[i][1]))
        self.calls.add(m)
        self.callsites.append((m, [slots[i][1] if slots[i] is not None else None for i in range(len(pnames))], getattr(self, "_cur_stmt", None)))
        return "(ECallM %s %s)" % (cstr(m), coqlist(out))

    # ---- statements
    def target(self, t):
        if isinstance(t, ast.Name):
            if not self.is_local(t.id):
                raise Unsupported("%s: store to %s" % (self.name, t.id))
            return "(TVar %s)" % cstr(t.id)
        if isinstance(t, ast.Attribute) and isinstance(t.value, ast.Name) and t.value.id == self.selfname and self.selfname is not None:
            if self.ctx.setattr_mode:
                raise Unsupported("%s: attribute target inside a tuple / augmented assignment in a class that overrides __setattr__" % self.name)
            if t.attr in self.ctx.defs:
                raise Unsupported("%s: store to method name %s" % (self.name, t.attr))
            return "(TSelf %s)" % cstr(t.attr)
        if isinstance(t, (ast.Tuple, ast.List)):
            return "(TTuple %s)" % coqlist([self.target(x) for x in t.elts])
        raise Unsupported("%s: assignment target %s" % (self.name, ast.dump(t)[:80]))

    def stmts(self, body):
        return coqlist([self.stmt(s) for s in body])

    def simple_key(self, k):
        """a subscript that can be evaluated twice: a local name or an int / str constant"""
        return ((isinstance(k, ast.Name) and self.is_local(k.id) and k.id != self.objname)
                or (isinstance(k, ast.Constant) and isinstance(k.value, (int, str)) and not isinstance(k.value, bool)))

    def nested_base(self, t):
        """t = x[k1][k2] for a local x and simple keys: (x, k1, k2), else None"""
        if (isinstance(t, ast.Subscript) and not isinstance(t.slice, (ast.Slice, ast.Tuple)) and isinstance(t.value, ast.Subscript)
                and not isinstance(t.value.slice, (ast.Slice, ast.Tuple)) and isinstance(t.value.value, ast.Name) and self.is_local(t.value.value.id)
                and t.value.value.id != self.objname and self.simple_key(t.slice) and self.simple_key(t.value.slice)):
            return t.value.value.id, t.value.slice, t.slice
        return None

    def temp(self, n):
        # a name no Python identifier can have
        if n not in self.locals:
            self.locals.append(n)
        return n

    def nested_store(self, x, k1, k2, value):
        """x[k1][k2] = value, with lists / dicts as VALUES: Python evaluates value, then x[k1] (KeyError / TypeError), then stores into that object.
        Here:  %v = value;  %t1 = x[k1];  %t1[k2] = %v;  x[k1] = %t1   -- the same evaluation order and the same exceptions (the keys are names or
        constants, so evaluating them twice is unobservable; the last statement replaces the value of an existing key in place), and the same
        final value of x as long as the object x[k1] is reachable through x only (alias_discipline)."""
        v, t1 = self.temp("%v"), self.temp("%t1")
        self.mutated.add(x)
        self.nested.add(x)
        return "; ".join([
            "SAssign (TVar %s) %s" % (cstr(v), self.expr(value)),
            "SAssign (TVar %s) (EIndex (EVar %s) %s)" % (cstr(t1), cstr(x), self.expr(k1)),
            "SSetItemLocal %s %s (EVar %s)" % (cstr(t1), self.expr(k2), cstr(v)),
            "SSetItemLocal %s %s (EVar %s)" % (cstr(x), self.expr(k1), cstr(t1))])

    def nested_append(self, x, k1, k2, value):
        """x[k1][k2].append(value): Python evaluates x[k1][k2] (the receiver), then value, then appends.
        Here:  %t1 = x[k1];  %t2 = %t1[k2];  %t2.append(value);  %t1[k2] = %t2;  x[k1] = %t1."""
        t1, t2 = self.temp("%t1"), self.temp("%t2")
        self.mutated.add(x)
        self.nested.add(x)
        return "; ".join([
            "SAssign (TVar %s) (EIndex (EVar %s) %s)" % (cstr(t1), cstr(x), self.expr(k1)),
            "SAssign (TVar %s) (EIndex (EVar %s) %s)" % (cstr(t2), cstr(t1), self.expr(k2)),
            "SExpr (EListAppend %s %s)" % (cstr(t2), self.expr(value)),
            "SSetItemLocal %s %s (EVar %s)" % (cstr(t1), self.expr(k2), cstr(t2)),
            "SSetItemLocal %s %s (EVar %s)" % (cstr(x), self.expr(k1), cstr(t1))])

    def exc_names(self, t):
        if t is None:
            raise Unsupported("%s: bare except" % self.name)
        elts = t.elts if isinstance(t, ast.Tuple) else [t]
        out = []
        for x in elts:
            if not (isinstance(x, ast.Name) and x.id in self.ctx.exc and not self.is_local(x.id)):
                raise Unsupported("%s: except class %s" % (self.name, ast.dump(x)[:60]))
            out.append(cstr(self.ctx.exc[x.id]))
        return coqlist(out)

    def stmt(self, s):
        self._cur_stmt = s
        if (isinstance(s, ast.Assign) and self.ctx.setattr_mode and len(s.targets) == 1 and isinstance(s.targets[0], ast.Attribute)
                and isinstance(s.targets[0].value, ast.Name) and s.targets[0].value.id == self.selfname and self.selfname is not None):
            # self.x = v  in a class that overrides __setattr__
            return "SExpr (ESetattrSelf %s (EStr %s) %s)" % (self.ctx.reserved_term, cstr(s.targets[0].attr), self.expr(s.value))
        if (isinstance(s, ast.Assign) and len(s.targets) > 1 and isinstance(s.value, ast.Constant) and all(isinstance(t, ast.Name) for t in s.targets)
                and (s.value.value is None or isinstance(s.value.value, (int, str, bytes)))):
            # a = b = <constant>: the constant assigned to each name, left to right
            return "; ".join("SAssign %s %s" % (self.target(t), self.expr(s.value)) for t in s.targets)
        if self.ctx.spec.get("nested") and isinstance(s, ast.Assign) and len(s.targets) == 1 and self.nested_base(s.targets[0]):
            x, k1, k2 = self.nested_base(s.targets[0])
            return self.nested_store(x, k1, k2, s.value)
        if (self.ctx.spec.get("nested") and isinstance(s, ast.Expr) and isinstance(s.value, ast.Call) and isinstance(s.value.func, ast.Attribute)
                and s.value.func.attr == "append" and len(s.value.args) == 1 and not s.value.keywords and self.nested_base(s.value.func.value)):
            x, k1, k2 = self.nested_base(s.value.func.value)
            return self.nested_append(x, k1, k2, s.value.args[0])
        if isinstance(s, ast.Assign) and len(s.targets) == 1 and isinstance(s.targets[0], ast.Subscript) and not isinstance(s.targets[0].slice, (ast.Slice, ast.Tuple)):
            t = s.targets[0]
            if isinstance(t.value, ast.Name) and self.is_local(t.value.id):
                self.mutated.add(t.value.id)
                return "SSetItemLocal %s %s %s" % (cstr(t.value.id), self.expr(t.slice), self.expr(s.value))
            if (isinstance(t.value, ast.Attribute) and isinstance(t.value.value, ast.Name) and t.value.value.id == self.selfname and self.selfname is not None
                    and t.value.attr not in self.ctx.defs):
                return "SSetItemSelf %s %s %s" % (cstr(t.value.attr), self.expr(t.slice), self.expr(s.value))
            raise Unsupported("%s: item assignment target" % self.name)
        if isinstance(s, ast.For):
            if s.orelse:
                raise Unsupported("%s: for-else" % self.name)
            it = s.iter
            if (isinstance(it, ast.Call) and isinstance(it.func, ast.Name) and it.func.id == "range" and "range" in self.ctx.builtins and not self.is_local("range")
                    and len(it.args) == 1 and not it.keywords):
                i = "(ItRange %s)" % self.expr(it.args[0])
            elif (isinstance(it, ast.Call) and isinstance(it.func, ast.Name) and it.func.id == "range" and "range" in self.ctx.builtins and not self.is_local("range")
                    and len(it.args) == 2 and not it.keywords and self.ctx.spec.get("range2")):
                # for t in range(a, b): the same ints, in the same order, as tuple(k for k in range(a, b)); both bounds evaluated once, before the loop
                i = "(ItValue (ETupleRange \"_range\" %s %s (EVar \"_range\")))" % (self.expr(it.args[0]), self.expr(it.args[1]))
            else:
                i = "(ItValue %s)" % self.expr(it)
            return "SFor %s %s %s" % (self.target(s.target), i, self.stmts(s.body))
        if isinstance(s, ast.Assign):
            if len(s.targets) != 1:
                raise Unsupported("%s: chained assignment" % self.name)
            return "SAssign %s %s" % (self.target(s.targets[0]), self.expr(s.value))
        if isinstance(s, ast.AugAssign) and type(s.op) in BINOPS and not isinstance(s.target, (ast.Tuple, ast.List, ast.Subscript)):
            return "SAug %s %s %s" % (self.target(s.target), BINOPS[type(s.op)], self.expr(s.value))
        if isinstance(s, ast.Expr):
            if isinstance(s.value, ast.Constant) and isinstance(s.value.value, str):
                return "SPass"
            return "SExpr %s" % self.expr(s.value)
        if isinstance(s, ast.If):
            return "SIf %s %s %s" % (self.expr(s.test), self.stmts(s.body), self.stmts(s.orelse))
        if isinstance(s, ast.While):
            if s.orelse:
                raise Unsupported("%s: while-else" % self.name)
            return "SWhile %s %s" % (self.expr(s.test), self.stmts(s.body))
        if isinstance(s, ast.Break):
            return "SBreak"
        if isinstance(s, ast.Continue):
            return "SContinue"
        if isinstance(s, ast.Pass):
            return "SPass"
        if isinstance(s, ast.Return):
            return "SReturn %s" % (self.expr(s.value) if s.value is not None else "ENone")
        if isinstance(s, ast.Raise):
            if s.exc is None:
                raise Unsupported("%s: bare raise" % self.name)
            x = s.exc
            if isinstance(x, ast.Name) and x.id in self.ctx.exc and not self.is_local(x.id):
                return "SRaise (EExcNew %s [])" % cstr(self.ctx.exc[x.id])
            if s.cause is not None and not (isinstance(s.cause, ast.Name) and self.is_local(s.cause.id)):
                raise Unsupported("%s: raise ... from <expression>" % self.name)
            return "SRaise %s" % self.expr(x)
        if isinstance(s, ast.Try):
            if s.orelse or s.finalbody or not s.handlers:
                raise Unsupported("%s: try with else/finally" % self.name)
            hs = []
            for h in s.handlers:
                nm = "None" if h.name is None else "(Some %s)" % cstr(h.name)
                hs.append("(%s, %s, %s)" % (self.exc_names(h.type), nm, self.stmts(h.body)))
            return "STry %s %s" % (self.stmts(s.body), coqlist(hs))
        raise Unsupported("%s: statement %s (line %d)" % (self.name, type(s).__name__, s.lineno))

    def coq(self):
        return "{| m_params := %s; m_locals := %s; m_body :=\n    %s |}" % (
            coqlist([cstr(p) for p in self.params]), coqlist([cstr(x) for x in self.locals]), self.body)


def discipline(meths):
    """lists have VALUE semantics in PyO.  That is exact as long as a list that some method mutates in place is never reachable
    through two names at a time; the translated text must therefore obey: a parameter that a method mutates (directly, or by passing
    it on to a parameter another method mutates) is, at every call site, given a bare local name x, and that very statement rebinds x
    from the call's result (`.., x = self.m(.., x)`); every `return` of such a method returns a tuple that contains the parameter."""
    mut = {n: set(p for p in m.params if p in m.mutated) for n, m in meths.items()}
    changed = True
    while changed:
        changed = False
        for n, m in meths.items():
            for (callee, args, stmt) in m.callsites:
                for j, a in enumerate(args):
                    pn = meths[callee].params[j] if j < len(meths[callee].params) else None
                    if pn in mut[callee] and isinstance(a, ast.Name) and a.id in m.params and a.id not in mut[n]:
                        mut[n].add(a.id)
                        changed = True
    for n, m in meths.items():
        for (callee, args, stmt) in m.callsites:
            for j, a in enumerate(args):
                pn = meths[callee].params[j] if j < len(meths[callee].params) else None
                if pn in mut[callee]:
                    ok = (isinstance(a, ast.Name) and isinstance(stmt, ast.Assign) and len(stmt.targets) == 1 and isinstance(stmt.targets[0], ast.Tuple)
                          and any(isinstance(t, ast.Name) and t.id == a.id for t in stmt.targets[0].elts))
                    if not ok:
                        raise Unsupported("%s: the list passed to %s(%s) is mutated there but not rebound from the result in the same statement (line %d)"
                                          % (n, callee, pn, stmt.lineno))
        if mut[n]:
            for r in ast.walk(m.node):
                if isinstance(r, ast.Return):
                    if not (isinstance(r.value, ast.Tuple) and all(any(isinstance(x, ast.Name) and x.id == p for x in r.value.elts) for p in mut[n])):
                        raise Unsupported("%s: mutates its parameter(s) %s but a return does not hand them back (line %d)" % (n, sorted(mut[n]), r.lineno))
        # a mutated local list that is not a parameter must not be passed on or stored
        for x in m.mutated - set(m.params):
            for node in ast.walk(m.node):
                if isinstance(node, ast.Call):
                    for a in list(node.args) + [k.value for k in node.keywords]:
                        if isinstance(a, ast.Name) and a.id == x and not (isinstance(node.func, ast.Name) and node.func.id in ("len",)):
                            raise Unsupported("%s: the locally built list %s is passed to a call" % (n, x))


def check_self_uses(m):
    """every occurrence of the self parameter is the object of an attribute access"""
    if m.selfname is None:
        return
    ok = set()
    for n in ast.walk(m.node):
        if isinstance(n, ast.Attribute) and isinstance(n.value, ast.Name) and n.value.id == m.selfname:
            ok.add(id(n.value))
    if m.ctx.setattr_mode:
        for n in ast.walk(m.node):
            if (isinstance(n, ast.Call) and isinstance(n.func, ast.Name) and n.func.id in ("getattr", "setattr") and n.args
                    and isinstance(n.args[0], ast.Name) and n.args[0].id == m.selfname):
                ok.add(id(n.args[0]))
    for n in ast.walk(m.node):
        if isinstance(n, ast.Name) and n.id == m.selfname and id(n) not in ok:
            raise Unsupported("%s: use of self other than self.<attr> (line %d)" % (m.name, n.lineno))


def check_obj_uses(m):
    """the message-object parameter occurs only as  msg.<attr>  (load)  or as the first of the two arguments of getattr / hasattr,
    and is never rebound"""
    if m.objname is None:
        return
    ok = set()
    for n in ast.walk(m.node):
        if isinstance(n, ast.Attribute) and isinstance(n.ctx, ast.Load) and isinstance(n.value, ast.Name) and n.value.id == m.objname:
            ok.add(id(n.value))
        if (isinstance(n, ast.Call) and isinstance(n.func, ast.Name) and n.func.id in ("getattr", "hasattr") and len(n.args) == 2 and not n.keywords
                and isinstance(n.args[0], ast.Name) and n.args[0].id == m.objname):
            ok.add(id(n.args[0]))
    for n in ast.walk(m.node):
        if isinstance(n, ast.Name) and n.id == m.objname and (id(n) not in ok or not isinstance(n.ctx, ast.Load)):
            raise Unsupported("%s: use of the message object %s other than %s.<attr> / getattr / hasattr (line %d)" % (m.name, m.objname, m.objname, n.lineno))
        if isinstance(n, ast.ExceptHandler) and n.name == m.objname:
            raise Unsupported("%s: the message object is rebound" % m.name)


def alias_discipline(m):
    """lists and dicts have VALUE semantics in PyO.  For a function that builds them in locals this is exact when no object is mutated
    while it is reachable through two names.  Enforced syntactically: a local x that is mutated in place (x[k] = v, x.append(v)) may be
    used as a VALUE (any other load of x) only
      (a) inside a `return` statement, or
      (b) in the LAST statement of a `for` body whose FIRST statement is `x = {}` / `x = []`, and then x occurs nowhere outside that body
          (after the alias is made, the next thing that happens to x is a rebinding to a fresh object, or nothing)."""
    body = list(m.node.body)

    def chain_base(e):
        while isinstance(e, ast.Subscript):
            e = e.value
        return e

    def mut_sites(x):
        ok = set()
        for n in ast.walk(m.node):
            if isinstance(n, ast.Subscript) and isinstance(n.ctx, ast.Store):
                b = chain_base(n)
                if isinstance(b, ast.Name) and b.id == x:
                    ok.add(id(b))
            if isinstance(n, ast.Call) and isinstance(n.func, ast.Attribute) and n.func.attr in ("append", "pop"):
                b = chain_base(n.func.value)
                if isinstance(b, ast.Name) and b.id == x:
                    ok.add(id(b))
        return ok

    def empty_display(v):
        return (isinstance(v, ast.Dict) and not v.keys) or (isinstance(v, ast.List) and not v.elts)

    # an object stored INTO a container that is later mutated through that container must be fresh: x[k] = {} / []
    for x in sorted(m.nested):
        for n in ast.walk(m.node):
            if (isinstance(n, ast.Assign) and len(n.targets) == 1 and isinstance(n.targets[0], ast.Subscript) and isinstance(n.targets[0].value, ast.Name)
                    and n.targets[0].value.id == x and not empty_display(n.value)):
                raise Unsupported("%s: %s[k] = <not an empty display> although %s[k][..] is mutated (line %d)" % (m.name, x, x, n.lineno))
            if (isinstance(n, ast.Call) and isinstance(n.func, ast.Attribute) and n.func.attr in ("append", "pop") and isinstance(n.func.value, ast.Name)
                    and n.func.value.id == x):
                raise Unsupported("%s: %s.append / pop although %s[k][..] is mutated (line %d)" % (m.name, x, x, n.lineno))

    def fresh(st, x):
        return (isinstance(st, ast.Assign) and len(st.targets) == 1 and isinstance(st.targets[0], ast.Name) and st.targets[0].id == x
                and ((isinstance(st.value, ast.Dict) and not st.value.keys) or (isinstance(st.value, ast.List) and not st.value.elts)))

    for x in sorted(m.mutated):
        if x in m.params:
            raise Unsupported("%s: parameter %s is mutated in place" % (m.name, x))
        sites = mut_sites(x)
        in_return = set()
        for r in ast.walk(m.node):
            if isinstance(r, ast.Return):
                for n in ast.walk(r):
                    in_return.add(id(n))
        loads = [n for n in ast.walk(m.node) if isinstance(n, ast.Name) and n.id == x and isinstance(n.ctx, ast.Load)
                 and id(n) not in sites and id(n) not in in_return]
        if not loads:
            continue
        # (b): find the for-body that owns x
        owners = [f for f in ast.walk(m.node) if isinstance(f, ast.For) and f.body and fresh(f.body[0], x)]
        if len(owners) != 1:
            raise Unsupported("%s: the mutated local %s is used as a value outside a return (line %d)" % (m.name, x, loads[0].lineno))
        f = owners[0]
        inside = set(id(n) for st in f.body for n in ast.walk(st))
        last = set(id(n) for n in ast.walk(f.body[-1]))
        for n in ast.walk(m.node):
            if isinstance(n, ast.Name) and n.id == x and id(n) not in inside:
                raise Unsupported("%s: the mutated local %s, aliased in a loop body, occurs outside that body (line %d)" % (m.name, x, n.lineno))
        for n in loads:
            if id(n) not in last or f.body[-1] is f.body[0]:
                raise Unsupported("%s: the mutated local %s is used as a value before the end of the loop body (line %d)" % (m.name, x, n.lineno))
        if any(isinstance(n, (ast.For, ast.While, ast.Try, ast.If)) for n in ast.walk(f.body[-1])):
            raise Unsupported("%s: the statement that aliases %s is compound (line %d)" % (m.name, x, f.body[-1].lineno))


def translate(repo, key, out):
    spec = SPEC[key]
    ctx = Ctx(repo, spec)
    ctx.reserved_term = "srco_%s_reserved" % key
    if ctx.obj_reserved is not None:
        out.append("(* every name bound in the body of class %s *)" % spec["objclass"][1])
        out.append("Definition srco_%s_reserved : list string := %s." % (key, coqlist([cstr(x) for x in ctx.obj_reserved])))
    if ctx.setattr_mode:
        out.append("(* every name bound in the body of class %s *)" % spec["cls"])
        out.append("Definition srco_%s_reserved : list string := %s." % (key, coqlist([cstr(x) for x in ctx.reserved])))
    meths = {}
    for name in spec["methods"]:
        m = Meth(ctx, name)
        check_self_uses(m)
        check_obj_uses(m)
        if spec.get("lists"):
            alias_discipline(m)
        meths[name] = m
    # callee later in the list; refuse recursion
    order = []
    state = {}

    def visit(n):
        if state.get(n) == 1:
            raise Unsupported("recursive method calls through %s" % n)
        if state.get(n) == 2:
            return
        state[n] = 1
        for c in sorted(meths[n].calls):
            visit(c)
        state[n] = 2
        order.append(n)          # callees first

    if spec.get("recursive"):
        order = list(reversed(spec["methods"]))
    else:
        for name in spec["methods"]:
            visit(name)
    order.reverse()              # callers first, callees later
    if spec.get("recursive"):
        discipline(meths)
    if ctx.setattr_mode:
        if meths["__setattr__"].calls:
            raise Unsupported("__setattr__ calls other methods")
        order.remove("__setattr__")
        order.append("__setattr__")
    used = set()
    for m in meths.values():
        for n in ast.walk(m.node):
            if isinstance(n, ast.Name) and n.id in ctx.consts and not m.is_local(n.id):
                used.add(n.id)
    for c in sorted(used):
        kind, v = ctx.consts[c]
        if kind == "int":
            out.append("Definition srco_const_%s : Z := %s." % (c, zlit(v)))
        elif kind == "bytes":
            out.append("Definition srco_const_%s : list Coq.Init.Byte.byte := %s." % (c, byteslit(v)))
        elif kind == "str":
            out.append("Definition srco_const_%s : string := %s." % (c, cstr(v)))
        else:
            out.append("Definition srco_const_%s : list (list Coq.Init.Byte.byte) := %s." % (c, coqlist([byteslit(x) for x in v])))
    for name in spec["methods"]:
        out.append("Definition srco_%s_%s : method :=\n  %s." % (key, name.strip("_") if name.startswith("__") else name, meths[name].coq()))
    out.append("Definition srco_%s_prog : list (string * method) := %s." % (
        key, coqlist(['(%s, srco_%s_%s)' % (cstr(n), key, n.strip("_") if n.startswith("__") else n) for n in order])))
    return order


def main():
    repo = os.environ.get("VERIF_REPO", "/repo")
    which = sys.argv[2:] or ["sock", "reader", "msg", "msgdec", "helpers"]       # the module is named after the file: SrcOSock.v / SrcOReader.v / SrcO.v (both)
    out = ["(* GENERATED by tools/gen_src2.py from %s/src/pyrtcm/{socketwrapper,rtcmreader,rtcmtypes_core,exceptions}.py -- do not edit *)" % repo,
           "From Coq Require Import ZArith List String.", "From PyRtcm Require Import Src.PyO.",
           "Import ListNotations.", "Open Scope string_scope.", "Open Scope Z_scope.", ""]
    seen_consts = set()
    for key in which:
        part = []
        order = translate(repo, key, part)
        for line in part:
            if line.startswith("Definition srco_const_"):
                nm = line.split()[1]
                if nm in seen_consts:
                    continue
                seen_consts.add(nm)
            out.append(line)
        print("translated %s: %s" % (SPEC[key]["cls"], ", ".join(order)))
    open(sys.argv[1], "w").write("\n".join(out) + "\n")


if __name__ == "__main__":
    try:
        main()
    except (Unsupported, SyntaxError, OSError) as e:
        sys.stderr.write("gen_src2: unsupported: %s\n" % e)
        sys.exit(2)
