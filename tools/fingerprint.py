#!/venv/bin/python
"""Per-function source fingerprints (sha256 of ast.dump, docstrings stripped) of the functions the Gallina mirror models.
A changed fingerprint is NOT a violation: it makes the checks use the thorough corpus for the drivers that exercise that
function, because that is where a discrepancy between mirror and code would be.
usage: fingerprint.py [--write]   (prints JSON of current fingerprints; --write stores them as the baseline corr/fingerprints.json)"""
import ast
import hashlib
import json
import os
import sys

VERIF = os.path.dirname(os.path.dirname(os.path.abspath(__file__)))
REPO = os.environ.get("VERIF_REPO", "/repo")
FILES = {"rtcmhelpers": "src/pyrtcm/rtcmhelpers.py", "rtcmmessage": "src/pyrtcm/rtcmmessage.py",
         "rtcmreader": "src/pyrtcm/rtcmreader.py", "socketwrapper": "src/pyrtcm/socketwrapper.py"}
DRIVERS = {
    "crc": ["rtcmhelpers.calc_crc24q", "rtcmhelpers.crc2bytes", "rtcmhelpers.len2bytes"],
    "msg": ["rtcmmessage.*", "rtcmhelpers.calc_crc24q", "rtcmhelpers.crc2bytes", "rtcmhelpers.len2bytes"],
    "tables": ["rtcmmessage.*"],
    "reader": ["rtcmreader.*", "rtcmmessage.*", "rtcmhelpers.calc_crc24q", "socketwrapper.*"],
    "sock": ["socketwrapper.*"],
    "helpers": ["rtcmhelpers.att2idx", "rtcmhelpers.att2name", "rtcmhelpers.datadesc", "rtcmhelpers.parse_msm", "rtcmhelpers.parse_4076_201", "rtcmmessage.*"],
}


def strip_doc(node):
    for n in ast.walk(node):
        if isinstance(n, (ast.FunctionDef, ast.ClassDef, ast.Module)) and n.body and isinstance(n.body[0], ast.Expr) \
                and isinstance(getattr(n.body[0], "value", None), ast.Constant) and isinstance(n.body[0].value.value, str):
            n.body = n.body[1:] or [ast.Pass()]
    return node


def current():
    out = {}
    for mod, rel in FILES.items():
        try:
            tree = ast.parse(open(os.path.join(REPO, rel), encoding="utf-8").read())
        except Exception as e:  # noqa
            out[mod + ".<unparseable>"] = repr(e)[:80]
            continue
        for node in tree.body:
            if isinstance(node, ast.FunctionDef):
                out["%s.%s" % (mod, node.name)] = hashlib.sha256(ast.dump(strip_doc(node)).encode()).hexdigest()[:20]
            elif isinstance(node, ast.ClassDef):
                for sub in node.body:
                    if isinstance(sub, ast.FunctionDef):
                        out["%s.%s.%s" % (mod, node.name, sub.name)] = hashlib.sha256(ast.dump(strip_doc(sub)).encode()).hexdigest()[:20]
            elif isinstance(node, (ast.Assign, ast.AnnAssign)) and mod != "rtcmhelpers":
                out["%s.<module-level %d>" % (mod, len([k for k in out if k.startswith(mod + ".<module")]))] = hashlib.sha256(ast.dump(node).encode()).hexdigest()[:20]
    return out


def changed_for(driver):
    """names of modelled functions whose source differs from the baseline (or that were added / removed), for one driver"""
    base_path = os.path.join(VERIF, "corr", "fingerprints.json")
    if not os.path.exists(base_path):
        return []
    base = json.load(open(base_path))
    cur = current()
    pats = DRIVERS.get(driver, [])

    def rel(name):
        return any(name == p or (p.endswith(".*") and name.startswith(p[:-1])) for p in pats)
    names = sorted(n for n in set(base) | set(cur) if rel(n) and base.get(n) != cur.get(n))
    return names


if __name__ == "__main__":
    cur = current()
    if "--write" in sys.argv:
        json.dump(cur, open(os.path.join(VERIF, "corr", "fingerprints.json"), "w"), indent=1, sort_keys=True)
    print(json.dumps(cur, indent=1, sort_keys=True))
