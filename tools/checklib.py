"""The per-property check pipeline (DESIGN.md section 4):
   obligations (generic theorems + table-instantiated theorems, recompiled against the regenerated Tables.v)
   + correspondence (implementation vs Gallina model on generated cases, compared inside Coq)
   + direct search on the implementation, then verdict, replay file and evidence."""
import importlib
import json
import os
import re
import shutil
import subprocess
import sys
import tempfile
import time

import vlib

ALLOWED_AXIOM_RE = re.compile(
    r"^(PrimFloat\.|Uint63\.|Coq\.Floats\.PrimFloat\.|Coq\.Numbers\.Cyclic\.Int63\.(Prim|U)int63\.|float$|int$)")
PRIMS = {"float", "int", "PrimFloat.float", "Uint63.int"}


class Check:
    def __init__(self, prop, tier, seed):
        self.prop = prop
        self.tier = tier
        self.seed = seed
        self.t0 = time.time()
        self.work = tempfile.mkdtemp(prefix="verif-%s-" % prop, dir=os.environ.get("VERIF_TMP", None))
        self.obligations = []  # dicts: name, kind, ok, detail
        self.violations = []  # dicts: kind, desc, replay payload
        self.notes = []
        self.corr = {"cases": 0, "mismatches": 0, "drivers": {}, "distribution": {}}
        self.samples = []
        self.axioms = {}
        self.direct = {"evaluations": 0}
        self.trusted = []
        self.assumptions = []
        self.extra_cov = {}
        self.force_thorough = False

    # ------------------------------------------------------------ obligations
    def oblige(self, name, kind, ok, detail=""):
        self.obligations.append({"name": name, "kind": kind, "ok": bool(ok), "detail": detail[-1500:] if detail else ""})
        return ok

    def setup_generic(self):
        ok, log = vlib.ensure_generic_built()
        self.oblige("generic development builds (make)", "build", ok, log)
        return ok

    def tables(self):
        ok, msg = vlib.gen_tables(self.work)
        self.oblige("translator: Tables.v regenerated from the working tree, accepted by coqc, and validated (in-Coq dump of the value read = dump of the runtime tables)", "translation", ok, msg)
        self.notes.append(msg)
        return ok

    def compile_properties(self, relpath):
        """re-check the property file (statement + exact + Print Assumptions) and collect the axioms it reports"""
        src = os.path.join(vlib.COQDIR, relpath)
        dst = os.path.join(self.work, "chk_" + os.path.basename(relpath))
        shutil.copy(src, dst)
        ok, log, secs = vlib.coqc(dst, self.work, 900)
        thms = self._parse_assumptions(log)
        if not ok:
            self.oblige("%s compiles" % relpath, "theorem-file", False, log)
            return False
        n = 0
        for name, ax in thms.items():
            bad = [a for a in ax if not self._axiom_allowed(a)]
            self.axioms[name] = ax
            self.oblige("theorem %s (Print Assumptions: %s)" % (name, "closed" if not ax else ", ".join(ax)), "theorem", not bad,
                        "disallowed assumptions: %s" % bad if bad else "")
            n += 1
        if n == 0:
            self.oblige("%s states at least one theorem" % relpath, "theorem-file", False, log)
            return False
        return True

    def compile_instance(self, template_rel):
        """compile a per-run file (imports the regenerated Tables) from /verif/run"""
        src = os.path.join(vlib.VERIF, "run", template_rel)
        dst = os.path.join(self.work, os.path.basename(template_rel))
        shutil.copy(src, dst)
        ok, log, secs = vlib.coqc(dst, self.work, 1800)
        thms = self._parse_assumptions(log)
        if not ok:
            m = re.search(r"File \"[^\"]*\", line (\d+)", log)
            where = ""
            if m:
                ln = int(m.group(1))
                lines = open(dst).read().split("\n")
                # name the statement that failed
                for i in range(min(ln, len(lines)) - 1, -1, -1):
                    mm = re.match(r"\s*(Theorem|Lemma|Example|Definition|Goal)\s+(\w+)", lines[i])
                    if mm:
                        where = mm.group(2)
                        break
            self.oblige("table obligation file %s%s" % (template_rel, (" (fails at %s)" % where) if where else ""), "table-theorem", False, log)
            return False, where, log
        for name, ax in thms.items():
            bad = [a for a in ax if not self._axiom_allowed(a)]
            self.axioms[name] = ax
            self.oblige("table theorem %s (Print Assumptions: %s)" % (name, "closed" if not ax else ", ".join(ax)), "table-theorem", not bad,
                        "disallowed assumptions: %s" % bad if bad else "")
        return True, "", log

    def source_tie(self, template_rel="Src_inst.v", with_tables=False):
        """second tie, for the integer kernels only: translate the CURRENT source text (tools/gen_src.py, fail-closed) into MiniPy
        syntax and re-prove, against that text, that its interpretation equals the model for every argument (run/Src_inst.v).
        Not an obligation: when the text has been rewritten beyond what the translator or the proof script accepts, the
        check falls back to the sampled correspondence with the thorough corpus and says so in the evidence."""
        tie = {"functions": ["rtcmhelpers.calc_crc24q", "rtcmhelpers.crc2bytes", "rtcmhelpers.len2bytes", "RTCMMessage.serialize", "RTCMMessage.identity"], "status": "not-established", "detail": ""}
        self.extra_cov["source_tie"] = tie
        out = os.path.join(self.work, "Src.v")
        env = vlib.impl_env()
        env["VERIF_REPO"] = vlib.REPO
        try:
            p = subprocess.run([vlib.PY, os.path.join(vlib.VERIF, "tools", "gen_src.py"), out], env=env, capture_output=True, text=True, timeout=120)
        except subprocess.TimeoutExpired:
            p = None
        if p is None or p.returncode != 0:
            tie["detail"] = "translator refused: " + ((p.stderr or p.stdout)[-400:] if p else "timeout")
        else:
            ok, log, secs = vlib.coqc(out, self.work, 300)
            if not ok:
                tie["detail"] = "Src.v does not compile: " + log[-400:]
            else:
                src = os.path.join(vlib.VERIF, "run", template_rel)
                dst = os.path.join(self.work, os.path.basename(template_rel))
                shutil.copy(src, dst)
                ok, log, secs2 = vlib.coqc(dst, self.work, 600)
                if not ok:
                    tie["detail"] = "equivalence proof does not go through on the current text: " + log[-600:]
                else:
                    thms = self._parse_assumptions(log)
                    bad = {k: v for k, v in thms.items() if [a for a in v if not self._axiom_allowed(a)]}
                    if bad or not thms:
                        tie["detail"] = "unexpected assumptions: %r" % bad
                    else:
                        tie["status"] = "proved"
                        tie["detail"] = "interpretation of the translated source = model, for all arguments (%.1fs)" % (secs + secs2)
                        if with_tables:
                            src2 = os.path.join(vlib.VERIF, "run", "Src_tables_inst.v")
                            dst2 = os.path.join(self.work, "Src_tables_inst.v")
                            shutil.copy(src2, dst2)
                            ok3, log3, _ = vlib.coqc(dst2, self.work, 300)
                            t3 = self._parse_assumptions(log3) if ok3 else {}
                            if ok3 and t3 and not [a for v in t3.values() for a in v if not self._axiom_allowed(a)]:
                                thms.update(t3)
                            else:
                                tie["detail"] += "; header constant of the source text not matched with the working tree's tables: " + log3[-300:]
                        for name, ax in thms.items():
                            self.axioms[name] = ax
                            self.oblige("source theorem %s: MiniPy interpretation of the current source text = model (Print Assumptions: %s)"
                                        % (name, "closed" if not ax else ", ".join(ax)), "source-theorem", True)
        if tie["status"] != "proved":
            self.force_thorough = True
            self.notes.append("source tie (CRC kernels, serialize, identity) not established (%s): falling back to the sampled correspondence with the thorough corpus" % tie["detail"][:300])
        else:
            self.notes.append("source tie: " + tie["detail"])
        return tie["status"] == "proved"

    SRCO = {"sock": ("SrcOSock.v", ["SrcSock_inst.v"], None,
                     ["SocketWrapper.__init__", "SocketWrapper._recv", "SocketWrapper.read", "SocketWrapper.readline", "SocketWrapper.dechunk"]),
            "reader": ("SrcOReader.v", ["SrcReader_inst.v", "SrcReaderIter_inst.v"], "SrcReader_tables_inst.v",
                       ["RTCMReader.__init__", "RTCMReader.__next__", "RTCMReader.read", "RTCMReader._parse_ubx", "RTCMReader._parse_nmea", "RTCMReader._parse_rtcm3",
                        "RTCMReader._read_bytes", "RTCMReader._read_line", "RTCMReader._do_error", "RTCMReader.parse"]),
            "msgdec": ("SrcOMsgDec.v", ["SrcMsgDecSingle_inst.v", "SrcMsgDecWalk_inst.v", "SrcMsgDecTop_inst.v", "SrcMsgDec_inst.v"], "SrcMsgDec_tables_inst.v",
                       ["RTCMMessage.__init__", "RTCMMessage._do_attributes", "RTCMMessage._set_attribute", "RTCMMessage._set_attribute_optional",
                        "RTCMMessage._set_attribute_group", "RTCMMessage._set_attribute_single", "RTCMMessage._getsatcellmaps", "RTCMMessage._get_dict",
                        "RTCMMessage._do_unknown", "RTCMMessage.identity", "RTCMMessage.__setattr__"]),
            "helpers": ("SrcOHelpers.v", ["SrcHelpers_inst.v"], None, ["rtcmhelpers.att2idx", "rtcmhelpers.att2name", "rtcmhelpers.datadesc"]),
            "arr": ("SrcOArr.v", ["SrcArr_inst.v"], "SrcArr_tables_inst.v", ["rtcmhelpers.parse_msm"]),
            "arr2": ("SrcOArr2.v", ["SrcArr2_inst.v"], "SrcArr2_tables_inst.v", ["rtcmhelpers.parse_4076_201"]),
            "msg": ("SrcOMsg.v", ["SrcMsg_inst.v"], "SrcMsg_tables_inst.v",
                    ["RTCMMessage.__init__", "RTCMMessage.__setattr__", "RTCMMessage.identity", "RTCMMessage.payload", "RTCMMessage.ismsm",
                     "RTCMMessage._get_dict", "RTCMMessage._do_unknown", "RTCMMessage.serialize"])}

    def source_tie_obj(self, which, with_tables=False):
        """the same kind of tie for the classes (DESIGN.md 3.4): tools/gen_src2.py translates the CURRENT text of the class's methods
        into PyO syntax (coq/Src/PyO.v: objects, exceptions, while loops, calls into an abstract environment) and the per-run proof
        scripts re-prove, against that text, that interpreting it equals the hand-written model for every state, argument and
        behaviour of the environment.  Not an obligation (see source_tie).  The compiled result is cached by the content of the
        generated text, of the proof scripts and of the compiled development they import: an unchanged tree pays once."""
        gen, insts, tables_inst, funcs = self.SRCO[which]
        tie = {"functions": funcs, "status": "not-established", "detail": ""}
        self.extra_cov["source_tie_" + which] = tie
        sub = self.work
        out = os.path.join(sub, gen)
        env = vlib.impl_env()
        env["VERIF_REPO"] = vlib.REPO
        srcs = [os.path.join(vlib.VERIF, "run", i) for i in insts]
        missing = [x for x in srcs if not os.path.exists(x)]
        thms = {}
        if missing:
            tie["detail"] = "no equivalence proof script (%s)" % ", ".join(os.path.basename(x) for x in missing)
            self.notes.append("source tie (%s): %s" % (which, tie["detail"]))
            return False
        try:
            p = subprocess.run([vlib.PY, os.path.join(vlib.VERIF, "tools", "gen_src2.py"), out, which], env=env, capture_output=True, text=True, timeout=120)
        except subprocess.TimeoutExpired:
            p = None
        if p is None or p.returncode != 0:
            tie["detail"] = "translator refused: " + ((p.stderr or p.stdout)[-400:] if p else "timeout")
        else:
            import glob
            import hashlib
            h = hashlib.sha256()
            h.update(open(out, "rb").read())
            for x in srcs:
                h.update(open(x, "rb").read())
            for d in sorted(glob.glob(os.path.join(vlib.COQDIR, "Src", "*.vo")) + glob.glob(os.path.join(vlib.COQDIR, "Model", "*.vo")) + glob.glob(os.path.join(vlib.COQDIR, "Base", "*.vo"))):
                h.update(os.path.basename(d).encode())
                h.update(hashlib.sha256(open(d, "rb").read()).digest())
            cache = os.path.join(vlib.VERIF, "work", "srco-cache", which + "-" + h.hexdigest()[:40])
            vos = [gen[:-2] + ".vo"] + [i[:-2] + ".vo" for i in insts]
            log = None
            if os.path.exists(os.path.join(cache, "ok")) and all(os.path.exists(os.path.join(cache, v)) for v in vos):
                for v in vos:
                    shutil.copy(os.path.join(cache, v), os.path.join(sub, v))
                log = open(os.path.join(cache, "log.txt")).read()
                secs = 0.0
                how = "cached"
            else:
                ok, lg, secs = vlib.coqc(out, sub, 300)
                if not ok:
                    tie["detail"] = "%s does not compile: %s" % (gen, lg[-400:])
                else:
                    log = ""
                    for i, src in zip(insts, srcs):
                        dst = os.path.join(sub, i)
                        shutil.copy(src, dst)
                        ok, lg, s2 = vlib.coqc(dst, sub, 900)
                        secs += s2
                        if not ok:
                            tie["detail"] = "equivalence proof %s does not go through on the current text: %s" % (i, lg[-600:])
                            log = None
                            break
                        log += lg
                    how = "%.1fs" % secs
                    if log is not None:
                        try:
                            os.makedirs(cache, exist_ok=True)
                            for v in vos:
                                shutil.copy(os.path.join(sub, v), os.path.join(cache, v))
                            open(os.path.join(cache, "log.txt"), "w").write(log)
                            open(os.path.join(cache, "ok"), "w").write("ok")
                        except OSError:
                            pass
            if log is not None:
                thms = self._parse_assumptions(log)
                bad = {k: v for k, v in thms.items() if [a for a in v if not self._axiom_allowed(a)]}
                if bad or not thms:
                    tie["detail"] = "unexpected assumptions: %r" % bad
                else:
                    tie["status"] = "proved"
                    tie["detail"] = "interpretation of the translated source = model, for all states, arguments and environments (%s)" % how
                    if tables_inst and with_tables and os.path.exists(os.path.join(vlib.VERIF, "run", tables_inst)):
                        dst2 = os.path.join(sub, tables_inst)
                        shutil.copy(os.path.join(vlib.VERIF, "run", tables_inst), dst2)
                        ok3, log3, _ = vlib.coqc(dst2, sub, 300)
                        t3 = self._parse_assumptions(log3) if ok3 else {}
                        if ok3 and t3 and not [a for v in t3.values() for a in v if not self._axiom_allowed(a)]:
                            thms.update(t3)
                            tie["detail"] += "; constants of the source text = the working tree's tables, hypotheses discharged for the real tables"
                        else:
                            tie["detail"] += "; NOT coupled to the working tree's tables: " + log3[-300:]
                    for name, ax in thms.items():
                        self.axioms[name] = ax
                        self.oblige("source theorem %s: PyO interpretation of the current source text = model (Print Assumptions: %s)"
                                    % (name, "closed" if not ax else ", ".join(ax)), "source-theorem", True)
        if tie["status"] != "proved":
            self.force_thorough = True
            self.notes.append("source tie (%s) not established (%s): falling back to the sampled correspondence with the thorough corpus" % (which, tie["detail"][:300]))
        else:
            self.notes.append("source tie (%s): %s" % (which, tie["detail"]))
        return tie["status"] == "proved"

    def diagnose(self, template_rel):
        src = os.path.join(vlib.VERIF, "run", template_rel)
        dst = os.path.join(self.work, os.path.basename(template_rel))
        shutil.copy(src, dst)
        ok, log, secs = vlib.coqc(dst, self.work, 600)
        return log

    @staticmethod
    def _axiom_allowed(a):
        a = a.strip()
        return a in PRIMS or a.startswith("PrimFloat.") or a.startswith("Uint63.") or a.startswith("PrimInt63.")

    @staticmethod
    def _parse_assumptions(log):
        """Property files print a marker `PA:<theorem>` (Goal True. idtac "PA:t". Abort.) before each `Print Assumptions t.`;
        coqc then prints either 'Closed under the global context' or 'Axioms:' followed by `name : type` entries."""
        thms = {}
        cur = None
        inax = False
        for ln in log.split("\n"):
            st = ln.strip()
            m = re.match(r"PA:(\S+)$", st)
            if m:
                cur = m.group(1)
                thms[cur] = None
                inax = False
                continue
            if cur is None:
                continue
            if st.startswith("Closed under the global context"):
                thms[cur] = []
                cur = None
                inax = False
            elif st.startswith("Axioms:"):
                thms[cur] = []
                inax = True
            elif inax:
                mm = re.match(r"^([A-Za-z_][\w.']*)\s*:(.*)$", ln)
                if mm:
                    name, ty = mm.group(1), mm.group(2)
                    # a file that imports PrimFloat / Uint63 prints the primitives unqualified (mul, opp, of_uint63, float ...): recognise
                    # them by their TYPE, which mentions nothing but the primitive types (a declared axiom about anything else does not)
                    if "." not in name and re.fullmatch(r"[\s\w.>()-]*", ty) and ty.strip() and \
                            set(re.findall(r"[A-Za-z_][\w.']*", ty)) <= {"float", "int", "bool", "Set", "PrimFloat.float", "PrimInt63.int", "Uint63.int",
                                                                        "comparison", "float_comparison", "FloatOps.float_comparison", "PrimFloat.float_comparison"}:
                        name = "PrimFloat." + name if "float" in ty else "PrimInt63." + name
                    thms[cur].append(name)
        return {k: (v if v is not None else ["<no Print Assumptions output>"]) for k, v in thms.items()}

    # ------------------------------------------------------------ correspondence
    def run_driver(self, driver, args=None, timeout=3000, seed=None):
        """run corr/drv_<driver>.py in the implementation environment; returns its meta dict (or None)"""
        out = os.path.join(self.work, "drv_%s_%d" % (driver, len(self.corr["drivers"])))
        os.makedirs(out, exist_ok=True)
        tier = self.tier
        try:
            import fingerprint
            ch = fingerprint.changed_for(driver)
        except Exception as e:  # noqa
            ch = ["<fingerprint tool failed: %r>" % e]
        if self.force_thorough and tier == "quick":
            tier = "thorough"
        if ch and tier == "quick":
            tier = "thorough"
            self.notes.append("source of %s differs from the fingerprint baseline: driver %s uses the thorough corpus" % (", ".join(ch[:6]), driver))
        cmd = [vlib.PY, os.path.join(vlib.VERIF, "corr", "drv_%s.py" % driver), "--prop", self.prop, "--tier", tier,
               "--seed", str(self.seed if seed is None else seed), "--out", out] + (args or [])
        t = time.time()
        # the same driver run a second time, concurrently, in another interpreter mode (python -O: assertions stripped, __debug__ false):
        # everything it observes on the implementation must be the same, byte for byte
        second = None
        if os.environ.get("VERIF_SECOND_MODE", "1") != "0":
            out2 = out + "_O"
            os.makedirs(out2, exist_ok=True)
            env2 = vlib.impl_env()
            env2["VERIF_INNER"] = "1"
            cmd2 = [cmd[0], "-O"] + [out2 if x == out else x for x in cmd[1:]]
            second = (subprocess.Popen(cmd2, env=env2, stdout=subprocess.DEVNULL, stderr=subprocess.PIPE, text=True), out2)
        try:
            p = subprocess.run(cmd, env=vlib.impl_env(), capture_output=True, text=True, timeout=timeout)
        except subprocess.TimeoutExpired:
            if second:
                second[0].kill()
            self.oblige("driver %s finishes" % driver, "correspondence", False, "timeout")
            return None
        if p.returncode != 0 or not os.path.exists(os.path.join(out, "meta.json")):
            if second:
                second[0].kill()
            self.oblige("driver %s runs the implementation" % driver, "correspondence", False, p.stdout[-1500:] + p.stderr[-3000:])
            return None
        meta = json.load(open(os.path.join(out, "meta.json")))
        if second:
            self.second_mode(driver, meta, out, second, timeout)
        meta["_dir"] = out
        meta["_secs"] = time.time() - t
        key = "%s#%d" % (driver, len(self.corr["drivers"]))
        self.corr["drivers"][key] = {"cases": meta.get("n_cases", 0), "gen_s": round(meta["_secs"], 1)}
        for k, v in meta.get("distribution", {}).items():
            self.corr["distribution"]["%s.%s" % (driver, k)] = v
        self.samples.extend(meta.get("samples", [])[:3])
        self.direct["evaluations"] += meta.get("direct_evaluations", 0)
        for dv in meta.get("direct_violations", []):
            self.violations.append({"kind": "direct", "driver": driver, **dv})
        meta["_key"] = key
        return meta

    def second_mode(self, driver, meta, out, second, timeout):
        """compare the observations of the concurrent python -O run of a driver with those of the normal run"""
        proc, out2 = second
        try:
            _, se = proc.communicate(timeout=timeout)
        except subprocess.TimeoutExpired:
            proc.kill()
            self.notes.append("driver %s under python -O did not finish in time: second interpreter mode not compared" % driver)
            return
        note = {"note": "python -O (assertions stripped)"}
        try:
            meta2 = json.load(open(os.path.join(out2, "meta.json")))
        except Exception:  # noqa
            meta2 = None
        if proc.returncode != 0 or meta2 is None:
            self.violations.append({"kind": "direct", "driver": driver, "desc": "%s: driver %s crashes under python -O although it runs in the normal mode: %s" % (self.prop, driver, (se or "")[-400:]),
                                    "input": dict(note), "got": {}})
            return
        have = {dv.get("desc") for dv in meta.get("direct_violations", [])}
        for dv in meta2.get("direct_violations", [])[:5]:
            if dv.get("desc") not in have:
                dv = dict(dv)
                dv["desc"] = "under python -O (assertions stripped): " + str(dv.get("desc"))
                dv.setdefault("input", {})["note"] = note["note"]
                self.violations.append({"kind": "direct", "driver": driver, **dv})
        ndiff = 0
        for fn in sorted(os.listdir(out)):
            if not (fn.startswith("cases") or fn == "specs.json"):
                continue
            a = open(os.path.join(out, fn), "rb").read()
            try:
                b = open(os.path.join(out2, fn), "rb").read()
            except OSError:
                b = None
            if a != b:
                ndiff += 1
                if ndiff == 1:
                    la, lb = a.split(b"\n"), (b or b"").split(b"\n")
                    k = next((i for i, (x, y) in enumerate(zip(la, lb)) if x != y), min(len(la), len(lb)))
                    self.violations.append({"kind": "direct", "driver": driver,
                                            "desc": "%s: what driver %s observes on the implementation differs under python -O (file %s, line %d)" % (self.prop, driver, fn, k + 1),
                                            "input": {"note": note["note"], "normal": la[k][:3000].decode("latin1") if k < len(la) else "", "python_O": lb[k][:3000].decode("latin1") if k < len(lb) else ""},
                                            "got": {}})
        self.direct["evaluations"] += meta2.get("direct_evaluations", 0)
        self.corr["distribution"]["%s.second_interpreter_mode_files_compared" % driver] = len([f for f in os.listdir(out) if f.startswith("cases")])
        shutil.rmtree(out2, ignore_errors=True)

    def compare(self, meta, label=None, timeout=1200):
        """compile the driver's case files (model evaluated by vm_compute, compared inside Coq)"""
        if meta is None:
            return
        d = meta["_dir"]
        files = [os.path.join(d, f["file"]) for f in meta["files"]]
        # case files import PyRtcmGen.Tables from self.work
        t = time.time()
        res = vlib.coqc_many(files, self.work, timeout)
        # a shard that ran out of time (killed: no output at all) says nothing about the code: evaluate it again, alone and with a
        # generous limit, before anything is concluded (a loaded machine must not turn into an alarm)
        slow = [pth for pth in files if not res[pth][0] and (not res[pth][1].strip() or res[pth][1].startswith("TIMEOUT"))]
        for pth in slow:
            res[pth] = vlib.coqc(pth, self.work, timeout * 4)
        if slow:
            self.notes.append("%d correspondence shard(s) exceeded %d s under load and were re-evaluated alone" % (len(slow), timeout))
        bad = []
        ncases = 0
        for f in meta["files"]:
            path = os.path.join(d, f["file"])
            ok, log, secs = res[path]
            ncases += f["n"]
            if not ok:
                self.oblige("correspondence file %s evaluates" % f["file"], "correspondence", False, log)
                bad.append((f, None, log))
                continue
            idxs = vlib.parse_nat_list(log)
            if idxs is None:
                self.oblige("correspondence file %s prints a verdict" % f["file"], "correspondence", False, log)
                continue
            for i in idxs:
                bad.append((f, i, ""))
        self.corr["cases"] += ncases
        self.corr["drivers"][meta["_key"]]["coq_s"] = round(time.time() - t, 1)
        mism = [(f, i) for f, i, _ in bad if i is not None]
        self.corr["mismatches"] += len(mism)
        name = "correspondence %s: model = implementation on %d cases%s" % (meta["driver"], ncases, (" [%s]" % label) if label else "")
        self.oblige(name, "correspondence", not bad, "%d disagreeing cases" % len(mism) if mism else "")
        # search for a failing input, seeded by the disagreements: each of the first disagreeing calls is made again, three times, as the
        # very first calls of a fresh interpreter; answers that differ among themselves show state carried between calls
        spath = os.path.join(d, "specs.json")
        if mism and os.path.exists(spath):
            try:
                nspec = json.load(open(spath))
            except Exception:  # noqa
                nspec = []
            tried = 0
            for f, i in mism:
                gi = f["first"] + i
                if tried >= 6 or gi >= len(nspec) or nspec[gi] is None:
                    continue
                tried += 1
                try:
                    pr = subprocess.run([vlib.PY, os.path.join(vlib.VERIF, "corr", "evalspec.py"), spath, "--twice", str(gi)], env=vlib.impl_env(),
                                        capture_output=True, text=True, timeout=300)
                    rs = json.loads(pr.stdout) if pr.returncode == 0 else None
                except Exception:  # noqa
                    rs = None
                self.direct["evaluations"] += 3
                if rs and any(r != rs[0] for r in rs[1:]):
                    case = self._case(meta, f, i)
                    self.violations.append({"kind": "direct", "driver": meta["driver"],
                                            "desc": "%s: the same call answers differently the first, second and third time it is made in a fresh interpreter (state carried between calls): %s" % (self.prop, case.get("desc", "")),
                                            "input": dict(case.get("input") or {}, note="made three times as the first calls of a fresh interpreter"),
                                            "got": {"answers": [str(r[0])[:300] for r in rs]}})
                    break
        # explain the first few disagreements
        for f, i in mism[:5]:
            case = self._case(meta, f, i)
            model_out = self.explain(meta, case)
            self.violations.append({"kind": "correspondence", "driver": meta["driver"], "case": case, "model": model_out,
                                    "desc": "model and implementation disagree: %s" % case.get("desc", "")})

    def _case(self, meta, f, i):
        cases = meta.get("cases")
        if cases is None:
            cf = os.path.join(meta["_dir"], "cases.json")
            cases = json.load(open(cf)) if os.path.exists(cf) else []
            meta["cases"] = cases
        gi = f["first"] + i
        return cases[gi] if gi < len(cases) else {"desc": "case %d of %s" % (i, f["file"])}

    def explain(self, meta, case):
        expr = case.get("explain")
        if not expr:
            return None
        path = os.path.join(self.work, "explain_%d.v" % int(time.time() * 1000 % 1e9))
        with open(path, "w") as fh:
            fh.write(meta.get("preamble", "") + "\nEval vm_compute in (%s).\n" % expr)
        ok, log, _ = vlib.coqc(path, self.work, 300)
        return log[-4000:]

    # ------------------------------------------------------------ verdict
    def finish(self, level_text, rule, obligations_note="", extra_cov=None):
        known = vlib.known_findings()
        real = []
        for v in self.violations:
            key = v.get("key")
            k = [x for x in known if x["property"] == self.prop and key and x["key"] == key]
            if k:
                print("KNOWN-FINDING: property=%s %s" % (self.prop, k[0]["what"]))
            else:
                real.append(v)
        failed = [o for o in self.obligations if not o["ok"]]
        rc = 0
        os.makedirs(os.path.join(vlib.OUT, "work", "replays"), exist_ok=True)
        if real:
            rp = os.path.join(vlib.OUT, "work", "replays", "%s-%s-%d.json" % (self.prop, self.tier, self.seed))
            vlib.write_json(rp, {"property": self.prop, "failing_inputs": real[:10], "failed_obligations": failed,
                                 "how_to_replay": "bin/check %s --replay %s" % (self.prop, rp)})
            concrete = any(v["kind"] == "direct" or v.get("concrete") for v in real)
            print("VIOLATION property=%s replay=%s%s" % (self.prop, rp, "" if concrete else " no-failing-input-found"))
            for v in real[:5]:
                print("  - [%s] %s" % (v["kind"], v.get("desc", "")))
            rc = 1
        elif failed:
            rp = os.path.join(vlib.OUT, "work", "replays", "%s-%s-%d.json" % (self.prop, self.tier, self.seed))
            vlib.write_json(rp, {"property": self.prop, "failing_inputs": [], "failed_obligations": failed,
                                 "note": "a proof obligation or the correspondence no longer checks; the search found no failing input"})
            print("VIOLATION property=%s replay=%s no-failing-input-found" % (self.prop, rp))
            for o in failed[:8]:
                print("  - obligation failed: %s :: %s" % (o["name"], o["detail"][-400:].replace("\n", " | ")))
            rc = 1
        nob = len(self.obligations)
        nok = len([o for o in self.obligations if o["ok"]])
        cov = {
            "obligations": nob,
            "discharged": nok,
            "checker_cmd": "coqc (Coq 8.16.1, full .vo, kernel + vm_compute) on coq/Properties/%s.v, run/%s_inst.v against the regenerated Tables.v; correspondence case files evaluated by vm_compute" % (self.prop, self.prop),
            "trusted_base": (self.trusted or DEFAULT_TRUSTED) + (
                ["coq/Src/MiniPy.v (meaning of the Python subset of the integer kernels) and tools/gen_src.py (prints their ast as constructors; fail-closed)"]
                if "source_tie" in self.extra_cov else []) + (
                ["coq/Src/PyO.v (meaning of the Python subset of the stream classes: one object, exceptions by class, while with a budget, calls into an abstract environment), coq/Src/SockEnv.v / ReaderEnv.v (the environment and the layout of a model state as attributes of self) and tools/gen_src2.py (prints the ast of the methods as constructors; fail-closed)"]
                if any(k.startswith("source_tie_") for k in self.extra_cov) else []),
            "obligation_list": [{"name": o["name"], "kind": o["kind"], "ok": o["ok"]} for o in self.obligations],
            "axioms_per_theorem": self.axioms,
            "evaluations": self.corr["cases"] + self.direct["evaluations"],
            "traces_validated_against_impl": self.corr["cases"],
            "correspondence": self.corr,
            "direct_search_evaluations": self.direct["evaluations"],
            "rule": rule,
            "samples": self.samples[:8] or ["(no sampled component in this run)"],
            "explanation": level_text,
        }
        if extra_cov:
            cov.update(extra_cov)
        cov.update(self.extra_cov)
        ev = {
            "property_id": self.prop, "tier": self.tier, "seed": self.seed, "level": "proof", "coverage": cov,
            "assumptions": self.assumptions, "wall_s": round(time.time() - self.t0, 1), "violations": len(real) + (1 if (failed and not real) else 0),
            "notes": self.notes,
        }
        vlib.write_json(os.path.join(vlib.OUT, "evidence", "%s.json" % self.prop), ev)
        shutil.rmtree(self.work, ignore_errors=True)
        if rc == 0:
            print("OK property=%s obligations=%d/%d correspondence_cases=%d direct=%d wall=%.0fs" % (
                self.prop, nok, nob, self.corr["cases"], self.direct["evaluations"], time.time() - self.t0))
        return rc


DEFAULT_TRUSTED = [
    "Coq 8.16.1 kernel and vm_compute (no native_compute)",
    "axioms declared by this development: none; PrimFloat/Uint63 primitives appear where scaled values or case unpacking are involved",
    "tools/gen_tables.py (prints pyrtcm's runtime tables as Coq constructors)",
    "hand-written Gallina mirror of the algorithmic code, tied to /repo by the correspondence check (differential, sampled)",
    "corr/ drivers and coq/Corr (test doubles, canonical serialisation, in-Coq comparison)",
    "CPython semantics assumed by the mirror (unbounded int, slicing, dict order, IEEE-754 int*float)",
]
