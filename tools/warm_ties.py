#!/venv/bin/python
"""Pre-compute the per-run source theorems for /repo's current tree into the content-keyed cache (work/srco-cache), in parallel.
Called at the end of bin/setup: an unchanged tree then finds every source tie cached; a changed method is translated and proved
again by the check itself (the cache key is the generated text + the proof scripts + the compiled files they import)."""
import concurrent.futures
import os
import shutil
import sys

sys.path.insert(0, os.path.dirname(os.path.abspath(__file__)))
os.environ.setdefault("PYTHONHASHSEED", "0")
import checklib  # noqa: E402


def warm(which):
    ck = checklib.Check("warm-" + which, "quick", 0)
    try:
        ok = ck.source_tie_obj(which, with_tables=False)
        return which, ok, ck.extra_cov.get("source_tie_" + which, {}).get("detail", "")[:200]
    finally:
        shutil.rmtree(ck.work, ignore_errors=True)


if __name__ == "__main__":
    with concurrent.futures.ProcessPoolExecutor(max_workers=6) as ex:
        for which, ok, detail in ex.map(warm, list(checklib.Check.SRCO)):
            print("source tie %-8s %s  %s" % (which, "proved" if ok else "NOT established", detail))
