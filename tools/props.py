"""Registry: what each property's check consists of (obligation files, drivers, projections)."""
import json
import os
import subprocess

import vlib

REGISTRY = {}


def prop(f):
    REGISTRY[f.__name__] = f
    return f


def replay(prop_id, path):
    d = json.load(open(path))
    print(json.dumps(d, indent=1)[:6000])
    # re-run the recorded inputs on the current tree through the driver's replay entry
    drv = None
    for v in d.get("failing_inputs", []):
        drv = v.get("driver")
        if drv:
            p = subprocess.run([vlib.PY, os.path.join(vlib.VERIF, "corr", "replay.py"), path], env=vlib.impl_env(), capture_output=True, text=True)
            print(p.stdout[-6000:], p.stderr[-2000:])
            return p.returncode
    return 0


@prop
def C08(ck):
    ck.assumptions += ["the CRC damage theorems are stated for the model's parse gate; the reader-level consequence uses Model/Reader.parse",
                       "direct search samples frames; exhaustiveness of single-bit and adjacent-pair flips is per sampled frame"]
    if ck.setup_generic():
        ck.compile_properties("Properties/C08.v")
        m = ck.run_driver("crc")
        ck.compare(m)
    return ck.finish(
        "CRC-24Q model proved equal to the GF(2) remainder for all byte strings; detection of odd, burst<=24 and two-bit damage proved; "
        "model tied to calc_crc24q/crc2bytes/len2bytes by correspondence; implementation also searched directly",
        "byte strings of lengths 0..40,255..2000, zeros/ones/single-bit/random/valid frames; damage: all single-bit and adjacent-pair flips of sampled frames, random 2-bit, odd, burst<=24")
