"""Registry: what each property's check consists of (theorem files, per-run table obligations, drivers)."""
import json
import os
import subprocess

import vlib

REGISTRY = {}
SPEC = {}


def replay(prop_id, path):
    d = json.load(open(path))
    print(json.dumps(d, indent=1)[:8000])
    p = subprocess.run([vlib.PY, os.path.join(vlib.VERIF, "corr", "replay.py"), path], env=vlib.impl_env(), capture_output=True, text=True)
    print(p.stdout[-8000:], p.stderr[-2000:])
    return p.returncode


SRCO = {"C01": ("reader",), "C02": ("reader",), "C05": ("reader",), "C17": ("reader",),
        "C11": ("sock", "reader"), "C12": ("sock", "reader"), "C07": ("msg",), "C14": ("msg",), "C15": ("msg",), "C19": ("helpers",), "C18": ("arr", "arr2"),
        "C03": ("msgdec",), "C04": ("reader", "msgdec"), "C06": ("msgdec",), "C09": ("msgdec",), "C16": ("msgdec",)}


def define(pid, propfile, insts, drivers, text, rule, assumptions=(), diag=None, src=False):
    SPEC[pid] = dict(propfile=propfile, insts=insts, drivers=drivers, text=text, rule=rule, src=src, srco=SRCO.get(pid, ()))

    def run(ck):
        ck.assumptions += list(assumptions)
        if ck.setup_generic():
            if propfile:
                ck.compile_properties(propfile)
            need_tables = bool(insts) or any(d != "crc" for d, _ in drivers)
            ok_tables = ck.tables() if need_tables else True
            if src:
                ck.source_tie(with_tables=bool(need_tables and ok_tables))
            for which in SRCO.get(pid, ()):
                ck.source_tie_obj(which, with_tables=bool(need_tables and ok_tables))
            if ok_tables:
                for inst in insts:
                    ok, where, log = ck.compile_instance(inst)
                    if not ok and diag:
                        out = ck.diagnose(diag)
                        ck.notes.append("table diagnosis: " + out[-1500:])
                # thorough: the enlarged corpus, four times with different seeds (boundary corpora are deterministic and repeat)
                rounds = 4 if ck.tier == "thorough" else 1
                for rnd in range(rounds):
                    for drv, args in drivers:
                        m = ck.run_driver(drv, args, seed=ck.seed if rnd == 0 else ck.seed * 1000 + 7 * rnd)
                        if m is not None and m.get("n_cases", 0):
                            ck.compare(m, label=("round %d" % rnd) if rounds > 1 else None)
            else:
                # the tables could not be translated (their shape changed): the model cannot be evaluated, but the search for a failing
                # input on the implementation itself still runs
                ck.force_thorough = True
                for drv, args in drivers:
                    ck.run_driver(drv, args)
        return ck.finish(text, rule)
    run.__name__ = pid
    REGISTRY[pid] = run


RD = "hostile / well-formed item streams (valid frames of all types incl. unknown and boundary lengths, damaged, reserved-bit headers, NMEA, UBX, sync-dense noise, truncated tails) x fault schedules"

define("C01", "Properties/C01.v", ["C01_inst.v"], [("reader", []), ("crc", [])],
       "Theorem: for every lawful stream (file with any fault schedule; socket wrapper with any recv events), every constructor and error mode, any number of successive reads, the yielded frames are disjoint slices of the input in order, each a well-formed frame whose parsed message is the constructor applied to exactly that slice's payload. Instantiated at the regenerated framing constants; reader model tied to RTCMReader by correspondence incl. exhaustive single faults; implementation output also checked directly against an independent frame oracle.",
       RD + " (none / single fault at every call index x 3 kinds / random)", ["streams are modelled as total read/readline functions: exceptions raised by the stream object itself are outside the theorem"])
define("C02", "Properties/C02.v", ["C02_inst.v"], [("reader", []), ("crc", [])],
       "Theorem: for every list of well-formed items and every constructor, iteration yields exactly the frames whose payload parses, byte for byte, in order, then ends, consuming the whole stream; zero-length and 1023-byte frames handled (corollaries). NMEA/UBX header tables and constants are per-run table theorems.",
       "well-formed mixed streams of 2..40 items over BytesIO, BufferedReader and a fake socket", ["NMEA sentences with a listed talker; unlisted '$x' openers are covered by C01/C04 only"])
define("C03", "Properties/C03.v", ["C06_inst.v"], [("msg", [])],
       "Theorems: shift-and-mask extraction = bit slice of the payload (all offsets/widths); the model's field step equals the bit-list specification for every data type (two's complement, sign-magnitude, unsigned, character, scaled by resolution) under the indexed name; trailing bytes change nothing; (encoder round trip: see evidence.obligation_list). Model tied to RTCMMessage by correspondence on builder-made payloads of all 152 identities with bit-exact floats; implementation also compared directly with an independent encoder (values, single-field change, trailing bytes).",
       "independent encoder over all identities x value modes (random, zeros, ones, sign bit) x counts 0..3 and maximal")
define("C04", "Properties/C04.v", ["C04_inst.v"], [("msg", []), ("reader", [])],
       "Theorems: the constructor never lets a foreign exception escape (all tables, payloads, options); short payloads give the message error; the static parser is total; read() never raises in ignore/log modes and raises only library errors in raise mode; the read loop consumes >= 1 byte per pass so iteration over a finite stream terminates (fuel never exhausted). Per run: tables_total_ok T = true, hence (construct_total) for the working tree's tables every payload yields a message or a library error -- the model has no Unmodelled answer left. Exhaustive header sweep (4096 numbers x lengths, 256 sub-types) and arbitrary streams by correspondence + direct search.",
       "all 4096 message numbers x lengths 2..4(8), 256 sub-types, short payloads, mutations/truncations of builder payloads; arbitrary / hostile streams in 3 modes with and without faults",
       ["Unmodelled outcomes of the model (table shapes outside the mirror) are excluded by the per-run layout well-formedness theorem and flagged by the correspondence"])
define("C05", "Properties/C05.v", ["C02_inst.v"], [("reader", []), ("crc", [])],
       "Theorems: for every item list with CRC-detected damaged frames: ignore/log yield exactly the good frames in order, handler once per damaged frame in log mode and never in ignore mode; raise mode raises a parse error at each damaged frame between the good ones and the reader keeps working. Which damage is detected is C08.",
       "streams of 2..11 valid frames with 1-bit / 2-bit / odd / burst damage in payload or checksum bytes, 3 modes, handler object and logger")
define("C06", "Properties/C06.v", ["C06_inst.v"], [("msg", [])],
       "Theorems: out-of-range extraction is an error never a value; a successful decode ends inside the payload; every truncation below the bits the fields occupy (identity still present) is rejected. label_zero_width and layout well-formedness are per-run table theorems.",
       "every byte truncation (sampled in quick tier) of builder payloads of all identities")
define("C08", "Properties/C08.v", [], [("crc", [])],
       "Theorems: model of calc_crc24q = GF(2) remainder mod 0x1864CFB for all byte strings; self-check; xor-linearity; odd / burst<=24 / single / two-bit (distance < 2^23-1, order computed in-kernel) damage has non-zero CRC; the parse gate rejects it; validate=0 ignores the CRC bytes.",
       "byte strings of lengths 0..40,255..2000 (zeros/ones/single-bit/random/valid frames); all single-bit and adjacent-pair flips of sampled frames, random 2-bit, odd, burst<=24",
       ["direct damage search samples frames; the theorems cover all"], src=True)
define("C09", "Properties/C09.v", ["C09_inst.v"], [("msg", [])],
       "Theorems: the decoder's mask scans are the MSB-first positions of set bits; NSat/NSig/NCell = popcount = number of map entries; i-th satellite entry / k-th cell (satellite-major) labelled from the tables with the N/A marker for undefined ids, both label options; derived-label fields store exactly the map entry. Per run: the working tree's PRN/signal tables equal the pinned RTCM 10403.3 tables for all 7 constellations.",
       "MSM payloads of all 49 types x mask shapes (random, full, empty, last slot, reserved ids, >64 cells) x both label options")
define("C10", "Properties/C10.v", ["C10_inst.v", "C10_len_inst.v"], [("tables", [])],
       "Theorems (all tables, payloads, options): a successful decode consumes exactly the bits its layout's length polynomial gives on the decoded repeat counts / masks / conditions (walk_sound, walk_bits_peval), hence the pinned standard number, and the payload is at least that long; side conditions (counts keep their value, polynomial faithful) decided per run. Per-run kernel-decided table theorems on the regenerated tables: every layout well-formed (defined fields, counts/conditions refer to unscaled integer fields decoded earlier, no malformed node); every identity's length polynomial equals the pinned one (RTCM 10403.3 / IGS SSR v1); 107 sibling relations (combined = orbit + clock for GPS, GLONASS and six IGS constellations; extended contains basic; one MSM layout per level). Direct search: every identity decodes encoder-built payloads of the pinned length; bit transplants between sibling blocks decode to the same values.",
       "all identities x 2..6 payloads; transplants for 8 combined triples and 35 parallel pairs", diag="C10_diag.v")
define("C11", "Properties/C11.v", ["C02_inst.v"], [("sock", []), ("reader", [])],
       "Theorems: for every recv-event list and read-size sequence: handed-out bytes ++ buffer ++ data to come is invariant; each read is full-length or empty; an empty read happens only at timeout/close/end and keeps everything received; data-only segmentations give identical reads; the reader over a socket yields the same complete trace as over a file for every segmentation of a well-formed stream.",
       "streams of 1..120 bytes x exhaustive 1-cut/2-cut and random partitions x bufsizes x read/readline op sequences; reader over fake socket.socket subclass",
       ["real kernels / timeouts are the recv-event list (environment parameter)"])
define("C12", "Properties/C12.v", ["C02_inst.v"], [("sock", []), ("reader", [])],
       "Theorems: for every well-formed chunked body, decoding oracle and placement of receive boundaries (also reads interleaved with receives, timeouts anywhere) the delivered bytes are the concatenation of the decoded chunk bodies; end to end: the reader over a chunked socket yields the same complete trace as over a file holding the decoded bytes, for every chunking and segmentation (non-expanding decoder).",
       "11+ bodies (binary data with CRLF/hex digits, upper-case sizes, leading zeros, no last-chunk, gzip/zlib/deflate per chunk) x every single cut, sampled/all double cuts, sampled triple cuts, byte-wise",
       ["zlib is an oracle: per-chunk decompression results are recorded from the implementation's zlib"])
define("C16", "Properties/C16.v", ["C04_inst.v"], [("msg", []), ("reader", [])],
       "Theorem (relational induction over the decoder): for all tables, payloads and option values the two constructions have the same outcome, same names in the same order, equal values except at attributes written by the derived cell-signal field; only 'is the option 2' matters; non-MSM messages are unaffected (per run: the cell-signal field occurs only in MSM layouts).",
       "MSM payloads (random / reserved / full masks) and 15..40 non-MSM types x label options 0,1,2,3")
define("C17", "Properties/C17.v", ["C02_inst.v"], [("reader", [])],
       "Theorems: validate off = decode as with the right checksum; the bytes taken per loop pass and the frame cut are independent of validate/parsed/labelmsm; parsed=False never yields a parsed object and yields frame-shaped slices.",
       "option product validate x parsed x mode on good and wrong-checksum copies of mixed streams")
define("C18", "Properties/C18.v", ["C18_inst.v"], [("helpers", [])],
       "Theorems: parse_msm returns nothing (never raises) for non-MSM and reserved numbers; otherwise metadata + NSat/NCell rows equal to the indexed attributes in probe-list order; parse_4076_201 returns per layer the height and the maximal coefficient runs, its search loop always stops. Per run: probe lists cover all group keys of all MSM layouts, epoch keys are header fields.",
       "all 49 MSM types x mask modes x label options, 4076_201 incl. >99 coefficients, other types, reserved MSM numbers")
define("C19", "Properties/C19.v", ["C18_inst.v"], [("helpers", [])],
       "Theorems: for every key and every list of positive indices (any digits, any depth): datadesc(render key idxs) = the field's description (given the per-run unambiguity theorem on the tables), att2idx/att2name invert the rendering for keys without underscore (per-run: every grouped key), rendering is injective, int(f'{i:02d}') = i.",
       "every name generated on a corpus covering all identities + synthetic 3-digit / nested indices (about 1600 names)")
define("C07", "Properties/C07.v", ["C15_inst.v"], [("msg", []), ("crc", [])],
       "Theorems: serialize gives 0xD3 + 16-bit length (top six bits zero) + payload + CRC-24Q, a well-formed frame, for every payload up to 1023 bytes; parse(serialize(m)) = m (equal object) with validation on or off; serialize(parse(f)) = f for every valid frame; CPython's bytes-literal printer and reader (modelled exactly) are inverse on every byte string, so eval(repr(m)) rebuilds the payload.",
       "builder payloads of all identities + unknown types at boundary sizes 2,3,255,256,1022,1023; eval(repr()) run for real on the implementation",
       ["pyrepr/pyeval are a Gallina model of CPython's bytes literal syntax, validated against Python on all 256 byte values and quote mixes"], src=True)
define("C13", "Properties/C13.v", ["C02_inst.v"], [("msg", []), ("reader", [])],
       "Theorems (near-definitional by design): the model is a pure function of (tables, bytes, option): running any history of operations leaves the tables unchanged and the last result equals a fresh construction. The substance is the correspondence: every result obtained on the implementation after shuffled histories, interleaved failing parses and under 8 threads with a 1 microsecond switch interval is compared with this pure function, and a deep structural hash of all tables is compared before and after. PARTIAL: thread interleavings themselves cannot be exhibited by a Gallina function.",
       "corpus of all identities + failing payloads replayed in shuffled orders, twice, and by 8 threads; table hash before/after",
       ["thread scheduling is the runtime's; only sampled interleavings are exercised"])
define("C14", "Properties/C14.v", [], [("msg", [])],
       "Theorems: after construction every assignment (any name, any value, any sequence of attempts) yields the message error and leaves the object unchanged, hence payload, identity, attributes, serialisation and MSM flag; the constructor's own writes never hit the flag (the message error arises only for too-short payloads).",
       "every message of the corpus: assign every existing name (public, private), property names and new names with 4 value kinds; snapshot of __dict__, str(), serialize(), identity, payload, repr() before/after")
define("C15", "Properties/C15.v", ["C15_inst.v"], [("msg", [])],
       "Theorems: message number = first 12 payload bits, 4076 sub-type = bits 15..22, identity string as specified, rest of payload ignored; unknown numbers give a stub keeping the payload that serialises to the same frame and re-parses to the same stub; decoded DF002 / IDF002 equal the transmitted numbers for implemented types. Per run: routing reaches every table entry, MSM flag true on all 49 implemented MSM numbers and false outside 1070-1229 and for 4076 sub-types, every layout starts with the 12-bit number field.",
       "all 4096 message numbers x 2-3 payload variants, all 256 sub-types of 4076 x 2, one payload per implemented type", src=True)
