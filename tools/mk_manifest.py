#!/usr/bin/env python3
"""Regenerates MANIFEST.json from the registry below (kept in one place so it always validates)."""
import json, os
HERE = os.path.dirname(os.path.dirname(os.path.abspath(__file__)))
import sys
sys.path.insert(0, os.path.join(HERE, "tools"))
import props  # noqa: E402
TECH = "Coq 8.16 theorems (induction over streams / layouts / event lists) + per-run kernel-decided table theorems on the regenerated Tables.v + model/implementation correspondence evaluated by vm_compute"
SRC_TECH = {"sock": "SocketWrapper", "reader": "RTCMReader", "msg": "RTCMMessage (non-recursive methods)", "helpers": "att2idx / att2name / datadesc",
            "msgdec": "the RTCMMessage decoder", "arr": "parse_msm", "arr2": "parse_4076_201"}


def tech(v):
    t = TECH
    ties = (["the CRC kernels / serialize / identity (MiniPy)"] if v.get("src") else []) + [SRC_TECH[w] + " (PyO)" for w in v.get("srco", ())]
    if ties:
        t += " + per-run source theorems: the current text of " + ", ".join(ties) + " is translated (fail-closed) into a deep embedding and its interpretation proved equal to the model for all inputs"
    return t


CLAIMED = {k: (v["text"], "6 (%s)" % k, tech(v)) for k, v in props.SPEC.items()}
NOT_YET = {}
def main():
    props = [json.loads(l)["id"] for l in open(os.path.join(HERE, "properties.jsonl"))]
    checks = []
    for p in props:
        if p in CLAIMED:
            text, ref, tech = CLAIMED[p]
            checks.append({
                "property_id": p,
                "quick_cmd": "bin/check %s --tier quick" % p,
                "thorough_cmd": "bin/check %s --tier thorough" % p,
                "evidence_file": "evidence/%s.json" % p,
                "replay_cmd_template": "bin/check %s --replay {path}" % p,
                "engine": "coq-proof+correspondence",
                "level_claimed": {"category": "proof", "text": text, "design_ref": "DESIGN.md section " + ref},
                "level_note": "Trusted: Coq 8.16.1 kernel + vm_compute; no axioms declared (Print Assumptions per theorem in evidence); tools/gen_tables.py; the hand-written Gallina mirror is tied to /repo by the sampled correspondence check (corr/ drivers, coq/Corr); CPython semantics assumed by the mirror. See DESIGN.md section 8.",
                "technique": tech,
            })
    na = [{"property_id": p, "reason": NOT_YET.get(p, "theorems for this property are still being proved in this revision; the check will be registered when its property file is part of the build (see DESIGN.md section 6)")} for p in props if p not in CLAIMED]
    man = {
        "version": 1,
        "setup_cmd": "bin/setup",
        "hooks": {"guard": "PYRTCM_VERIF", "enable": "no hooks: every observation goes through the public API with test doubles (PYRTCM_VERIF=1 is exported by the checks but nothing in /repo reads it)",
                  "baseline_off_cmd": "cd /repo && /venv/bin/python -m pytest -ra -q -p no:cacheprovider --timeout=900 --continue-on-collection-errors",
                  "source_commits": [], "add_only": True},
        "engines": [{"name": "coq-proof+correspondence", "path": "bin/check", "serves_properties": sorted(CLAIMED),
                     "kind_free_text": "Coq 8.16 theorems about a Gallina model; tables regenerated from /repo by a translator on every run; algorithms tied by differential correspondence evaluated inside Coq; direct search on the implementation for failing inputs"}],
        "checks": checks,
        "not_applicable": na,
        "notes": "All checks rebuild Tables.v from /repo's working tree on every run. Fixed defects are listed in KNOWN_FINDINGS (fixed: lines suppress nothing).",
    }
    json.dump(man, open(os.path.join(HERE, "MANIFEST.json"), "w"), indent=1)
if __name__ == "__main__":
    main()
