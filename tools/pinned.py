"""Hand-pinned standard tables (DESIGN.md appendix B), independent of pyrtcm's own tables.
RTCM 10403.3 MSM satellite-ID -> PRN label and signal-ID -> (band, RINEX code).  Anything not listed is N/A.
coq/Spec/Pinned.v is the same data in Gallina (generated once from this file by tools/mk_pinned.py and committed)."""

NA = "N/A"


def _seq(lo, hi, off=0):
    return {i: "%03d" % (i + off) for i in range(lo, hi + 1)}


PRN = {
    "107": _seq(1, 63),
    "108": _seq(1, 24),
    "109": {**_seq(1, 50), 51: "GIOVE-A", 52: "GIOVE-B"},
    "110": _seq(1, 39, 119),
    "111": _seq(1, 10, 192),
    "112": _seq(1, 63),
    "113": _seq(1, 14),
}

SIG = {
    "107": {2: ("L1", "1C"), 3: ("L1", "1P"), 4: ("L1", "1W"), 8: ("L2", "2C"), 9: ("L2", "2P"), 10: ("L2", "2W"),
            15: ("L2", "2S"), 16: ("L2", "2L"), 17: ("L2", "2X"), 22: ("L5", "5I"), 23: ("L5", "5Q"), 24: ("L5", "5X"),
            30: ("L1", "1S"), 31: ("L1", "1L"), 32: ("L1", "1X")},
    "108": {2: ("G1", "1C"), 3: ("G1", "1P"), 8: ("G2", "2C"), 9: ("G2", "2P")},
    "109": {2: ("E1", "1C"), 3: ("E1", "1A"), 4: ("E1", "1B"), 5: ("E1", "1X"), 6: ("E1", "1Z"), 8: ("E6", "6C"),
            9: ("E6", "6A"), 10: ("E6", "6B"), 11: ("E6", "6X"), 12: ("E6", "6Z"), 14: ("E5B", "7I"), 15: ("E5B", "7Q"),
            16: ("E5B", "7X"), 18: ("E5AB", "8I"), 19: ("E5AB", "8Q"), 20: ("E5AB", "8X"), 22: ("E5A", "5I"),
            23: ("E5A", "5Q"), 24: ("E5A", "5X")},
    "110": {2: ("L1", "1C"), 22: ("L5", "5I"), 23: ("L5", "5Q"), 24: ("L5", "5X")},
    "111": {2: ("L1", "1C"), 9: ("LEX", "6S"), 10: ("LEX", "6L"), 11: ("LEX", "6X"), 15: ("L2", "2S"), 16: ("L2", "2L"),
            17: ("L2", "2X"), 22: ("L5", "5I"), 23: ("L5", "5Q"), 24: ("L5", "5X"), 30: ("L1", "1S"), 31: ("L1", "1L"),
            32: ("L1", "1X")},
    "112": {2: ("B1", "2I"), 3: ("B1", "2Q"), 4: ("B1", "2X"), 8: ("B3", "6I"), 9: ("B3", "6Q"), 10: ("B3", "6X"),
            14: ("B2", "7I"), 15: ("B2", "7Q"), 16: ("B2", "7X"), 22: ("B2A", "5D"), 23: ("B2A", "5P"), 24: ("B2A", "5X"),
            25: ("B2A", "7D"), 30: ("B1C", "1D"), 31: ("B1C", "1P"), 32: ("B1C", "1X")},
    "113": {22: ("L5", "5A")},
}

# epoch field of each constellation's MSM header (RTCM 10403.3 table 3.5-78): DF004 GPS TOW, DF034 GLONASS tk (with DF416 day),
# DF248 Galileo TOW, DF004 SBAS, DF428 QZSS TOW, DF427 BeiDou TOW, DF546 NavIC TOW
EPOCH = {"107": "DF004", "108": "DF034", "109": "DF248", "110": "DF004", "111": "DF428", "112": "DF427", "113": "DF546"}
GNSS = {"107": "GPS", "108": "GLONASS", "109": "GALILEO", "110": "SBAS", "111": "QZSS", "112": "BEIDOU", "113": "NAVIC"}
