#!/venv/bin/python
"""Translator: pyrtcm's runtime tables -> Coq constructors (Tables.v).

Run with PYTHONPATH=/repo/src.  Imports the table modules of the *current working
tree* in this fresh interpreter and prints their values as constructor applications
of the types in coq/Model/Types.v.  Fail-closed: anything not recognised becomes an
explicit ...Bad node carrying its repr; nothing is dropped.  Knows nothing about any
property.

usage: gen_tables.py OUT.v [--hash-only]
"""
import hashlib
import os
import sys


def load():
    import pyrtcm

    root = os.environ.get("VERIF_REPO", "/repo")
    src = os.path.realpath(os.path.join(root, "src"))
    if not os.path.realpath(pyrtcm.__file__).startswith(src + os.sep):
        sys.exit(f"gen_tables: pyrtcm imported from {pyrtcm.__file__}, not {src}")
    import pyrtcm.rtcmtables as tb
    import pyrtcm.rtcmtypes_core as core
    import pyrtcm.rtcmtypes_get as g
    import pyrtcm.rtcmtypes_get_igs as gi
    import pyrtcm.rtcmtypes_get_msm as gm

    return core, g, gm, gi, tb


def cs(s):
    """Coq string literal of the UTF-8 bytes of s (Coq reads a literal byte-wise)."""
    if not isinstance(s, str):
        s = repr(s)
    out = []
    for ch in s:
        o = ord(ch)
        if ch == '"':
            out.append('""')
        elif o < 32 or o == 127:
            out.append("?")  # control characters never occur in the tables; fail-soft inside a *Bad/desc string only
        else:
            out.append(ch)
    return '"' + "".join(out) + '"'


def cbytes(b):
    if not isinstance(b, (bytes, bytearray)):
        return None
    return "[" + "; ".join("x%02x" % x for x in b) + "]"


TY = {"BIT": "TBIT", "BITX": "TBITX", "CHA": "TCHA", "STR": "TSTR", "INT": "TINT", "UINT": "TUINT",
      "SNT": "TSNT", "PRN": "TPRN", "CPR": "TCPR", "CSG": "TCSG"}


def cz(i):
    return "(%d)" % i


def cfloat(f):
    import math
    if math.isnan(f) or math.isinf(f):
        return None
    h = f.hex()
    return "(%s)%%float" % h


def res(r):
    if isinstance(r, bool):
        return "RBad %s" % cs("bool " + repr(r))
    if isinstance(r, int):
        return "RInt %s" % cz(r)
    if isinstance(r, float):
        c = cfloat(r)
        return ("RFloat %s" % c) if c else "RBad %s" % cs(repr(r))
    return "RBad %s" % cs(repr(r))


def dty(t):
    if isinstance(t, str) and t in TY:
        return TY[t]
    return "TOther %s" % cs(t if isinstance(t, str) else repr(t))


def count(c):
    if isinstance(c, bool):
        return "CBad %s" % cs("bool")
    if isinstance(c, int):
        return "CFixed %s" % cz(c)
    if isinstance(c, str):
        return "CNamed %s" % cs(c)
    return "CBad %s" % cs(repr(c)[:60])


def body(d, depth=0):
    if depth > 8:
        return "BNotDict %s" % cs("too deep")
    if not isinstance(d, dict):
        return "BNotDict %s" % cs(repr(type(d).__name__) + ":" + repr(d)[:60])
    parts = []
    for k, v in d.items():
        if not isinstance(k, str):
            parts.append("(%s, IBad %s)" % (cs(repr(k)), cs("non-string key")))
        else:
            parts.append("(%s, %s)" % (cs(k), item(k, v, depth)))
    return "BItems [%s]" % "; ".join(parts)


def item(k, v, depth):
    # mirrors the dispatch of RTCMMessage._set_attribute: tuple => group (tuple head => optional), else single
    if isinstance(v, tuple):
        if len(v) != 2:
            return "IBad %s" % cs("tuple of length %d" % len(v))
        c, b = v
        if isinstance(c, tuple):
            if len(c) == 2 and isinstance(c[0], str) and isinstance(c[1], int) and not isinstance(c[1], bool):
                return "IOpt %s %s (%s)" % (cs(c[0]), cz(c[1]), body(b, depth + 1))
            return "IBad %s" % cs("condition " + repr(c)[:60])
        return "IGroup (%s) (%s)" % (count(c), body(b, depth + 1))
    return "IField %s" % cs(k)


def dfield(k, v):
    if not (isinstance(k, str) and isinstance(v, tuple) and len(v) == 4 and isinstance(v[1], int)
            and not isinstance(v[1], bool) and isinstance(v[3], str)):
        return '{| df_key:=%s; df_ty:=TOther %s; df_bits:=(-1); df_res:=RBad %s; df_desc:="" |}' % (
            cs(k), cs(repr(v)[:60]), cs("malformed entry"))
    t, w, r, d = v
    return "{| df_key:=%s; df_ty:=%s; df_bits:=%s; df_res:=%s; df_desc:=%s |}" % (cs(k), dty(t), cz(w), res(r), cs(d))


def strtab(d):
    return "[%s]" % "; ".join("(%s, %s)" % (cs(k), cs(v)) for k, v in d.items())


def deep(o):
    """deterministic structural description (used for the C13 table-immutability hash)"""
    if isinstance(o, dict):
        return "{" + ",".join(deep(k) + ":" + deep(v) for k, v in o.items()) + "}"
    if isinstance(o, (list, tuple)):
        return type(o).__name__ + "(" + ",".join(deep(x) for x in o) + ")"
    if isinstance(o, (set, frozenset)):
        return "set(" + ",".join(sorted(deep(x) for x in o)) + ")"
    if isinstance(o, float):
        return "f" + o.hex()
    return type(o).__name__ + ":" + repr(o)


def table_objects(mods):
    core, g, gm, gi, tb = mods
    return {
        "RTCM_DATA_FIELDS": core.RTCM_DATA_FIELDS, "RTCM_MSGIDS": core.RTCM_MSGIDS, "GNSSMAP": core.GNSSMAP,
        "COEFFS": core.COEFFS, "NMEA_HDR": core.NMEA_HDR, "RTCM_PAYLOADS_GET": g.RTCM_PAYLOADS_GET,
        "RTCM_PAYLOADS_GET_MSM": gm.RTCM_PAYLOADS_GET_MSM, "RTCM_PAYLOADS_GET_IGS": gi.RTCM_PAYLOADS_GET_IGS,
        "PRNSIGMAP": tb.PRNSIGMAP,
    }


def table_hash(mods=None):
    mods = mods or load()
    h = hashlib.sha256()
    for k, v in sorted(table_objects(mods).items()):
        h.update(k.encode())
        h.update(deep(v).encode("utf-8", "replace"))
    return h.hexdigest()


def prnsig(p):
    rows = []
    for k, v in p.items():
        ok = isinstance(v, tuple) and len(v) == 2 and isinstance(v[0], dict) and isinstance(v[1], dict)
        if not ok:
            rows.append("(%s, ([((-1), %s)], []))" % (cs(k), cs("BAD " + repr(v)[:40])))
            continue
        pm, sm = v
        prn = "; ".join("(%s, %s)" % (cz(i), cs(s)) for i, s in pm.items() if isinstance(i, int))
        sig = []
        for i, ab in sm.items():
            if isinstance(i, int) and isinstance(ab, tuple) and len(ab) == 2 and all(isinstance(x, str) for x in ab):
                sig.append("(%s, (%s, %s))" % (cz(i), cs(ab[0]), cs(ab[1])))
            else:
                sig.append("((-1), (%s, %s))" % (cs("BAD"), cs(repr(ab)[:40])))
        rows.append("(%s, ([%s], [%s]))" % (cs(k), prn, "; ".join(sig)))
    return "[\n  " + ";\n  ".join(rows) + "]"


def emit(mods):
    core, g, gm, gi, tb = mods
    out = ["""(* GENERATED by /verif/tools/gen_tables.py from the working tree's pyrtcm table modules. Do not edit. *)
From Coq Require Import ZArith List String PrimFloat.
From Coq.Strings Require Import Byte.
From PyRtcm Require Import Base.Bytes Model.Types.
Import ListNotations. Open Scope string_scope. Open Scope Z_scope.
"""]
    out.append("Definition data_fields : list dfield := [\n" + ";\n".join(
        "  " + dfield(k, v) for k, v in core.RTCM_DATA_FIELDS.items()) + "].\n")
    for nm, tab in (("payloads_get", g.RTCM_PAYLOADS_GET), ("payloads_msm", gm.RTCM_PAYLOADS_GET_MSM),
                    ("payloads_igs", gi.RTCM_PAYLOADS_GET_IGS)):
        out.append("Definition %s : list (string*body) := [\n" % nm + ";\n".join(
            "  (%s, %s)" % (cs(k), body(d)) for k, d in tab.items()) + "].\n")
    out.append("Definition msgids : list (string*string) := %s.\n" % strtab(core.RTCM_MSGIDS))
    out.append("Definition prnsigmap : list (string * (list (Z*string) * list (Z*(string*string)))) := %s.\n" % prnsig(tb.PRNSIGMAP))
    out.append("Definition gnssmap : list (string*(string*string)) := [%s].\n" % "; ".join(
        "(%s, (%s, %s))" % (cs(k), cs(v[0]), cs(v[1])) for k, v in core.GNSSMAP.items()))
    out.append("Definition coeffs : list (Z*(string*string)) := [%s].\n" % "; ".join(
        "(%s, (%s, %s))" % (cz(k), cs(v[0]), cs(v[1])) for k, v in core.COEFFS.items()))
    nm = [cbytes(x) for x in core.NMEA_HDR]
    if any(x is None for x in nm):
        nm = ["[]"]
    out.append("Definition nmea_hdr : list bytes := [%s].\n" % "; ".join(nm))

    def const_str(x):
        return cs(x) if isinstance(x, str) else cs("BAD " + repr(x))

    def const_z(x):
        return cz(x) if isinstance(x, int) and not isinstance(x, bool) else "(-999)"
    out.append("""Definition T : tables := {|
  t_fields := data_fields; t_get := payloads_get; t_msm := payloads_msm; t_igs := payloads_igs;
  t_msgids := msgids; t_prnsig := prnsigmap; t_gnssmap := gnssmap; t_coeffs := coeffs;
  t_nmea_hdr := nmea_hdr; t_ubx_hdr := %s; t_rtcm_hdr := %s;
  t_na := %s; t_nsat := %s; t_nsig := %s; t_ncell := %s; t_nharmc := %s; t_nharms := %s;
  t_valcksum := %s; t_err_raise := %s; t_err_log := %s; t_err_ignore := %s;
  t_enc_chunked := %s; t_enc_gzip := %s; t_enc_compress := %s; t_enc_deflate := %s |}.
""" % (cbytes(core.UBX_HDR) or "[]", cbytes(core.RTCM_HDR) or "[]",
       const_str(core.NA), const_str(core.NSAT), const_str(core.NSIG), const_str(core.NCELL),
       const_str(core.NHARMCOEFFC), const_str(core.NHARMCOEFFS),
       const_z(core.VALCKSUM), const_z(core.ERR_RAISE), const_z(core.ERR_LOG), const_z(core.ERR_IGNORE),
       const_z(core.ENCODE_CHUNKED), const_z(core.ENCODE_GZIP), const_z(core.ENCODE_COMPRESS), const_z(core.ENCODE_DEFLATE)))
    return "\n".join(out)


if __name__ == "__main__":
    m = load()
    if "--hash-only" in sys.argv:
        print(table_hash(m))
        sys.exit(0)
    txt = emit(m)
    with open(sys.argv[1], "w", encoding="utf-8") as f:
        f.write(txt)
    print("tables sha256", table_hash(m), "fields", len(m[0].RTCM_DATA_FIELDS))
