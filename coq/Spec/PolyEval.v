(* C10, closing DESIGN.md section 10 deviation (v): what the length polynomial of Spec/Layouts.v MEANS.
   - walk_bits (wb_item / wb_body): the number of bits a layout occupies, as a direct recursion over the layout
     that reads every repeat count, optional-group condition and mask width from the attributes of a message
     object (meant: the FINAL, decoded object);
   - peval: evaluation of a length polynomial (list of monomials: path of variables -> coefficient) on a
     message object.  A count variable "K" / "K+n" nested at indices i1..im is read exactly as the decoder's
     group_size reads it (attribute K suffixed with the first n index levels, "+1" for IDF035); "#NSat" /
     "#NSig" are the mask-count attributes; "?K=c" is 1 when attribute K is the integer c and 0 otherwise;
     a count variable ranges its index from 1 to its value (nested sums);
   - the decidable side conditions under which the decoder's final bit offset equals both (len_ok).
   The two harmonic-coefficient counts (t_nharmc / t_nharms, "_NHarmCoeffC" / "_NHarmCoeffS" in pyrtcm) are
   overwritten by the decoder at every ionosphere layer, so the final object only keeps those of the last
   layer: for these two names the count of layer i is recomputed from IDF037_i / IDF038_i by the very formula
   the decoder uses (harm_of), instead of being read back.
   No proofs in this file (Proofs/LengthSound.v). *)
From Coq Require Import NArith ZArith List String Ascii Bool.
From PyRtcm Require Import Base.Bytes Base.Dec Model.Types Model.Message Spec.PinnedLengths Spec.Layouts Spec.TotalWf Spec.Names.
Import ListNotations.
Open Scope string_scope.
Open Scope list_scope.
Open Scope Z_scope.

(* sum of f i, f (i+1), ..., n terms *)
Fixpoint sumrep (f:Z -> Z) (n:nat) (i:Z) : Z :=
  match n with O => 0 | S k => f i + sumrep f k (i + 1) end.

(* the attribute name a named repeat count resolves to (first half of Model.Message.group_size) *)
Definition cnt_name (key:string) (index:list Z) : outcome string :=
  match split_plus key with
  | (k, None) => Ok k
  | (k, Some nl) =>
      if contains "+" nl then Foreign XValue else
      match N_of_str nl with
      | None => Unmodelled "nest level not a plain number"
      | Some n => suffix_first (N.to_nat n) index k
      end
  end.

(* int(s) for an optional minus sign followed by digits *)
Definition Z_of_str (s:string) : option Z :=
  match s with
  | String c r => if Ascii.eqb c "-"%char then option_map (fun n => - Z.of_N n) (N_of_str r)
                  else option_map Z.of_N (N_of_str s)
  | EmptyString => None
  end.

(* split at the first "=" *)
Fixpoint split_eq (s:string) : string * option string :=
  match s with
  | EmptyString => (EmptyString, None)
  | String c r => if Ascii.eqb c "="%char then (EmptyString, Some r)
                  else let '(a, b) := split_eq r in (String c a, b)
  end.
Definition no_eq (s:string) : bool := string_forall (fun c => negb (Ascii.eqb c "="%char)) s.

(* the kinds of polynomial variables emitted by Spec.Layouts.poly_item *)
Inductive pvar := PVSat | PVSig | PVOpt (k:string) (con:Z) | PVCount (key:string) | PVErr.
Definition classify (v:string) : pvar :=
  match v with
  | String c r =>
      if Ascii.eqb c "#"%char then
        (if String.eqb v "#NSat" then PVSat else if String.eqb v "#NSig" then PVSig else PVErr)
      else if Ascii.eqb c "?"%char then
        match split_eq r with
        | (k, Some cs) => match Z_of_str cs with Some z => PVOpt k z | None => PVErr end
        | (_, None) => PVErr
        end
      else if Ascii.eqb c "!"%char then PVErr
      else PVCount v
  | EmptyString => PVCount v
  end.
(* a count key that classify does not mistake for another kind of variable *)
Definition plain_key (key:string) : bool :=
  match key with
  | String c _ => negb (Ascii.eqb c "#"%char) && negb (Ascii.eqb c "?"%char) && negb (Ascii.eqb c "!"%char)
  | EmptyString => true
  end.

Section PE.
Variable T : tables.

(* ---------- reading the decoded message ---------- *)
Definition harm_of (index:list Z) (o:obj) : outcome (Z*Z) :=
  do i <- first_index index;
  do n0 <- getint o ("IDF037_" ++ dd (Z.to_N i));
  do m0 <- getint o ("IDF038_" ++ dd (Z.to_N i));
  let N' := n0 + 1 in let M' := m0 + 1 in
  let nc := ((N' + 1) * (N' + 2)) / 2 - ((N' - M') * (N' - M' + 1)) / 2 in
  Ok (nc, nc - (N' + 1)).

Definition is_harm (k:string) : bool := String.eqb k (t_nharmc T) || String.eqb k (t_nharms T).

(* value of a repeat count at index `index`, read from o *)
Definition cnt (c:count) (index:list Z) (o:obj) : outcome Z :=
  match c with
  | CFixed n => Ok n
  | CBad w => Unmodelled w
  | CNamed key =>
      do anam <- cnt_name key index;
      do g <- (if String.eqb anam (t_nharmc T) then (do h <- harm_of index o; Ok (fst h))
               else if String.eqb anam (t_nharms T) then (do h <- harm_of index o; Ok (snd h))
               else getint o anam);
      Ok (if String.eqb anam "IDF035" then g + 1 else g)
  end.
Definition cntz (c:count) (index:list Z) (o:obj) : Z := match cnt c index o with Ok n => n | _ => 0 end.
Definition zattr (o:obj) (k:string) : Z := match getint o k with Ok z => z | _ => 0 end.
Definition cond_on (o:obj) (k:string) (con:Z) : bool :=
  match assoc k (o_attrs o) with Some (VInt z) => (z =? con) | _ => false end.
(* width of one field occurrence *)
Definition fwidth (lbl:string) (o:obj) : Z :=
  match find_field T lbl with
  | None => 0
  | Some fd => if String.eqb lbl "DF396" then zattr o (t_nsat T) * zattr o (t_nsig T) else df_bits fd
  end.

(* ---------- walk_bits: bits occupied by a layout, counts read from o ---------- *)
Fixpoint wb_item (lbl:string) (it:item) (index:list Z) (o:obj) {struct it} : Z :=
  match it with
  | IField _ => fwidth lbl o
  | IBad _ => 0
  | IGroup c b => sumrep (fun i => wb_body b (index ++ [i]) o) (Z.to_nat (cntz c index o)) 1
  | IOpt k con b => if cond_on o k con then wb_body b index o else 0
  end
with wb_body (b:body) (index:list Z) (o:obj) {struct b} : Z :=
  match b with
  | BNotDict _ => 0
  | BItems l => (fix go (l:list (string*item)) : Z :=
                   match l with [] => 0 | (lbl, it) :: r => wb_item lbl it index o + go r end) l
  end.
Definition walk_bits (b:body) (o:obj) : Z := wb_body b [] o.

(* ---------- evaluation of a length polynomial on o ---------- *)
(* evaluate the variables of a path from the left, extending the index at every count variable;
   K receives the index reached at the end of the path *)
Fixpoint pevk (path:list string) (index:list Z) (o:obj) (K:list Z -> Z) : Z :=
  match path with
  | [] => K index
  | v :: rest =>
      match classify v with
      | PVSat => zattr o (t_nsat T) * pevk rest index o K
      | PVSig => zattr o (t_nsig T) * pevk rest index o K
      | PVOpt k con => if cond_on o k con then pevk rest index o K else 0
      | PVErr => 0
      | PVCount key => sumrep (fun i => pevk rest (index ++ [i]) o K) (Z.to_nat (cntz (CNamed key) index o)) 1
      end
  end.
Definition pev_mono (o:obj) (m:list string * Z) : Z := pevk (fst m) [] o (fun _ => snd m).
Definition peval (p:poly) (o:obj) : Z := fold_right (fun m acc => pev_mono o m + acc) 0 p.

(* ---------- decidable side conditions ---------- *)
Definition is_str (l:string) : bool :=
  match find_field T l with Some fd => match df_ty fd with TSTR => true | _ => false end | None => false end.
(* attribute names a field with label l writes without an index suffix *)
Definition plain_roots (l:string) : list string := (if is_str l then [l] else []) ++ tl (provides T l).
Definition rootsL (L:list (nat*string)) : list string := flat_map (fun dl => provides T (snd dl)) L.

Section Chk.
Variable G : list string.      (* every name root the layout can write: labels and derived names *)
Variable GP : list string.     (* un-indexed names written from inside a group *)

(* name k is read back: nothing later writes it, nothing else in the layout writes a comparable name *)
Definition ctl_ok (later:list string) (k:string) : bool :=
  negb (mem k later) && forallb (fun w => negb (comparable k w) || String.eqb k w) G.
Definition harm_sep (k:string) (n:nat) : bool :=
  if is_harm k then (n =? 0)%nat
  else negb (comparable k (t_nharmc T)) && negb (comparable k (t_nharms T)).

(* are the harmonic counts valid after this item, given they were (hv) before it *)
Fixpoint hvo_item (d:nat) (hv:bool) (lbl:string) (it:item) {struct it} : bool :=
  match it with
  | IField _ => if String.eqb lbl "IDF038" then (0 <? d)%nat else hv
  | IBad _ => hv
  | IGroup _ _ => (0 <? d)%nat && hv
  | IOpt _ _ b => hv && hvo_body d hv b
  end
with hvo_body (d:nat) (hv:bool) (b:body) {struct b} : bool :=
  match b with
  | BNotDict _ => hv
  | BItems l => (fix go (l:list (string*item)) (hv:bool) : bool :=
                   match l with [] => hv | (lbl, it) :: r => go r (hvo_item d hv lbl it) end) l hv
  end.

(* stability of everything the walk reads back; `later`: roots written after this item at the same or an outer level *)
Fixpoint schk_item (d:nat) (later:list string) (hv:bool) (lbl:string) (it:item) {struct it} : bool :=
  match it with
  | IField _ =>
      (if String.eqb lbl "DF396"
       then (let l' := provides T lbl ++ later in
             ctl_ok l' (t_nsat T) && ctl_ok l' (t_nsig T) && negb (mem (t_nsat T) GP) && negb (mem (t_nsig T) GP))
       else true) &&
      (if String.eqb lbl "IDF038"
       then ctl_ok later "IDF037" && ctl_ok later "IDF038" && negb (String.eqb (t_nharmc T) (t_nharms T))
       else true) &&
      (if hv then forallb (fun w => negb (comparable w (t_nharmc T)) && negb (comparable w (t_nharms T))) (provides T lbl)
       else true)
  | IBad _ => true
  | IGroup c b =>
      (match c with
       | CNamed key =>
           let '(k, n) := count_base key in
           harm_sep k n &&
           (if is_harm k then hv
            else ctl_ok (rootsL (labels_body (S d) b) ++ later) k && (if (n =? 0)%nat then negb (mem k GP) else true))
       | _ => true
       end) &&
      schk_body (S d) later (if (d =? 0)%nat then false else hv) b
  | IOpt k con b =>
      ctl_ok (rootsL (labels_body d b) ++ later) k && negb (mem k GP) && schk_body d later hv b
  end
with schk_body (d:nat) (later:list string) (hv:bool) (b:body) {struct b} : bool :=
  match b with
  | BNotDict _ => true
  | BItems l => (fix go (l:list (string*item)) (hv:bool) : bool :=
                   match l with
                   | [] => true
                   | (lbl, it) :: r =>
                       schk_item d (rootsL (labels_body d (BItems r)) ++ later) hv lbl it && go r (hvo_item d hv lbl it)
                   end) l hv
  end.
End Chk.

(* the polynomial is faithful: every node is well-formed, variables classify as what they are, a "+n" count
   only reaches index levels that are variables of the polynomial (vd = number of leading named-count levels,
   frozen once a fixed-count group is entered) *)
Fixpoint fchk_item (vd:nat) (fr:bool) (lbl:string) (it:item) {struct it} : bool :=
  match it with
  | IField _ => match find_field T lbl with Some _ => true | None => false end
  | IBad _ => false
  | IGroup (CFixed n) b => (0 <=? n) && fchk_body vd true b
  | IGroup (CNamed key) b =>
      plain_key key && (snd (count_base key) <=? vd)%nat &&
      (if is_harm (fst (count_base key)) then (1 <=? vd)%nat else true) &&
      fchk_body (if fr then vd else S vd) fr b
  | IGroup (CBad _) _ => false
  | IOpt k con b => no_eq k && fchk_body vd fr b
  end
with fchk_body (vd:nat) (fr:bool) (b:body) {struct b} : bool :=
  match b with
  | BNotDict _ => false
  | BItems l => (fix go (l:list (string*item)) : bool :=
                   match l with [] => true | (lbl, it) :: r => fchk_item vd fr lbl it && go r end) l
  end.

Definition all_roots (b:body) : list string := rootsL (labels_body 0 b).
Definition group_plain_roots (b:body) : list string :=
  flat_map (fun dl => if (0 <? fst dl)%nat then plain_roots (snd dl) else []) (labels_body 0 b).

(* side condition for "offset = walk_bits" *)
Definition stable_ok (b:body) : bool := schk_body (all_roots b) (group_plain_roots b) 0 [] false b.
(* side condition for "walk_bits = peval of the polynomial" *)
Definition faithful_ok (b:body) : bool := fchk_body 0 false b.
Definition len_ok (b:body) : bool := stable_ok b && faithful_ok b.

Definition tables_len_ok : bool := forallb (fun ib => len_ok (snd ib)) (all_layouts T).
Definition len_bad : list string := map fst (filter (fun ib => negb (len_ok (snd ib))) (all_layouts T)).

End PE.
