(* The multiplicative order of x modulo the CRC-24Q generator G is 2^23-1 = 8388607.
   Established in the kernel by one exhaustive sweep over x^1 .. x^8388607 (vm_compute,
   about half a minute, run twice: once by the tactic and once by Qed). *)
From Coq Require Import NArith Lia Bool.
From PyRtcm Require Import Spec.CrcPoly.
Open Scope N_scope.

Definition x_order : N := 8388607.

Lemma sweep_full :
  let r := sweep 8388606 in snd r = true /\ xstep (fst r) = 1.
Proof. vm_compute. split; reflexivity. Qed.

(* no smaller positive power of x is 1 modulo G *)
Theorem x_order_min d : 0 < d < x_order -> xpow d <> 1.
Proof.
  intro Hd. destruct sweep_full as [H _].
  apply (sweep_sound 8388606 H). unfold x_order in Hd. lia.
Qed.

(* x^8388607 = 1 modulo G *)
Theorem x_order_one : xpow x_order = 1.
Proof.
  destruct sweep_full as [_ H]. rewrite sweep_fst in H.
  unfold x_order. change 8388607 with (N.succ 8388606).
  unfold xpow in *. now rewrite N.iter_succ.
Qed.

Print Assumptions x_order_min.
Print Assumptions x_order_one.
