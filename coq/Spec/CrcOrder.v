(* The multiplicative order of x modulo the CRC-24Q generator G is 2^23-1 = 8388607.
   Established in the kernel by one exhaustive sweep over x^1 .. x^8388606 (vm_compute,
   about 20 s, run twice: once by the tactic and once by Qed).

   Only [sweep_full] computes; every other step is written so that no conversion
   ever has to unfold [sweep 8388606] / [xpow 8388606] (no fold/now/easy on them). *)
From Coq Require Import NArith Lia Bool.
From PyRtcm Require Import Spec.CrcPoly.
Open Scope N_scope.

Definition x_order : N := 8388607.

(* 0xC3267D = x^(-1) mod G = (G xor 1) / x ; no power x^1 .. x^8388606 equals 1 *)
Lemma sweep_full : sweep 8388606 = (0xC3267D, true).
Proof. vm_compute. reflexivity. Qed.

Lemma xpow_succ n : xpow (N.succ n) = xstep (xpow n).
Proof. unfold xpow. apply N.iter_succ. Qed.

(* no smaller positive power of x is 1 modulo G *)
Theorem x_order_min d : 0 < d < x_order -> xpow d <> 1.
Proof.
  intro Hd. apply (sweep_sound 8388606).
  - rewrite sweep_full. reflexivity.
  - unfold x_order in Hd. lia.
Qed.

(* x^8388607 = 1 modulo G *)
Theorem x_order_one : xpow x_order = 1.
Proof.
  replace x_order with (N.succ 8388606) by reflexivity.
  rewrite xpow_succ, <- sweep_fst, sweep_full. reflexivity.
Qed.

Print Assumptions x_order_min.
Print Assumptions x_order_one.
