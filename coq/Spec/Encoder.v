(* C03, encoder side.  "Laying the fields out in definition order": a message is DESCRIBED by the list
   of raw field values it carries; the encoder walks the payload definition, and for every field
   occurrence takes the next raw value, appends its w low bits (MSB first) to the bit string and
   records the attribute the parser has to produce for it.  It knows nothing of bit offsets, shifts or
   the payload integer: the only state is the bits written so far, the attributes so far (a Python
   dict: update in place, else append), the two MSM maps once the three masks are out, and the raw
   values still to be placed.  `None` = this description cannot be laid out (values exhausted, a count
   attribute missing, a code point out of range, a table entry the model does not interpret, ...).
   No proofs in this file. *)
From Coq Require Import NArith ZArith List String Bool PrimFloat.
From PyRtcm Require Import Base.Bytes Base.Dec Model.Types Model.Message Spec.FieldGrammar Spec.MsmMasks.
Import ListNotations.
Open Scope list_scope.
Open Scope Z_scope.

Definition attrs := list (string * value).

(* what wrote an attribute: a field occurrence of a given type, an MSM count, a harmonic count *)
Inductive okind := OField (ty:dtype) | OCount | OHarm.

Record est := mk_est {
  e_bits  : list bool;                              (* bits written so far, MSB first *)
  e_attrs : attrs;                                  (* attributes so far *)
  e_sat   : option (list (Z * string));             (* satellite map, once DF396 is out *)
  e_cell  : option (list (Z * (string * string)));  (* cell map *)
  e_vals  : list N;                                 (* raw values not yet placed *)
  e_occ   : list (string * okind)                   (* trace: every attribute write, in order *)
}.

Definition est0 (vals:list N) : est :=
  {| e_bits := []; e_attrs := []; e_sat := None; e_cell := None; e_vals := vals; e_occ := [] |}.

Definition obnd {A B} (x:option A) (f:A -> option B) : option B :=
  match x with Some a => f a | None => None end.
Notation "'olet' x <- e ; f" := (obnd e (fun x => f)) (at level 200, x pattern, e at level 100, f at level 200, right associativity).

(* an attribute that must be an integer *)
Definition attr_int (a:attrs) (k:string) : option Z :=
  match assoc k a with Some (VInt z) => Some z | _ => None end.

(* number of set bits *)
Definition count_ones (l:list bool) : Z := Z.of_nat (List.length (filter (fun b:bool => b) l)).

(* ---- repeat counts: "K" or "K+n" = attribute K suffixed with the first n group indices ---- *)
Definition suffix_indices (n:nat) (idxs:list Z) (k:string) : option string :=
  if (List.length idxs <? n)%nat then None
  else if existsb (fun i => i <? 0) (firstn n idxs) then None
  else Some (fold_left (fun s i => s ++ idx_suffix i)%string (firstn n idxs) k).

Definition count_name (key:string) (idxs:list Z) : option string :=
  match split_plus key with
  | (k, None) => Some k
  | (k, Some nl) =>
      if contains "+" nl then None else
      match N_of_str nl with None => None | Some n => suffix_indices (N.to_nat n) idxs k end
  end.

Definition count_of (c:count) (idxs:list Z) (a:attrs) : option Z :=
  match c with
  | CFixed n => Some n
  | CBad _ => None
  | CNamed key =>
      olet nm <- count_name key idxs;
      olet g <- attr_int a nm;
      Some (if String.eqb nm "IDF035" then g + 1 else g)
  end.

(* ---- one bit-carrying field ---- *)
(* width: from the table, except the cell mask *)
Definition enc_width (T:tables) (key:string) (fd:dfield) (a:attrs) : option Z :=
  if String.eqb key "DF396"
  then (olet x <- attr_int a (t_nsat T); olet y <- attr_int a (t_nsig T); Some (x * y))
  else Some (df_bits fd).

(* the attribute name of an occurrence *)
Definition occ_name (ty:dtype) (key:string) (idxs:list Z) : string :=
  match ty with TSTR => key | _ => render_name key idxs end.

(* where the value goes: STR code units are joined under the bare key *)
Definition enc_store (ty:dtype) (key:string) (idxs:list Z) (v:value) (a:attrs) : option attrs :=
  match ty with
  | TSTR =>
      match assoc key a, v with
      | None, _ => Some (upd key v a)
      | Some (VStr old), VStr new => Some (upd key (VStr (old ++ new)) a)
      | Some _, _ => None
      end
  | _ => Some (upd (render_name key idxs) v a)
  end.

(* the two private spherical-harmonics coefficient counts, after IDF038 of group index i *)
Definition enc_harm (T:tables) (idxs:list Z) (a:attrs) : option attrs :=
  match idxs with
  | [] => None
  | i :: _ =>
      if (i <? 0) then None else
      olet n0 <- attr_int a ("IDF037_" ++ dd (Z.to_N i))%string;
      olet m0 <- attr_int a ("IDF038_" ++ dd (Z.to_N i))%string;
      let N' := n0 + 1 in let M' := m0 + 1 in
      if (2^24 <? Z.abs N') || (2^24 <? Z.abs M') then None else
      let nc := ((N' + 1) * (N' + 2)) / 2 - ((N' - M') * (N' - M' + 1)) / 2 in
      let ns := nc - (N' + 1) in
      Some (upd (t_nharms T) (VInt ns) (upd (t_nharmc T) (VInt nc) a))
  end.

(* the satellite and cell maps, from the three masks (Spec/MsmMasks.v) *)
Definition enc_maps (T:tables) (ident:string) (rinex:bool) (a:attrs)
  : option (list (Z*string) * list (Z*(string*string))) :=
  match assoc (substring 0 3 ident) (t_prnsig T) with
  | None => None
  | Some (prnmap, sigmap) =>
      olet x <- attr_int a "DF394";
      olet y <- attr_int a "DF395";
      olet c <- attr_int a "DF396";
      if (0 <=? x) && (x <? 2^64) && (0 <=? y) && (y <? 2^32) && (0 <=? c)
      then Some (spec_satmap prnmap (t_na T) x, spec_cellmap prnmap sigmap (t_na T) rinex x y c)
      else None
  end.

Definition special_name (key:string) : bool :=
  String.eqb key "DF394" || String.eqb key "DF395" || String.eqb key "DF396" || String.eqb key "IDF038".

Section Enc.
Variable T : tables.
Variable ident : string.
Variable rinex : bool.       (* label option: RINEX code (true) or frequency band (false) *)

(* a PRN / CELLPRN / CELLSIG pseudo-field: no raw value, no bits, the label of entry index[0] *)
Definition enc_label_field (key:string) (idxs:list Z) (fd:dfield) (s:est) : option est :=
  if negb (df_bits fd =? 0) || special_name key then None else
  match idxs with
  | [] => None
  | i :: _ =>
      olet label <- (match df_ty fd with
                     | TPRN => olet m <- e_sat s; zlookup i m
                     | TCPR => olet m <- e_cell s; option_map fst (zlookup i m)
                     | _    => olet m <- e_cell s; option_map snd (zlookup i m)
                     end);
      let nm := render_name key idxs in
      Some {| e_bits := e_bits s; e_attrs := upd nm (VStr (codes label)) (e_attrs s);
              e_sat := e_sat s; e_cell := e_cell s; e_vals := e_vals s;
              e_occ := e_occ s ++ [(nm, OField (df_ty fd))] |}
  end.

Definition enc_bits_field (key:string) (idxs:list Z) (fd:dfield) (s:est) : option est :=
  match e_vals s with
  | [] => None
  | v :: rest =>
      let ty := df_ty fd in
      olet w <- enc_width T key fd (e_attrs s);
      if (w <? 0) || (needs_sign_bit ty && (w <? 1)) then None else
      let l := bits_of (Z.to_nat w) v in                 (* v mod 2^w, MSB first *)
      match field_value ty (df_res fd) l with
      | Ok val =>
          olet a1 <- enc_store ty key idxs val (e_attrs s);
          let nm := occ_name ty key idxs in
          let bits1 := e_bits s ++ l in
          let occ1 := e_occ s ++ [(nm, OField ty)] in
          if String.eqb key "DF394" then
            Some {| e_bits := bits1; e_attrs := upd (t_nsat T) (VInt (count_ones l)) a1;
                    e_sat := e_sat s; e_cell := e_cell s; e_vals := rest;
                    e_occ := occ1 ++ [(t_nsat T, OCount)] |}
          else if String.eqb key "DF395" then
            Some {| e_bits := bits1; e_attrs := upd (t_nsig T) (VInt (count_ones l)) a1;
                    e_sat := e_sat s; e_cell := e_cell s; e_vals := rest;
                    e_occ := occ1 ++ [(t_nsig T, OCount)] |}
          else if String.eqb key "DF396" then
            let a2 := upd (t_ncell T) (VInt (count_ones l)) a1 in
            olet maps <- enc_maps T ident rinex a2;
            Some {| e_bits := bits1; e_attrs := a2;
                    e_sat := Some (fst maps); e_cell := Some (snd maps); e_vals := rest;
                    e_occ := occ1 ++ [(t_ncell T, OCount)] |}
          else if String.eqb key "IDF038" then
            olet a2 <- enc_harm T idxs a1;
            Some {| e_bits := bits1; e_attrs := a2;
                    e_sat := e_sat s; e_cell := e_cell s; e_vals := rest;
                    e_occ := occ1 ++ [(t_nharmc T, OHarm); (t_nharms T, OHarm)] |}
          else
            Some {| e_bits := bits1; e_attrs := a1;
                    e_sat := e_sat s; e_cell := e_cell s; e_vals := rest; e_occ := occ1 |}
      | _ => None
      end
  end.

Definition enc_field (key:string) (idxs:list Z) (s:est) : option est :=
  match find_field T key with
  | None => None
  | Some fd => if is_label_ty (df_ty fd) then enc_label_field key idxs fd s
               else enc_bits_field key idxs fd s
  end.

(* n repetitions, group index 1, 2, ... appended to the index list *)
Fixpoint erep (f:list Z -> est -> option est) (idxs:list Z) (n:nat) (i:Z) (s:est) : option est :=
  match n with O => Some s | S k => olet s' <- f (idxs ++ [i]) s; erep f idxs k (i + 1) s' end.

Fixpoint enc_item (lbl:string) (it:item) (idxs:list Z) (s:est) {struct it} : option est :=
  match it with
  | IField _ => enc_field lbl idxs s
  | IBad _ => None
  | IGroup c b =>
      olet n <- count_of c idxs (e_attrs s);
      if (max_count <? n) then None else erep (enc_body b) idxs (Z.to_nat n) 1 s
  | IOpt k con b =>
      match assoc k (e_attrs s) with
      | Some (VInt z) => if (z =? con) then enc_body b idxs s else Some s
      | Some (VStr _) => Some s
      | _ => None
      end
  end
with enc_body (b:body) (idxs:list Z) (s:est) {struct b} : option est :=
  match b with
  | BNotDict _ => None
  | BItems l =>
      (fix go (l:list (string*item)) (s:est) : option est :=
         match l with [] => Some s | (lbl, it) :: r => olet s1 <- enc_item lbl it idxs s; go r s1 end) l s
  end.

(* the message: bits, attributes, raw values left over *)
Definition lay_out_state (b:body) (vals:list N) : option est := enc_body b [] (est0 vals).

Definition lay_out (b:body) (vals:list N) : option (list bool * attrs * list N) :=
  olet s <- lay_out_state b vals; Some (e_bits s, e_attrs s, e_vals s).

End Enc.

(* ---- bits to bytes: 8 bits per byte, MSB first; inverse of Base.Bytes.bits ---- *)
Fixpoint pack (l:list bool) : bytes :=
  match l with
  | b0::b1::b2::b3::b4::b5::b6::b7::r => byte_of_N (uint [b0;b1;b2;b3;b4;b5;b6;b7]) :: pack r
  | _ => []
  end.

(* public attributes: names not starting with an underscore *)
Definition is_public (k:string) : bool := negb (String.prefix "_" k).
Definition public (a:attrs) : attrs := filter (fun e => is_public (fst e)) a.
