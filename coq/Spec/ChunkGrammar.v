(* HTTP/1.1 chunked transfer coding (RFC 9112 section 7.1), as far as a caster sends it: the reference
   grammar for property C12.  Independent of the socket-wrapper model (imports only the byte type).

     chunked-body = *chunk last-chunk CRLF
     chunk        = chunk-size CRLF chunk-data CRLF        chunk-size = 1*HEXDIG  (value = length of data, > 0)
     last-chunk   = 1*"0" CRLF

   The rendering of every size line is a parameter (upper/lower case digits, leading zeros). *)
From Coq Require Import NArith List.
From Coq.Strings Require Import Byte.
From PyRtcm Require Import Base.Bytes.
Import ListNotations.
Local Open Scope nat_scope.

Definition CRLF : bytes := [x0d; x0a].

(* HEXDIG, case-insensitive *)
Definition hexdig (b:byte) : option N :=
  match b with
  | x30 => Some 0%N | x31 => Some 1%N | x32 => Some 2%N | x33 => Some 3%N | x34 => Some 4%N
  | x35 => Some 5%N | x36 => Some 6%N | x37 => Some 7%N | x38 => Some 8%N | x39 => Some 9%N
  | x41 => Some 10%N | x42 => Some 11%N | x43 => Some 12%N | x44 => Some 13%N | x45 => Some 14%N | x46 => Some 15%N
  | x61 => Some 10%N | x62 => Some 11%N | x63 => Some 12%N | x64 => Some 13%N | x65 => Some 14%N | x66 => Some 15%N
  | _ => None
  end.

(* value of a digit string, most significant digit first; None if some byte is not a HEXDIG *)
Fixpoint hexnum (acc:N) (l:bytes) : option N :=
  match l with
  | [] => Some acc
  | b :: r => match hexdig b with Some d => hexnum (acc * 16 + d)%N r | None => None end
  end.

(* [sz] is a chunk-size line (without CRLF) denoting n *)
Definition size_line (sz:bytes) (n:N) : Prop := sz <> [] /\ hexnum 0 sz = Some n.

Record chunk := { sz : bytes; body : bytes }.

Definition wf_chunk (c:chunk) : Prop :=
  body c <> [] /\ size_line (sz c) (N.of_nat (length (body c))).

(* the optional last-chunk: its size line, any non-empty string of zeros *)
Definition wf_last (l:option bytes) : Prop :=
  match l with None => True | Some z => size_line z 0%N end.

Definition wf_chunked (chunks:list chunk) (last:option bytes) : Prop :=
  Forall wf_chunk chunks /\ wf_last last.

Definition render_chunk (c:chunk) : bytes := sz c ++ CRLF ++ body c ++ CRLF.
Definition render_chunks (cs:list chunk) : bytes := concat (map render_chunk cs).
Definition render_last (l:option bytes) : bytes :=
  match l with None => [] | Some z => z ++ CRLF ++ CRLF end.

(* the byte stream on the wire; [last = None] is a stream cut off (so far) on a chunk boundary *)
Definition render (chunks:list chunk) (last:option bytes) : bytes :=
  render_chunks chunks ++ render_last last.

(* what the application must see: the chunk bodies, each passed through the per-chunk decoder *)
Definition decoded (dz:bytes -> bytes) (cs:list chunk) : bytes :=
  concat (map (fun c => dz (body c)) cs).

(* ---------- sanity: the grammar is inhabited and reads as expected ---------- *)
Example ex_chunk_1a :
  wf_chunk {| sz := [x31; x41]; body := repeat x55 26 |} /\ wf_chunk {| sz := [x30; x30; x31; x61]; body := repeat x0a 26 |}.
Proof. repeat split; try discriminate; reflexivity. Qed.

Example ex_render :
  render [ {| sz := [x33]; body := [x61; x0d; x0a] |} ] (Some [x30])
  = [x33; x0d; x0a; x61; x0d; x0a; x0d; x0a; x30; x0d; x0a; x0d; x0a].
Proof. reflexivity. Qed.
