(* Input-class specification for the completeness theorems of the stream reader (C02, C05):
   a well-formed mixed stream is the concatenation of rendered items -- RTCM3 frames, complete NMEA
   sentences, complete UBX messages, non-sync noise, and RTCM3 frames damaged in a way the CRC detects.
   Independent of the reader code (only the result type rd_result is borrowed for result_of/yields). *)
From Coq Require Import NArith ZArith List Lia Bool.
From Coq.Strings Require Import Byte.
From PyRtcm Require Import Base.Bytes Model.Types Model.Crc Model.Reader.
Import ListNotations.
Local Open Scope nat_scope.

Inductive item :=
  | IFrame (p:bytes)                       (* intact RTCM3 frame with payload p *)
  | INmea (t:byte) (body:bytes)            (* "$" t body LF *)
  | IUbx (cls id:byte) (pl ck:bytes)       (* b5 62 cls id lenLE pl ck *)
  | INoise (bs:bytes)                      (* bytes none of which is a sync byte *)
  | IDamaged (b1 b2:byte) (body:bytes).    (* intact header, payload/CRC bytes fail the CRC check *)

(* two-byte length field *)
Definition len_hi (n:nat) : byte := byte_of_N (N.of_nat n / 256).
Definition len_lo (n:nat) : byte := byte_of_N (N.of_nat n).

Lemma len_to_be n : to_be 2 (N.of_nat n) = [len_hi n; len_lo n].
Proof. reflexivity. Qed.

Definition frame_head (p:bytes) : bytes := [xd3; len_hi (length p); len_lo (length p)].
Definition frame_crc (p:bytes) : bytes := to_be 3 (calc_crc24q (frame_head p ++ p)).
Definition frame (p:bytes) : bytes := frame_head p ++ p ++ frame_crc p.

Lemma frame_head_to_be p : frame_head p = xd3 :: to_be 2 (N.of_nat (length p)).
Proof. reflexivity. Qed.

(* link with the library's own helpers: header = len2bytes, trailer = crc2bytes *)
Lemma calc_crc24q_lt m : (calc_crc24q m < 2^24)%N.
Proof.
  unfold calc_crc24q. change 0xFFFFFF%N with (N.ones 24). rewrite N.land_ones.
  apply N.mod_lt. discriminate.
Qed.

Lemma crc2bytes_total m : crc2bytes m = Some (to_be 3 (calc_crc24q m)).
Proof.
  unfold crc2bytes, to_bytes. change (256 ^ N.of_nat 3)%N with (2^24)%N.
  pose proof (calc_crc24q_lt m) as H. apply N.ltb_lt in H. now rewrite H.
Qed.

Lemma frame_crc_crc2bytes p : crc2bytes (frame_head p ++ p) = Some (frame_crc p).
Proof. apply crc2bytes_total. Qed.

Lemma len2bytes_frame p : length p <= 1023 -> len2bytes p = Some [len_hi (length p); len_lo (length p)].
Proof.
  intro H. unfold len2bytes, to_bytes. change (256 ^ N.of_nat 2)%N with 65536%N.
  assert (E : (N.of_nat (length p) <? 65536)%N = true) by (apply N.ltb_lt; lia).
  now rewrite E.
Qed.

Definition render (it:item) : bytes :=
  match it with
  | IFrame p => frame p
  | INmea t body => [x24; t] ++ body ++ [x0a]
  | IUbx cls id pl ck => [xb5; x62; cls; id; len_lo (length pl); len_hi (length pl)] ++ pl ++ ck
  | INoise bs => bs
  | IDamaged b1 b2 body => [xd3; b1; b2] ++ body
  end.

Definition stream_of (items:list item) : bytes := concat (map render items).

Definition not_sync (b:byte) : Prop := b <> xd3 /\ b <> xb5 /\ b <> x24.

(* every configured NMEA header is "$" followed by one talker byte *)
Definition nmea_hdr_ok (nmea_hdr:list bytes) : Prop :=
  Forall (fun h => exists t, h = [x24; t]) nmea_hdr.

Definition wf_item (nmea_hdr:list bytes) (it:item) : Prop :=
  match it with
  | IFrame p => length p <= 1023
  | INmea t body => In [x24; t] nmea_hdr /\ ~ In x0a body
  | IUbx _ _ pl ck => (N.of_nat (length pl) < 65536)%N /\ length ck = 2
  | INoise bs => Forall not_sync bs
  | IDamaged b1 b2 body =>
      (bN b1 < 4)%N /\ length body = N.to_nat (bN b1 * 256 + bN b2) + 3 /\
      calc_crc24q ([xd3; b1; b2] ++ body) <> 0%N
  end.

Definition is_damaged (it:item) : bool := match it with IDamaged _ _ _ => true | _ => false end.
Definition no_damaged (items:list item) : Prop := forall it, In it items -> is_damaged it = false.

(* items that are RTCM3 frames (intact or damaged); everything else is invisible to the caller *)
Definition is_rtcm (it:item) : bool :=
  match it with IFrame _ | IDamaged _ _ _ => true | _ => false end.

Section Expected.
Context {M:Type}.
Variable construct : bytes -> Z -> outcome M.
Variable lbl : Z.

(* [ (frame p, m) | IFrame p in items, construct p lbl = Ok m ], in stream order *)
Fixpoint good (items:list item) : list (bytes * M) :=
  match items with
  | [] => []
  | IFrame p :: r => match construct p lbl with Ok m => (frame p, m) :: good r | _ => good r end
  | _ :: r => good r
  end.

(* the library errors met along the stream, in stream order: the constructor's own error for an intact
   frame whose payload it rejects, RTCMParseError for a damaged frame *)
Fixpoint errs (items:list item) : list liberr :=
  match items with
  | [] => []
  | IFrame p :: r => match construct p lbl with Lib e => e :: errs r | _ => errs r end
  | IDamaged _ _ _ :: r => EParse :: errs r
  | _ :: r => errs r
  end.

(* the constructor neither lets a foreign exception escape nor leaves the modelled domain *)
Definition construct_total (items:list item) : Prop :=
  forall p, In (IFrame p) items ->
    (exists m, construct p lbl = Ok m) \/ (exists e, construct p lbl = Lib e).

(* what one read() returns when the next RTCM3 item is `it` and errors are raised (quitonerror = 2) *)
Definition result_of (it:item) : rd_result M :=
  match it with
  | IFrame p => match construct p lbl with
                | Ok m => RYield (frame p) (Some m)
                | Lib e => RRaise e
                | Foreign k => RForeign k
                | Unmodelled w => RUnmodelled w
                end
  | IDamaged _ _ _ => RRaise EParse
  | _ => REnd   (* not used: filtered out by is_rtcm *)
  end.

(* Exact expected behaviour of `for (raw, parsed) in reader` over the stream, for every error mode q:
   one entry per read() call = (handler invocations during that call, its result).
   acc = handler invocations accumulated since the previous result. *)
Fixpoint trace (q:Z) (acc:list liberr) (items:list item) : list (list liberr * rd_result M) :=
  let on_err e r :=
    if Z.eqb q 2 then [(acc, RRaise e)]
    else trace q (if Z.eqb q 1 then acc ++ [e] else acc) r in
  match items with
  | [] => [(acc, REnd)]
  | IFrame p :: r =>
      match construct p lbl with
      | Ok m => (acc, RYield (frame p) (Some m)) :: trace q [] r
      | Lib e => on_err e r
      | Foreign k => [(acc, RForeign k)]
      | Unmodelled w => [(acc, RUnmodelled w)]
      end
  | IDamaged _ _ _ :: r => on_err EParse r
  | _ :: r => trace q acc r
  end.
End Expected.

(* the (raw, parsed) pairs among a list of read() results *)
Fixpoint yields {M} (evs : list (list liberr * rd_result M)) : list (bytes * option M) :=
  match evs with
  | [] => []
  | (_, RYield raw m) :: r => (raw, m) :: yields r
  | _ :: r => yields r
  end.

(* all handler invocations, in order *)
Definition handler_calls {M} (evs : list (list liberr * rd_result M)) : list liberr := concat (map fst evs).
