(* Exact streams: what the reader completeness proofs need of an underlying stream that never faults.
   `content s` is the byte sequence still to be delivered in state s, `inv` an invariant of the states
   under consideration (file: empty fault schedule; socket: only non-empty data packets ahead).
     - a read of at most the available number of bytes returns exactly the next n bytes and consumes them;
     - a read of one byte on exhausted content returns b"" (end of data);
     - readline on content  body ++ CR LF ++ r  with no LF inside body returns  body ++ CR LF  and leaves r
       (this is the common ground of an LF-terminated readline -- files -- and a CRLF-terminated one --
       the socket wrapper).
   Nothing is said about reads beyond the available data: well-formed item streams never issue one. *)
From Coq Require Import List.
From Coq.Strings Require Import Byte.
From PyRtcm Require Import Base.Bytes Model.Reader Spec.Items.
Import ListNotations.
Local Open Scope nat_scope.

(* state s satisfies the invariant and still has exactly b to deliver *)
Definition at_content {St} (content:St -> bytes) (inv:St -> Prop) (s:St) (b:bytes) : Prop :=
  inv s /\ content s = b.

Record exact_stream {St} (ops:stream_ops St) (content:St -> bytes) (inv:St -> Prop) : Prop := {
  ex_read : forall n s, inv s -> n <= length (content s) ->
    fst (s_read ops n s) = firstn n (content s) /\
    at_content content inv (snd (s_read ops n s)) (skipn n (content s));
  ex_eof : forall s, inv s -> content s = [] ->
    fst (s_read ops 1 s) = [] /\ at_content content inv (snd (s_read ops 1 s)) [];
  ex_line : forall s body r, inv s -> ~ In x0a body -> content s = body ++ [x0d; x0a] ++ r ->
    fst (s_readline ops s) = body ++ [x0d; x0a] /\ at_content content inv (snd (s_readline ops s)) r
}.

(* NMEA sentences as transmitted: terminated by CR LF *)
Definition crlf_item (it:item) : Prop :=
  match it with
  | INmea _ body => exists body', body = body' ++ [x0d]
  | _ => True
  end.
