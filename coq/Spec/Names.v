(* Specification side of C19 / C18.
   - what a "generated attribute name" is (field key plus one "_NN" suffix per positive index level),
     rendered here independently of the decoder's fold (spec_name) ;
   - boolean side-condition checkers over the regenerated tables (run by vm_compute at every check):
       desc_unambiguous      no table key is an indexed rendering of another table key
       grouped_labels_no_us  every label that can receive an index contains no "_"
       msm_keys_covered      the MSM layouts only repeat fields the array helper knows about
   - the shape of the array-helper results (row_of, is_run, msm_result_ok, layer_ok).
   No proofs in this file. *)
From Coq Require Import NArith ZArith List String Ascii Bool.
From PyRtcm Require Import Base.Bytes Base.Dec Model.Types Model.Message Model.Helpers.
Import ListNotations.
Open Scope string_scope.

(* ---------- character classes ---------- *)
Fixpoint string_forall (f:ascii -> bool) (s:string) : bool :=
  match s with EmptyString => true | String c r => f c && string_forall f r end.
Definition no_us (s:string) : bool := string_forall (fun c => negb (Ascii.eqb c "_"%char)) s.
Definition dec_digit (c:ascii) : bool := (48 <=? N_of_ascii c)%N && (N_of_ascii c <=? 57)%N.
Definition digits_only (s:string) : bool := string_forall dec_digit s.

(* ---------- generated names ---------- *)
Definition positive_idxs (idxs:list Z) : Prop := Forall (fun i => (0 < i)%Z) idxs.

Fixpoint suffixes (idxs:list Z) : string :=
  match idxs with [] => "" | i :: r => "_" ++ dd (Z.to_N i) ++ suffixes r end.
Definition spec_name (key:string) (idxs:list Z) : string := key ++ suffixes idxs.

(* a name the parser can produce from data field d: any number of levels, any number of digits *)
Inductive generated_name (T:tables) : string -> dfield -> Prop :=
| GenName key idxs d :
    find_field T key = Some d -> positive_idxs idxs -> generated_name T (render_name key idxs) d.

(* what the index helper must return: 0 for a plain name, the index for one level, the tuple otherwise *)
Definition expected_idx (idxs:list Z) : idx_res :=
  match idxs with
  | [] => IdxInt 0
  | [i] => IdxInt (Z.to_N i)
  | _ => IdxTuple (map Z.to_N idxs)
  end.

(* CPython's int() refuses digit strings longer than sys.int_max_str_digits (4300): an index is "small"
   when its rendering f"{i:02d}" stays within that limit (every i < 2^4300 is; real indices are < 2^20),
   "huge" otherwise -- for a huge index att2idx catches the ValueError and answers 0. *)
Definition small_idx (i:Z) : Prop := (String.length (dd (Z.to_N i)) <= int_max_str_digits)%nat.
Definition huge_idx  (i:Z) : Prop := (int_max_str_digits < String.length (dd (Z.to_N i)))%nat.
Definition small_idxs (idxs:list Z) : Prop := Forall small_idx idxs.

(* ---------- C19 table checker: descriptions are unambiguous ---------- *)
Fixpoint strip_prefix (p s:string) : option string :=
  match p with
  | EmptyString => Some s
  | String c p' => match s with
                   | String c' s' => if Ascii.eqb c c' then strip_prefix p' s' else None
                   | EmptyString => None
                   end
  end.
(* s is f"{n:02d}" for some n > 0 *)
Definition is_idx_component (s:string) : bool :=
  match N_of_str s with Some n => (0 <? n)%N && String.eqb s (dd n) | None => false end.
(* k2 = k1 + "_" + c1 + "_" + ... + "_" + cn with every ci an index rendering *)
Definition is_ext_of (p1 k2:string) : bool :=
  match strip_prefix p1 k2 with Some rest => forallb is_idx_component (split_us rest) | None => false end.
Definition desc_unambiguous (T:tables) : bool :=
  let ks := map df_key (t_fields T) in
  forallb (fun k1 => let p1 := k1 ++ "_" in forallb (fun k2 => negb (is_ext_of p1 k2)) ks) ks.

(* ---------- C19 table checker: labels that get an index have no "_" ---------- *)
Fixpoint labels_item (depth:nat) (lbl:string) (it:item) {struct it} : list (nat*string) :=
  match it with
  | IField _ => [(depth, lbl)]
  | IBad _ => []
  | IGroup _ b => labels_body (S depth) b
  | IOpt _ _ b => labels_body depth b
  end
with labels_body (depth:nat) (b:body) {struct b} : list (nat*string) :=
  match b with
  | BNotDict _ => []
  | BItems l => (fix go (l:list (string*item)) : list (nat*string) :=
                   match l with [] => [] | (lbl, it) :: r => (labels_item depth lbl it ++ go r)%list end) l
  end.
Definition layouts (T:tables) : list (string*body) := (t_get T ++ t_msm T ++ t_igs T)%list.
Definition grouped_labels_no_us (T:tables) : bool :=
  forallb (fun '(_, b) => forallb (fun '(depth, lbl) => match depth with O => true | S _ => no_us lbl end)
                                  (labels_body 0 b)) (layouts T).

(* ---------- C18: rows of the MSM arrays ---------- *)
(* [(a, v) | a in keys, attrs[a_<dd i>] = v], in keys order *)
Fixpoint row_of (attrs:list (string*value)) (keys:list string) (i:N) : list (string*value) :=
  match keys with
  | [] => []
  | a :: r => match assoc (a ++ "_" ++ dd i) attrs with
              | Some v => (a, v) :: row_of attrs r i
              | None => row_of attrs r i
              end
  end.

Definition msm_result_ok (T:tables) (o:obj) (r:msm_out) : Prop :=
  exists ident gnss epochkey station epoch nsat ncell,
    obj_identity o = Ok ident /\
    ismsm_of T ident = true /\
    assoc ident (t_msm T) <> None /\
    assoc (substring 0 3 ident) (t_gnssmap T) = Some (gnss, epochkey) /\
    assoc "DF003" (o_attrs o) = Some station /\
    assoc epochkey (o_attrs o) = Some epoch /\
    assoc "NSat" (o_attrs o) = Some (VInt nsat) /\
    assoc "NCell" (o_attrs o) = Some (VInt ncell) /\
    m_meta r = [("identity", VStr (codes ident)); ("gnss", VStr (codes gnss)); ("station", station);
                ("epoch", epoch); ("sats", VInt nsat); ("cells", VInt ncell)] /\
    List.length (m_sats r) = Z.to_nat nsat /\
    List.length (m_cells r) = Z.to_nat ncell /\
    (forall i, (i < Z.to_nat nsat)%nat ->
       nth_error (m_sats r) i = Some (row_of (o_attrs o) sat_keys (N.of_nat i + 1))) /\
    (forall i, (i < Z.to_nat ncell)%nat ->
       nth_error (m_cells r) i = Some (row_of (o_attrs o) cell_keys (N.of_nat i + 1))).

(* ---------- C18 table checker: the helper's key lists cover the MSM layouts ---------- *)
Definition flat_fields_in (keys:list string) (b:body) : bool :=
  match b with
  | BItems l => forallb (fun '(lbl, it) => match it with
                                           | IField _ => existsb (String.eqb lbl) keys
                                           | _ => false
                                           end) l
  | BNotDict _ => false
  end.
Definition msm_item_ok (p:string*item) : bool :=
  match snd p with
  | IField _ => true
  | IGroup (CNamed c) b => (String.eqb c "NSat" && flat_fields_in sat_keys b)
                           || (String.eqb c "NCell" && flat_fields_in cell_keys b)
  | _ => false
  end.
Definition top_field (k:string) (l:list (string*item)) : bool :=
  existsb (fun '(lbl, it) => String.eqb lbl k && match it with IField _ => true | _ => false end) l.
Definition msm_layout_ok (T:tables) (p:string*body) : bool :=
  match snd p with
  | BItems l => forallb msm_item_ok l && top_field "DF003" l
                && match assoc (substring 0 3 (fst p)) (t_gnssmap T) with
                   | Some (_, ek) => top_field ek l
                   | None => false
                   end
  | BNotDict _ => false
  end.
Definition msm_keys_covered (T:tables) : bool :=
  String.eqb (t_nsat T) "NSat" && String.eqb (t_ncell T) "NCell" && forallb (msm_layout_ok T) (t_msm T).

(* what msm_keys_covered = true means, as a proposition *)
Definition group_fields_in (keys:list string) (b:body) : Prop :=
  exists gl, b = BItems gl /\
    forall lbl it, In (lbl, it) gl -> (exists k, it = IField k) /\ In lbl keys.
Definition msm_item_covered (it:item) : Prop :=
  match it with
  | IField _ => True
  | IGroup (CNamed c) b => (c = "NSat" /\ group_fields_in sat_keys b) \/ (c = "NCell" /\ group_fields_in cell_keys b)
  | _ => False
  end.
Definition msm_tables_covered (T:tables) : Prop :=
  t_nsat T = "NSat" /\ t_ncell T = "NCell" /\
  forall ident b, In (ident, b) (t_msm T) ->
    exists items gnss epochkey,
      b = BItems items /\
      assoc (substring 0 3 ident) (t_gnssmap T) = Some (gnss, epochkey) /\
      (exists k, In (epochkey, IField k) items) /\
      (exists k, In ("DF003", IField k) items) /\
      forall lbl it, In (lbl, it) items -> msm_item_covered it.

(* ---------- C18: coefficient runs of 4076_201 ---------- *)
(* vs are the values of pre_01, pre_02, ... up to (excluding) the first missing index *)
Definition is_run (attrs:list (string*value)) (pre:string) (vs:list value) : Prop :=
  (forall j v, nth_error vs j = Some v -> assoc (pre ++ "_" ++ dd (N.of_nat j + 1)) attrs = Some v) /\
  assoc (pre ++ "_" ++ dd (N.of_nat (List.length vs) + 1)) attrs = None.

Definition layer_ok (T:tables) (o:obj) (lyr:N) (L:layer_out) : Prop :=
  assoc ("IDF036_" ++ dd lyr) (o_attrs o) = Some (l_height L) /\
  Forall2 (fun (tc:Z*(string*string)) (c:string*list value) =>
             fst c = snd (snd tc) /\ is_run (o_attrs o) (fst (snd tc) ++ "_" ++ dd lyr) (snd c))
          (t_coeffs T) (l_coeffs L).
