(* Specification side of the table-driven field decoder: what a data field of a given type MEANS,
   as a function of the bits it occupies (MSB first).  No reference to shifts, masks or the payload
   integer.  Used by Proofs/Decode*.v (properties C03, C06). *)
From Coq Require Import NArith ZArith List String Bool PrimFloat.
From PyRtcm Require Import Base.Bytes Base.Dec Model.Types Model.Message.
Import ListNotations.
Open Scope list_scope.
Open Scope Z_scope.

(* ---- the bits a field occupies: w bits starting at bit offset off of the payload ---- *)
Definition slice (p:bytes) (off w:Z) : list bool :=
  firstn (Z.to_nat w) (skipn (Z.to_nat off) (bits p)).

Definition nbits (p:bytes) : Z := 8 * Z.of_nat (List.length p).

(* ---- integer readings of a bit string ---- *)
(* unsigned *)
Definition unsigned (l:list bool) : Z := Z.of_N (uint l).
(* two's complement: the leading bit weighs -2^(n-1) *)
Definition twos (l:list bool) : Z :=
  match l with
  | [] => 0
  | b::r => (if b then - 2^(Z.of_nat (List.length r)) else 0) + unsigned r
  end.
(* sign and magnitude: leading bit is the sign; "negative zero" is 0 *)
Definition signmag (l:list bool) : Z :=
  match l with
  | [] => 0
  | b::r => if b then - unsigned r else unsigned r
  end.

(* largest code point + 1 accepted by Python's chr() *)
Definition chr_limit : N := 1114112%N.

(* which types take their value from the satellite / cell maps instead of from payload bits *)
Definition is_label_ty (t:dtype) : bool :=
  match t with TPRN | TCPR | TCSG => true | _ => false end.

(* ---- the value of a field of type ty, resolution r, occupying bits l ---- *)
Definition field_value (ty:dtype) (r:res) (l:list bool) : outcome value :=
  match ty with
  | TINT => scale (twos l) r
  | TSNT => scale (signmag l) r
  | TCHA => if (chr_limit <=? uint l)%N then Foreign XValue
            else if res_is_unit r then Ok (VStr [uint l]) else Unmodelled "scaled CHA"
  | TSTR => if (uint l =? 0)%N then Ok (VStr [])
            else if (chr_limit <=? uint l)%N then Foreign XValue else Ok (VStr [uint l])
  | _ => scale (unsigned l) r
  end.

(* signed readings need at least the sign bit *)
Definition needs_sign_bit (t:dtype) : bool :=
  match t with TINT | TSNT => true | _ => false end.

(* ---- where the value goes ---- *)
(* every type but STR: attribute named anam with one _NN suffix per non-zero index level.
   STR: attribute anam itself, new code units appended to what is there. *)
Definition store_value (ty:dtype) (anam:string) (index:list Z) (v:value) (o:obj) : outcome obj :=
  match ty with
  | TSTR =>
      match assoc anam (o_attrs o), v with
      | None, _ => setattr o anam v
      | Some (VStr old), VStr new => setattr o anam (VStr (old ++ new))
      | Some _, _ => Foreign XType
      end
  | _ => setattr o (render_name anam index) v
  end.

(* ---- derived attributes set after the four special fields ---- *)
Section Extras.
Variable T : tables.

Definition harmonic_counts (index:list Z) (o:obj) : outcome obj :=
  do i <- first_index index;
  if (i <? 0) then Foreign XValue else
  do n0 <- getint o ("IDF037_" ++ dd (Z.to_N i));
  do m0 <- getint o ("IDF038_" ++ dd (Z.to_N i));
  let N' := n0 + 1 in let M' := m0 + 1 in
  if (2^24 <? Z.abs N') || (2^24 <? Z.abs M') then Unmodelled "harmonic degree beyond exact float range" else
  let nc := ((N' + 1) * (N' + 2)) / 2 - ((N' - M') * (N' - M' + 1)) / 2 in
  let ns := nc - (N' + 1) in
  do o' <- setattr o (t_nharmc T) (VInt nc); setattr o' (t_nharms T) (VInt ns).

(* anam: the field just stored; l: its bits *)
Definition extras (ident anam:string) (index:list Z) (l:list bool) (o:obj) : outcome obj :=
  if String.eqb anam "DF394" then setattr o (t_nsat T) (VInt (popcount (uint l)))
  else if String.eqb anam "DF395" then setattr o (t_nsig T) (VInt (popcount (uint l)))
  else if String.eqb anam "DF396" then
    do o' <- setattr o (t_ncell T) (VInt (popcount (uint l))); getsatcellmaps T ident o'
  else if String.eqb anam "IDF038" then harmonic_counts index o
  else Ok o.

(* width of a field: table width, except the cell mask whose width is NSat*NSig *)
Definition field_width (anam:string) (fd:dfield) (o:obj) : outcome Z :=
  if String.eqb anam "DF396"
  then (do a <- getint o (t_nsat T); do b <- getint o (t_nsig T); Ok (a*b))
  else Ok (df_bits fd).

(* complete meaning of one bit-carrying field occurrence at bit offset off *)
Definition field_step (ident anam:string) (index:list Z) (fd:dfield) (s:obj*Z) : outcome (obj*Z) :=
  let '(o, off) := s in
  do w <- field_width anam fd o;
  if (w <? 0) || (nbits (o_payload o) <? off + w) then Foreign XValue else
  if needs_sign_bit (df_ty fd) && (w <? 1) then Foreign XValue else
  let l := slice (o_payload o) off w in
  do v <- field_value (df_ty fd) (df_res fd) l;
  do o1 <- store_value (df_ty fd) anam index v o;
  do o2 <- extras ident anam index l o1;
  Ok (o2, off + w).

End Extras.
