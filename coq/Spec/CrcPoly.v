(* CRC-24Q : declarative specification over GF(2)[x].

   Independent of Model/Crc.v (no definition of the model is used here).

   A polynomial over GF(2) is a binary natural number: bit i of the number is
   the coefficient of x^i.  Addition is N.lxor, multiplication by x^k is
   N.shiftl _ k, the product is the carry-less product [clmul].

   G = 0x1864CFB is the CRC-24Q generator
       x^24+x^23+x^18+x^17+x^14+x^11+x^10+x^7+x^6+x^5+x^4+x^3+x+1.

   [is_rem n r] : r is the remainder of n modulo G  (deg r < 24, n = q*G + r).
   It is unique ([is_rem_unique]) and computed by the long division [prem]. *)
From Coq Require Import NArith List Lia Bool.
From Coq.Strings Require Import Byte.
From PyRtcm Require Import Base.Bytes.
Import ListNotations.
Open Scope N_scope.
#[local] Arguments N.testbit : simpl never.

(* ------------------------------------------------------------------ *)
(** * Definitions                                                      *)
(* ------------------------------------------------------------------ *)

Definition G : N := 0x1864CFB.

(* carry-less product, shift-and-add over the binary digits of the left factor:
   (2a'+d) (x) b  =  d.b  +  x.(a' (x) b)                                       *)
Fixpoint clmul_pos (p:positive) (b:N) : N :=
  match p with
  | xH => b
  | xO p' => N.double (clmul_pos p' b)
  | xI p' => N.lxor b (N.double (clmul_pos p' b))
  end.
Definition clmul (a b:N) : N :=
  match a with N0 => 0 | Npos p => clmul_pos p b end.

(* r = n mod G in GF(2)[x] *)
Definition is_rem (n r:N) : Prop :=
  r < 2^24 /\ exists q, N.lxor (clmul q G) r = n.

(* number of non-zero coefficients *)
Fixpoint popcount_pos (p:positive) : N :=
  match p with
  | xH => 1
  | xO p' => popcount_pos p'
  | xI p' => N.succ (popcount_pos p')
  end.
Definition popcount (n:N) : N :=
  match n with N0 => 0 | Npos p => popcount_pos p end.

(* bytewise xor of two byte strings (of the same length) *)
Definition xor_bytes (a b:bytes) : bytes :=
  map (fun '(x,y) => byte_of_N (N.lxor (bN x) (bN y))) (combine a b).

(* one step of long division: r.x mod G, for deg r < 24 *)
Definition xstep (r:N) : N :=
  let c := N.double r in if N.testbit c 24 then N.lxor c G else c.

(* executable remainder (Horner over the binary digits of n, MSB first) *)
Fixpoint prem_pos (p:positive) : N :=
  match p with
  | xH => 1
  | xO p' => xstep (prem_pos p')
  | xI p' => N.lxor (xstep (prem_pos p')) 1
  end.
Definition prem (n:N) : N :=
  match n with N0 => 0 | Npos p => prem_pos p end.

(* x^d mod G *)
Definition xpow (d:N) : N := N.iter d xstep 1.

(* ------------------------------------------------------------------ *)
(** * Bits, bounds, xor algebra                                        *)
(* ------------------------------------------------------------------ *)

(* equalities between xor-combinations of atoms *)
Ltac xor_ring :=
  apply N.bits_inj; intro; rewrite ?N.lxor_spec, ?N.bits_0;
  repeat match goal with
         | |- context[N.testbit ?a ?i] => destruct (N.testbit a i)
         end; reflexivity.

Lemma lt_pow2_bits a k : (forall n, k <= n -> N.testbit a n = false) -> a < 2^k.
Proof.
  intro H. destruct (N.eq_dec a 0) as [->|Hz].
  - apply N.neq_0_lt_0. apply N.pow_nonzero. lia.
  - apply N.log2_lt_pow2; [lia|].
    destruct (N.lt_ge_cases (N.log2 a) k) as [Hlt|Hge]; [exact Hlt|].
    specialize (H _ Hge). rewrite N.bit_log2 in H by exact Hz. discriminate.
Qed.

Lemma bits_above a k n : a < 2^k -> k <= n -> N.testbit a n = false.
Proof.
  intros Ha Hn. destruct (N.eq_dec a 0) as [->|Hz]; [apply N.bits_0|].
  apply N.bits_above_log2. apply N.log2_lt_pow2 in Ha; lia.
Qed.

Lemma lxor_lt a b k : a < 2^k -> b < 2^k -> N.lxor a b < 2^k.
Proof.
  intros Ha Hb. apply lt_pow2_bits. intros n Hn.
  now rewrite N.lxor_spec, (bits_above a k n), (bits_above b k n).
Qed.

Lemma double_shiftl a : N.double a = N.shiftl a 1.
Proof. destruct a; reflexivity. Qed.

Lemma double_bits_0 a : N.testbit (N.double a) 0 = false.
Proof. rewrite double_shiftl. apply N.shiftl_spec_low. lia. Qed.

Lemma double_bits_high a i : 1 <= i -> N.testbit (N.double a) i = N.testbit a (i-1).
Proof. intro H. rewrite double_shiftl. now apply N.shiftl_spec_high'. Qed.

Lemma double_lxor a b : N.double (N.lxor a b) = N.lxor (N.double a) (N.double b).
Proof. rewrite !double_shiftl. apply N.shiftl_lxor. Qed.

Lemma double_inj a b : N.double a = N.double b -> a = b.
Proof. rewrite !N.double_spec. lia. Qed.

Lemma succ_double_lxor a : N.succ_double a = N.lxor (N.double a) 1.
Proof. destruct a; reflexivity. Qed.

Lemma N_binary_cases a : (exists c, a = N.double c) \/ (exists c, a = N.succ_double c).
Proof.
  destruct a as [|[p|p|]].
  - left. now exists 0.
  - right. now exists (Npos p).
  - left. now exists (Npos p).
  - right. now exists 0.
Qed.

Lemma lxor_dd a b : N.lxor (N.double a) (N.double b) = N.double (N.lxor a b).
Proof. symmetry. apply double_lxor. Qed.
Lemma lxor_ds a b : N.lxor (N.double a) (N.succ_double b) = N.succ_double (N.lxor a b).
Proof. rewrite !succ_double_lxor, double_lxor. xor_ring. Qed.
Lemma lxor_sd a b : N.lxor (N.succ_double a) (N.double b) = N.succ_double (N.lxor a b).
Proof. rewrite !succ_double_lxor, double_lxor. xor_ring. Qed.
Lemma lxor_ss a b : N.lxor (N.succ_double a) (N.succ_double b) = N.double (N.lxor a b).
Proof. rewrite !succ_double_lxor, double_lxor. xor_ring. Qed.

(* ------------------------------------------------------------------ *)
(** * The carry-less product                                           *)
(* ------------------------------------------------------------------ *)

Lemma clmul_0_l b : clmul 0 b = 0.
Proof. reflexivity. Qed.

Lemma clmul_1_l b : clmul 1 b = b.
Proof. reflexivity. Qed.

Lemma clmul_double_l a b : clmul (N.double a) b = N.double (clmul a b).
Proof. destruct a; reflexivity. Qed.

Lemma clmul_succ_double_l a b :
  clmul (N.succ_double a) b = N.lxor b (N.double (clmul a b)).
Proof. destruct a as [|p]; [|reflexivity]. cbn. now rewrite N.lxor_0_r. Qed.

(* (a + a') (x) b = a (x) b + a' (x) b *)
Lemma clmul_lxor_l a a' b :
  clmul (N.lxor a a') b = N.lxor (clmul a b) (clmul a' b).
Proof.
  revert a'. induction a as [|a IH|a IH] using N.binary_ind; intro a'.
  - now rewrite clmul_0_l, !N.lxor_0_l.
  - destruct (N_binary_cases a') as [[c ->]|[c ->]].
    + now rewrite lxor_dd, !clmul_double_l, IH, double_lxor.
    + rewrite lxor_ds, !clmul_succ_double_l, clmul_double_l, IH, double_lxor. xor_ring.
  - destruct (N_binary_cases a') as [[c ->]|[c ->]].
    + rewrite lxor_sd, !clmul_succ_double_l, clmul_double_l, IH, double_lxor. xor_ring.
    + rewrite lxor_ss, !clmul_succ_double_l, clmul_double_l, IH, double_lxor. xor_ring.
Qed.

(* x^k.a (x) b = x^k.(a (x) b) *)
Lemma clmul_shiftl_l a b k : clmul (N.shiftl a k) b = N.shiftl (clmul a b) k.
Proof.
  induction k as [|k IH] using N.peano_ind.
  - now rewrite !N.shiftl_0_r.
  - now rewrite !N.shiftl_succ_r, clmul_double_l, IH.
Qed.

(* sanity: [clmul] is the commutative, bilinear product with unit 1
   (not needed for the CRC theorems; pins down that it is the polynomial product) *)
Lemma clmul_0_r a : clmul a 0 = 0.
Proof.
  destruct a as [|p]; [reflexivity|]. cbn [clmul].
  induction p as [p IH|p IH|]; cbn [clmul_pos]; rewrite ?IH; reflexivity.
Qed.

Lemma clmul_1_r a : clmul a 1 = a.
Proof.
  destruct a as [|p]; [reflexivity|]. cbn [clmul].
  induction p as [p IH|p IH|]; cbn [clmul_pos]; rewrite ?IH; reflexivity.
Qed.

Lemma clmul_lxor_r a b c : clmul a (N.lxor b c) = N.lxor (clmul a b) (clmul a c).
Proof.
  destruct a as [|p]; [reflexivity|]. cbn [clmul].
  induction p as [p IH|p IH|]; cbn [clmul_pos]; rewrite ?IH, ?double_lxor;
    [xor_ring|reflexivity|reflexivity].
Qed.

Lemma clmul_double_r a b : clmul a (N.double b) = N.double (clmul a b).
Proof.
  destruct a as [|p]; [reflexivity|]. cbn [clmul].
  induction p as [p IH|p IH|]; cbn [clmul_pos]; rewrite ?IH, ?double_lxor; reflexivity.
Qed.

Lemma clmul_comm a b : clmul a b = clmul b a.
Proof.
  induction a as [|a IH|a IH] using N.binary_ind.
  - now rewrite clmul_0_l, clmul_0_r.
  - now rewrite clmul_double_l, clmul_double_r, IH.
  - rewrite clmul_succ_double_l, succ_double_lxor, clmul_lxor_r, clmul_double_r, clmul_1_r, IH.
    apply N.lxor_comm.
Qed.

Example clmul_ex1 : clmul 5 3 = 15.         (* (x^2+1)(x+1) = x^3+x^2+x+1 *)
Proof. reflexivity. Qed.
Example clmul_ex2 : clmul 3 3 = 5.   (* (x+1)^2 = x^2+1 *)
Proof. reflexivity. Qed.
Example popcount_ex : popcount 0x59 = 4 /\ popcount G = 14.
Proof. split; reflexivity. Qed.

(* constant term of a product *)
Lemma clmul_odd a b : N.odd (clmul a b) = N.odd a && N.odd b.
Proof.
  destruct a as [|[p|p|]].
  - reflexivity.
  - cbn [clmul clmul_pos]. rewrite <- !N.bit0_odd, N.lxor_spec, double_bits_0.
    now rewrite xorb_false_r.
  - cbn [clmul clmul_pos]. now rewrite <- !N.bit0_odd, double_bits_0.
  - cbn [clmul clmul_pos]. now destruct (N.odd b).
Qed.

(* degrees add *)
Lemma lxor_log2_lt a b : N.log2 a < N.log2 b -> N.log2 (N.lxor a b) = N.log2 b.
Proof.
  intro H. assert (Hb : b <> 0) by (intros ->; cbn in H; lia).
  apply N.log2_bits_unique.
  - now rewrite N.lxor_spec, N.bit_log2, N.bits_above_log2.
  - intros m Hm. rewrite N.lxor_spec, !N.bits_above_log2 by lia. reflexivity.
Qed.

Lemma clmul_pos_log2 p b : b <> 0 ->
  clmul_pos p b <> 0 /\ N.log2 (clmul_pos p b) = N.log2 (Npos p) + N.log2 b.
Proof.
  intro Hb. induction p as [p [IHz IHl]|p [IHz IHl]|]; cbn [clmul_pos].
  - set (c := clmul_pos p b) in *.
    assert (Hd : N.log2 (N.double c) = N.succ (N.log2 c))
      by (rewrite N.double_spec; apply N.log2_double; lia).
    assert (Hx : N.log2 (N.lxor b (N.double c)) = N.succ (N.log2 c))
      by (rewrite lxor_log2_lt; [exact Hd|lia]).
    split.
    + intro E. rewrite E in Hx. cbn in Hx. lia.
    + rewrite Hx, IHl. change (Npos p~1) with (2 * Npos p + 1).
      rewrite N.log2_succ_double by lia. lia.
  - set (c := clmul_pos p b) in *.
    assert (Hd : N.log2 (N.double c) = N.succ (N.log2 c))
      by (rewrite N.double_spec; apply N.log2_double; lia).
    split.
    + rewrite N.double_spec. lia.
    + rewrite Hd, IHl. change (Npos p~0) with (2 * Npos p).
      rewrite N.log2_double by lia. lia.
  - split; [exact Hb|]. change (N.log2 1) with 0. lia.
Qed.

Lemma clmul_log2 a b : a <> 0 -> b <> 0 ->
  N.log2 (clmul a b) = N.log2 a + N.log2 b.
Proof. intros Ha Hb. destruct a as [|p]; [congruence|]. now apply clmul_pos_log2. Qed.

Lemma clmul_nonzero a b : a <> 0 -> b <> 0 -> clmul a b <> 0.
Proof. intros Ha Hb. destruct a as [|p]; [congruence|]. now apply clmul_pos_log2. Qed.

(* a non-zero multiple of G has degree >= 24 *)
Lemma clmul_G_ge q : q <> 0 -> 2^24 <= clmul q G.
Proof.
  intro Hq.
  assert (HG : G <> 0) by discriminate.
  pose proof (clmul_nonzero q G Hq HG) as Hz.
  apply N.log2_le_pow2; [lia|].
  rewrite clmul_log2 by assumption. change (N.log2 G) with 24. lia.
Qed.

(* ------------------------------------------------------------------ *)
(** * The remainder                                                    *)
(* ------------------------------------------------------------------ *)

Theorem is_rem_unique n r1 r2 : is_rem n r1 -> is_rem n r2 -> r1 = r2.
Proof.
  intros [H1 [q1 E1]] [H2 [q2 E2]].
  assert (E : clmul (N.lxor q1 q2) G = N.lxor r1 r2).
  { rewrite clmul_lxor_l.
    assert (X : N.lxor (N.lxor (clmul q1 G) r1) (N.lxor (clmul q2 G) r2) = 0)
      by (rewrite E1, E2; apply N.lxor_nilpotent).
    rewrite <- (N.lxor_0_r (N.lxor (clmul q1 G) (clmul q2 G))), <- X. xor_ring. }
  destruct (N.eq_dec (N.lxor q1 q2) 0) as [Z|NZ].
  - rewrite Z, clmul_0_l in E. symmetry in E. now apply N.lxor_eq in E.
  - exfalso. apply clmul_G_ge in NZ. rewrite E in NZ.
    pose proof (lxor_lt r1 r2 24 H1 H2). lia.
Qed.

Lemma is_rem_lt n r : is_rem n r -> r < 2^24.
Proof. now intros [H _]. Qed.

Lemma is_rem_small r : r < 2^24 -> is_rem r r.
Proof. intro H. split; [exact H|]. exists 0. now rewrite clmul_0_l, N.lxor_0_l. Qed.

Lemma is_rem_0 : is_rem 0 0.
Proof. apply is_rem_small. reflexivity. Qed.

(* multiples of G have remainder 0, and conversely *)
Lemma is_rem_multiple q : is_rem (clmul q G) 0.
Proof. split; [reflexivity|]. exists q. apply N.lxor_0_r. Qed.

Lemma is_rem_0_multiple n : is_rem n 0 -> exists q, clmul q G = n.
Proof. intros [_ [q E]]. exists q. now rewrite N.lxor_0_r in E. Qed.

(* the remainder is additive *)
Lemma is_rem_lxor n m r s : is_rem n r -> is_rem m s -> is_rem (N.lxor n m) (N.lxor r s).
Proof.
  intros [Hr [q Eq]] [Hs [p Ep]]. split; [now apply lxor_lt|].
  exists (N.lxor q p). rewrite clmul_lxor_l, <- Eq, <- Ep. xor_ring.
Qed.

(* one long-division step *)
Lemma xstep_lt r : r < 2^24 -> xstep r < 2^24.
Proof.
  intro H. apply lt_pow2_bits. intros n Hn. unfold xstep. cbv zeta.
  assert (Hhi : 24 < n -> N.testbit (N.double r) n = false).
  { intro Hlt. rewrite double_bits_high by lia. apply (bits_above r 24); [exact H|lia]. }
  destruct (N.testbit (N.double r) 24) eqn:T.
  - rewrite N.lxor_spec. destruct (N.eq_dec n 24) as [->|Hne].
    + rewrite T. reflexivity.
    + rewrite Hhi by lia. rewrite (bits_above G 25) by (try lia; reflexivity). reflexivity.
  - destruct (N.eq_dec n 24) as [->|Hne]; [exact T|apply Hhi; lia].
Qed.

Lemma is_rem_step n r : is_rem n r -> is_rem (N.double n) (xstep r).
Proof.
  intros [Hr [q Hq]]. split; [now apply xstep_lt|].
  unfold xstep. cbv zeta. subst n. destruct (N.testbit (N.double r) 24).
  - exists (N.succ_double q). rewrite clmul_succ_double_l, double_lxor. xor_ring.
  - exists (N.double q). now rewrite clmul_double_l, double_lxor.
Qed.

Lemma is_rem_iter k n r : is_rem n r -> is_rem (N.shiftl n k) (N.iter k xstep r).
Proof.
  intro H. induction k as [|k IH] using N.peano_ind.
  - now rewrite N.shiftl_0_r.
  - rewrite N.shiftl_succ_r, N.iter_succ. now apply is_rem_step.
Qed.

(* the long division computes the remainder *)
Theorem is_rem_prem n : is_rem n (prem n).
Proof.
  destruct n as [|p]; [exact is_rem_0|]. cbn [prem].
  induction p as [p IH|p IH|]; cbn [prem_pos].
  - change (Npos p~1) with (N.succ_double (Npos p)). rewrite succ_double_lxor.
    apply is_rem_lxor; [now apply is_rem_step|]. apply is_rem_small. reflexivity.
  - change (Npos p~0) with (N.double (Npos p)). now apply is_rem_step.
  - apply is_rem_small. reflexivity.
Qed.

Corollary is_rem_iff n r : is_rem n r <-> r = prem n.
Proof.
  split.
  - intro H. exact (is_rem_unique n r (prem n) H (is_rem_prem n)).
  - intros ->. apply is_rem_prem.
Qed.

(* x^d mod G *)
Lemma is_rem_xpow d : is_rem (2^d) (xpow d).
Proof.
  unfold xpow. rewrite <- (N.mul_1_l (2^d)), <- N.shiftl_mul_pow2.
  apply is_rem_iter. apply is_rem_small. reflexivity.
Qed.

(* x is invertible modulo G (G has constant term 1) :
   if x^k.n is a multiple of G then n is a multiple of G *)
Lemma multiple_shiftl_cancel k : forall q n,
  clmul q G = N.shiftl n k -> exists q', clmul q' G = n.
Proof.
  induction k as [|k IH] using N.peano_ind; intros q n E.
  - rewrite N.shiftl_0_r in E. now exists q.
  - rewrite N.shiftl_succ_r in E.
    assert (Ho : N.odd q = false).
    { pose proof (clmul_odd q G) as Hc. rewrite E in Hc.
      rewrite <- N.bit0_odd, double_bits_0 in Hc. change (N.odd G) with true in Hc.
      now rewrite andb_true_r in Hc. }
    destruct (N_binary_cases q) as [[c ->]|[c ->]].
    + rewrite clmul_double_l in E. apply double_inj in E. now apply (IH c).
    + exfalso. rewrite succ_double_lxor, <- N.bit0_odd, N.lxor_spec, double_bits_0 in Ho.
      discriminate.
Qed.

(* a non-zero polynomial of degree < 24, times any power of x, is not a multiple of G *)
Lemma shiftl_small_not_multiple b k q : 0 < b < 2^24 -> clmul q G <> N.shiftl b k.
Proof.
  intros [Hb0 Hb] E. apply multiple_shiftl_cancel in E. destruct E as [q' E].
  destruct (N.eq_dec q' 0) as [->|NZ].
  - rewrite clmul_0_l in E. lia.
  - apply clmul_G_ge in NZ. lia.
Qed.

(* ------------------------------------------------------------------ *)
(** * Parity (evaluation at x = 1)                                     *)
(* ------------------------------------------------------------------ *)

Definition parity (n:N) : bool := N.odd (popcount n).

Lemma parity_double a : parity (N.double a) = parity a.
Proof. destruct a; reflexivity. Qed.

Lemma parity_succ_double a : parity (N.succ_double a) = negb (parity a).
Proof.
  destruct a as [|p]; [reflexivity|]. unfold parity. cbn [N.succ_double popcount popcount_pos].
  now rewrite N.odd_succ, <- N.negb_odd.
Qed.

Lemma parity_lxor a b : parity (N.lxor a b) = xorb (parity a) (parity b).
Proof.
  revert b. induction a as [|a IH|a IH] using N.binary_ind; intro b.
  - rewrite N.lxor_0_l. change (parity 0) with false. now destruct (parity b).
  - destruct (N_binary_cases b) as [[c ->]|[c ->]].
    + now rewrite lxor_dd, !parity_double, IH.
    + rewrite lxor_ds, !parity_succ_double, parity_double, IH.
      now destruct (parity a), (parity c).
  - destruct (N_binary_cases b) as [[c ->]|[c ->]].
    + rewrite lxor_sd, !parity_succ_double, parity_double, IH.
      now destruct (parity a), (parity c).
    + rewrite lxor_ss, !parity_succ_double, parity_double, IH.
      now destruct (parity a), (parity c).
Qed.

Lemma parity_shiftl a k : parity (N.shiftl a k) = parity a.
Proof.
  induction k as [|k IH] using N.peano_ind.
  - now rewrite N.shiftl_0_r.
  - now rewrite N.shiftl_succ_r, parity_double.
Qed.

Lemma parity_clmul a b : parity (clmul a b) = parity a && parity b.
Proof.
  induction a as [|a IH|a IH] using N.binary_ind.
  - reflexivity.
  - now rewrite clmul_double_l, !parity_double.
  - rewrite clmul_succ_double_l, parity_lxor, parity_double, parity_succ_double, IH.
    now destruct (parity a), (parity b).
Qed.

(* G has an even number of terms, i.e. (x+1) | G : every multiple of G has even weight *)
Lemma parity_multiple q : parity (clmul q G) = false.
Proof. rewrite parity_clmul. change (parity G) with false. apply andb_false_r. Qed.

(* ------------------------------------------------------------------ *)
(** * Sweep over the powers of x (for the order of x modulo G)         *)
(* ------------------------------------------------------------------ *)

(* after n steps: (x^n mod G, "x^d mod G <> 1 for all 0 < d <= n") *)
Definition sweep_step (st : N * bool) : N * bool :=
  let s' := xstep (fst st) in (s', snd st && negb (s' =? 1)).
Definition sweep (n:N) : N * bool := N.iter n sweep_step (1, true).

Lemma sweep_fst n : fst (sweep n) = xpow n.
Proof.
  unfold sweep, xpow. induction n as [|n IH] using N.peano_ind; [reflexivity|].
  rewrite !N.iter_succ. unfold sweep_step at 1. cbn [fst]. now rewrite IH.
Qed.

Lemma sweep_sound n : snd (sweep n) = true -> forall d, 0 < d <= n -> xpow d <> 1.
Proof.
  induction n as [|n IH] using N.peano_ind; intros H d Hd; [lia|].
  unfold sweep in H. rewrite N.iter_succ in H. fold (sweep n) in H.
  unfold sweep_step in H. cbn [snd] in H. apply andb_true_iff in H. destruct H as [H1 H2].
  destruct (N.eq_dec d (N.succ n)) as [->|Hne].
  - rewrite sweep_fst in H2. apply negb_true_iff, N.eqb_neq in H2.
    unfold xpow. now rewrite N.iter_succ.
  - apply IH; [exact H1|lia].
Qed.

(* x^d = 1 (mod G) is the same as xpow d = 1 *)
Lemma xpow_1_iff d : xpow d = 1 <-> exists q, clmul q G = N.lxor (2^d) 1.
Proof.
  split.
  - intro E. destruct (is_rem_xpow d) as [_ [q Hq]]. exists q. rewrite E in Hq.
    rewrite <- Hq. xor_ring.
  - intros [q Hq]. apply (is_rem_unique (2^d)); [apply is_rem_xpow|].
    split; [reflexivity|]. exists q. rewrite Hq. xor_ring.
Qed.
