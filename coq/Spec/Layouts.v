(* Decidable checks on the regenerated tables for C10 (and the static well-formedness shared with C03/C04):
   well-formed layouts, length polynomials against the pinned ones, sibling relations.  All functions are total and
   meant to be evaluated by vm_compute on the concrete tables of the working tree. *)
From Coq Require Import NArith ZArith List String Ascii Bool PrimFloat.
From PyRtcm Require Import Base.Bytes Base.Dec Model.Types Model.Message Spec.PinnedLengths.
Import ListNotations.
Open Scope string_scope.
Infix "+s+" := String.append (at level 60, right associativity).

Section L.
Variable T : tables.

Definition all_layouts : list (string * body) := (t_get T ++ t_msm T ++ t_igs T)%list.

(* ---------- field sequences ---------- *)
Fixpoint keys_item (lbl:string) (it:item) : list string :=
  match it with
  | IField _ => [lbl]
  | IGroup _ b => keys_body b
  | IOpt _ _ b => keys_body b
  | IBad _ => []
  end
with keys_body (b:body) : list string :=
  match b with
  | BNotDict _ => []
  | BItems l => (fix go (l:list (string*item)) : list string :=
                   match l with [] => [] | (lbl,it)::r => (keys_item lbl it ++ go r)%list end) l
  end.

(* keys of the i-th top-level group *)
Definition top_groups (b:body) : list (list string) :=
  match b with
  | BNotDict _ => []
  | BItems l => flat_map (fun '(lbl,it) => match it with IGroup _ g => [keys_body g] | IOpt _ _ g => [keys_body g] | _ => [] end) l
  end.

(* normalised shape of a data field: signedness class, width, scaling *)
Inductive sclass := SUnsigned | STwos | SSignMag | SChar | SLabel.
Definition sclass_of (t:dtype) : sclass :=
  match t with TINT => STwos | TSNT => SSignMag | TCHA | TSTR => SChar | TPRN | TCPR | TCSG => SLabel | _ => SUnsigned end.
Definition sclass_eqb (a b:sclass) : bool :=
  match a, b with SUnsigned,SUnsigned | STwos,STwos | SSignMag,SSignMag | SChar,SChar | SLabel,SLabel => true | _,_ => false end.
Definition res_eqb (a b:res) : bool :=
  match a, b with
  | RInt x, RInt y => (x =? y)%Z || (((x =? 0)%Z || (x =? 1)%Z) && ((y =? 0)%Z || (y =? 1)%Z))
  | RFloat f, RFloat g => (f =? g)%float
  | _, _ => false
  end.
Definition shape_eqb (k1 k2:string) : bool :=
  match find_field T k1, find_field T k2 with
  | Some a, Some b => sclass_eqb (sclass_of (df_ty a)) (sclass_of (df_ty b)) && (df_bits a =? df_bits b)%Z && res_eqb (df_res a) (df_res b)
  | _, _ => false
  end.
Fixpoint list_eqb {A} (e:A -> A -> bool) (a b:list A) : bool :=
  match a, b with [], [] => true | x::r, y::t => e x y && list_eqb e r t | _, _ => false end.
Fixpoint is_subseq (a b:list string) : bool :=
  match a, b with
  | [], _ => true
  | _, [] => false
  | x::r, y::t => if String.eqb x y then is_subseq r t else is_subseq a t
  end.
Fixpoint drop_until (k:string) (l:list string) : list string :=
  match l with [] => [] | x::r => if String.eqb x k then l else drop_until k r end.

Definition layout (ident:string) : option body := assoc ident all_layouts.
Definition keys_of (ident:string) : list string := match layout ident with Some b => keys_body b | None => [] end.
Definition group1 (ident:string) : list string := match layout ident with Some b => hd [] (top_groups b) | None => [] end.
Definition groups_flat (ident:string) : list string := match layout ident with Some b => List.concat (top_groups b) | None => [] end.
Definition has (ident:string) : bool := match layout ident with Some _ => true | None => false end.

(* ---------- static well-formedness of one layout ---------- *)
Definition unit_int_field (k:string) : bool :=
  match find_field T k with
  | Some fd => res_is_unit (df_res fd) && match df_ty fd with TBIT | TBITX | TUINT | TINT | TSNT => true | _ => false end
  | None => false
  end.
Definition count_base (key:string) : string * nat :=
  match split_plus key with
  | (k, None) => (k, O)
  | (k, Some nl) => (k, match N_of_str nl with Some n => N.to_nat n | None => 99%nat end)
  end.
Definition mem (k:string) (l:list string) : bool := existsb (String.eqb k) l.
(* derived names made available by a field *)
Definition provides (k:string) : list string :=
  if String.eqb k "DF394" then [k; t_nsat T] else if String.eqb k "DF395" then [k; t_nsig T]
  else if String.eqb k "DF396" then [k; t_ncell T] else if String.eqb k "IDF038" then [k; t_nharmc T; t_nharms T] else [k].
Definition derived (k:string) : bool :=
  String.eqb k (t_nsat T) || String.eqb k (t_nsig T) || String.eqb k (t_ncell T) || String.eqb k (t_nharmc T) || String.eqb k (t_nharms T).

(* walks the layout keeping the set of names defined so far and the nesting depth; returns problems found *)
Fixpoint wf_item (depth:nat) (seen:list string) (lbl:string) (it:item) : list string * list string :=   (* problems, seen' *)
  match it with
  | IField _ =>
      match find_field T lbl with
      | None => (["undefined data field " +s+ lbl], seen)
      | Some fd =>
          ((match df_res fd with RBad w => ["bad resolution of " +s+ lbl] | _ => [] end) ++
           (match df_ty fd with
            | TOther s => ["unknown data type of " +s+ lbl]
            | TINT | TSNT => if (df_bits fd <? 1)%Z then ["width < 1 for signed field " +s+ lbl] else []
            | TCHA | TSTR => if res_is_unit (df_res fd) && (df_bits fd =? 8)%Z then [] else ["text field not 8 unscaled bits: " +s+ lbl]
            | TPRN | TCPR | TCSG => if (df_bits fd =? 0)%Z && (0 <? depth)%nat then [] else ["label field with width or outside a group: " +s+ lbl]
            | _ => if (df_bits fd <? 0)%Z then ["negative width " +s+ lbl] else []
            end) ++
           (match df_res fd with RFloat _ => if (53 <? df_bits fd)%Z then ["scaled field wider than 53 bits: " +s+ lbl] else [] | _ => [] end) ++
           (if String.eqb lbl "DF396" then (if mem (t_nsat T) seen && mem (t_nsig T) seen then [] else ["DF396 before DF394/DF395"]) else []) ++
           (if String.eqb lbl "IDF038" then (if mem "IDF037" seen && (0 <? depth)%nat then [] else ["IDF038 without IDF037 / outside a group"]) else []),
           (provides lbl ++ seen))%list
      end
  | IBad w => (["malformed item " +s+ lbl +s+ ": " +s+ w], seen)
  | IGroup c b =>
      let pc := match c with
                | CFixed n => if (n <? 0)%Z || (max_count <? n)%Z then ["fixed count out of range in " +s+ lbl] else []
                | CBad w => ["malformed count in " +s+ lbl +s+ ": " +s+ w]
                | CNamed key =>
                    let '(k, n) := count_base key in
                    (if mem k seen then [] else ["count " +s+ key +s+ " of " +s+ lbl +s+ " refers to a field not decoded earlier"]) ++
                    (if (n <=? depth)%nat then [] else ["count " +s+ key +s+ " needs more index levels than its nesting depth"]) ++
                    (if derived k || unit_int_field k then [] else ["count field " +s+ k +s+ " is not an unscaled integer"])
                end%list in
      let '(pb, seen') := wf_body (S depth) seen b in ((pc ++ pb)%list, seen')
  | IOpt k con b =>
      let pc := ((if mem k seen then [] else ["condition " +s+ k +s+ " of " +s+ lbl +s+ " refers to a field not decoded earlier"]) ++
                 (if unit_int_field k then [] else ["condition field " +s+ k +s+ " is not an unscaled integer"]))%list in
      let '(pb, seen') := wf_body depth seen b in ((pc ++ pb)%list, seen')
  end
with wf_body (depth:nat) (seen:list string) (b:body) : list string * list string :=
  match b with
  | BNotDict w => (["group body is not a dict: " +s+ w], seen)
  | BItems l =>
      (fix go (l:list (string*item)) (seen:list string) : list string * list string :=
         match l with
         | [] => ([], seen)
         | (lbl,it)::r => let '(p1, s1) := wf_item depth seen lbl it in let '(p2, s2) := go r s1 in ((p1 ++ p2)%list, s2)
         end) l seen
  end.

Definition layout_problems : list (string * string) :=
  flat_map (fun '(ident, b) => map (fun w => (ident, w)) (fst (wf_body O [] b))) all_layouts.

(* ---------- length polynomial ---------- *)
Fixpoint padd1 (p:list string) (c:Z) (q:poly) : poly :=
  match q with
  | [] => [(p, c)]
  | (p', c')::r => if list_eqb String.eqb p p' then (p', (c + c')%Z)::r else (p', c')::padd1 p c r
  end.
Definition padd (a b:poly) : poly := fold_left (fun acc '(p,c) => padd1 p c acc) a b.
Definition pscale (n:Z) (a:poly) : poly := map (fun '(p,c) => (p, (c*n)%Z)) a.
Definition pnorm (a:poly) : poly := filter (fun '(_,c) => negb (c =? 0)%Z) (padd a []).

Fixpoint poly_item (path:list string) (lbl:string) (it:item) : poly :=
  match it with
  | IField _ =>
      match find_field T lbl with
      | Some fd => if String.eqb lbl "DF396" then [((path ++ ["#NSat"; "#NSig"])%list, 1%Z)] else [(path, df_bits fd)]
      | None => [(["!undefined " +s+ lbl], 1%Z)]
      end
  | IBad w => [(["!bad"], 1%Z)]
  | IGroup (CFixed n) b => pscale n (poly_body path b)
  | IGroup (CNamed k) b => poly_body (path ++ [k])%list b
  | IGroup (CBad _) _ => [(["!badcount"], 1%Z)]
  | IOpt k con b => poly_body (path ++ ["?" +s+ k +s+ "=" +s+ str_of_Z con])%list b
  end
with poly_body (path:list string) (b:body) : poly :=
  match b with
  | BNotDict _ => [(["!notdict"], 1%Z)]
  | BItems l => (fix go (l:list (string*item)) : poly :=
                   match l with [] => [] | (lbl,it)::r => (poly_item path lbl it ++ go r)%list end) l
  end.

Definition mono_eqb (a b:list string * Z) : bool := list_eqb String.eqb (fst a) (fst b) && (snd a =? snd b)%Z.
Definition poly_sub (a b:poly) : bool := forallb (fun m => existsb (mono_eqb m) b) a.
Definition poly_eqb (a b:poly) : bool := let a' := pnorm a in let b' := pnorm b in poly_sub a' b' && poly_sub b' a'.

(* identities that have both a layout and a pin, and whose polynomial differs from the pin *)
Definition length_mismatches : list string :=
  flat_map (fun '(ident, pin) => match layout ident with
                                 | Some b => if poly_eqb (poly_body [] b) pin then [] else [ident]
                                 | None => []
                                 end) pinned_lengths.

(* ---------- sibling relations (each applies only when all identities involved have a layout) ---------- *)
Definition when (ids:list string) (c:bool) : bool := if forallb has ids then c else true.
Definition keq := list_eqb String.eqb.
Definition sheq := list_eqb shape_eqb.

Definition combined_ok (comb orb clk:string) : bool :=
  when [comb; orb; clk] (keq (group1 comb) (group1 orb ++ tl (group1 clk))%list).
Definition extends_ok (small big:string) : bool := when [small; big] (is_subseq (keys_of small) (keys_of big)).
Definition same_shape_groups (a b:string) : bool := when [a; b] (sheq (groups_flat a) (groups_flat b)).
Definition msm_tail (ident:string) : list string := drop_until "DF393" (keys_of ident).
Definition msm_level_ok (lvl:string) : bool :=
  let ids := map (fun c => c +s+ lvl) ["107"; "108"; "109"; "110"; "111"; "112"; "113"] in
  let present := filter has ids in
  match present with
  | [] => true
  | i0::r => forallb (fun i => sheq (msm_tail i0) (msm_tail i) && negb (match msm_tail i with [] => true | _ => false end)) present
  end.
Definition igs_cons : list string := ["02"; "04"; "06"; "08"; "10"; "12"].

Definition sibling_checks : list (string * bool) :=
  ([("1060 = 1057 + 1058", combined_ok "1060" "1057" "1058");
    ("1066 = 1063 + 1064", combined_ok "1066" "1063" "1064")] ++
   map (fun c => ("4076_0" +s+ c +s+ "3 = 4076_0" +s+ c +s+ "1 + 4076_0" +s+ c +s+ "2",
                  combined_ok ("4076_0" +s+ c +s+ "3") ("4076_0" +s+ c +s+ "1") ("4076_0" +s+ c +s+ "2"))) ["2"; "4"; "6"; "8"] ++
   [("4076_103 = 4076_101 + 4076_102", combined_ok "4076_103" "4076_101" "4076_102");
    ("4076_123 = 4076_121 + 4076_122", combined_ok "4076_123" "4076_121" "4076_122")] ++
   map (fun '(a,b) => (a +s+ " ~ " +s+ b, same_shape_groups a b))
       [("4076_021","1057"); ("4076_022","1058"); ("4076_023","1060"); ("4076_024","1062"); ("4076_025","1059"); ("4076_027","1061")] ++
   (* all IGS constellations share the block layouts of the GPS ones *)
   flat_map (fun c => map (fun k => ("4076_" +s+ c +s+ k +s+ " ~ 4076_02" +s+ k, same_shape_groups ("4076_" +s+ c +s+ k) ("4076_02" +s+ k)))
                          ["1";"2";"3";"4";"5";"6";"7"]) ["04"; "06"; "08"; "10"; "12"] ++
   map (fun '(a,b) => (a +s+ " <= " +s+ b, extends_ok a b))
       [("1001","1002"); ("1002","1004"); ("1001","1003"); ("1003","1004"); ("1009","1010"); ("1010","1012"); ("1009","1011"); ("1011","1012");
        ("1005","1006"); ("1007","1008"); ("1008","1033"); ("1015","1017"); ("1016","1017"); ("1037","1039"); ("1038","1039"); ("1021","1022")] ++
   flat_map (fun c => map (fun '(a,b) => (c +s+ a +s+ " <= " +s+ c +s+ b, extends_ok (c +s+ a) (c +s+ b))) [("1","3"); ("2","3"); ("3","4"); ("4","5"); ("6","7")])
            ["107"; "108"; "109"; "110"; "111"; "112"; "113"] ++
   map (fun l => ("MSM" +s+ l +s+ " shared by all constellations", msm_level_ok l)) ["1";"2";"3";"4";"5";"6";"7"])%list.

Definition sibling_failures : list string := map fst (filter (fun kv => negb (snd kv)) sibling_checks).

End L.
