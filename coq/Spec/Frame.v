(* Specification vocabulary for the stream reader theorems (C01, C04 reader part, C17):
   what a well-formed RTCM3 transport frame is, what its payload is, and how a stream decomposes
   into gaps and frames.  Independent of the reader code (only the result type is borrowed). *)
From Coq Require Import NArith ZArith List Lia.
From Coq.Strings Require Import Byte.
From PyRtcm Require Import Base.Bytes Model.Types Model.Crc Model.Reader.
Import ListNotations.
Local Open Scope nat_scope.

(* message[3:-3] *)
Definition payload_of (raw:bytes) : bytes := firstn (length raw - 6) (skipn 3 raw).

(* preamble 0xD3, six zero bits, 10-bit length equal to the enclosed payload size, three trailer bytes *)
Definition frame_shape (raw:bytes) : Prop :=
  exists b1 b2 p c, raw = [xd3; b1; b2] ++ p ++ c /\ (bN b1 < 4)%N /\
    length p = N.to_nat (bN b1 * 256 + bN b2) /\ length c = 3.

(* ... and the CRC-24Q over the whole frame checks *)
Definition wf_frame (raw:bytes) : Prop :=
  exists b1 b2 p c, raw = [xd3; b1; b2] ++ p ++ c /\ (bN b1 < 4)%N /\
    length p = N.to_nat (bN b1 * 256 + bN b2) /\ length c = 3 /\ calc_crc24q raw = 0%N.

Lemma wf_frame_shape raw : wf_frame raw -> frame_shape raw.
Proof. intros (b1 & b2 & p & c & H1 & H2 & H3 & H4 & _). exists b1, b2, p, c. auto. Qed.

Lemma wf_frame_iff raw : wf_frame raw <-> frame_shape raw /\ calc_crc24q raw = 0%N.
Proof.
  split.
  - intros (b1 & b2 & p & c & H1 & H2 & H3 & H4 & H5). split; [exists b1, b2, p, c|]; auto.
  - intros [(b1 & b2 & p & c & H1 & H2 & H3 & H4) H5]. exists b1, b2, p, c. auto.
Qed.

Lemma payload_of_hdr3 (h p c:bytes) : length h = 3 -> length c = 3 -> payload_of (h ++ p ++ c) = p.
Proof.
  intros Hh Hc. unfold payload_of.
  rewrite !app_length, Hh, Hc.
  replace (3 + (length p + 3) - 6) with (length p + 0) by lia.
  rewrite <- Hh, skipn_app, skipn_all, Nat.sub_diag. cbn [skipn app].
  rewrite firstn_app_2. cbn [firstn]. apply app_nil_r.
Qed.

Lemma payload_of_frame b1 b2 (p c:bytes) : length c = 3 -> payload_of ([xd3; b1; b2] ++ p ++ c) = p.
Proof. intro Hc. apply payload_of_hdr3; auto. Qed.

Lemma frame_shape_length raw : frame_shape raw -> 6 <= length raw.
Proof.
  intros (b1 & b2 & p & c & H1 & _ & _ & H4). subst raw.
  rewrite !app_length, H4. simpl. lia.
Qed.

(* g1 ++ raw1 ++ g2 ++ raw2 ++ ... ++ gk ++ rawk *)
Fixpoint interleave (gaps raws : list bytes) : bytes :=
  match gaps, raws with
  | g :: gs, r :: rs => g ++ r ++ interleave gs rs
  | _, _ => []
  end.

(* the (raw, parsed) pairs returned by a sequence of read() calls, in order *)
Fixpoint yields {M} (evs : list (list liberr * rd_result M)) : list (bytes * option M) :=
  match evs with
  | [] => []
  | (_, RYield raw m) :: r => (raw, m) :: yields r
  | _ :: r => yields r
  end.
