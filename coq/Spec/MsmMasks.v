(* C09 specification: what the MSM satellite / signal / cell masks mean, stated on MSB-first bit
   lists and independent of pyrtcm's loops (no shifts, no Z.testbit, no model function used here).

   RTCM 10403.3, MSM header: DF394 is a 64-bit mask whose most significant bit is satellite ID 1,
   DF395 a 32-bit mask whose most significant bit is signal ID 1, DF396 a mask of NSat*NSig bits,
   satellite-major (all signals of the first satellite first).  No proofs in this file. *)
From Coq Require Import NArith ZArith List String Bool.
From PyRtcm Require Import Base.Bytes.
Import ListNotations.
Open Scope Z_scope.

(* 1-based indices of the true entries, increasing; entry 1 is the head (= most significant bit) *)
Fixpoint positions_from (i:Z) (l:list bool) : list Z :=
  match l with
  | [] => []
  | b :: r => if b then i :: positions_from (i+1) r else positions_from (i+1) r
  end.
Definition positions (l:list bool) : list Z := positions_from 1 l.

(* the w low bits of a mask value, most significant first *)
Definition mask_bits (w:nat) (m:Z) : list bool := bits_of w (Z.to_N m).

Definition sat_ids (df394:Z) : list Z := positions (mask_bits 64 df394).
Definition sig_ids (df395:Z) : list Z := positions (mask_bits 32 df395).

(* the entries of l standing where bs is true *)
Fixpoint select {A} (bs:list bool) (l:list A) : list A :=
  match bs, l with
  | b :: bs', x :: l' => if b then x :: select bs' l' else select bs' l'
  | _, _ => []
  end.

(* satellite-major grid of (satellite, signal) *)
Definition cell_pairs {A B} (sats:list A) (sigs:list B) : list (A*B) :=
  flat_map (fun s => map (fun g => (s, g)) sigs) sats.

Definition cells {A B} (sats:list A) (sigs:list B) (df396:Z) : list (A*B) :=
  select (mask_bits (List.length sats * List.length sigs) df396) (cell_pairs sats sigs).

(* Python dict {1: l[0], 2: l[1], ...} in insertion order *)
Definition number {A} (l:list A) : list (Z*A) := combine (map Z.of_nat (seq 1 (List.length l))) l.

(* dict.get with default *)
Definition zlookup {A} (id:Z) (tab:list (Z*A)) : option A :=
  option_map snd (find (fun kv => fst kv =? id) tab).

Definition prn_label (prnmap:list (Z*string)) (na:string) (id:Z) : string :=
  match zlookup id prnmap with Some s => s | None => na end.

(* rinex = true: RINEX observation code (labelmsm <> 2); false: frequency band (labelmsm = 2) *)
Definition sig_label (sigmap:list (Z*(string*string))) (na:string) (rinex:bool) (id:Z) : string :=
  match zlookup id sigmap with
  | Some (band, code) => if rinex then code else band
  | None => na
  end.

(* the two maps an MSM message must carry after its three masks have been decoded *)
Definition spec_satmap prnmap (na:string) (df394:Z) : list (Z*string) :=
  number (map (prn_label prnmap na) (sat_ids df394)).

Definition spec_cellmap prnmap sigmap (na:string) (rinex:bool) (df394 df395 df396:Z) : list (Z*(string*string)) :=
  number (map (fun '(s, g) => (prn_label prnmap na s, sig_label sigmap na rinex g))
              (cells (sat_ids df394) (sig_ids df395) df396)).
