(* Decidable table conditions under which the model of the message constructor never answers `Unmodelled`
   (Proofs/DecodeTotal.v).  Evaluated by vm_compute on the regenerated tables at every run.
   Ideas: attribute names are only ever read back (a) as repeat counts - base key plus index suffixes,
   (b) as conditions, (c) as mask / mask-count / harmonic-degree attributes; a field can only write names
   that extend its key.  So it is enough that every field whose key is prefix-comparable with a name that is
   read back stores a small unscaled integer.  No proofs in this file. *)
From Coq Require Import NArith ZArith List String Ascii Bool PrimFloat.
From PyRtcm Require Import Base.Bytes Base.Dec Model.Types Model.Message Spec.Layouts.
Import ListNotations.
Open Scope string_scope.
Open Scope list_scope.
Open Scope Z_scope.

(* resolutions for which `scale` multiplies by a float *)
Definition is_float_res (r:res) : bool :=
  match r with RFloat f => negb ((f =? 0)%float || (f =? 1)%float) | _ => false end.
(* data types whose value goes through `scale` *)
Definition uses_scale (t:dtype) : bool :=
  match t with TCHA | TSTR | TPRN | TCPR | TCSG => false | _ => true end.

Definition comparable (a b:string) : bool := String.prefix a b || String.prefix b a.

(* base keys of the named repeat counts, and condition keys, of a layout *)
Fixpoint bases_item (it:item) : list string :=
  match it with
  | IGroup c b => (match c with CNamed key => [fst (split_plus key)] | _ => [] end) ++ bases_body b
  | IOpt _ _ b => bases_body b
  | _ => []
  end
with bases_body (b:body) : list string :=
  match b with
  | BNotDict _ => []
  | BItems l => (fix go (l:list (string*item)) : list string :=
                   match l with [] => [] | (_, it) :: r => bases_item it ++ go r end) l
  end.

Fixpoint conds_item (it:item) : list string :=
  match it with
  | IGroup _ b => conds_body b
  | IOpt k _ b => k :: conds_body b
  | _ => []
  end
with conds_body (b:body) : list string :=
  match b with
  | BNotDict _ => []
  | BItems l => (fix go (l:list (string*item)) : list string :=
                   match l with [] => [] | (_, it) :: r => conds_item it ++ go r end) l
  end.

(* static shape of a layout: no malformed node, fixed counts within the model bound, "+n" parses *)
Definition count_ok (c:count) : bool :=
  match c with
  | CFixed n => (n <=? max_count)
  | CBad _ => false
  | CNamed key =>
      match split_plus key with
      | (_, None) => true
      | (_, Some nl) => contains "+" nl || match N_of_str nl with Some _ => true | None => false end
      end
  end.

Fixpoint tot_item (it:item) : bool :=
  match it with
  | IField _ => true
  | IBad _ => false
  | IGroup c b => count_ok c && tot_body b
  | IOpt _ _ b => tot_body b
  end
with tot_body (b:body) : bool :=
  match b with
  | BNotDict _ => false
  | BItems l => (fix go (l:list (string*item)) : bool :=
                   match l with [] => true | (_, it) :: r => tot_item it && go r end) l
  end.

Section W.
Variable T : tables.

Definition bases : list string := flat_map (fun ib => bases_body (snd ib)) (all_layouts T).
Definition conds : list string := flat_map (fun ib => conds_body (snd ib)) (all_layouts T).

Definition cap_harm : Z := 511.          (* harmonic degree / order attributes *)
Definition cap_mask : Z := 1023.         (* NSat, NSig *)
Definition cap_count : Z := 1048575.     (* repeat counts: max_count - 1 *)

(* bound required of an integer stored under attribute name nm *)
Definition cap (nm:string) : option Z :=
  if String.prefix "IDF037_" nm || String.prefix "IDF038_" nm then Some cap_harm
  else if String.eqb nm (t_nsat T) || String.eqb nm (t_nsig T) then Some cap_mask
  else if existsb (fun b => String.prefix b nm) bases then Some cap_count
  else None.

(* the strongest bound any attribute written by a field with key k may be subject to *)
Definition kcap (k:string) : option Z :=
  if comparable k "IDF037_" || comparable k "IDF038_" then Some cap_harm
  else if String.prefix k (t_nsat T) || String.prefix k (t_nsig T) then Some cap_mask
  else if existsb (comparable k) bases then Some cap_count
  else None.

(* names read back for which only "not a float" matters *)
Definition plain_reads : list string := conds ++ [t_nsat T; t_nsig T; "DF394"; "DF395"; "DF396"].

Definition int_fits (fd:dfield) (c:Z) : bool :=
  res_is_unit (df_res fd) && negb (String.eqb (df_key fd) "DF396") && (df_bits fd <=? 20) && (2^(df_bits fd) - 1 <=? c).

Definition field_ok (fd:dfield) : bool :=
  let k := df_key fd in
  if uses_scale (df_ty fd) then
    match df_res fd with RBad _ => false | _ => true end &&
    (if is_float_res (df_res fd)
     then (df_bits fd <=? 53) && negb (String.eqb k "DF396") &&
          match kcap k with None => true | Some _ => false end &&
          negb (existsb (String.prefix k) plain_reads)
     else match kcap k with Some c => int_fits fd c | None => true end)
  else match df_ty fd with TCHA => res_is_unit (df_res fd) | _ => true end.

Definition cap_allows (nm:string) (c:Z) : bool :=
  match cap nm with Some c' => (c <=? c') | None => true end.

Definition derived_ok : bool :=
  (match find_field T "DF394" with Some fd => cap_allows (t_nsat T) (df_bits fd) | None => true end) &&
  (match find_field T "DF395" with Some fd => cap_allows (t_nsig T) (df_bits fd) | None => true end) &&
  cap_allows (t_ncell T) cap_count && cap_allows (t_nharmc T) cap_count && cap_allows (t_nharms T) cap_count.

Definition tables_total_ok : bool :=
  (match layout_problems T with [] => true | _ => false end) &&
  forallb field_ok (t_fields T) && derived_ok &&
  forallb (fun ib => tot_body (snd ib)) (all_layouts T).

(* diagnostics: which fields fail *)
Definition bad_fields : list string := map df_key (filter (fun fd => negb (field_ok fd)) (t_fields T)).
End W.
