(* CPython's repr() of a bytes object and the reading of a bytes literal, as functions on byte lists.
   Used by C07: evaluating repr(msg), i.e. the text RTCMMessage(payload=<bytes literal>), rebuilds a message
   with the same payload.

   pyrepr mirrors Objects/bytesobject.c:PyBytes_Repr(smartquotes=1):
     - the delimiter is the single quote 0x27, unless the data contains 0x27 and does not contain the
       double quote 0x22 (then the delimiter is 0x22)
     - the delimiter and the backslash are written with a preceding backslash
     - TAB, LF, CR are written backslash-t, backslash-n, backslash-r
     - bytes below 0x20 and from 0x7f up are written backslash-x and two lower-case hex digits
     - everything else is written as it is
   pyeval reads a bytes literal: prefix b or B, either delimiter, the escapes backslash followed by one of
   backslash, 0x27, 0x22, t, n, r, or x and two hex digits (either case); anything else inside the literal is
   None = outside the modelled subset (a conservative subset of Python's lexer: everything pyrepr can emit
   is inside). *)
From Coq Require Import NArith List Bool String.
From Coq.Strings Require Import Byte.
From PyRtcm Require Import Base.Bytes.
Import ListNotations.
Open Scope list_scope.

Definition q1  : byte := x27.   (* single quote *)
Definition q2  : byte := x22.   (* double quote *)
Definition bsl : byte := x5c.   (* backslash *)

Definition has (c:byte) (b:bytes) : bool := existsb (Byte.eqb c) b.
Definition quote_of (b:bytes) : byte := if has q1 b && negb (has q2 b) then q2 else q1.

Definition hexdigit (n:N) : byte :=
  nth (N.to_nat n) [x30;x31;x32;x33;x34;x35;x36;x37;x38;x39;x61;x62;x63;x64;x65;x66] x30.

Definition esc (q c:byte) : bytes :=
  if Byte.eqb c q || Byte.eqb c bsl then [bsl; c]
  else if Byte.eqb c x09 then [bsl; x74]
  else if Byte.eqb c x0a then [bsl; x6e]
  else if Byte.eqb c x0d then [bsl; x72]
  else if (bN c <? 32)%N || (127 <=? bN c)%N then [bsl; x78; hexdigit (bN c / 16); hexdigit (bN c mod 16)]
  else [c].

Definition pyrepr (b:bytes) : bytes :=
  let q := quote_of b in [x62; q] ++ flat_map (esc q) b ++ [q].

(* ---- reading a literal ---- *)
Definition hexval (c:byte) : option N :=
  let n := bN c in
  if (48 <=? n)%N && (n <=? 57)%N then Some (n - 48)%N
  else if (97 <=? n)%N && (n <=? 102)%N then Some (n - 87)%N
  else if (65 <=? n)%N && (n <=? 70)%N then Some (n - 55)%N
  else None.

Fixpoint eval_body (q:byte) (s:bytes) {struct s} : option bytes :=
  match s with
  | [] => None                                                   (* unterminated literal *)
  | c :: r =>
      if Byte.eqb c q then (match r with [] => Some [] | _ :: _ => None end)   (* closing quote must end the input *)
      else if Byte.eqb c bsl then
        match r with
        | [] => None
        | e :: r1 =>
            if Byte.eqb e bsl || Byte.eqb e q1 || Byte.eqb e q2 then option_map (cons e) (eval_body q r1)
            else if Byte.eqb e x74 then option_map (cons x09) (eval_body q r1)
            else if Byte.eqb e x6e then option_map (cons x0a) (eval_body q r1)
            else if Byte.eqb e x72 then option_map (cons x0d) (eval_body q r1)
            else if Byte.eqb e x78 then
              match r1 with
              | h1 :: h2 :: r2 =>
                  match hexval h1, hexval h2 with
                  | Some a, Some b => option_map (cons (byte_of_N (a * 16 + b))) (eval_body q r2)
                  | _, _ => None
                  end
              | _ => None
              end
            else None
        end
      else if ((32 <=? bN c)%N && (bN c <? 127)%N) || Byte.eqb c x09 then option_map (cons c) (eval_body q r)
      else None
  end.

Definition pyeval (s:bytes) : option bytes :=
  match s with
  | p :: q :: r =>
      if (Byte.eqb p x62 || Byte.eqb p x42) && (Byte.eqb q q1 || Byte.eqb q q2) then eval_body q r else None
  | _ => None
  end.

(* ---- repr of a message object and its evaluation ---- *)
Definition repr_prefix : bytes := list_byte_of_string "RTCMMessage(payload=".
Definition repr_suffix : byte := x29.   (* closing parenthesis *)

(* __repr__: the text RTCMMessage(payload=...) with the bytes repr of the payload inside *)
Definition message_repr (payload:bytes) : bytes := repr_prefix ++ pyrepr payload ++ [repr_suffix].

Fixpoint strip_prefix (pre s:bytes) : option bytes :=
  match pre, s with
  | [], _ => Some s
  | a :: pre', b :: s' => if Byte.eqb a b then strip_prefix pre' s' else None
  | _ :: _, [] => None
  end.

Definition strip_last (c:byte) (s:bytes) : option bytes :=
  match rev s with
  | x :: r => if Byte.eqb x c then Some (rev r) else None
  | [] => None
  end.

(* the payload argument denoted by the text  RTCMMessage(payload=<bytes literal>) *)
Definition message_repr_payload (s:bytes) : option bytes :=
  match strip_prefix repr_prefix s with
  | Some r => match strip_last repr_suffix r with Some lit => pyeval lit | None => None end
  | None => None
  end.
