(* What the reader proofs assume of an underlying stream: every read / readline hands out a prefix of the
   stream's remaining content (never invents, reorders or skips bytes) and read(n) returns at most n bytes. *)
From Coq Require Import List.
From PyRtcm Require Import Base.Bytes Model.Reader.

Definition stream_law {St} (ops:stream_ops St) (content : St -> bytes) : Prop :=
  (forall n s d s', s_read ops n s = (d,s') -> content s = d ++ content s' /\ length d <= n) /\
  (forall s d s', s_readline ops s = (d,s') -> content s = d ++ content s').
