(* Hand-pinned standard tables (DESIGN.md appendix B), independent of pyrtcm's own tables:
   RTCM 10403.3 MSM satellite ID -> PRN label and signal ID -> (frequency band, RINEX observation code),
   keyed by the 3-digit MSM message-number prefix.  Anything not listed is "not available".
   Same data as /verif/tools/pinned.py.

   [prnsig_matches] is a boolean decision procedure meant to be run by vm_compute against the table
   regenerated from the working tree on every check; [prnsig_matches_sound] says what [= true] gives. *)
From Coq Require Import NArith ZArith List String Bool Lia.
From PyRtcm Require Import Base.Bytes Base.Dec Model.Types Model.Message.
Import ListNotations.
Open Scope string_scope.
Open Scope Z_scope.

(* ids lo..hi labelled with the 3-digit decimal of id+off *)
Definition seq_labels (lo hi off:Z) : list (Z*string) :=
  map (fun k => let i := lo + Z.of_nat k in (i, ddd (Z.to_N (i + off)))) (seq 0 (Z.to_nat (hi - lo + 1))).

Definition pinned_prn : list (string * list (Z*string)) := [
  ("107", seq_labels 1 63 0);                                             (* GPS      001..063 *)
  ("108", seq_labels 1 24 0);                                             (* GLONASS  001..024 *)
  ("109", (seq_labels 1 50 0 ++ [(51, "GIOVE-A"); (52, "GIOVE-B")])%list);     (* Galileo  001..050, GIOVE-A/B *)
  ("110", seq_labels 1 39 119);                                           (* SBAS     120..158 *)
  ("111", seq_labels 1 10 192);                                           (* QZSS     193..202 *)
  ("112", seq_labels 1 63 0);                                             (* BeiDou   001..063 *)
  ("113", seq_labels 1 14 0)                                              (* NavIC    001..014 *)
].

Definition pinned_sig : list (string * list (Z*(string*string))) := [
  ("107", [(2, ("L1","1C")); (3, ("L1","1P")); (4, ("L1","1W")); (8, ("L2","2C")); (9, ("L2","2P")); (10, ("L2","2W"));
           (15, ("L2","2S")); (16, ("L2","2L")); (17, ("L2","2X")); (22, ("L5","5I")); (23, ("L5","5Q")); (24, ("L5","5X"));
           (30, ("L1","1S")); (31, ("L1","1L")); (32, ("L1","1X"))]);
  ("108", [(2, ("G1","1C")); (3, ("G1","1P")); (8, ("G2","2C")); (9, ("G2","2P"))]);
  ("109", [(2, ("E1","1C")); (3, ("E1","1A")); (4, ("E1","1B")); (5, ("E1","1X")); (6, ("E1","1Z"));
           (8, ("E6","6C")); (9, ("E6","6A")); (10, ("E6","6B")); (11, ("E6","6X")); (12, ("E6","6Z"));
           (14, ("E5B","7I")); (15, ("E5B","7Q")); (16, ("E5B","7X"));
           (18, ("E5AB","8I")); (19, ("E5AB","8Q")); (20, ("E5AB","8X"));
           (22, ("E5A","5I")); (23, ("E5A","5Q")); (24, ("E5A","5X"))]);
  ("110", [(2, ("L1","1C")); (22, ("L5","5I")); (23, ("L5","5Q")); (24, ("L5","5X"))]);
  ("111", [(2, ("L1","1C")); (9, ("LEX","6S")); (10, ("LEX","6L")); (11, ("LEX","6X"));
           (15, ("L2","2S")); (16, ("L2","2L")); (17, ("L2","2X")); (22, ("L5","5I")); (23, ("L5","5Q")); (24, ("L5","5X"));
           (30, ("L1","1S")); (31, ("L1","1L")); (32, ("L1","1X"))]);
  ("112", [(2, ("B1","2I")); (3, ("B1","2Q")); (4, ("B1","2X")); (8, ("B3","6I")); (9, ("B3","6Q")); (10, ("B3","6X"));
           (14, ("B2","7I")); (15, ("B2","7Q")); (16, ("B2","7X")); (22, ("B2A","5D")); (23, ("B2A","5P")); (24, ("B2A","5X"));
           (25, ("B2A","7D")); (30, ("B1C","1D")); (31, ("B1C","1P")); (32, ("B1C","1X"))]);
  ("113", [(22, ("L5","5A"))])
].

Definition pinned_keys : list string := ["107"; "108"; "109"; "110"; "111"; "112"; "113"].

(* ---------- comparison of a (regenerated) PRNSIGMAP with the pins ---------- *)
Definition opt_eqb {A} (eqb:A -> A -> bool) (x y:option A) : bool :=
  match x, y with Some a, Some b => eqb a b | None, None => true | _, _ => false end.
Definition pair_eqb (p q:string*string) : bool := String.eqb (fst p) (fst q) && String.eqb (snd p) (snd q).

Definition prnsig_entry_matches (t:list (string * (list (Z*string) * list (Z*(string*string))))) (k:string) : bool :=
  match assoc k t, assoc k pinned_prn, assoc k pinned_sig with
  | Some (pm, sm), Some pp, Some ps =>
      forallb (fun id => opt_eqb String.eqb (zassoc id pm) (zassoc id pp)) (zrange 65)
      && forallb (fun id => opt_eqb pair_eqb (zassoc id sm) (zassoc id ps)) (zrange 33)
  | _, _, _ => false
  end.

(* every pinned constellation is present in t and, for every satellite id 0..64 and signal id 0..32,
   t has an entry exactly where the pins have one, with the same label(s).  (So lookups with ANY default
   agree; ids 0 are included because the library's scan loops start at index 0.) *)
Definition prnsig_matches (t:list (string * (list (Z*string) * list (Z*(string*string))))) : bool :=
  forallb (prnsig_entry_matches t) pinned_keys.

(* the derived label fields (PRN, CELLPRN, CELLSIG) occupy no payload bits *)
Definition label_fields_zero_width (fields:list dfield) : bool :=
  forallb (fun d => match df_ty d with TPRN | TCPR | TCSG => df_bits d =? 0 | _ => true end) fields.

(* ---------- meaning ---------- *)
Lemma opt_eqb_eq {A} (eqb:A -> A -> bool) (x y:option A) :
  (forall a b, eqb a b = true -> a = b) -> opt_eqb eqb x y = true -> x = y.
Proof.
  intros Heq H. destruct x as [a|], y as [b|]; simpl in H; try discriminate; auto.
  f_equal. now apply Heq.
Qed.

Lemma pair_eqb_eq p q : pair_eqb p q = true -> p = q.
Proof.
  unfold pair_eqb. destruct p as [a b], q as [c d]. simpl. intro H.
  apply andb_true_iff in H. destruct H as [H1 H2].
  apply String.eqb_eq in H1. apply String.eqb_eq in H2. now subst.
Qed.

Lemma in_zrange n id : 0 <= id < Z.of_nat n -> In id (zrange n).
Proof.
  intro H. unfold zrange. apply in_map_iff. exists (Z.to_nat id). split; [lia|].
  apply in_seq. lia.
Qed.

Lemma pinned_keys_prn : map fst pinned_prn = pinned_keys.
Proof. reflexivity. Qed.
Lemma pinned_keys_sig : map fst pinned_sig = pinned_keys.
Proof. reflexivity. Qed.

Theorem prnsig_matches_sound t : prnsig_matches t = true ->
  forall k, In k pinned_keys ->
  exists pm sm pp ps,
    assoc k t = Some (pm, sm) /\ assoc k pinned_prn = Some pp /\ assoc k pinned_sig = Some ps /\
    (forall id, 0 <= id <= 64 -> zassoc id pm = zassoc id pp) /\
    (forall id, 0 <= id <= 32 -> zassoc id sm = zassoc id ps).
Proof.
  intros H k Hk. unfold prnsig_matches in H. rewrite forallb_forall in H.
  specialize (H k Hk). unfold prnsig_entry_matches in H.
  destruct (assoc k t) as [[pm sm]|]; [|discriminate].
  destruct (assoc k pinned_prn) as [pp|]; [|discriminate].
  destruct (assoc k pinned_sig) as [ps|]; [|discriminate].
  apply andb_true_iff in H. destruct H as [H1 H2].
  rewrite forallb_forall in H1, H2.
  exists pm, sm, pp, ps. repeat split; auto.
  - intros id Hid. apply (opt_eqb_eq String.eqb).
    + intros a b E. now apply String.eqb_eq.
    + apply H1. apply in_zrange. lia.
  - intros id Hid. apply (opt_eqb_eq pair_eqb).
    + apply pair_eqb_eq.
    + apply H2. apply in_zrange. lia.
Qed.

Theorem label_fields_zero_width_sound T anam fd :
  label_fields_zero_width (t_fields T) = true -> find_field T anam = Some fd ->
  (df_ty fd = TPRN \/ df_ty fd = TCPR \/ df_ty fd = TCSG) -> df_bits fd = 0.
Proof.
  intros H Hf Hty. unfold label_fields_zero_width in H. rewrite forallb_forall in H.
  unfold find_field in Hf. apply find_some in Hf. destruct Hf as [Hin _].
  specialize (H fd Hin). destruct Hty as [E|[E|E]]; rewrite E in H; now apply Z.eqb_eq.
Qed.

(* the pins themselves, spot-checked against the standard's first / last entries *)
Example pinned_gps_first  : assoc "107" pinned_prn = Some (seq_labels 1 63 0) /\ zassoc 1 (seq_labels 1 63 0) = Some "001".
Proof. split; reflexivity. Qed.
Example pinned_gps_last   : zassoc 63 (seq_labels 1 63 0) = Some "063" /\ zassoc 64 (seq_labels 1 63 0) = None /\ zassoc 0 (seq_labels 1 63 0) = None.
Proof. repeat split; reflexivity. Qed.
Example pinned_sbas_range : zassoc 1 (seq_labels 1 39 119) = Some "120" /\ zassoc 39 (seq_labels 1 39 119) = Some "158" /\ zassoc 40 (seq_labels 1 39 119) = None.
Proof. repeat split; reflexivity. Qed.
Example pinned_qzss_range : zassoc 1 (seq_labels 1 10 192) = Some "193" /\ zassoc 10 (seq_labels 1 10 192) = Some "202" /\ zassoc 11 (seq_labels 1 10 192) = None.
Proof. repeat split; reflexivity. Qed.
Example pinned_self : prnsig_matches (map (fun k => (k, (match assoc k pinned_prn with Some p => p | None => [] end,
                                                        match assoc k pinned_sig with Some s => s | None => [] end))) pinned_keys) = true.
Proof. vm_compute. reflexivity. Qed.
