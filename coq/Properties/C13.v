(* C13 — a parse result depends only on the bytes parsed, not on history or threads.
   The model is a pure function of (tables, bytes, option); these statements make that explicit for every history.
   The substance of C13 lies in the correspondence check, which replays histories and 8 concurrent threads on the
   implementation against this pure function and hashes the tables before and after (see DESIGN.md, C13: partial). *)
From Coq Require Import NArith ZArith List String.
From PyRtcm Require Import Base.Bytes Model.Types Model.Message Proofs.ObjProofs.
Import ListNotations.

Theorem C13_tables_unchanged : forall (T:world) ops, fst (run_ops T ops) = T.
Proof. exact world_unchanged. Qed.
Goal True. idtac "PA:C13_tables_unchanged". Abort.
Print Assumptions C13_tables_unchanged.

Theorem C13_history_free : forall (T:world) ops p l,
  last (snd (run_ops T (ops ++ [OpConstruct p l]))) (Lib EMessage) = construct T p l.
Proof. exact history_free. Qed.
Goal True. idtac "PA:C13_history_free". Abort.
Print Assumptions C13_history_free.
