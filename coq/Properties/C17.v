(* C17 — reader options have only their documented effect. *)
From Coq Require Import NArith ZArith List.
From Coq.Strings Require Import Byte.
From PyRtcm Require Import Base.Bytes Model.Types Model.Crc Model.Reader Spec.StreamLaw Spec.Frame Spec.Items Proofs.ReaderProofs Proofs.ReaderComplete Proofs.CrcProofs.
Import ListNotations. Open Scope nat_scope.

(* validation off: a frame with wrong checksum bytes is decoded exactly as the same header+payload with the right checksum *)
Theorem C17_validate_off_equiv : forall (M:Type) (construct : bytes -> Z -> outcome M) v v' l h p c1 c2,
  Z.land v 1 = 0%Z -> length h = 3 -> length c1 = 3 -> length c2 = 3 -> calc_crc24q (h ++ p ++ c2) = 0%N ->
  parse construct 1%Z v l (h ++ p ++ c1) = parse construct 1%Z v' l (h ++ p ++ c2).
Proof. intros M construct. exact (parse_off_bad_eq_on_good construct). Qed.
Goal True. idtac "PA:C17_validate_off_equiv". Abort.
Print Assumptions C17_validate_off_equiv.

Section Stream.
Context {St M : Type}.
Variable ops : stream_ops St.
Variable construct : bytes -> Z -> outcome M.
Variable nmea_hdr : list bytes.
Variable ubx_hdr : bytes.
Variable content : St -> bytes.
Hypothesis Hlaw : stream_law ops content.
Notation attempt := (attempt ops construct nmea_hdr ubx_hdr 1%Z).

(* neither validate, parsed nor labelmsm changes how many bytes one pass of the loop takes from the stream ... *)
Theorem C17_bytes_taken_indep : forall c1 c2 s, snd (attempt c1 s) = snd (attempt c2 s).
Proof. exact (attempt_stream_indep ops construct nmea_hdr ubx_hdr). Qed.
(* ... nor where a frame is cut *)
Theorem C17_frame_cut_indep : forall c1 c2 s raw1 m1 s1 raw2 m2 s2,
  attempt c1 s = (ROk (Some (raw1, m1)), s1) -> attempt c2 s = (ROk (Some (raw2, m2)), s2) -> raw1 = raw2 /\ s1 = s2.
Proof. intros c1 c2 s raw1 m1 s1 raw2 m2 s2 H1 H2. eapply attempt_raw_indep; eassumption. Qed.
(* parsing off: no parsed object, ever *)
Theorem C17_unparsed_none : forall c s raw m s', parsed c = false -> attempt c s = (ROk (Some (raw, m)), s') -> m = None.
Proof. exact (attempt_unparsed ops content Hlaw construct nmea_hdr ubx_hdr). Qed.
End Stream.
Goal True. idtac "PA:C17_bytes_taken_indep". Abort.
Print Assumptions C17_bytes_taken_indep.
Goal True. idtac "PA:C17_frame_cut_indep". Abort.
Print Assumptions C17_frame_cut_indep.
Goal True. idtac "PA:C17_unparsed_none". Abort.
Print Assumptions C17_unparsed_none.

(* parsing off on a stream of valid frames and foreign-protocol data: the same raw frames, in the same order, as with
   parsing on (for frames whose payload parses), each with no parsed object.  Stated through the complete trace. *)
Section Trace.
Context {M : Type}.
Variable construct : bytes -> Z -> outcome M.
Variable nmea_hdr : list bytes.
Hypothesis Hnmea : nmea_hdr_ok nmea_hdr.
Theorem C17_parsed_on_trace : forall c fuel n items,
  Forall (wf_item nmea_hdr) items -> (Z.land (validate c) 1 <> 0%Z \/ no_damaged items) -> parsed c = true ->
  (length (stream_of items) < fuel)%nat -> (length items < n)%nat ->
  fst (iterate file_ops construct nmea_hdr [xb5; x62] 1%Z 2%Z 1%Z c fuel n (file_stream (stream_of items)))
    = trace construct (labelmsm c) (quitonerror c) [] items.
Proof. exact (iterate_trace construct nmea_hdr Hnmea (Hcrc_of_self_check crc_self_check)). Qed.
End Trace.
Goal True. idtac "PA:C17_parsed_on_trace". Abort.
Print Assumptions C17_parsed_on_trace.

(* with parsing off every yielded pair is a frame-shaped slice with no parsed object (no CRC check: by design the
   checksum is validated inside parse()) *)
Theorem C17_unparsed_sound : forall (St M:Type) (ops:stream_ops St) (content:St -> bytes), stream_law ops content ->
  forall (construct : bytes -> Z -> outcome M) nmea_hdr ubx_hdr c fuel s h raw m s',
  parsed c = false -> read ops construct nmea_hdr ubx_hdr 1%Z 2%Z 1%Z c fuel s = (h, RYield raw m, s') ->
  exists skipped, content s = skipped ++ raw ++ content s' /\ frame_shape raw /\ m = None.
Proof. intros St M ops content Hlaw construct nmea_hdr ubx_hdr. exact (read_sound_unparsed ops content Hlaw construct nmea_hdr ubx_hdr). Qed.
Goal True. idtac "PA:C17_unparsed_sound". Abort.
Print Assumptions C17_unparsed_sound.
