(* C18 — MSM and harmonic-coefficient array helpers agree with the flat attributes.  For EVERY message object. *)
From Coq Require Import NArith ZArith List String.
From PyRtcm Require Import Base.Bytes Base.Dec Model.Types Model.Message Model.Helpers Spec.Names Proofs.HelperProofs.
Import ListNotations. Open Scope string_scope.

(* any other message, including numbers merely reserved for MSM: nothing, and no exception *)
Theorem C18_msm_none : forall T o, too_short (o_payload o) = false ->
  (forall ident, obj_identity o = Ok ident -> ismsm_of T ident = false \/ assoc ident (t_msm T) = None) ->
  parse_msm T o = Ok None.
Proof. exact parse_msm_none_constructed. Qed.
Goal True. idtac "PA:C18_msm_none". Abort.
Print Assumptions C18_msm_none.

(* MSM message: metadata + one row per satellite and per cell, in index order, equal to the indexed attributes *)
Theorem C18_msm_some : forall T o r, parse_msm T o = Ok (Some r) -> msm_result_ok T o r.
Proof. exact parse_msm_some. Qed.
Goal True. idtac "PA:C18_msm_some". Abort.
Print Assumptions C18_msm_some.

(* what the per-run obligation msm_keys_covered means: the helper's probe lists cover every satellite / cell group key of
   every MSM layout, the epoch key of GNSSMAP is a top-level field of that layout, and so is DF003 *)
Theorem C18_tables_meaning : forall T, msm_keys_covered T = true -> msm_tables_covered T.
Proof. exact msm_keys_covered_sound. Qed.
Goal True. idtac "PA:C18_tables_meaning". Abort.
Print Assumptions C18_tables_meaning.

Theorem C18_coeff_none : forall T o, too_short (o_payload o) = false -> obj_identity o <> Ok "4076_201" ->
  parse_4076_201 T o = Ok None.
Proof. exact parse_4076_201_none_constructed. Qed.
Goal True. idtac "PA:C18_coeff_none". Abort.
Print Assumptions C18_coeff_none.

(* 4076_201: per layer the height and exactly the maximal run of cosine / sine coefficients decoded for that layer, in order *)
Theorem C18_coeff_some : forall T o layers, parse_4076_201 T o = Ok (Some layers) ->
  obj_identity o = Ok "4076_201" /\
  exists nl, assoc "IDF035" (o_attrs o) = Some (VInt nl) /\ List.length layers = Z.to_nat (nl + 1) /\
    forall l L, nth_error layers l = Some L -> layer_ok T o (N.of_nat l + 1) L.
Proof. exact parse_4076_201_some. Qed.
Goal True. idtac "PA:C18_coeff_some". Abort.
Print Assumptions C18_coeff_some.

(* the unbounded search loop of the coefficient helper always stops: its fuel is never exhausted *)
Theorem C18_collect_fuel : forall o pre i fuel, (List.length (o_attrs o) < fuel)%nat -> collect fuel o pre i <> None.
Proof. exact collect_fuel_enough. Qed.
Goal True. idtac "PA:C18_collect_fuel". Abort.
Print Assumptions C18_collect_fuel.
