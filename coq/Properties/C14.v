(* C14 — parsed messages are immutable.  For EVERY table set, payload, and list of attempted assignments (any names, any values). *)
From Coq Require Import NArith ZArith List String.
From PyRtcm Require Import Base.Bytes Model.Types Model.Message Proofs.ObjImmutable Proofs.ObjProofs.
Import ListNotations.

Theorem C14_immutable : forall T p l o, construct T (Some p) l = Ok o ->
  forall assigns, fst (assign_all o assigns) = o /\ Forall (fun r => r = Lib EMessage) (snd (assign_all o assigns)).
Proof. exact ObjImmutable.C14_immutable. Qed.
Goal True. idtac "PA:C14_immutable". Abort.
Print Assumptions C14_immutable.

Theorem C14_observables_unchanged : forall T p l o, construct T (Some p) l = Ok o -> forall assigns,
  let o' := fst (assign_all o assigns) in
  o_payload o' = o_payload o /\ o_attrs o' = o_attrs o /\ obj_identity o' = obj_identity o /\
  serialize T o' = serialize T o /\ obj_ismsm T o' = obj_ismsm T o /\ o_unknown o' = o_unknown o.
Proof. exact C14_observables. Qed.
Goal True. idtac "PA:C14_observables_unchanged". Abort.
Print Assumptions C14_observables_unchanged.

(* the flag is set last: the constructor's own writes never hit it *)
Theorem C14_message_error_only_for_short : forall T p l, construct T (Some p) l = Lib EMessage <-> too_short p = true.
Proof. exact construct_message_error_iff. Qed.
Goal True. idtac "PA:C14_message_error_only_for_short". Abort.
Print Assumptions C14_message_error_only_for_short.
